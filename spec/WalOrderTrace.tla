--------------------------- MODULE WalOrderTrace ---------------------------
(* Code -> specification: the order trace of a long seeded run of the real   *)
(* store (one event per lock transition, page stamp, data-file write and log *)
(* write, recorded from inside the hooks; plus the harness's marks: begin,   *)
(* result, crash, recovered) must be a behaviour of WalOrder.  Every event   *)
(* carries the values the code used, so the trace spec does not search: each *)
(* line either is the step WalOrder allows with exactly those values or the  *)
(* trace is rejected at that line.  WalOrder's invariants are evaluated in   *)
(* every state on the way.                                                   *)
EXTENDS WalOrder, Json, Sequences

VARIABLE l
Trace == ndJsonDeserialize("order.ndjson")
Ev == Trace[l]
Is(e) == l <= Len(Trace) /\ Ev.e = e /\ l' = l + 1

TInit == WoInit /\ l = 1 /\ TLCSet(1, 1)
\* several runs may be concatenated: a reset is a fresh database in a fresh process
Reset == /\ lock' = "none" /\ kind' = "none" /\ inRec' = FALSE /\ stamp' = <<>> /\ stamped' = {} /\ logged' = {}
         /\ lastStamp' = 0 /\ maxLogged' = 0 /\ unlogged' = {} /\ disk' = <<>> /\ hdrNext' = 0 /\ hdrNx' = 0 /\ hdrDone' = "no"
TStep == \/ Is("reset") /\ Reset
         \/ Is("begin") /\ Begin(Ev.k)
         \/ Is("S+") /\ SharedLock
         \/ Is("S-") /\ SharedUnlock
         \/ Is("X+") /\ ExclusiveLock
         \/ Is("X-") /\ ExclusiveUnlock
         \* a page that is being allocated has no place in the file yet: nothing to order
         \/ Is("dirty") /\ (IF Ev.id = 0 /\ Ev.lsn = 0 THEN UNCHANGED woVars ELSE Stamp(Ev.id, Ev.lsn))
         \/ Is("wal") /\ LogAppend(Ev.lsn)
         \/ Is("sync") /\ LogSync
         \/ Is("page") /\ WritePage(Ev.id, Ev.lsn)
         \/ Is("pagefail") /\ WritePageFails(Ev.id, Ev.lsn)
         \/ Is("hdr") /\ WriteHeader(Ev.next, Ev.nx)
         \/ Is("result") /\ Result(Ev.ok)
         \/ Is("aborted") /\ Aborted /\ l + 1 <= Len(Trace) /\ Trace[l + 1].e = "crash"
         \/ Is("crash") /\ Crash(Ev.maxlsn)
         \/ Is("recovered") /\ Recovered
TNext == TStep /\ TLCSet(1, l')
\* WalOrder's invariants along the trace.  Each of them can only be broken by a step whose guard already demands it for
\* the page or header written in that step (Covered, WriteHeader), so they are a cross-check; evaluating them costs time
\* linear in the number of pages of the file, hence in every state of short traces and in every 16th state of long ones.
Every == IF Len(Trace) > 8000 THEN 16 ELSE 1
TWriteAhead == (l % Every = 0) => WriteAhead
THeaderCovers == (l % Every = 0) => HeaderCovers
TNoOrphanStamp == NoOrphanStamp
Accepted == LET r == TLCGet(1) IN PrintT(<<"OUT", ToJson([reached |-> r, len |-> Len(Trace)])>>) /\ r = Len(Trace) + 1
=============================================================================
