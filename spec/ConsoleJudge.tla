---------------------------- MODULE ConsoleJudge ----------------------------
(* The oracle of C20 evaluated on what the real console returned.           *)
(*                                                                         *)
(* judge.ndjson holds one line per replayed scenario whose real output was  *)
(* not literally the machine's output: {id, keys, obs}.  TLC applies the    *)
(* reference meaning of Console.tla (Accept, LiteralsIntact) to it, so the  *)
(* decision "same statements up to whitespace between tokens" is taken by   *)
(* the specification and nowhere else.                                      *)
EXTENDS Console, Json

VARIABLE l
Lines == ndJsonDeserialize("judge.ndjson")

Verdict(r) == LET want == StmtsOf(r.keys) IN
              [id |-> r.id,
               accept |-> Accept(want, r.obs),
               literals |-> LiteralsIntact(want, r.obs),
               count |-> Len(r.obs) = Len(want)]

JInit == ConInit /\ l = 1
JNext == /\ l <= Len(Lines)
         /\ PrintT(<<"OUT", ToJson(Verdict(Lines[l]))>>)
         /\ l' = l + 1
         /\ UNCHANGED conVars
=============================================================================
