---------------------------- MODULE ConsoleJudge ----------------------------
(* The oracle of C20 evaluated on what the real console returned.           *)
(*                                                                         *)
(* judge.ndjson holds one line per execution to be judged: {id, keys, obs} - *)
(* bounded scenarios whose real output was not literally the machine's      *)
(* output, and every long random input (keys and obs are byte values, so     *)
(* multi-byte characters must come back byte for byte).  TLC applies the    *)
(* reference meaning of Console.tla (Accept, LiteralsIntact) to it, so the  *)
(* decision "same statements up to whitespace between tokens" is taken by   *)
(* the specification and nowhere else.                                      *)
EXTENDS Console, Json

VARIABLE l
Lines == ndJsonDeserialize("judge.ndjson")

\* the input obeys the environment assumption of C20: line breaks outside literals only,
\* every statement terminated, the last key is Enter
WellFormed(k) == LET qs == QStates(k)  ts == TermSeq(k)
                     last == IF ts = <<>> THEN 0 ELSE ts[Len(ts)]
                 IN  /\ k # <<>> /\ k[Len(k)] = CR
                     /\ \A i \in 1..Len(k) : k[i] = CR => (BreakInLiterals \/ i = 1 \/ qs[i - 1] = 0)
                     /\ \A i \in (last + 1)..Len(k) : IsWS(k[i])

Verdict(r) == LET want == StmtsOf(Entered(r.keys)) IN
              [id |-> r.id,
               wellformed |-> WellFormed(r.keys),
               stmts |-> Len(want),
               accept |-> Accept(want, r.obs),
               literals |-> LiteralsIntact(want, r.obs),
               count |-> Len(r.obs) = Len(want)]

JInit == ConInit /\ l = 1
JNext == /\ l <= Len(Lines)
         /\ PrintT(<<"OUT", ToJson(Verdict(Lines[l]))>>)
         /\ l' = l + 1
         /\ UNCHANGED conVars
=============================================================================
