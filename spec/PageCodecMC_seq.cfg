CONSTANTS
  Pages = {1, 2, 3}
  LeafCounts = {1, 9}
  IntCounts = {290}
  SizeClasses = {400}
  SizePats = {"cyc"}
  DelPats = {"alt"}
  PermPats = {"mid"}
  IntPerms = {"append"}
  SibOpts = {"LR"}
  LsnClasses = {"4294967297"}
  KeyClasses = {"wide"}
  StaleOpts = {FALSE}
  UpdFrom = {}
  SmallN = 1
  MaxOps = 5
  MaxUpd = 3
  EmitOn = TRUE
INIT MCInit
NEXT MCNext
VIEW View
ACTION_CONSTRAINT Emit
INVARIANTS OnePageEach CacheOK FetchReturnsRegister FetchIsLastStored
PROPERTIES OthersUndisturbed ReadsChangeNothing
CHECK_DEADLOCK FALSE
