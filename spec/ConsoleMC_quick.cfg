CONSTANTS
  Letters = {97}
  Extra = {}
  BreakInLiterals = FALSE
  MaxKeys = 8
  MaxEnters = 3
  EmitOn = TRUE
INIT MCInit
NEXT MCNext
ACTION_CONSTRAINT Emit
INVARIANTS TypeOK OutIsPrefix Faithful BufIsRest TaintExact TaintViolates
CHECK_DEADLOCK FALSE
