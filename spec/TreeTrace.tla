----------------------------- MODULE TreeTrace -----------------------------
(* C11, code -> specification: page graphs recorded from the real store      *)
(* (graphs.ndjson: one line per observed state, every page of the file with  *)
(* its keys, children and sibling links, plus the root page of every tree)   *)
(* are judged by BTree!TreeOK - the same definition TLC checks as an         *)
(* invariant of Store.tla.  The judgement exists once, in TLA+.              *)
EXTENDS BTree, Json

VARIABLE i
Graphs == ndJsonDeserialize("graphs.ndjson")

V0 == [tag |-> "R", a |-> "", b |-> 0, c |-> ""]
Node(p) == IF p.kind = "L"
           THEN Leaf([j \in 1..Len(p.keys) |-> Cell(p.keys[j], p.dead[j] = 1, V0)], p.l # 0, p.l, p.r # 0, p.r, 0)
           ELSE IF p.kind = "I"
           THEN Inner([j \in 1..Len(p.keys) |-> Sep(p.keys[j], p.kids[j])], p.kids[Len(p.kids)], 0)
           ELSE Garbage
DiskOf(g) == [id \in {g.pages[j].id : j \in 1..Len(g.pages)} |->
                 Node(CHOOSE p \in {g.pages[j] : j \in 1..Len(g.pages)} : p.id = id)]

GraphOK(g) == \A r \in 1..Len(g.roots) : TreeOK(<<>>, DiskOf(g), g.roots[r])

Init == i = 1
Next == i <= Len(Graphs) /\ i' = i + 1
AllOK == i > Len(Graphs) \/ GraphOK(Graphs[i])
Done == TLCGet("stats").diameter >= Len(Graphs) + 1
=============================================================================
