----------------------------- MODULE SessionMC -----------------------------
EXTENDS Session, Json, SequencesExt

CONSTANTS MaxSteps, MaxRowsPerDb, EmitOn
VARIABLES n, hist, last
mcVars == <<dbs, cur, content, unsaved, ticked, res, n, hist, last>>

Exp == [k |-> res.k, show |-> SetToSortSeq(res.show, LAMBDA x, y : TRUE), cur |-> cur,
        dbs |-> [i \in 1..Len(SetToSortSeq(dbs, LAMBDA x, y : TRUE)) |->
                   LET d == SetToSortSeq(dbs, LAMBDA x, y : TRUE)[i] IN [d |-> d, has |-> content[d].has, rows |-> content[d].rows]]]
H(a) == /\ hist' = Append(hist, [a |-> a.a, n |-> a.n, v |-> a.v, exp |-> Exp'])
        /\ last' = <<a.a, last[1]>>
St(a, nm, v) == [a |-> a, n |-> nm, v |-> v]

MCInit == SessInit /\ n = 0 /\ hist = <<>> /\ last = <<"", "">>
Small == \A d \in dbs : Len(content[d].rows) < MaxRowsPerDb
MCNext == /\ n < MaxSteps /\ n' = n + 1
          /\ \/ Tick /\ H(St("tick", "", 0))
             \/ /\ ticked' = FALSE
                /\ \/ \E nm \in Names : CreateDb(nm) /\ H(St("createdb", nm, 0))
                   \/ \E nm \in Names : Use(nm) /\ H(St("use", nm, 0))
                   \/ Show /\ H(St("show", "", 0))
                   \/ CreateTable /\ H(St("createtable", "", 0))
                   \/ OtherTable /\ H(St("other", "", n'))          \* the harness names the table after the step
                   \/ Restart /\ H(St("restart", "", 0))
                   \/ CrashRestart /\ H(St("crash", "", 0))
                   \/ \E v \in Vals : Small /\ Insert(v) /\ H(St("insert", "", v))
                   \/ \E v \in Vals : Delete(v) /\ H(St("delete", "", v))
\* views of growing precision: more of the recent path in the fingerprint = more distinct paths generated
View == <<dbs, cur, content, unsaved, ticked>>
ViewLast == <<dbs, cur, content, unsaved, ticked, last[1]>>
ViewLast2 == <<dbs, cur, content, unsaved, ticked, last>>
ViewN == <<dbs, cur, content, unsaved, ticked, last[1], n>>
Emit == EmitOn => PrintT(<<"SCN", ToJson([steps |-> hist'])>>)
=============================================================================
