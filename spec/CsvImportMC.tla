---------------------------- MODULE CsvImportMC ----------------------------
(* Bounded instance of CsvImport.  Every stream of EmitFrom..MaxRecs records *)
(* over the classes is printed as one scenario: the records' field texts,   *)
(* the expected per-record outcomes and the expected final table.  The      *)
(* harness renders the records as CSV text with separator Sep, runs the     *)
(* real doBatchInsert on a fresh database and reads the table back.         *)
EXTENDS CsvImport, Json

CONSTANTS MaxRecs, Sep, EmitFrom   \* scenarios are printed for streams of EmitFrom..MaxRecs records

\* The importer as it was found in the unchanged tree, kept as a named deviation: csvToSql has
\* no case for BIGINT, so a field destined for a BIGINT column is never looked at and the column
\* is left NULL.  Its outcome travels with tainted scenarios so that the known finding matches
\* only the failure it describes and any other wrong outcome stays a violation.
VARIABLES descs,      \* ghost: class descriptors of the records consumed
          ntable, nout

mcVars == <<table, outcomes, pos, stream, descs, ntable, nout>>

NConv(ty, txt) == IF ty = "bigint" THEN Null ELSE Conv(ty, txt)
NStored(rec) == /\ ~rec.malformed
                /\ \A i \in M : Src[i] + 1 <= Len(rec.flds)
                /\ \A i \in M : NConv(TypeAt(i), rec.flds[Src[i] + 1]) # Reject
NRowOf(rec) == [c \in 1..Len(Schema) |->
                  IF \E i \in M : Dst[i] = c
                  THEN LET i == CHOOSE i \in M : Dst[i] = c IN NConv(Schema[c], rec.flds[Src[i] + 1])
                  ELSE Null]
NRecord(rec) == IF NStored(rec) THEN ntable' = Append(ntable, NRowOf(rec)) /\ nout' = Append(nout, "ok")
                ELSE ntable' = ntable /\ nout' = Append(nout, "err")

\* ghost taint (DESIGN 5.3) csv-bigint-null: a record that reaches the per-type conversion with a
\* BIGINT-mapped field that is not the NULL marker
Tainted(rec) == /\ ~rec.malformed
                /\ \A i \in M : Src[i] + 1 <= Len(rec.flds)
                /\ \A i \in M : TypeAt(i) # "bigint" => Conv(TypeAt(i), rec.flds[Src[i] + 1]) # Reject
                /\ \E i \in M : TypeAt(i) = "bigint" /\ rec.flds[Src[i] + 1] # NullText
TaintOf(s) == IF \E k \in 1..Len(s) : Tainted(s[k]) THEN <<"csv-bigint-null">> ELSE <<>>

MCInit == CsvInit /\ descs = <<>> /\ ntable = <<>> /\ nout = <<>>
MCNext == /\ pos < MaxRecs
          /\ \E r \in Classes : /\ Record(Build(r, pos + 1))
                                /\ NRecord(Build(r, pos + 1))
                                /\ descs' = Append(descs, r)

Scn(s, d, o, t, no, nt) ==
  LET recs == [k \in 1..Len(s) |-> [cls |-> d[k].cls, at |-> d[k].at, var |-> d[k].var,
                                    flds |-> s[k].flds, malformed |-> s[k].malformed]]
      base == [schema |-> Schema, src |-> Src, dst |-> Dst, sep |-> Sep, recs |-> recs,
               exp |-> [outcomes |-> o, table |-> t], taint |-> TaintOf(s)]
  IN  IF TaintOf(s) = <<>> THEN base
      ELSE [schema |-> Schema, src |-> Src, dst |-> Dst, sep |-> Sep, recs |-> recs,
            exp |-> [outcomes |-> o, table |-> t], taint |-> TaintOf(s),
            naive |-> [outcomes |-> no, table |-> nt]]

Emit == (pos' >= EmitFrom) => PrintT(<<"SCN", ToJson(Scn(stream', descs', outcomes', table', nout', ntable'))>>)

\* the taint is exact in the model, and every tainted stream of the deviation violates C19
TaintExact == (TaintOf(stream) # <<>>) <=> (ntable # table \/ nout # outcomes)
=============================================================================
