------------------------------- MODULE Values -------------------------------
(* Values of mkdb columns, the accept / refuse rule of FieldDef.Validate    *)
(* and the size arithmetic of Tuple.Encode (storage/relation.go).           *)
(*                                                                          *)
(* A value is a tagged record.  Only the attributes the rules depend on     *)
(* are looked at here:                                                      *)
(*    t   : "i" integer, "s" string, "b" boolean, "n" NULL                  *)
(*    w   : (integers) 32 if the number fits a signed 32-bit integer,       *)
(*          64 otherwise - TLC integers are 32-bit, so 64-bit numbers are   *)
(*          never written out in a specification; they travel as classes    *)
(*          and decimal strings                                             *)
(*    len : (strings) length in bytes                                       *)
(* Records may carry further fields (class names, provenance).              *)
EXTENDS Integers, Sequences

ColTypes == {"INT", "BIGINT", "BOOLEAN", "VARCHAR"}

MaxRowSize == 400   \* storage/page.go maxValueSize: limit of an encoded row

IsNull(v) == v.t = "n"

\* FieldDef.Validate, with NULL accepted by every column (Tuple.Encode
\* writes the NULL marker before it validates)
Valid(type, v) ==
  \/ IsNull(v)
  \/ /\ type = "INT" /\ v.t = "i" /\ v.w = 32
  \/ /\ type = "BIGINT" /\ v.t = "i"
  \/ /\ type = "BOOLEAN" /\ v.t = "b"
  \/ /\ type = "VARCHAR" /\ v.t = "s"

\* bytes Tuple.Encode writes for one column: the NULL marker, then the value
ColSize(type, v) ==
  1 + (IF IsNull(v) THEN 0
       ELSE CASE type = "INT" -> 4
              [] type = "BIGINT" -> 8
              [] type = "BOOLEAN" -> 1
              [] type = "VARCHAR" -> 4 + v.len)

RECURSIVE SumTo(_, _)
SumTo(f, n) == IF n = 0 THEN 0 ELSE f[n] + SumTo(f, n - 1)

RowValid(schema, row) == \A i \in 1..Len(schema) : Valid(schema[i], row[i])

\* size of the encoded row; meaningful for valid rows
EncSize(schema, row) == SumTo([i \in 1..Len(schema) |-> ColSize(schema[i], row[i])], Len(schema))

\* the rule of C08: a row is stored iff every value suits its column and the
\* encoding does not exceed the limit
Accept(schema, row) == RowValid(schema, row) /\ EncSize(schema, row) <= MaxRowSize

\* CREATE TABLE: the column names of a table are distinct (names are case sensitive).  Of two columns with one name
\* only one value could ever be read back.
CreateOK(names) == \A i, j \in 1..Len(names) : i # j => names[i] # names[j]
=============================================================================
