CONSTANTS
  Pages = {1, 2}
  MaxLsn = 3
  MaxCrash = 1
INIT MCInit
NEXT MCNext
INVARIANTS WriteAhead HeaderCovers NoOrphanStamp
PROPERTIES LogMonotoneOutsideCrash
CHECK_DEADLOCK FALSE
