------------------------------- MODULE Store -------------------------------
(* mkdb's storage engine, one database, at the grain of the code:           *)
(*   data file  = header + pages        (disk, dhdr)                        *)
(*   page cache = pages changed in memory and not yet written (cache)       *)
(*   in-memory header copy              (mhdr)                              *)
(*   write-ahead log = synced records + an unsynced tail   (walD, torn, walU)*)
(*   control state                      (pc)                                *)
(* and, as ghost state, what the user was promised (abs, pend, cands) and   *)
(* which known-defective situations the behaviour went through (taint).    *)
(*                                                                          *)
(* A statement applies its row operations to cached pages one by one,      *)
(* collecting one log record per row operation (plus one for a moved root), *)
(* then appends the records to the log - length, body, fsync per record -   *)
(* and is acknowledged.  CREATE TABLE is not logged; it ends with a flush. *)
(* A flush writes every dirty page (any order) and then the header.         *)
(* Recovery re-applies log records whose LSN is newer than the page they    *)
(* name, then flushes.  Clean pages are not modelled: a clean cached page   *)
(* equals its disk image (this is what makes eviction invisible, C16).      *)
(*                                                                          *)
(* Catalog: tree sys_pages (name -> root page) rooted at header.ptRoot,     *)
(* tree sys_schema (one row per column).  Row keys come from one counter    *)
(* shared by all trees.  Cell values are records [tag, a, b, c]:            *)
(*   "P": a = table name, b = root page      (sys_pages)                    *)
(*   "S": a = table name, c = column, b = type   (sys_schema)               *)
(*   "R": b = the row's value (user tables)                                 *)
EXTENDS BTree

CONSTANTS Tables,       \* user table names
          Vals,         \* row values (positive integers); -1 / -2 are invalid rows (wrong type / oversized)
          WalSteps,     \* TRUE: log append is three steps per record (crash points of C03)
          WalParts,     \* how much of the write call that was under way reached the log file when the process died in a log
                        \* append: 0 nothing, 1 its first byte, 2 half of it, 3 all but its last byte ({0}: call boundaries only)
          FlushSteps,   \* TRUE: flush is one step per page plus header (crash points of C04)
          CrashAt,      \* subset of {"idle", "wal", "flush"}: where Crash is enabled
          NoCrashIn,    \* flushes during which Crash is not explored: subset of {"idle", "create", "rec"} (to focus a configuration)
          FixDeleteLSN, \* TRUE: a delete takes a fresh LSN (repaired code)
          FixReplayLSN, \* TRUE: replay never moves the LSN counter backwards (repaired code)
          FixReplayRoot, \* TRUE: replay of an insert that moves its table's root updates the catalog itself (repaired code)
          FixReplayKey, \* TRUE: replay raises the key counter to every logged key (repaired code: the header may be older than the pages)
          FixStmtAtomic \* TRUE: INSERT / UPDATE check every row before the first is applied (repaired code); FALSE: rows before the failing one stay applied

VARIABLES disk, dhdr, cache, mhdr, walD, torn, walU, pc,
          abs, pend, cands, taint, scope,
          out            \* outcome of the step just taken (observation only; not part of the fingerprint)

storeVars == <<disk, dhdr, cache, mhdr, walD, torn, walU, pc, abs, pend, cands, taint, scope, out>>

PV(name, off)      == [tag |-> "P", a |-> name, b |-> off, c |-> ""]
SV(name, col, ty)  == [tag |-> "S", a |-> name, b |-> ty, c |-> col]
RV(v)              == [tag |-> "R", a |-> "", b |-> v, c |-> ""]

\* declared columns: <<name, type>> with types 0 INT, 1 VARCHAR, 2 BOOLEAN, 3 BIGINT (storage.DataType)
ColsOf(t) == CASE t = "sys_pages"  -> << <<"table_name", 1>>, <<"file_offset", 3>> >>
               [] t = "sys_schema" -> << <<"table_name", 1>>, <<"field_name", 1>>, <<"field_type", 0>>, <<"field_length", 0>> >>
               [] t = "t1" -> << <<"a", 0>>, <<"b", 1>> >>
               [] t = "t2" -> << <<"b", 1>>, <<"a", 0>> >>
               [] t = "t3" -> << <<"a", 0>>, <<"b", 1>> >>
               [] t = "T1" -> << <<"a", 0>>, <<"b", 1>> >>     \* a name that differs from t1 by case only: another table
               [] OTHER -> << <<"a", 0>> >>

Hdr(lk, pt, nx, lsn) == [lastKey |-> lk, ptRoot |-> pt, nx |-> nx, lsn |-> lsn]
Idle == [k |-> "idle", todo |-> {}, orig |-> {}, fresh |-> {}, after |-> "", recs |-> <<>>, i |-> 0, sub |-> ""]

-----------------------------------------------------------------------------
(* Page-level evaluation.  S = [c, nx, h]: dirty pages, next free page,      *)
(* header fields (lastKey, ptRoot, lsn); d is the data file.                 *)

MkS(c, h) == [c |-> c, nx |-> h.nx, h |-> h]

CatRows(S, d) == AllCellsR(S.c, d, S.h.ptRoot)
RootOf(S, d, name) ==
  LET m == SelectSeq(CatRows(S, d), LAMBDA x : ~x.d /\ x.v.tag = "P" /\ x.v.a = name)
  IN IF m = <<>> THEN 0 ELSE m[1].v.b

\* BTree.insert: next key and LSN from the counters, both advanced whatever the outcome
TreeInsert(S, d, root, val, oversized) ==
  LET key == S.h.lastKey + 1
      lsn == S.h.lsn
      h2 == [S.h EXCEPT !.lastKey = key, !.lsn = lsn + 1]
  IN IF oversized THEN [S |-> [S EXCEPT !.h = h2], root |-> root, key |-> key, lsn |-> lsn, err |-> "toolarge"]
     ELSE LET r == InsertKey([c |-> S.c, nx |-> S.nx], d, root, key, lsn, val)
          IN [S |-> [c |-> r.st.c, nx |-> r.st.nx, h |-> h2], root |-> r.root, key |-> key, lsn |-> lsn, err |-> r.err]

\* page holding the first live cell of the tree that satisfies P (scan order), 0 if none
FirstPageWith(c, d, root, P(_)) ==
  LET pgs == ChainPagesR(c, d, Leftmost(c, d, root, DepthFuel), ChainFuel)
      hit == SelectSeq(pgs, LAMBDA p : p # -1 /\ \E i \in 1..Len(Rd(c, d, p).cells) : ~Rd(c, d, p).cells[i].d /\ P(Rd(c, d, p).cells[i]))
  IN IF hit = <<>> THEN 0 ELSE hit[1]

SetCell(n, key, f(_)) == [n EXCEPT !.cells = [j \in 1..Len(n.cells) |-> IF n.cells[j].k = key THEN f(n.cells[j]) ELSE n.cells[j]]]

\* updatePageTable: patch the sys_pages row of `name`; returns [S, recs]
UpdatePageTable(S, d, name, newRoot) ==
  LET P(x) == x.v.tag = "P" /\ x.v.a = name
      p == FirstPageWith(S.c, d, S.h.ptRoot, P)
  IN IF p = 0 THEN [S |-> S, recs |-> <<>>, err |-> "nocat"] ELSE
     LET n == Rd(S.c, d, p)
         cell == CHOOSE x \in SeqToSet(n.cells) : ~x.d /\ P(x) /\ \A y \in SeqToSet(n.cells) : (~y.d /\ P(y)) => x.k <= y.k
         n2 == [SetCell(n, cell.k, LAMBDA x : [x EXCEPT !.v = PV(name, newRoot)]) EXCEPT !.lsn = S.h.lsn]
     IN [S |-> [S EXCEPT !.c = Upd(S.c, p, n2), !.h = [S.h EXCEPT !.lsn = @ + 1]],
         recs |-> <<[op |-> "upd", lsn |-> S.h.lsn, pg |-> p, k |-> cell.k, v |-> PV(name, newRoot)]>>, err |-> "ok"]

\* RelationService.Insert: one row.  v = -1 (wrong type), -3 (column count mismatch), -4 (INT out of
\* range): rejected before anything happens; v = -2: rejected by the page (row too large) after the
\* key and LSN counters were advanced.
InsertRow(S, d, t, v) ==
  LET root == RootOf(S, d, t) IN
  IF root = 0 THEN [S |-> S, recs |-> <<>>, err |-> "notable"] ELSE
  IF v \in {-1, -3, -4} THEN [S |-> S, recs |-> <<>>, err |-> "type"] ELSE
  LET r == TreeInsert(S, d, root, RV(v), v = -2) IN
  IF r.err # "ok" THEN [S |-> r.S, recs |-> <<>>, err |-> r.err] ELSE
  LET rec == [op |-> "ins", lsn |-> r.lsn, pg |-> root, k |-> r.key, v |-> RV(v)] IN
  IF r.root = root THEN [S |-> r.S, recs |-> <<rec>>, err |-> "ok"]
  ELSE LET u == UpdatePageTable(r.S, d, t, r.root)
       IN [S |-> u.S, recs |-> <<rec>> \o u.recs, err |-> u.err]

\* RelationService.Update of the row with key `key`
UpdateRow(S, d, t, key, v) ==
  LET root == RootOf(S, d, t) IN
  IF root = 0 THEN [S |-> S, recs |-> <<>>, err |-> "notable"] ELSE
  LET P(x) == x.k = key
      p == FirstPageWith(S.c, d, root, P)
  IN IF p = 0 THEN [S |-> S, recs |-> <<>>, err |-> "ok"] ELSE     \* no such row: scan ends, nothing done
     IF v < 0 THEN [S |-> S, recs |-> <<>>, err |-> "type"] ELSE
     LET n == Rd(S.c, d, p)
         n2 == [SetCell(n, key, LAMBDA x : [x EXCEPT !.v = RV(v)]) EXCEPT !.lsn = S.h.lsn]
     IN [S |-> [S EXCEPT !.c = Upd(S.c, p, n2), !.h = [S.h EXCEPT !.lsn = @ + 1]],
         recs |-> <<[op |-> "upd", lsn |-> S.h.lsn, pg |-> p, k |-> key, v |-> RV(v)]>>, err |-> "ok"]

\* RelationService.MarkDeleted
DeleteRow(S, d, t, key) ==
  LET root == RootOf(S, d, t) IN
  IF root = 0 THEN [S |-> S, recs |-> <<>>, err |-> "notable"] ELSE
  LET p == FindLeaf(S.c, d, root, key, DepthFuel)
      n == Rd(S.c, d, p)
  IN IF n.kind # "L" \/ ~(\E i \in 1..Len(n.cells) : n.cells[i].k = key /\ ~n.cells[i].d)
     THEN [S |-> S, recs |-> <<>>, err |-> "norow"] ELSE
     LET n2 == [SetCell(n, key, LAMBDA x : [x EXCEPT !.d = TRUE]) EXCEPT !.lsn = S.h.lsn]
     IN [S |-> [S EXCEPT !.c = Upd(S.c, p, n2), !.h = [S.h EXCEPT !.lsn = IF FixDeleteLSN THEN @ + 1 ELSE @]],
         recs |-> <<[op |-> "del", lsn |-> S.h.lsn, pg |-> p, k |-> key, v |-> RV(0)]>>, err |-> "ok"]

\* row operations of a statement: [op, t, key, v]
ApplyOp(S, d, o) == CASE o.op = "ins" -> InsertRow(S, d, o.t, o.v)
                      [] o.op = "upd" -> UpdateRow(S, d, o.t, o.key, o.v)
                      [] o.op = "del" -> DeleteRow(S, d, o.t, o.key)

\* apply ops in order, stop at the first error; result [S, recs (one group per applied op), n applied, err]
RECURSIVE ApplyOps(_, _, _, _, _)
ApplyOps(S, d, ops, i, groups) ==
  IF i > Len(ops) THEN [S |-> S, groups |-> groups, n |-> Len(ops), err |-> "ok"] ELSE
  LET r == ApplyOp(S, d, ops[i]) IN
  IF r.err # "ok" THEN [S |-> r.S, groups |-> groups, n |-> i - 1, err |-> r.err]
  ELSE ApplyOps(r.S, d, ops, i + 1, Append(groups, r.recs))

\* rows of table t as the engine fetches them: live cells in scan order
Rows(S, d, t) == LET root == RootOf(S, d, t) IN IF root = 0 THEN <<>> ELSE ScanRight(S.c, d, root)
\* WHERE clauses of UPDATE / DELETE: w = 0 none; 0 < w < 100: a = w; w > 100: a >= w - 100.  Value 9 stands for
\* a row whose INT column is NULL: `=` never matches it, `>=` on it is an error that fails the whole statement
\* before any row is touched (the engine filters all rows first).
Match(v, w) == w = 0 \/ (w < 100 /\ v = w /\ v # 9) \/ (w > 100 /\ v # 9 /\ v >= w - 100)
WhereFails(vs, w) == w > 100 /\ \E i \in 1..Len(vs) : vs[i] = 9
KeysWhere(S, d, t, w) == LET rs == SelectSeq(Rows(S, d, t), LAMBDA x : Match(x.v.b, w)) IN [i \in 1..Len(rs) |-> rs[i].k]
ValsOf(S, d, t) == LET rs == Rows(S, d, t) IN [i \in 1..Len(rs) |-> rs[i].v.b]

\* CREATE TABLE on cached pages (the flush follows as separate steps); result [S, err]
RECURSIVE SchemaRows(_, _, _, _, _, _)
SchemaRows(S, d, t, cols, i, sroot) ==
  IF i > Len(cols) THEN [S |-> S, err |-> "ok"] ELSE
  LET r == TreeInsert(S, d, sroot, SV(t, cols[i][1], cols[i][2]), FALSE) IN
  IF r.err # "ok" THEN [S |-> r.S, err |-> r.err] ELSE
  IF r.root = sroot THEN SchemaRows(r.S, d, t, cols, i + 1, sroot)
  ELSE LET u == UpdatePageTable(r.S, d, "sys_schema", r.root)      \* its log record is dropped by the code
       IN IF u.err # "ok" THEN [S |-> u.S, err |-> u.err] ELSE SchemaRows(u.S, d, t, cols, i + 1, r.root)

InsertPageTable(S, d, t, pg) ==
  LET r == TreeInsert(S, d, S.h.ptRoot, PV(t, pg), FALSE)
  IN [S |-> [r.S EXCEPT !.h = [r.S.h EXCEPT !.ptRoot = r.root]], err |-> r.err]

NewRootPage(S) == [S EXCEPT !.c = Upd(S.c, S.nx, Leaf(<<>>, FALSE, 0, FALSE, 0, 0)), !.nx = S.nx + 1]

CreateTableOn(S, d, t) ==
  IF RootOf(S, d, t) # 0 THEN [S |-> S, err |-> "exists"] ELSE
  LET pg == S.nx
      a == InsertPageTable(NewRootPage(S), d, t, pg)
  IN IF a.err # "ok" THEN a ELSE
     LET sroot == RootOf(a.S, d, "sys_schema") IN
     IF sroot = 0 THEN [S |-> a.S, err |-> "nocat"] ELSE SchemaRows(a.S, d, t, ColsOf(t), 1, sroot)

\* storage.CreateDB on an empty file
FreshDB ==
  LET S0 == [c |-> <<>>, nx |-> 1, h |-> Hdr(0, 0, 1, 0)]
      S1 == NewRootPage(S0)                                         \* page 1: sys_pages
      S1b == [S1 EXCEPT !.h = [S1.h EXCEPT !.ptRoot = 1]]
      a == InsertPageTable(S1b, <<>>, "sys_pages", 1)
      S2 == NewRootPage(a.S)                                        \* page 2: sys_schema
      b == InsertPageTable(S2, <<>>, "sys_schema", 2)
      c1 == SchemaRows(b.S, <<>>, "sys_pages", ColsOf("sys_pages"), 1, RootOf(b.S, <<>>, "sys_schema"))
      c2 == SchemaRows(c1.S, <<>>, "sys_schema", ColsOf("sys_schema"), 1, RootOf(c1.S, <<>>, "sys_schema"))
  IN c2.S

-----------------------------------------------------------------------------
(* The abstract promise (MkdbAbs): a table is the sequence of its live rows' values. *)

\* what the pages say (the model's own view of the observable state)
PageView(c, d, h) ==
  LET S == [c |-> c, nx |-> h.nx, h |-> h]
      names == {x.v.a : x \in {y \in SeqToSet(CatRows(S, d)) : ~y.d /\ y.v.tag = "P"}} \ {"sys_pages", "sys_schema"}
  IN [t \in names |-> LET rs == Rows(S, d, t) IN [i \in 1..Len(rs) |-> rs[i].v.b]]
SchemaView(c, d, h) ==
  LET S == [c |-> c, nx |-> h.nx, h |-> h]
      rs == SelectSeq(Rows(S, d, "sys_schema"), LAMBDA x : x.v.tag = "S")
  IN [i \in 1..Len(rs) |-> <<rs[i].v.a, rs[i].v.c, rs[i].v.b>>]
IdsView(c, d, h) ==
  LET S == [c |-> c, nx |-> h.nx, h |-> h]
      names == {x.v.a : x \in {y \in SeqToSet(CatRows(S, d)) : ~y.d /\ y.v.tag = "P"}}
  IN UNION {{x.k : x \in SeqToSet(AllCellsR(c, d, RootOf(S, d, t)))} : t \in names}

-----------------------------------------------------------------------------
Init ==
  LET S == FreshDB
      h == Hdr(S.h.lastKey, S.h.ptRoot, S.nx, S.h.lsn)
  IN /\ disk = S.c /\ dhdr = h /\ cache = <<>> /\ mhdr = h
     /\ walD = <<>> /\ torn = 0 /\ walU = <<>> /\ pc = Idle
     /\ abs = <<>> /\ pend = <<>> /\ cands = <<>> /\ taint = {} /\ scope = "all"
     /\ out = [k |-> "none", n |-> 0]

CurS == MkS(cache, mhdr)
Commit(S) == /\ cache' = S.c /\ mhdr' = [S.h EXCEPT !.nx = S.nx]
Out(k) == out' = [k |-> k, n |-> 0]
OutN(k, n) == out' = [k |-> k, n |-> n]

Flat(groups) == IF groups = <<>> THEN <<>> ELSE
                LET RECURSIVE F(_)
                    F(i) == IF i > Len(groups) THEN <<>> ELSE groups[i] \o F(i + 1)
                IN F(1)

\* positions (in the abstract table) of the rows a predicate "value = w" (w = 0: all) selects
MatchPos(a, t, w) == SelectSeq([j \in 1..Len(a[t]) |-> j], LAMBDA j : Match(a[t][j], w))

\* abstract states after each prefix of the statement's row operations (C03's prefix rule)
InsPrefixes(a, t, rows) == [k \in 1..Len(rows) |-> [a EXCEPT ![t] = @ \o SubSeq(rows, 1, k)]]
UpdPrefixes(a, t, w, v) == LET ps == MatchPos(a, t, w) IN
   [k \in 1..Len(ps) |-> [a EXCEPT ![t] = [j \in 1..Len(@) |-> IF \E m \in 1..k : ps[m] = j THEN v ELSE @[j]]]]
DelPrefixes(a, t, w) == LET ps == MatchPos(a, t, w) IN
   [k \in 1..Len(ps) |-> [a EXCEPT ![t] = LET old == @ IN
        SelectSeq([j \in 1..Len(old) |-> IF \E m \in 1..k : ps[m] = j THEN -9 ELSE old[j]], LAMBDA x : x # -9)]]

\* Statement: evaluate the row operations on cached pages, then log them (or fail).
\*   ops   = row operations as the engine issues them
\*   prefs = the promise: abstract state after each prefix of them
DoStmt(t, ops, prefs, fails) ==
  /\ pc.k = "idle"
  /\ LET S0 == CurS
         exists == RootOf(S0, disk, t) # 0
         r == IF exists /\ ~fails THEN ApplyOps(S0, disk, ops, 1, <<>>)
              ELSE [S |-> S0, groups |-> <<>>, n |-> 0, err |-> IF exists THEN "where" ELSE "notable"]
     IN /\ Commit(r.S)
        /\ IF r.err = "ok"
           THEN /\ taint' = taint
                /\ IF WalSteps /\ Flat(r.groups) # <<>>
                   THEN /\ pc' = [Idle EXCEPT !.k = "wal", !.recs = Flat(r.groups), !.i = 0, !.sub = "len"]
                        /\ pend' = prefs
                        /\ Out("none")
                        /\ UNCHANGED <<walD, walU, abs>>
                   ELSE /\ walD' = walD \o Flat(r.groups)
                        /\ abs' = IF prefs = <<>> THEN abs ELSE prefs[Len(prefs)]
                        /\ pc' = Idle /\ pend' = <<>> /\ Out("ok") /\ UNCHANGED walU
           ELSE \* the statement returns an error: no log record is written
                /\ taint' = IF r.n > 0 THEN taint \cup {"partial-stmt-error"} ELSE taint
                /\ pc' = Idle /\ Out("error")
                /\ UNCHANGED <<walD, walU, abs, pend>>
  /\ UNCHANGED <<disk, dhdr, torn, cands, scope>>

InsertStmt(t, rows) ==
  DoStmt(t, [i \in 1..Len(rows) |-> [op |-> "ins", t |-> t, key |-> 0, v |-> rows[i]]],
         IF t \in DOMAIN abs THEN InsPrefixes(abs, t, rows) ELSE <<>>,
         FixStmtAtomic /\ \E i \in 1..Len(rows) : rows[i] < 0)
UpdateStmt(t, w, v) ==
  LET keys == KeysWhere(CurS, disk, t, w) IN
  DoStmt(t, [i \in 1..Len(keys) |-> [op |-> "upd", t |-> t, key |-> keys[i], v |-> v]],
         IF t \in DOMAIN abs THEN UpdPrefixes(abs, t, w, v) ELSE <<>>,
         WhereFails(ValsOf(CurS, disk, t), w) \/ (FixStmtAtomic /\ v < 0 /\ keys # <<>>))
DeleteStmt(t, w) ==
  LET keys == KeysWhere(CurS, disk, t, w) IN
  DoStmt(t, [i \in 1..Len(keys) |-> [op |-> "del", t |-> t, key |-> keys[i], v |-> 0]],
         IF t \in DOMAIN abs THEN DelPrefixes(abs, t, w) ELSE <<>>, WhereFails(ValsOf(CurS, disk, t), w))

\* log append, one write call at a time
WalStep ==
  /\ pc.k = "wal"
  /\ LET rec == pc.recs[pc.i + 1] IN
     CASE pc.sub = "len"  -> /\ walU' = <<"len">> /\ pc' = [pc EXCEPT !.sub = "body"] /\ Out("none") /\ UNCHANGED <<walD, abs, pend>>
       [] pc.sub = "body" -> /\ walU' = <<"len", "body">> /\ pc' = [pc EXCEPT !.sub = "sync"] /\ Out("none") /\ UNCHANGED <<walD, abs, pend>>
       [] pc.sub = "sync" -> /\ walU' = <<>> /\ walD' = Append(walD, rec)
                             /\ IF pc.i + 1 = Len(pc.recs)
                                THEN /\ pc' = Idle /\ pend' = <<>> /\ Out("ok")                   \* acknowledged
                                     /\ abs' = IF pend = <<>> THEN abs ELSE pend[Len(pend)]
                                ELSE /\ pc' = [pc EXCEPT !.i = @ + 1, !.sub = "len"] /\ Out("none") /\ UNCHANGED <<abs, pend>>
  /\ UNCHANGED <<disk, dhdr, cache, mhdr, torn, cands, taint, scope>>

\* disk after writing the pages `ps` of cache map c
Written(d, c, ps) == [p \in (DOMAIN d) \cup ps |-> IF p \in ps THEN c[p] ELSE d[p]]
WithTable(a, t) == [x \in (DOMAIN a) \cup {t} |-> IF x = t THEN <<>> ELSE a[x]]

\* CREATE TABLE: change cached pages, then flush, then acknowledge
\* bad = TRUE: a column declaration the catalog cannot hold (VARCHAR length beyond 32 bits); the repaired code
\* checks every schema row before it touches a page, so the statement fails and nothing changes
CreateStmt(t, bad) ==
  /\ pc.k = "idle"
  /\ LET r == IF bad THEN [S |-> CurS, err |-> "badcolumn"] ELSE CreateTableOn(CurS, disk, t) IN
     IF r.err = "ok"
     THEN IF FlushSteps
          THEN /\ Commit(r.S)
               /\ pc' = [Idle EXCEPT !.k = "flush", !.todo = DOMAIN r.S.c, !.orig = DOMAIN r.S.c, !.fresh = (DOMAIN r.S.c) \ (DOMAIN disk), !.after = "create"]
               /\ pend' = << WithTable(abs, t) >> /\ Out("none")
               /\ UNCHANGED <<disk, dhdr, abs>>
          ELSE /\ disk' = Written(disk, r.S.c, DOMAIN r.S.c) /\ cache' = <<>>
               /\ mhdr' = [r.S.h EXCEPT !.nx = r.S.nx] /\ dhdr' = mhdr'
               /\ abs' = WithTable(abs, t) /\ pc' = Idle /\ Out("ok") /\ UNCHANGED pend
     ELSE /\ Commit(r.S) /\ pc' = Idle /\ Out("error") /\ UNCHANGED <<disk, dhdr, abs, pend>>
  /\ UNCHANGED <<walD, torn, walU, cands, taint, scope>>

\* the flusher (timer tick, Close): starts only between statements
FlushBegin ==
  /\ pc.k = "idle"
  /\ IF FlushSteps
     THEN /\ pc' = [Idle EXCEPT !.k = "flush", !.todo = DOMAIN cache, !.orig = DOMAIN cache, !.fresh = (DOMAIN cache) \ (DOMAIN disk), !.after = "idle"]
          /\ Out("none") /\ UNCHANGED <<disk, dhdr, cache>>
     ELSE /\ disk' = Written(disk, cache, DOMAIN cache) /\ cache' = <<>> /\ dhdr' = mhdr
          /\ pc' = Idle /\ Out("flushed")
  /\ UNCHANGED <<mhdr, walD, torn, walU, abs, pend, cands, taint, scope>>

FlushPage(p) ==
  /\ pc.k = "flush" /\ p \in pc.todo
  /\ disk' = Upd(disk, p, cache[p]) /\ cache' = Drop(cache, p)
  /\ pc' = [pc EXCEPT !.todo = @ \ {p}] /\ Out("none")
  /\ UNCHANGED <<dhdr, mhdr, walD, torn, walU, abs, pend, cands, taint, scope>>

\* end of recovery: a new session opens the store (empty cache, header read from the file) and the
\* promise is re-based on what survived: it must be one of the allowed states (C02: the acknowledged
\* state; C03: some prefix of the interrupted statement; CREATE TABLE in progress: with or without it)
RecoveredTo(d2, h2) ==
  LET pv == PageView(<<>>, d2, h2)
      ok == \E j \in 1..Len(cands) : cands[j] = pv
  IN /\ cache' = <<>> /\ mhdr' = h2
     /\ abs' = IF ok THEN pv ELSE abs
     /\ pc' = IF ok \/ taint # {} THEN Idle ELSE [Idle EXCEPT !.k = "lost"]
     /\ cands' = <<>> /\ pend' = <<>>
     /\ Out(IF ok THEN "recovered" ELSE "lost")

FlushHdr ==
  /\ pc.k = "flush" /\ pc.todo = {}
  /\ dhdr' = mhdr
  /\ CASE pc.after = "idle" -> /\ pc' = Idle /\ Out("flushed") /\ UNCHANGED <<abs, pend, cache, mhdr, cands>>
       [] pc.after = "create" -> /\ pc' = Idle /\ abs' = pend[1] /\ pend' = <<>> /\ Out("ok") /\ UNCHANGED <<cache, mhdr, cands>>
       [] pc.after = "rec" -> RecoveredTo(disk, mhdr)
  /\ UNCHANGED <<disk, walD, torn, walU, taint, scope>>

\* every clean page leaves the page cache (eviction, or a cache replaced by a smaller one): nothing
\* changes, because a clean cached page equals its disk image - this is all there is to say about C16
\* at this level; the step exists so that TLC generates paths that continue after it
EvictAll == /\ pc.k = "idle" /\ cache = <<>>
            /\ Out("evicted")
            /\ UNCHANGED <<disk, dhdr, cache, mhdr, walD, torn, walU, pc, abs, pend, cands, taint, scope>>

-----------------------------------------------------------------------------
(* Crash and recovery.                                                       *)

\* A flush that includes pages never written before (allocated by a split or by CREATE TABLE since
\* the last completed flush) is not atomic: if the process dies after its first page write and before
\* its header write, recovery cannot repair what is missing - redo is keyed on the LSN of the page a
\* record names, CREATE TABLE is not logged, and the catalog root lives in the header.  This is the
\* known finding torn-structural-flush.  A flush of already existing pages may be torn anywhere.
TornStructural == pc.fresh # {} /\ pc.orig \ pc.todo # {}

\* does the durable part of the statement's records end between an insert record and the
\* root-move record that follows it?  (known finding rootmove-record-cut)
EndsInsideRootMove(nd, recs) ==
  /\ nd < Len(recs) /\ nd > 0
  /\ recs[nd].op = "ins" /\ recs[nd + 1].op = "upd" /\ recs[nd + 1].v.tag = "P"

\* torn: 0 the log ends with a complete record; 1 it ends with a complete length field and no body; 2..4 it ends inside a
\* write call (2..4 inside the length field, 5..7 inside the body).  All of 1..7 mean the same to recovery - the tail is not a record and is cut off - which is the point.
Crash(keep, part) ==
  /\ pc.k \in CrashAt
  /\ part # 0 => (pc.k = "wal" /\ keep /\ walU # <<"len", "body">>)
  /\ \/ /\ pc.k = "idle" /\ keep
        /\ cands' = <<abs>> /\ UNCHANGED <<walD, torn, taint, scope>>
     \/ /\ pc.k = "wal"
        \* the records synced so far are durable; the unsynced tail survives or not
        /\ LET comp == keep /\ walU = <<"len", "body">>
               nd == pc.i + (IF comp THEN 1 ELSE 0)
           IN /\ walD' = IF comp THEN Append(walD, pc.recs[pc.i + 1]) ELSE walD
              /\ torn' = IF part # 0 THEN part + 1 + (IF walU = <<"len">> THEN 3 ELSE 0) ELSE IF keep /\ walU = <<"len">> THEN 1 ELSE 0
              /\ taint' = IF ~FixReplayRoot /\ EndsInsideRootMove(nd, pc.recs) THEN taint \cup {"rootmove-record-cut"} ELSE taint
        /\ cands' = <<abs>> \o pend
        /\ UNCHANGED scope
     \/ /\ pc.k = "flush" /\ keep /\ pc.after \notin NoCrashIn
        /\ cands' = CASE pc.after = "idle" -> <<abs>>
                      [] pc.after = "create" -> <<abs>> \o pend
                      [] pc.after = "rec" -> cands
        /\ taint' = IF TornStructural THEN taint \cup {"torn-structural-flush"} ELSE taint
        /\ UNCHANGED scope
        /\ UNCHANGED <<walD, torn>>
  /\ pc' = [Idle EXCEPT !.k = "down"]
  /\ cache' = <<>> /\ walU' = <<>> /\ pend' = <<>> /\ Out("none")
  /\ UNCHANGED <<disk, dhdr, mhdr, abs>>

\* WALBatch.replay; result [c, nx, h, st] with st in {"ok", "abort", "fail"}
RECURSIVE Replay(_, _, _, _)
Replay(st, h, d, i) ==
  IF i > Len(walD) THEN [c |-> st.c, nx |-> st.nx, h |-> h, st |-> "ok"] ELSE
  LET r == walD[i]
      h0 == IF FixReplayKey /\ r.op = "ins" /\ r.k > h.lastKey THEN [h EXCEPT !.lastKey = r.k] ELSE h
      h1 == IF FixReplayLSN THEN (IF r.lsn >= h0.lsn THEN [h0 EXCEPT !.lsn = r.lsn] ELSE h0) ELSE [h0 EXCEPT !.lsn = r.lsn]
      n == Rd(st.c, d, r.pg)
  IN IF r.lsn <= n.lsn THEN Replay(st, h1, d, i + 1) ELSE
     CASE r.op = "ins" ->
            LET x == InsertKey(st, d, r.pg, r.k, r.lsn, r.v)
                \* moveCatalogRoot: the catalog row that names the old root follows the redone split
                moved == FixReplayRoot /\ x.root # r.pg
                P(y) == y.v.tag = "P" /\ y.v.b = r.pg
                cp == IF moved THEN FirstPageWith(x.st.c, d, h1.ptRoot, P) ELSE 0
                st2 == IF cp = 0 THEN x.st ELSE
                       LET n0 == Rd(x.st.c, d, cp)
                           cell == CHOOSE y \in SeqToSet(n0.cells) : ~y.d /\ P(y) /\ \A z \in SeqToSet(n0.cells) : (~z.d /\ P(z)) => y.k <= z.k
                       IN [x.st EXCEPT !.c = Upd(x.st.c, cp, [SetCell(n0, cell.k, LAMBDA y : [y EXCEPT !.v = PV(y.v.a, x.root)]) EXCEPT !.lsn = r.lsn])]
            IN IF x.err = "broken" THEN [c |-> x.st.c, nx |-> x.st.nx, h |-> h1, st |-> "fail"]
               ELSE Replay(st2, [h1 EXCEPT !.lastKey = @ + 1], d, i + 1)
       [] r.op = "upd" ->
            IF n.kind = "L" /\ HasKey(n.cells, r.k)
            THEN Replay([st EXCEPT !.c = Upd(st.c, r.pg, [SetCell(n, r.k, LAMBDA x : [x EXCEPT !.v = r.v]) EXCEPT !.lsn = r.lsn])], h1, d, i + 1)
            ELSE [c |-> st.c, nx |-> st.nx, h |-> h1, st |-> "abort"]     \* `return nil`: replay stops, nothing more is applied
       [] r.op = "del" ->
            IF n.kind = "L" /\ HasKey(n.cells, r.k)
            THEN Replay([st EXCEPT !.c = Upd(st.c, r.pg, [SetCell(n, r.k, LAMBDA x : [x EXCEPT !.d = TRUE]) EXCEPT !.lsn = r.lsn])], h1, d, i + 1)
            ELSE [c |-> st.c, nx |-> st.nx, h |-> h1, st |-> "fail"]

\* InitStorage: read header and log (a torn tail is cut off), replay, bump the LSN, flush
Recover ==
  /\ pc.k = "down"
  /\ torn' = 0
  /\ LET r == Replay([c |-> <<>>, nx |-> dhdr.nx], dhdr, disk, 1)
         h2 == IF r.st = "ok" THEN [r.h EXCEPT !.nx = r.nx, !.lsn = @ + 1] ELSE [r.h EXCEPT !.nx = r.nx]
     IN IF r.st = "fail"
        THEN /\ pc' = [Idle EXCEPT !.k = IF taint = {} THEN "dead" ELSE "deadk"] /\ Out("dead")  \* the database does not start
             /\ UNCHANGED <<disk, dhdr, cache, mhdr, abs, pend, cands>>
        ELSE IF FlushSteps
        THEN /\ cache' = r.c /\ mhdr' = h2 /\ Out("none")
             /\ pc' = [Idle EXCEPT !.k = "flush", !.todo = DOMAIN r.c, !.orig = DOMAIN r.c, !.fresh = (DOMAIN r.c) \ (DOMAIN disk), !.after = "rec"]
             /\ UNCHANGED <<disk, dhdr, abs, pend, cands>>
        ELSE /\ disk' = Written(disk, r.c, DOMAIN r.c) /\ dhdr' = h2
             /\ RecoveredTo(disk', h2)
  /\ UNCHANGED <<walD, walU, taint, scope>>

-----------------------------------------------------------------------------
Quiescent == pc.k = "idle"

\* C01 / C02 / C14: the pages say what the promise says
ScanEqAbs == (Quiescent /\ taint = {} /\ scope = "all") => PageView(cache, disk, mhdr) = abs
CatalogOK == (Quiescent /\ taint = {} /\ scope = "all") =>
               LET sv == SchemaView(cache, disk, mhdr) IN
               \A t \in DOMAIN abs : SelectSeq(sv, LAMBDA x : x[1] = t) = [i \in 1..Len(ColsOf(t)) |-> <<t, ColsOf(t)[i][1], ColsOf(t)[i][2]>>]
\* C02 / C03 / C04: the database starts and holds an allowed state (pc "dead" / "lost" are only
\* entered on behaviours that went through no known-defective situation)
StartsUp == pc.k # "dead"
NothingLost == pc.k # "lost"
\* C11: every tree is well formed whenever no statement is changing pages
TreesOK == (pc.k \in {"idle", "wal"} /\ taint = {} /\ scope = "all") =>
             LET S == CurS
                 names == {x.v.a : x \in {y \in SeqToSet(CatRows(S, disk)) : ~y.d /\ y.v.tag = "P"}}
             IN /\ TreeOK(cache, disk, mhdr.ptRoot)
                /\ \A t \in names \ {"sys_pages"} : TreeOK(cache, disk, RootOf(S, disk, t))   \* (the sys_pages row about itself is never maintained)
\* row ids never exceed the counter, so a new row (counter + 1) never reuses one
IdsOK == (Quiescent /\ taint = {} /\ scope = "all") => \A k \in IdsView(cache, disk, mhdr) : k <= mhdr.lastKey
=============================================================================
