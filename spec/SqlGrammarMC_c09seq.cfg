\* C09 quick: all token sequences of length <= 2 over MC_SeqVocab
\* (written from tools/sqlfe_lib.py cfg(); the checks generate the same text per tier at run time)
CONSTANTS
  Tables <- MC_Tables
  Cols <- MC_Cols
  VarcharLens <- MC_VarcharLens
  BaseTable = "t1"
  Aliases <- MC_Aliases_S
  BigInts <- MC_BigInts_S
  ColPool <- MC_ColPool_S
  CondPool <- MC_CondPool_S
  Dbs <- MC_Dbs_S
  IntLits <- MC_IntLits
  ItemPool <- MC_ItemPool_S
  JoinTblPool <- MC_JoinTblPool_S
  LeafPool <- MC_LeafPool_S
  LeafSet <- MC_LeafSet_S
  LimVals <- MC_LimVals_S
  LitPool <- MC_LitPool
  QuotedIdents <- MC_QuotedIdents
  StrLits <- MC_StrLits
  TrickyStrs <- MC_TrickyStrs_S
  UniIdents <- MC_UniIdents_S
  UniStrs <- MC_UniStrs_S
  MaxDefs = 2
  MaxGroup = 2
  MaxItems = 2
  MaxJoins = 1
  MaxLeaves = 2
  MaxOrder = 2
  MaxRows = 2
  MaxSet = 2
  MaxVals = 2
  Slices = {"given"}
  Stmts <- MC_None
  Vocab <- MC_SeqVocab
  Vocab2 <- MC_SeqVocab
  MaxJunk = 2
  MaxTail = 99
  JunkAtEndOnly = FALSE
  EmitMode = "toks"
INIT SeqPick
NEXT SeqNext
VIEW View
ACTION_CONSTRAINT Emit
CHECK_DEADLOCK FALSE
