---------------------------- MODULE SqlGrammarMC ----------------------------
(* Bounded instances of SqlGrammar and the scenario generators of C09/C10. *)
(* Every scenario is printed by TLC as <<"SCN", json>>; tokens travel as   *)
(* arrays [t, v, o].                                                       *)
(*                                                                         *)
(*   GenPick / GenNextComplete : one scenario per complete derivation      *)
(*       (ast, toks) and, with a junk budget, per trailing junk token      *)
(*   GenPick / GenNext         : one scenario per explored transition =    *)
(*       per truncation (with optional tokens left out, with junk tokens)  *)
(*   SeqPick / SeqNext         : every token sequence up to MaxJunk tokens *)
(*                                                                         *)
(* Vocabulary sizes S (cover set for C09), Q (quick), T (thorough) are     *)
(* chosen in the .cfg by substitution  Const <- MC_Const_X.                *)
EXTENDS SqlGrammar, Json

\* ---------------------------------------------------------------- vocabularies
MC_Tables   == {"t1", "t2"}
MC_Cols     == {"a", "b", "Cc"}
MC_Aliases  == {"x", "y"}
MC_Aliases_S == {"x"}
MC_Dbs      == {"db1", "Db2"}
MC_Dbs_S    == {"db1"}
MC_IntLits  == {7, 42}
MC_IntLits_T == {0, 7, 2147483647}
MC_StrLits  == {"p", "q r"}
MC_StrLits_T == {"p", "q r", "", "SELECT * from"}
MC_TrickyStrs   == {"true", "False", "desc", "and", "left", "null", "=", ",", "(", ";", "*", ".", "!=", "7", "", "a --b", "/* x",
                     "C:\\\\", "\\\\", "it\\'s",
                     "C:\\Users", "x\\0", "a\\u", "p\\x4",
                     \* quotes of the other kind at the edges of the content: they are content
                     "\"x\"", "say \"hi\"", "\""}    \* contents ending in an escaped backslash (the quote after it closes the literal); an escaped quote
MC_TrickyStrs_S == {"true", "="}
MC_QuotedIdents   == {"select", "Desc", "true", "a b", "q <U+1F600>"}
MC_QuotedIdents_S == {"select"}
\* <U+00E9> e acute (2 bytes), <U+6771> <U+4EAC> CJK (3 bytes each), <U+1F600> an emoji (4 bytes)
MC_UniStrs    == {"caf<U+00E9>", "<U+6771><U+4EAC> x", "a<U+1F600>b", "<U+00E9><U+6771><U+1F600>"}
MC_UniStrs_S  == {"<U+00E9><U+6771><U+1F600>"}
MC_UniIdents  == {"t<U+00E9>", "<U+6771>1", "q <U+1F600>", "databases", "Databases", "orders", "counts", "desc1", "keys",
                   \* eight bytes that grow under upper-casing (U+0250 -> U+2C6F), letters whose low byte is a blank or a line break
                   "abcdef<U+0250>", "coun<U+0265><U+0265>", "<U+010D>islo",
                   \* letters that upper-casing folds into ASCII (long s -> S, dotless i -> I): names, not the keywords SET / LIMIT / SUM
                   "<U+017F>et", "l<U+0131>m<U+0131>t", "<U+017F>elect", "<U+0131>nt",
                   "<U+4E0A><U+6D77>"}     \* the last one is written in double quotes
MC_UniIdents_S == {"t<U+00E9>"}
MC_VarcharLens == {1, 255}
MC_BigInts  == {"2147483647", "2147483648", "3000000000", "4294967296", "9223372036854775807"}
MC_BigInts_S == {"2147483648"}
MC_LimVals  == {0, 7}
MC_LimVals_S == {7}

L1 == Cmp("=", Col("", "a"), IntL(7))
L2 == Cmp("<", Col("t1", "b"), StrL("q r"))
L3 == Cmp(">=", IntL(42), Col("", "Cc"))
L4 == Cmp("!=", Col("x", "a"), Col("", "b"))
L5 == Cmp("<=", StrL("p"), BoolL(TRUE))
L6 == Cmp(">", Col("t2", "Cc"), Col("y", "a"))

MC_LeafPool_S == {L1, L2}
MC_LeafPool_Q == {L1, L2, L3, L4}
MC_LeafPool_T == {L1, L2, L3, L4, L5, L6}

\* leaves tried one at a time: every operator with every operand on one side
SomeOperands == {Col("", "a"), Col("t1", "b"), IntL(7), StrL("p"), BoolL(FALSE)}
MC_LeafSet_S == {L1, L3, Cmp("!=", Col("t1", "b"), StrL("p"))}
MC_LeafSet_Q == {Cmp(op, l, r) : op \in CmpOps, l \in Operands, r \in SomeOperands}
                \cup {Cmp(op, l, r) : op \in CmpOps, l \in SomeOperands, r \in Operands}
MC_LeafSet_T == Leaves

MC_ItemPool_S == {Item(Col("", "a"), ""), Item(Col("t1", "b"), "x"), Item(CountOf(Star), "")}
MC_ItemPool_Q == {Item(Col("", "a"), ""), Item(Col("t1", "b"), "x"), Item(L3, ""), Item(IntL(7), "y"),
                  Item(StrL("p"), ""), Item(CountOf(Star), ""), Item(AvgOf(Col("", "a")), "x")}
MC_ItemPool_T == MC_ItemPool_Q \cup {Item(Col("x", "Cc"), ""), Item(OrN(L1, AndN(L2, L4)), "y"),
                                     Item(CountOf(Col("t1", "a")), ""), Item(BoolL(TRUE), "")}

MC_CondPool_S == {L1, OrN(AndN(L1, L2), L1)}
MC_CondPool_Q == {L1, AndN(L1, L2), OrN(L3, AndN(L2, L4))}
MC_CondPool_T == {L1, AndN(L1, L2), OrN(L3, AndN(L2, L4)), OrN(AndN(L1, AndN(L2, L3)), OrN(L4, L1))}

MC_ColPool_S == {Col("", "a"), Col("t1", "b")}
MC_ColPool_Q == {Col("", "a"), Col("", "b"), Col("t1", "a"), Col("x", "Cc")}
MC_ColPool_T == MC_ColPool_Q \cup {Col("t2", "b")}

MC_LitPool  == {IntL(7), StrL("p")}
MC_LitPool_T == {IntL(7), StrL("q r"), BoolL(FALSE)}

MC_JoinTblPool_S == {Tbl("t2", "y")}
MC_JoinTblPool   == {Tbl("t2", ""), Tbl("t2", "y")}

\* ---------------------------------------------------------------- statement sets
\* the cover set of C09 and of the trailing-token scenarios: the machine with junk is run on a few
\* statements that together use every production
CoverSelects ==
  {Sel(<<Item(Col("", "a"), ""), Item(Col("t1", "b"), "x")>>, <<Tbl("t1", "x")>>,
       <<JoinOf("INNER", Tbl("t2", "y"), L4)>>, <<OrN(AndN(L1, L2), L3)>>, <<>>,
       <<Ord(Col("", "a"), "ASC"), Ord(Col("t1", "b"), "DESC")>>, <<IntL(7)>>, <<IntL(0)>>),
   Sel(<<Item(Col("", "a"), ""), Item(CountOf(Star), "x"), Item(AvgOf(Col("", "b")), "")>>, <<Tbl("t1", "")>>,
       <<JoinOf("LEFT", Tbl("t2", ""), L1), JoinOf("RIGHT", Tbl("t1", "y"), AndN(L1, L2))>>, <<>>,
       <<Col("", "a")>>, <<>>, <<>>, <<>>),
   Sel(<<Item(CountOf(Col("", "a")), "")>>, <<Tbl("t1", "")>>, <<>>, <<L2>>, <<Col("", "a"), Col("t1", "b")>>,
       <<>>, <<>>, <<IntL(7)>>),
   Sel(<<Item(Star, "")>>, <<Tbl("t1", "")>>, <<>>, <<AndN(L1, AndN(L3, L2))>>, <<>>, <<Ord(Col("x", "Cc"), "ASC")>>, <<IntL(7)>>, <<>>),
   Sel(<<Item(L1, "y"), Item(IntL(7), ""), Item(StrL("p"), "")>>, <<>>, <<>>, <<>>, <<>>, <<>>, <<>>, <<>>),
   Sel(<<Item(OrN(L1, L2), "")>>, <<Tbl("t1", "")>>, <<>>, <<OrN(L1, OrN(L2, L3))>>, <<>>, <<>>, <<>>, <<>>)}
CoverOthers ==
  {Ins("t1", <<"a", "b">>, <<<<IntL(7), StrL("p")>>, <<IntL(42), StrL("q r")>>>>),
   Ins("t1", <<>>, <<<<BoolL(TRUE), BoolL(FALSE), IntL(7)>>>>),
   Upd("t1", <<Asg("a", IntL(7)), Asg("b", StrL("p"))>>, <<AndN(L1, L2)>>),
   Upd("t1", <<Asg("a", BoolL(TRUE))>>, <<>>),
   Del("t1", <<OrN(L1, L2)>>), Del("t1", <<>>),
   CreT("t1", <<Def("a", Ty("INT", 0)), Def("b", Ty("VARCHAR", 255)), Def("Cc", Ty("BIGINT", 0)), Def("x", Ty("BOOLEAN", 0))>>),
   CreD("db1"), UseD("db1"), ShowD}
MC_Cover       == CoverSelects \cup CoverOthers
\* statements with characters of 2, 3 and 4 bytes: every byte-wise truncation of their text is an input of C09
MC_CoverUnicode ==
  {Ins("t<U+00E9>", <<"<U+6771>1">>, <<<<StrL("caf<U+00E9>"), IntL(7), StrL("<U+6771><U+4EAC> a<U+1F600>b")>>>>),
   Sel(<<Item(StrL("<U+1F600>"), "<U+6771>1")>>, <<Tbl("t<U+00E9>", "")>>, <<>>,
       <<Cmp("=", Col("t<U+00E9>", "<U+6771>1"), StrL("<U+00E9><U+6771><U+1F600>"))>>, <<>>, <<>>, <<>>, <<>>),
   Upd("q <U+1F600>", <<Asg("<U+6771>1", StrL("<U+00E9>"))>>, <<>>)}
\* a smaller cover for two junk tokens
MC_CoverSmall  == {s \in MC_Cover : Len(Toks(s, "LO")) <= 16}

\* ---------------------------------------------------------------- junk vocabularies
MC_FullVocab  == FullVocab
MC_TrailVocab == NeverContinues
MC_Vocab2     == {KW(w) : w \in {"AND", "OR", "SELECT", "FROM", "WHERE", "LIMIT", "VARCHAR", "COUNT", "TRUE", "NULL"}}
                 \cup {P(x) : x \in {"(", ")", ",", ".", "=", "*", ";", "!"}}
                 \cup {Id("zz"), IntT(7), StrT("q r")}
                 \cup {Raw(x) : x \in {"99999999999999999999", "0x10", "'", "'abc", "`", "1.5", "/*", "--"}}
                 \cup {Lex(c) : c \in {"dquote", "nul", "bad_utf8"}}
\* the vocabulary of "all token sequences": every token kind plus the lexical classes C09 names
MC_SeqVocab   == CoreVocab \cup QuotedLookalikes
                 \cup {Raw(x) : x \in {"99999999999999999999", "0x10", "1_0", "017", "1.5", "1e9", "'", "'abc", "`abc`", "`",
                                       "--", "/*", "//", "-"}}
                 \cup {Lex(c) : c \in {"dquote", "dq_unterminated", "nul", "bad_utf8", "nonascii_ident", "long_ident"}}
\* the statements whose text is also padded to lengths around the scanner's buffer size (C09)
MC_CoverLong  == MC_CoverSmall \cup MC_CoverUnicode
MC_None       == {}
MC_AllSlices  == SliceNames \ {"given"}
MC_Given      == {"given"}

\* ---------------------------------------------------------------- generators
CONSTANTS EmitMode    \* "full" : ast + tokens with marks ; "toks" : tokens only ; "off" : nothing is printed

Tok3(s) == [i \in DOMAIN s |-> <<s[i].t, s[i].v, s[i].o>>]
Tok2(s) == [i \in DOMAIN s |-> <<s[i].t, s[i].v>>]

GenPick == Pick
GenNext == Next
GenNextComplete == NextComplete

\* all token sequences of up to MaxJunk tokens: junk tokens inserted into the empty input
SeqPick == /\ ast = ShowD /\ form = "LO" /\ rest = <<>> /\ toks = <<>> /\ junk = 0 /\ tail = 0
SeqNext == \E tk \in Vocab \cup Vocab2 : JunkInsert(tk)

Emit ==
  IF EmitMode = "off" THEN TRUE
  ELSE IF EmitMode = "full"
  THEN PrintT(<<"SCN", ToJson([junk |-> junk', form |-> form', ast |-> ast', toks |-> Tok3(toks'), nt |-> NonTrivial(ast')])>>)
  ELSE PrintT(<<"SCN", ToJson([junk |-> junk', toks |-> Tok2(toks')])>>)

\* the ghost statement stays out of the fingerprint
View == <<form, rest, toks, junk, tail>>

\* sanity of the bounded universe itself: every condition of a picked statement is one that text
\* without parentheses can express, and the machine keeps its types
ConditionsExpressible == \A c \in StmtConds(ast) : c.k \in {"cmp", "and", "or"} => Expressible(c)
=============================================================================
