---------------------------- MODULE SqlSemBigJudge ----------------------------
(* C07, many groups: tables of 10^4 - 10^5 rows whose grouping values are    *)
(* pairwise distinct, judged by SqlSem!DistinctGroupsOK (see there).  Lines  *)
(* marked small are judged by both predicates and must agree.               *)
EXTENDS SqlSem, Json
VARIABLE x
Cases == ndJsonDeserialize("cases.ndjson")
NoShape == {i \in 1..Len(Cases) : ~DistinctGroupsShape(Cases[i].db, Cases[i].q)}
Bad == {i \in 1..Len(Cases) : i \notin NoShape /\ ~DistinctGroupsOK(Cases[i].db, Cases[i].q, Cases[i].res)}
Disagree == {i \in 1..Len(Cases) : Cases[i].small /\ ~DistinctGroupsAgree(Cases[i].db, Cases[i].q, Cases[i].res)}
ASSUME PrintT(<<"SCN", ToJson([n |-> Len(Cases), bad |-> SetToSeq(Bad), noshape |-> SetToSeq(NoShape), disagree |-> SetToSeq(Disagree)])>>)
Init == x = 0
Next == x' = x
=============================================================================
