------------------------------- MODULE SqlSem -------------------------------
(* Reference meaning of mkdb's SELECT (engine/select.go): filter, project,  *)
(* sort, offset/limit, joins, grouping and aggregates, as plain TLA+ set    *)
(* and sequence definitions, and the acceptance predicate ResultOK(db, q,   *)
(* res) that TLC evaluates on results returned by the real engine           *)
(* (C05, C06, C07).                                                         *)
(*                                                                          *)
(* Values are tagged records [t, v, s]: "i" integer v, "s" string (s = the  *)
(* sequence of its byte values - TLC cannot order strings), "b" boolean     *)
(* (v = 0/1), "n" NULL.  A database maps table names to [cols, rows].       *)
(*                                                                          *)
(* A query is                                                               *)
(*   from   : <<[tbl, alias, jt, on]>>   jt = "" for the first, else        *)
(*            "inner" | "left" | "right"; on / where are conditions in the  *)
(*            only shape SQL text without parentheses can express:          *)
(*            a disjunction (outer sequence) of conjunctions (inner) of     *)
(*            comparisons [l, op, r], operands [k = "col", q, c] or         *)
(*            [k = "lit", val]                                              *)
(*   list   : <<[k, ref, cmp, alias]>>   k = "star" | "col" | "cmp" |       *)
(*            "count" | "countcol" | "avg"                                  *)
(*   group  : <<[q, c]>> ; order : <<[q, c, dir]>> ; limit, offset (-1 none) *)
EXTENDS Integers, Sequences, FiniteSets, TLC, SequencesExt

Null == [t |-> "n", v |-> 0, s |-> <<>>]
IntV(n) == [t |-> "i", v |-> n, s |-> <<>>]
BoolV(b) == [t |-> "b", v |-> IF b THEN 1 ELSE 0, s |-> <<>>]
StrV(bytes) == [t |-> "s", v |-> 0, s |-> bytes]

RECURSIVE SLess(_, _)
SLess(x, y) == IF y = <<>> THEN FALSE ELSE IF x = <<>> THEN TRUE
               ELSE IF x[1] < y[1] THEN TRUE ELSE IF x[1] > y[1] THEN FALSE ELSE SLess(Tail(x), Tail(y))
\* order within one type (integers, strings bytewise, FALSE before TRUE)
VLess(x, y) == IF x.t = "s" THEN SLess(x.s, y.s) ELSE x.v < y.v

-----------------------------------------------------------------------------
(* FROM: a relation is [f |-> fields, rows |-> rows]; a field is [q, c].    *)

TableRel(db, tr) ==
  LET t == db[tr.tbl]
      id == IF tr.alias = "" THEN tr.tbl ELSE tr.alias
  IN [f |-> [i \in 1..Len(t.cols) |-> [q |-> id, c |-> t.cols[i].n]], rows |-> t.rows]

\* indexes of the fields a column reference can mean
Cands(f, ref) == {i \in 1..Len(f) : f[i].c = ref.c /\ (ref.q = "" \/ f[i].q = ref.q)}
\* the engine takes the first match of a qualified reference and wants a unique match of an unqualified one
Ambiguous(f, ref) == ref.q = "" /\ Cardinality(Cands(f, ref)) > 1
Missing(f, ref) == Cands(f, ref) = {}
Idx(f, ref) == CHOOSE i \in Cands(f, ref) : \A j \in Cands(f, ref) : i <= j

Operand(f, row, o) == IF o.k = "col" THEN row[Idx(f, o)] ELSE o.val
CmpHolds(f, row, c) ==
  LET x == Operand(f, row, c.l)
      y == Operand(f, row, c.r)
  IN CASE c.op = "="  -> x = y
       [] c.op = "!=" -> x # y
       [] c.op = "<"  -> VLess(x, y)
       [] c.op = "<=" -> VLess(x, y) \/ x = y
       [] c.op = ">"  -> VLess(y, x)
       [] c.op = ">=" -> VLess(y, x) \/ x = y
\* disjunction of conjunctions: AND binds tighter than OR
CondHolds(f, row, dnf) == \E i \in 1..Len(dnf) : \A j \in 1..Len(dnf[i]) : CmpHolds(f, row, dnf[i][j])

CondRefs(dnf) == UNION {UNION {{c.l, c.r} : c \in {dnf[i][j] : j \in 1..Len(dnf[i])}} : i \in 1..Len(dnf)}
CondBad(f, dnf) == \E o \in CondRefs(dnf) : o.k = "col" /\ (Missing(f, o) \/ Ambiguous(f, o))

NullRow(n) == [i \in 1..n |-> Null]

\* concatenation of a sequence of sequences
RECURSIVE FlattenFrom(_, _)
FlattenFrom(ss, i) == IF i > Len(ss) THEN <<>> ELSE ss[i] \o FlattenFrom(ss, i + 1)

\* one join step, rows in the order the engine's nested loops produce them (the order matters only where
\* the code's own order-dependence is to be recognised; results are compared as bags)
JoinStep(jt, L, R, on) ==
  LET f == L.f \o R.f
      nl == Len(L.rows)
      nr == Len(R.rows)
      Hit(i, j) == CondHolds(f, L.rows[i] \o R.rows[j], on)
      ForL(i) == LET ms == SelectSeq([j \in 1..nr |-> j], LAMBDA j : Hit(i, j))
                 IN IF ms = <<>> /\ jt = "left" THEN << L.rows[i] \o NullRow(Len(R.f)) >>
                    ELSE [m \in 1..Len(ms) |-> L.rows[i] \o R.rows[ms[m]]]
      ForR(j) == LET ms == SelectSeq([i \in 1..nl |-> i], LAMBDA i : Hit(i, j))
                 IN IF ms = <<>> THEN << NullRow(Len(L.f)) \o R.rows[j] >>
                    ELSE [m \in 1..Len(ms) |-> L.rows[ms[m]] \o R.rows[j]]
  IN [f |-> f, rows |-> IF jt = "right" THEN FlattenFrom([j \in 1..nr |-> ForR(j)], 1) ELSE FlattenFrom([i \in 1..nl |-> ForL(i)], 1)]

RECURSIVE FromFold(_, _, _, _)
FromFold(db, from, i, acc) ==
  IF i > Len(from) THEN acc
  ELSE FromFold(db, from, i + 1, JoinStep(from[i].jt, acc, TableRel(db, from[i]), from[i].on))
FromRel(db, q) == FromFold(db, q.from, 2, TableRel(db, q.from[1]))

\* a join condition that names a missing or ambiguous column makes the statement fail
RECURSIVE FromBad(_, _, _, _)
FromBad(db, from, i, f) ==
  IF i > Len(from) THEN FALSE
  ELSE LET f2 == f \o TableRel(db, from[i]).f IN CondBad(f2, from[i].on) \/ FromBad(db, from, i + 1, f2)

-----------------------------------------------------------------------------
(* WHERE, select list, aggregates.                                          *)

IsAgg(it) == it.k \in {"count", "countcol", "avg"}
HasAgg(q) == \E i \in 1..Len(q.list) : IsAgg(q.list[i])
IsStar(q) == q.list[1].k = "star"

ItemRefs(it) == CASE it.k \in {"col", "countcol", "avg"} -> {[k |-> "col", q |-> it.ref.q, c |-> it.ref.c]}
                  [] it.k = "cmp" -> {it.cmp.l, it.cmp.r}
                  [] OTHER -> {}
ListBad(f, q) == \E i \in 1..Len(q.list) : \E o \in ItemRefs(q.list[i]) : o.k = "col" /\ (Missing(f, o) \/ Ambiguous(f, o))

\* header of the result
OutField(f, it) ==
  LET base == CASE it.k = "col" -> f[Idx(f, it.ref)]
                [] it.k = "cmp" -> [q |-> "", c |-> "?"]
                [] it.k = "count" -> [q |-> "", c |-> "count(*)"]
                [] OTHER -> [q |-> "", c |-> "agg"]        \* count(col) / avg(col): name checked by the harness
  IN IF it.alias = "" THEN base ELSE [base EXCEPT !.c = it.alias]
OutFields(f, q) == IF IsStar(q) THEN f ELSE [i \in 1..Len(q.list) |-> OutField(f, q.list[i])]

\* one output row for a plain (non aggregate) query
ItemVal(f, row, it) == CASE it.k = "col" -> row[Idx(f, it.ref)]
                         [] it.k = "cmp" -> BoolV(CmpHolds(f, row, it.cmp))
                         [] OTHER -> Null
ProjRow(f, row, q) == IF IsStar(q) THEN row ELSE [i \in 1..Len(q.list) |-> ItemVal(f, row, q.list[i])]

\* which select item a GROUP BY reference names: same column (and qualifier if given), or the alias
GroupItem(q, g) == {i \in 1..Len(q.list) : q.list[i].k = "col" /\
                       (q.list[i].alias = g.c \/ (q.list[i].ref.c = g.c /\ (g.q = "" \/ q.list[i].ref.q = g.q)))}
GroupIdx(q) == [j \in 1..Len(q.group) |-> CHOOSE i \in GroupItem(q, q.group[j]) : TRUE]
GroupBad(q) == \E j \in 1..Len(q.group) : Cardinality(GroupItem(q, q.group[j])) # 1

\* the true groups: one per distinct combination of grouping values (tuple equality)
GroupKey(f, row, q) == [j \in 1..Len(q.group) |-> row[Idx(f, q.list[GroupIdx(q)[j]].ref)]]
Groups(f, rows, q) == {GroupKey(f, rows[i], q) : i \in 1..Len(rows)}
Members(f, rows, q, key) == SelectSeq(rows, LAMBDA r : GroupKey(f, r, q) = key)

SumOf(vals) == FoldSeq(LAMBDA x, acc : acc + x, 0, vals)
ColVals(f, rows, ref) == [i \in 1..Len(rows) |-> rows[i][Idx(f, ref)]]
NonNull(vs) == SelectSeq(vs, LAMBDA x : x.t # "n")
\* AVG = the sum divided by the count, rounded to the nearest integer; exactly halfway: either neighbour
AvgOK(x, ints) == LET n == Len(ints) s == SumOf(ints) d == 2 * (x * n - s) IN
                  IF n = 0 THEN x = 0 ELSE d <= n /\ -d <= n

\* the code as found keeps a mean that is re-rounded after every row (known finding avg-running-rounding):
\* what it returns for the values in scan order
RECURSIVE RunAvgFrom(_, _, _)
\* math.Round: to the nearest integer, halves away from zero
RoundDiv(s, n) == IF s >= 0 THEN (2 * s + n) \div (2 * n) ELSE -((2 * (-s) + n) \div (2 * n))
RunAvgFrom(ints, i, m) == IF i > Len(ints) THEN m
                          ELSE RunAvgFrom(ints, i + 1, RoundDiv(m * (i - 1) + ints[i], i))
RunAvg(ints) == RunAvgFrom(ints, 1, 0)

\* an AVG over a column that holds a NULL in some row of the input: the engine refuses the statement (a named deviation from
\* SQL, which averages the other values); either answer is accepted, a NULL counted as a number is not
AvgOverNull(f, rows, q) == \E i \in 1..Len(q.list) : q.list[i].k = "avg" /\ \E r \in 1..Len(rows) : rows[r][Idx(f, q.list[i].ref)].t = "n"

\* is `out` (a result row) right for the group with members ms?  running = TRUE: "right" with AVG read as the
\* running rounded mean, which recognises the known finding and nothing else
AggRowOKm(f, ms, q, out, running) ==
  \A i \in 1..Len(q.list) :
    LET it == q.list[i] IN
    CASE it.k = "col" -> ms # <<>> /\ out[i] = ms[1][Idx(f, it.ref)]
      [] it.k = "count" -> out[i] = IntV(Len(ms))
      [] it.k = "countcol" -> out[i] = IntV(Len(NonNull(ColVals(f, ms, it.ref))))
      [] it.k = "avg" -> /\ out[i].t = "i"
                         /\ LET nn == NonNull(ColVals(f, ms, it.ref))
                                ints == [j \in 1..Len(nn) |-> nn[j].v] IN
                            IF running THEN out[i].v = RunAvg(ints) ELSE AvgOK(out[i].v, ints)
      [] it.k = "cmp" -> TRUE

-----------------------------------------------------------------------------
(* ORDER BY / OFFSET / LIMIT.  The engine's sort is not stable, so with ties *)
(* several results are right: a result is accepted iff it is sorted, it is a *)
(* sub-bag of the candidates, and it holds, for every key value, exactly as  *)
(* many rows as the window [offset+1, offset+limit] cuts out of that key's   *)
(* block in any sorted arrangement.                                          *)

OffLim(s, q) ==
  LET a == IF q.offset < 0 THEN s ELSE IF q.offset >= Len(s) THEN <<>> ELSE SubSeq(s, q.offset + 1, Len(s))
  IN IF q.limit < 0 \/ q.limit > Len(a) THEN a ELSE SubSeq(a, 1, q.limit)

OrderBad(of, q) == \E j \in 1..Len(q.order) : Missing(of, q.order[j]) \/ Ambiguous(of, q.order[j])
KeyOf(of, row, q) == [j \in 1..Len(q.order) |-> row[Idx(of, q.order[j])]]
RECURSIVE KLess(_, _, _, _)
KLess(q, a, b, j) == IF j > Len(q.order) THEN FALSE
                     ELSE IF a[j] = b[j] THEN KLess(q, a, b, j + 1)
                     ELSE IF q.order[j].dir = "desc" THEN VLess(b[j], a[j]) ELSE VLess(a[j], b[j])

CountIf(s, P(_)) == Cardinality({i \in 1..Len(s) : P(s[i])})
IsSubBag(small, big) == \A i \in 1..Len(small) : CountIf(small, LAMBDA x : x = small[i]) <= CountIf(big, LAMBDA x : x = small[i])
IsSameBag(a, b) == Len(a) = Len(b) /\ IsSubBag(a, b)
MaxI(a, b) == IF a > b THEN a ELSE b
MinI(a, b) == IF a < b THEN a ELSE b

WindowOK(of, cand, q, rows) ==
  LET n == Len(cand)
      off == IF q.offset < 0 THEN 0 ELSE q.offset
      m == Len(OffLim(cand, q))
      K(r) == KeyOf(of, r, q)
  IN /\ Len(rows) = m
     /\ IsSubBag(rows, cand)
     /\ \A i \in 1..(Len(rows) - 1) : ~KLess(q, K(rows[i + 1]), K(rows[i]), 1)
     /\ \A i \in 1..n :
          LET k == K(cand[i])
              before == CountIf(cand, LAMBDA x : KLess(q, K(x), k, 1))
              same == CountIf(cand, LAMBDA x : K(x) = k)
              want == MaxI(0, MinI(before + same, off + m) - MaxI(before, off))
          IN CountIf(rows, LAMBDA x : K(x) = k) = want

-----------------------------------------------------------------------------
(* The acceptance predicate.  res = [err, cols, rows] as returned by         *)
(* engine.EvaluateSelect on the SQL text of q.                               *)

MustFail(db, q) ==
  LET rel == FromRel(db, q) IN
  \/ FromBad(db, q.from, 2, TableRel(db, q.from[1]).f)
  \/ (q.where # <<>> /\ CondBad(rel.f, q.where))
  \/ (~IsStar(q) /\ ListBad(rel.f, q))

ResultOKm(db, q, res, running) ==
  IF MustFail(db, q) THEN res.err ELSE
  LET rel == FromRel(db, q)
      f == rel.f
      kept == IF q.where = <<>> THEN rel.rows ELSE SelectSeq(rel.rows, LAMBDA r : CondHolds(f, r, q.where))
      of == OutFields(f, q)
  IN IF HasAgg(q) \/ q.group # <<>> THEN      \* GROUP BY without an aggregate still forms groups
        IF GroupBad(q) THEN res.err ELSE
        IF AvgOverNull(f, kept, q) /\ res.err THEN TRUE ELSE
        /\ ~res.err
        \* the aggregate rows (one for the whole input, or one per group - in no promised order) are what OFFSET / LIMIT cut
        /\ IF q.group = <<>> THEN
              \* one row for the whole input, all zeros when it is empty
              /\ Len(res.rows) = Len(OffLim(<<1>>, q))
              /\ Len(res.rows) = 1 =>
                    IF kept = <<>> THEN \A i \in 1..Len(q.list) : IsAgg(q.list[i]) => res.rows[1][i] = IntV(0)
                    ELSE AggRowOKm(f, kept, q, res.rows[1], running)
           ELSE LET gs == Groups(f, kept, q)
                    KeyOfRow(r) == [j \in 1..Len(q.group) |-> res.rows[r][GroupIdx(q)[j]]]
                IN
              /\ Len(res.rows) = Len(OffLim([i \in 1..Cardinality(gs) |-> i], q))   \* one row per distinct combination, then the window
              /\ \A r \in 1..Len(res.rows) :
                    /\ KeyOfRow(r) \in gs
                    /\ AggRowOKm(f, Members(f, kept, q, KeyOfRow(r)), q, res.rows[r], running)
              /\ \A r1, r2 \in 1..Len(res.rows) : r1 # r2 => KeyOfRow(r1) # KeyOfRow(r2)
     ELSE IF q.order # <<>> /\ OrderBad(of, q) THEN res.err ELSE
        LET cand == [i \in 1..Len(kept) |-> ProjRow(f, kept[i], q)] IN
        /\ ~res.err
        /\ Len(res.cols) = Len(of)
        /\ \A i \in 1..Len(of) : res.cols[i] = of[i].c
        /\ IF q.order = <<>> THEN
              IF Len(q.from) = 1 THEN res.rows = OffLim(cand, q)             \* insertion order
              ELSE IF q.limit < 0 /\ q.offset < 0 THEN IsSameBag(res.rows, cand)  \* a join is a multiset
              ELSE Len(res.rows) = Len(OffLim(cand, q)) /\ IsSubBag(res.rows, cand)
           ELSE WindowOK(of, cand, q, res.rows)
ResultOK(db, q, res) == ResultOKm(db, q, res, FALSE)
\* wrong, and exactly as the running rounded mean predicts (groups, counts and everything else right)
KnownRunningAvg(db, q, res) == ~ResultOK(db, q, res) /\ HasAgg(q) /\ ResultOKm(db, q, res, TRUE)
-----------------------------------------------------------------------------
(* INSERT, UPDATE and DELETE (engine/insert.go, update.go, delete.go) on one *)
(* table.  d = [k, tbl, where, set, row]: k = "insert" appends d.row;        *)
(* "update" assigns set = <<[c, val]>> in, and "delete" removes, the rows    *)
(* for which the WHERE holds - with the meaning the same text has in a       *)
(* SELECT; every other row stays what and where it is.  A failed statement   *)
(* changes nothing.                                                          *)
(* Which statements fail: the engine evaluates the WHERE row by row and      *)
(* looks at the assignments once per row to change, so                       *)
(*  - a WHERE naming a column the table does not have must fail as soon as   *)
(*    the table holds a row (on an empty table either answer is accepted);   *)
(*  - an UPDATE assigning a missing column, or one column twice, must fail   *)
(*    as soon as it has a row to change (with none, either answer);          *)
(*  - a column qualified with the table's own name (t5.a) is not resolved in *)
(*    UPDATE / DELETE as found (the rows carry no table identifier there):   *)
(*    a named deviation - the statement may fail, and where it does not it   *)
(*    means what it means in a SELECT.                                       *)
(* res = <<[err, rows]>>, one element per statement of a history: what the   *)
(* statement returned and what SELECT * returned after it.                   *)
DmlRel(db, d) == TableRel(db, [tbl |-> d.tbl, alias |-> ""])
Unqualified(f) == [i \in 1..Len(f) |-> [q |-> "", c |-> f[i].c]]
DmlHit(f, d, r) == d.where = <<>> \/ CondHolds(f, r, d.where)
WhereBad(db, d) == d.k # "insert" /\ d.where # <<>> /\ CondBad(DmlRel(db, d).f, d.where)
WhereBadAsFound(db, d) == d.k # "insert" /\ d.where # <<>> /\ CondBad(Unqualified(DmlRel(db, d).f), d.where)
SetBad(db, d) == LET f == DmlRel(db, d).f IN
  d.k = "update" /\ \/ \E j \in 1..Len(d.set) : Missing(f, [q |-> "", c |-> d.set[j].c])
                    \/ \E i, j \in 1..Len(d.set) : i # j /\ d.set[i].c = d.set[j].c
HitsAny(db, d) == LET rel == DmlRel(db, d) IN \E i \in 1..Len(rel.rows) : DmlHit(rel.f, d, rel.rows[i])
DmlMustFail(db, d) == IF WhereBad(db, d) THEN DmlRel(db, d).rows # <<>> ELSE SetBad(db, d) /\ HitsAny(db, d)
DmlMayFail(db, d) == WhereBad(db, d) \/ WhereBadAsFound(db, d) \/ SetBad(db, d)
Assigned(f, d, r) == [i \in 1..Len(f) |-> LET js == {j \in 1..Len(d.set) : d.set[j].c = f[i].c}
                                          IN IF js = {} THEN r[i] ELSE d.set[CHOOSE j \in js : TRUE].val]
\* the table after a statement that succeeded (only asked where ~DmlMustFail)
DmlRows(db, d) ==
  LET rel == DmlRel(db, d) IN
  CASE d.k = "insert" -> Append(rel.rows, d.row)
    [] WhereBad(db, d) \/ SetBad(db, d) -> rel.rows           \* succeeded because there was no row to look at
    [] d.k = "delete" -> SelectSeq(rel.rows, LAMBDA r : ~DmlHit(rel.f, d, r))
    [] d.k = "update" -> [i \in 1..Len(rel.rows) |-> IF DmlHit(rel.f, d, rel.rows[i]) THEN Assigned(rel.f, d, rel.rows[i]) ELSE rel.rows[i]]
StepOK(db, d, r) == IF r.err THEN DmlMayFail(db, d) /\ r.rows = DmlRel(db, d).rows
                    ELSE ~DmlMustFail(db, d) /\ r.rows = DmlRows(db, d)
\* the first statement of the history from i on that is answered wrongly (0: none); the history goes on from what was observed
RECURSIVE HistoryBadAt(_, _, _, _)
HistoryBadAt(db, ds, res, i) ==
  IF i > Len(ds) THEN 0
  ELSE IF StepOK(db, ds[i], res[i]) THEN HistoryBadAt([db EXCEPT ![ds[i].tbl].rows = res[i].rows], ds, res, i + 1) ELSE i
HistoryOK(db, ds, res) == Len(res) = Len(ds) /\ HistoryBadAt(db, ds, res, 1) = 0
-----------------------------------------------------------------------------
(* Tables in which every row is a group of its own (C07, many groups).  For  *)
(* a one-table query without WHERE / window whose grouping values are        *)
(* pairwise distinct, ResultOK says: one result row per table row, and the   *)
(* row of a group is the aggregate row of that single member.  The expected  *)
(* rows are then pairwise distinct themselves (the grouping column is in the *)
(* select list), so "same bag" is "same set and same length" - which TLC     *)
(* decides on 10^5 rows, where ResultOK's nested scans (Members per result   *)
(* row) do not finish.  DistinctGroupsAgree states that the two predicates   *)
(* agree; the check evaluates it on small tables on every run, so that the   *)
(* shortcut cannot drift from the definition.                                *)
SingletonRow(f, r, q) ==
  [i \in 1..Len(q.list) |->
     LET it == q.list[i] IN
     CASE it.k = "col" -> r[Idx(f, it.ref)]
       [] it.k = "count" -> IntV(1)
       [] it.k = "countcol" -> IntV(IF r[Idx(f, it.ref)].t = "n" THEN 0 ELSE 1)
       [] it.k = "avg" -> r[Idx(f, it.ref)]          \* the mean of one integer
       [] OTHER -> Null]
DistinctGroupsShape(db, q) ==
  /\ Len(q.from) = 1 /\ q.where = <<>> /\ q.limit < 0 /\ q.offset < 0 /\ q.group # <<>>
  /\ ~MustFail(db, q) /\ ~GroupBad(q)
  /\ \A i \in 1..Len(q.list) : q.list[i].k \in {"col", "count", "countcol", "avg"}
  /\ LET rel == FromRel(db, q) IN
       /\ Cardinality(Groups(rel.f, rel.rows, q)) = Len(rel.rows)
       /\ \A i \in 1..Len(q.list) : q.list[i].k = "avg" =>
             \A r \in 1..Len(rel.rows) : rel.rows[r][Idx(rel.f, q.list[i].ref)].t = "i"
DistinctGroupsOK(db, q, res) ==
  LET rel == FromRel(db, q) IN
  /\ ~res.err
  /\ Len(res.rows) = Len(rel.rows)
  /\ {res.rows[i] : i \in 1..Len(res.rows)} = {SingletonRow(rel.f, rel.rows[i], q) : i \in 1..Len(rel.rows)}
DistinctGroupsAgree(db, q, res) == DistinctGroupsShape(db, q) => (DistinctGroupsOK(db, q, res) <=> ResultOK(db, q, res))
=============================================================================
