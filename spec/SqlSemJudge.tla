---------------------------- MODULE SqlSemJudge ----------------------------
(* The oracle of C05 / C06 / C07 evaluated by TLC: cases.ndjson holds one   *)
(* line per executed query: the database, the query and what the real       *)
(* engine returned.  TLC prints the indices of the lines that ResultOK      *)
(* rejects.                                                                 *)
EXTENDS SqlSem, Json
VARIABLE x
Cases == ndJsonDeserialize("cases.ndjson")
Bad == {i \in 1..Len(Cases) : ~ResultOK(Cases[i].db, Cases[i].q, Cases[i].res)}
Known == {i \in Bad : KnownRunningAvg(Cases[i].db, Cases[i].q, Cases[i].res)}
ASSUME PrintT(<<"SCN", ToJson([n |-> Len(Cases), bad |-> SetToSeq(Bad), known |-> SetToSeq(Known)])>>)
Init == x = 0
Next == x' = x
=============================================================================
