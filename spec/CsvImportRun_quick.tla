------------------------- MODULE CsvImportRun_quick -------------------------
(* One configuration of CsvImportMC, written out (the check generates such   *)
(* a module per configuration: TLC's cfg syntax has no tuples).              *)
EXTENDS CsvImportMC
cSchema == <<"int", "bigint", "varchar", "boolean">>
cSrc == <<0, 1, 2, 3>>
cDst == <<1, 2, 3, 4>>
cSep == ","
cOnly == ClassNames
=============================================================================
