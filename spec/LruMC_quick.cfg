CONSTANTS
  Keys = {1, 2, 3}
  PVals = {10, 11}
  Cap = 2
  MaxOps = 5
  EmitOn = TRUE
INIT MCInit
NEXT MCNext
VIEW View
ACTION_CONSTRAINT Emit
INVARIANTS CapOK DomOK GetReturnsStored ClockMatchesOrder
PROPERTIES EvictIsLruClean RefuseOnlyWhenFullOfDirty RefusalChangesNothing ValOnlyChangedBySet
CHECK_DEADLOCK FALSE
