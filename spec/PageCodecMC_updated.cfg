CONSTANTS
  Pages = {2}
  LeafCounts = {1, 2, 4, 9}
  IntCounts = {}
  SizeClasses = {0, 1, 399, 400}
  SizePats = {"all0", "all400", "cyc", "rcyc"}
  DelPats = {"none", "alt"}
  PermPats = {"id"}
  IntPerms = {"append"}
  SibOpts = {"LR"}
  LsnClasses = {"4294967297"}
  KeyClasses = {"small"}
  StaleOpts = {FALSE, TRUE}
  UpdFrom = {0, 1, 399, 400}
  SmallN = 2
  MaxOps = 3
  MaxUpd = 1
  EmitOn = TRUE
INIT MCInit
NEXT MCNext
VIEW View
ACTION_CONSTRAINT Emit
INVARIANTS OnePageEach CacheOK FetchReturnsRegister FetchIsLastStored
PROPERTIES OthersUndisturbed ReadsChangeNothing
CHECK_DEADLOCK FALSE
