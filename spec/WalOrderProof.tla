---------------------------- MODULE WalOrderProof ----------------------------
(* The three guarantees of WalOrder follow from the discipline for ANY      *)
(* number of pages, LSNs, statements, flushes, crashes and recoveries: they *)
(* are consequences of an inductive invariant of WalOrder's unbounded       *)
(* next-state relation.  TLC checks the same on bounded instances           *)
(* (WalOrderMC) and on every recorded trace; this proof (TLAPS) removes the *)
(* bound.                                                                   *)
EXTENDS WalOrder, TLAPS

Next == \/ \E k \in DML \cup {"create"} : Begin(k)
        \/ SharedLock \/ LogSync \/ SharedUnlock \/ Aborted \/ ExclusiveLock \/ ExclusiveUnlock \/ Recovered
        \/ \E p \in Nat, n \in Nat : Stamp(p, n) \/ WritePage(p, n) \/ WritePageFails(p, n)
        \/ \E n \in Nat : LogAppend(n)
        \/ \E ok \in BOOLEAN : Result(ok)
        \/ \E n \in Nat, x \in Nat : WriteHeader(n, x)
        \/ \E m \in Nat : Crash(m)
Spec == WoInit /\ [][Next]_woVars

Types == /\ maxLogged \in Nat
         /\ \A p \in DOMAIN disk : disk[p] \in Nat
Inv == /\ Types
       /\ WriteAhead
       /\ inRec => kind = "none"
       \* the header written by the last complete flush covers the file until the next flush starts writing
       /\ hdrDone = "yes" => (\A p \in DOMAIN disk : p < hdrNx /\ disk[p] < hdrNext)
       \* outside recovery only an announced writing statement has stamps of its own
       /\ (kind \in {"none", "read"} /\ ~inRec) => stamped = {}

LEMMA PutLemma == ASSUME NEW f, NEW k, NEW v
                  PROVE  /\ DOMAIN Put(f, k, v) = DOMAIN f \cup {k}
                         /\ Put(f, k, v)[k] = v
                         /\ \A x \in DOMAIN f : x # k => Put(f, k, v)[x] = f[x]
  BY DEF Put

THEOREM InitInv == WoInit => Inv
  BY DEF WoInit, Inv, Types, WriteAhead

THEOREM StepInv == Inv /\ [Next]_woVars => Inv'
<1> SUFFICES ASSUME Inv, [Next]_woVars PROVE Inv'
  OBVIOUS
<1> USE DEF Inv, Types, WriteAhead, DML
<1>1. CASE UNCHANGED woVars
  BY <1>1 DEF woVars
<1>2. ASSUME NEW k \in DML \cup {"create"}, Begin(k) PROVE Inv'
  BY <1>2 DEF Begin
<1>3. CASE SharedLock
  BY <1>3 DEF SharedLock
<1>4. CASE LogSync
  BY <1>4 DEF LogSync, woVars
<1>5. CASE SharedUnlock
  BY <1>5 DEF SharedUnlock
<1>6. CASE Aborted
  BY <1>6 DEF Aborted
<1>7. CASE ExclusiveLock
  BY <1>7 DEF ExclusiveLock
<1>8. CASE ExclusiveUnlock
  BY <1>8 DEF ExclusiveUnlock
<1>9. CASE Recovered
  BY <1>9 DEF Recovered
<1>10. ASSUME NEW p \in Nat, NEW n \in Nat, Stamp(p, n) PROVE Inv'
  BY <1>10 DEF Stamp
<1>11. ASSUME NEW p \in Nat, NEW n \in Nat, WritePage(p, n) PROVE Inv'
  <2>1. disk' = Put(disk, p, n) /\ Covered(n) /\ UNCHANGED <<kind, inRec, stamped, maxLogged, unlogged>>
    BY <1>11 DEF WritePage
  <2>2. DOMAIN disk' = DOMAIN disk \cup {p} /\ disk'[p] = n /\ \A x \in DOMAIN disk : x # p => disk'[x] = disk[x]
    BY <2>1, PutLemma
  <2>3. hdrDone' = "no"
    BY <1>11 DEF WritePage
  <2> QED BY <2>1, <2>2, <2>3 DEF Covered
<1>12. ASSUME NEW p \in Nat, NEW n \in Nat, WritePageFails(p, n) PROVE Inv'
  BY <1>12 DEF WritePageFails
<1>13. ASSUME NEW n \in Nat, LogAppend(n) PROVE Inv'
  BY <1>13 DEF LogAppend
<1>14. ASSUME NEW ok \in BOOLEAN, Result(ok) PROVE Inv'
  BY <1>14 DEF Result
<1>15. ASSUME NEW n \in Nat, NEW x \in Nat, WriteHeader(n, x) PROVE Inv'
  BY <1>15 DEF WriteHeader
<1>16. ASSUME NEW m \in Nat, Crash(m) PROVE Inv'
  BY <1>16 DEF Crash
<1> QED BY <1>1, <1>2, <1>3, <1>4, <1>5, <1>6, <1>7, <1>8, <1>9, <1>10, <1>11, <1>12, <1>13, <1>14, <1>15, <1>16 DEF Next

THEOREM Guarantees == Spec => [](WriteAhead /\ HeaderCovers /\ NoOrphanStamp)
<1>1. Inv => WriteAhead /\ HeaderCovers /\ NoOrphanStamp
  BY DEF Inv, HeaderCovers, NoOrphanStamp
<1> QED BY InitInv, StepInv, <1>1, PTL DEF Spec
=============================================================================
