------------------------------- MODULE Locks -------------------------------
(* The locking protocol between the session goroutine and the background    *)
(* flusher (fileStore.mtx, RelationService.StartTxn/EndTxn, flushPages).    *)
(*                                                                          *)
(* A statement takes the store's lock shared, changes cached pages, appends *)
(* its records to the log, releases the lock.  A flush - started by the     *)
(* 100 ms ticker goroutine "F", or by the session goroutine "S" itself at   *)
(* the end of CREATE TABLE - announces itself (try), takes the lock         *)
(* exclusively, writes dirty pages and the header, releases.                *)
(* One action per linearization point; each has a hook in the code.         *)
EXTENDS Integers, FiniteSets, TLC

Kinds == {"create", "insert", "update", "delete", "select"}
G == {"S", "F"}            \* goroutines: session, flusher

VARIABLES stmt,    \* "none" or the kind of the statement in progress
          inS,     \* the session holds the lock shared
          took,    \* the statement in progress has held the lock
          changed, \* the statement has changed a page
          logged,  \* the statement has completed a log append since its last change
          writer,  \* "none" or the goroutine holding the lock exclusively
          tried    \* goroutines that announced a flush and wait for the lock
lockVars == <<stmt, inS, took, changed, logged, writer, tried>>

LInit == stmt = "none" /\ inS = FALSE /\ took = FALSE /\ changed = FALSE /\ logged = FALSE /\ writer = "none" /\ tried = {}

Begin(k)  == stmt = "none" /\ stmt' = k /\ took' = FALSE /\ changed' = FALSE /\ logged' = FALSE /\ UNCHANGED <<inS, writer, tried>>
\* a statement takes the lock once: having released it, it is over (a statement that gives the lock up half-way and takes it
\* again shows the flusher - and a crash - a state between two of its rows)
SLock     == stmt # "none" /\ ~inS /\ ~took /\ writer = "none" /\ inS' = TRUE /\ took' = TRUE /\ UNCHANGED <<stmt, changed, logged, writer, tried>>
\* a page is changed only while the lock is held
Change    == inS /\ stmt # "select" /\ changed' = TRUE /\ logged' = FALSE /\ UNCHANGED <<stmt, inS, took, writer, tried>>
\* one write call on the log; the append is complete at its fsync
WalWrite(sync) == inS /\ stmt \in {"insert", "update", "delete"} /\ logged' = (sync \/ logged) /\ UNCHANGED <<stmt, inS, took, changed, writer, tried>>
\* the lock is released only when every change has been logged (DML)
SUnlock   == inS /\ ((stmt \in {"insert", "update", "delete"} /\ changed) => logged) /\ inS' = FALSE /\ UNCHANGED <<stmt, took, changed, logged, writer, tried>>
\* a statement ends outside the lock, having held it, and not while its own flush is in progress
End       == stmt # "none" /\ ~inS /\ took /\ writer # "S" /\ "S" \notin tried /\ stmt' = "none" /\ UNCHANGED <<inS, took, changed, logged, writer, tried>>

XTry(g)   == g \notin tried /\ writer # g /\ (g = "S" => (stmt = "create" /\ ~inS)) /\ tried' = tried \cup {g} /\ UNCHANGED <<stmt, inS, took, changed, logged, writer>>
XLock(g)  == g \in tried /\ writer = "none" /\ ~inS /\ writer' = g /\ tried' = tried \ {g} /\ UNCHANGED <<stmt, inS, took, changed, logged>>
Write(g)  == writer = g /\ UNCHANGED lockVars       \* a page or the header goes to the data file
XUnlock(g) == writer = g /\ writer' = "none" /\ UNCHANGED <<stmt, inS, took, changed, logged, tried>>

LNext == \/ \E k \in Kinds : Begin(k)
         \/ SLock \/ Change \/ WalWrite(TRUE) \/ WalWrite(FALSE) \/ SUnlock \/ End
         \/ \E g \in G : XTry(g) \/ XLock(g) \/ Write(g) \/ XUnlock(g)

-----------------------------------------------------------------------------
(* C13 *)
\* the window of a statement: from its first change to the completion of its log append
\* (CREATE TABLE has no log append: its window ends when it releases the lock)
WindowOpen == changed /\ ((stmt \in {"insert", "update", "delete"} /\ ~logged) \/ (stmt = "create" /\ inS))
Excl == writer # "none" => ~inS
NoWriteInsideStmt == writer # "none" => ~WindowOpen
\* a DML statement does not release the lock with unlogged changes
LoggedBeforeUnlock == [][(inS /\ ~inS' /\ stmt \in {"insert", "update", "delete"} /\ changed) => logged]_lockVars
=============================================================================
