INIT LInit
NEXT LNext
INVARIANTS Excl NoWriteInsideStmt
PROPERTIES LoggedBeforeUnlock
CHECK_DEADLOCK FALSE
