\* C10 quick: one scenario (ast, toks) per complete derivation of the Q universe
\* (written from tools/sqlfe_lib.py cfg(); the checks generate the same text per tier at run time)
CONSTANTS
  Tables <- MC_Tables
  Cols <- MC_Cols
  VarcharLens <- MC_VarcharLens
  BaseTable = "t1"
  Aliases <- MC_Aliases
  BigInts <- MC_BigInts
  ColPool <- MC_ColPool_Q
  CondPool <- MC_CondPool_Q
  Dbs <- MC_Dbs
  IntLits <- MC_IntLits
  ItemPool <- MC_ItemPool_Q
  JoinTblPool <- MC_JoinTblPool
  LeafPool <- MC_LeafPool_Q
  LeafSet <- MC_LeafSet_Q
  LimVals <- MC_LimVals
  LitPool <- MC_LitPool
  QuotedIdents <- MC_QuotedIdents
  StrLits <- MC_StrLits
  TrickyStrs <- MC_TrickyStrs
  UniIdents <- MC_UniIdents
  UniStrs <- MC_UniStrs
  MaxDefs = 4
  MaxGroup = 3
  MaxItems = 3
  MaxJoins = 2
  MaxLeaves = 3
  MaxOrder = 3
  MaxRows = 3
  MaxSet = 3
  MaxVals = 3
  Slices <- MC_AllSlices
  Stmts <- MC_None
  Vocab <- MC_None
  Vocab2 <- MC_None
  MaxJunk = 0
  MaxTail = 99
  JunkAtEndOnly = FALSE
  EmitMode = "full"
INIT GenPick
NEXT GenNextComplete
VIEW View
ACTION_CONSTRAINT Emit
INVARIANTS GrammarUsesOnly
CHECK_DEADLOCK FALSE
