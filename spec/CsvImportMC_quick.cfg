CONSTANTS
  Schema = <<"int", "bigint", "varchar", "boolean">>
  Src = <<0, 1, 2, 3>>
  Dst = <<1, 2, 3, 4>>
  NFields = 4
  Wide = FALSE
  MaxRecs = 2
  Sep = ","
  EmitOn = TRUE
INIT MCInit
NEXT MCNext
ACTION_CONSTRAINT Emit
INVARIANTS Meaning NullOnlyFromMarker TaintExact
PROPERTIES ErrChangesNothing OkAddsOneRow
CHECK_DEADLOCK FALSE
