------------------------------ MODULE StmtGen ------------------------------
(* C18: the space of statements that parse but may be ill-typed, and the     *)
(* session states they are run in.  The postcondition is the weakest one:    *)
(* a result or an error value - never a panic, never a hang.  As for C05-C07 *)
(* TLC enumerates the component sets; the check runs every element of every  *)
(* component at least once and a seeded sample of the product, in each       *)
(* session state.                                                            *)
EXTENDS SqlSemGen

\* all four column types, NULL-bearing rows
Cols8 == << [n |-> "a", ty |-> "i"], [n |-> "s", ty |-> "s"], [n |-> "c", ty |-> "b"], [n |-> "g", ty |-> "I"] >>
Rows8 == { <<IntV(1), StrV(<<A>>), BoolV(TRUE), IntV(7)>>, <<Null, StrV(<<B>>), BoolV(FALSE), Null>>,
           <<IntV(2), Null, Null, IntV(9)>>, <<IntV(2), StrV(<<A, B>>), BoolV(TRUE), IntV(7)>> }
Tables8 == {[cols |-> Cols8, rows |-> r] : r \in {<<>>} \cup {<<r1, r2>> : r1 \in Rows8, r2 \in Rows8} \cup {<<r1, r2, r3>> : r1 \in Rows8, r2 \in Rows8, r3 \in {<<Null, StrV(<<B>>), BoolV(FALSE), Null>>}}}

Names8 == {"a", "s", "c", "g", "zz"}         \* zz does not exist
Quals8 == {"", "t8", "u"}                    \* u is not a table of the query
Lits8 == {IntV(1), StrV(<<A>>), BoolV(TRUE)}
Operands8 == {Col(q, c) : q \in {"", "t8"}, c \in Names8} \cup {Lit(v) : v \in Lits8}
Cmps8 == {Cmp(l, op, r) : l \in Operands8, op \in Ops, r \in {Col("", "a"), Col("", "s"), Col("", "c"), Lit(IntV(1)), Lit(StrV(<<A>>)), Lit(BoolV(TRUE))}}
Wheres8 == {<<>>} \cup {<< <<c>> >> : c \in Cmps8}
           \cup {<< <<c>>, <<d>> >> : c \in {Cmp(Col("", "a"), "<", Lit(StrV(<<A>>))), Cmp(Col("", "s"), "=", Lit(IntV(1)))}, d \in {Cmp(Col("", "c"), ">", Lit(BoolV(TRUE))), Cmp(Lit(IntV(1)), "=", Lit(IntV(1)))}}
Items8 == {Star} \cup {ColItem(q, c, al) : q \in Quals8, c \in Names8, al \in {"", "x"}}
          \cup {Item(k, Ref(q, c), NoCmp, "") : k \in {"countcol", "avg"}, q \in {"", "t8"}, c \in Names8}
          \cup {Item("count", Ref("", ""), NoCmp, "")}
          \cup {Item("cmp", Ref("", ""), c, "e") : c \in {Cmp(Col("", "a"), "<", Col("", "s")), Cmp(Col("", "g"), "=", Lit(IntV(7))), Cmp(Col("", "c"), ">=", Lit(BoolV(FALSE))), Cmp(Col("", "zz"), "=", Lit(IntV(1)))}}
Lists8 == {<<i>> : i \in Items8} \cup {<<i, j>> : i \in Items8 \ {Star}, j \in {ColItem("", "a", ""), ColItem("", "s", "x"), Item("avg", Ref("", "g"), NoCmp, ""), Item("count", Ref("", ""), NoCmp, "")}}
Orders8 == {<<>>} \cup {<<Ord(q, c, d)>> : q \in {"", "t8"}, c \in Names8 \cup {"x", "e"}, d \in {"asc", "desc"}}
           \cup {<<Ord("", "a", "asc"), Ord("", "s", "desc")>>, <<Ord("", "c", "desc"), Ord("", "g", "asc")>>}
\* two sort keys, every pair of columns: rows that tie on the first key are compared on the second, which may hold a NULL
\* in either of them (run against every table, see check_c18)
Orders8Pairs == {<<Ord("", c1, d), Ord("", c2, "asc")>> : c1 \in {"a", "s", "c", "g"}, c2 \in {"a", "s", "c", "g"}, d \in {"asc", "desc"}}
Groups8 == {<<>>} \cup {<<Ref(q, c)>> : q \in {"", "t8"}, c \in Names8 \cup {"x"}} \cup {<<Ref("", "a"), Ref("", "s")>>}
Froms8 == {<<From1("t8", "")>>, <<From1("t8", "t8")>>, <<From1("nosuch", "")>>,
           <<From1("t8", ""), [tbl |-> "t8", alias |-> "u", jt |-> "left", on |-> << <<Cmp(Col("t8", "a"), "=", Col("u", "g"))>> >>]>>,
           <<From1("t8", ""), [tbl |-> "t8", alias |-> "u", jt |-> "inner", on |-> << <<Cmp(Col("", "a"), "=", Col("u", "s"))>> >>]>>,
           <<From1("t8", ""), [tbl |-> "nosuch", alias |-> "", jt |-> "right", on |-> << <<Cmp(Col("t8", "a"), "=", Lit(IntV(1)))>> >>]>>}

\* data-changing statements: [k, t, cols, vals, where]
DmlVals == {IntV(1), StrV(<<A>>), BoolV(TRUE), IntV(77)}
Dmls8 == {[k |-> "insert", t |-> t, cols |-> cs, vals |-> vs, where |-> <<>>] :
             t \in {"t8", "nosuch"}, cs \in {<<>>, <<"a">>, <<"s", "c">>, <<"zz">>, <<"a", "a">>}, vs \in {<<v>> : v \in DmlVals} \cup {<<v, w>> : v \in DmlVals, w \in {BoolV(TRUE), StrV(<<A>>)}} \cup {<<IntV(1), StrV(<<A>>), BoolV(TRUE), IntV(7)>>}}
         \cup {[k |-> "update", t |-> t, cols |-> <<c>>, vals |-> <<v>>, where |-> w] :
                 t \in {"t8", "nosuch"}, c \in Names8, v \in DmlVals, w \in {<<>>, << <<Cmp(Col("", "a"), "=", Lit(IntV(1)))>> >>, << <<Cmp(Col("", "s"), "<", Lit(IntV(1)))>> >>, << <<Cmp(Col("", "zz"), "=", Lit(IntV(1)))>> >>}}
         \cup {[k |-> "delete", t |-> t, cols |-> <<>>, vals |-> <<>>, where |-> w] :
                 t \in {"t8", "nosuch"}, w \in {<<>>} \cup {<< <<c>> >> : c \in {Cmp(Col("", "a"), op, r) : op \in Ops, r \in {Lit(StrV(<<A>>)), Col("", "s"), Lit(IntV(1))}} \cup {Cmp(Col("", "c"), "<", Lit(BoolV(TRUE))), Cmp(Col("", "zz"), "=", Lit(IntV(1)))}}}
         \* column "c" is declared VARCHAR(2147483648): its length does not fit the catalog's INT column, so the statement
         \* is refused after it started; whatever follows it in the session must still get an answer
         \cup {[k |-> "create", t |-> t, cols |-> cs, vals |-> <<>>, where |-> <<>>] : t \in {"t8", "t9"}, cs \in {<<"a">>, <<"a", "a">>, <<"a", "b">>, <<"a", "c">>, <<"c">>}}
\* data-changing statements aimed at the catalog tables the engine keeps inside every database (the same SQL that reads them
\* - SELECT ... FROM sys_pages - is part of the documented surface): "any statement that parses, against any database state"
\* includes these, and the states they leave behind.  As texts (TLC concatenates strings).
CatNames == {"zz", "t8"}
CatWheres == {"", " WHERE table_name = 't8'", " WHERE table_name = 'sys_pages'", " WHERE table_name = 'sys_schema'"}
CatDmls8 ==
  {"INSERT INTO sys_pages (table_name) VALUES ('" \o n \o "')" : n \in CatNames}
  \cup {"INSERT INTO sys_pages (table_name, file_offset) VALUES ('" \o n \o "', " \o o \o ")" : n \in CatNames, o \in {"0", "4096", "8192", "123", "999999", "-4096"}}
  \cup {"INSERT INTO sys_schema (table_name, field_name, field_type) VALUES ('" \o n \o "', '" \o f \o "', " \o ty \o ")" : n \in CatNames, f \in {"a", "q"}, ty \in {"0", "9"}}
  \cup {"INSERT INTO sys_schema (table_name) VALUES ('t8')", "INSERT INTO sys_schema (field_name) VALUES ('q')"}
  \cup {"UPDATE sys_pages SET " \o su \o w : su \in {"file_offset = 0", "file_offset = 4096", "file_offset = 123", "file_offset = 999999", "table_name = 'zz'", "table_name = 'sys_schema'"}, w \in CatWheres}
  \cup {"UPDATE sys_schema SET " \o su \o w : su \in {"field_type = 9", "field_type = 1", "field_name = 'a'", "table_name = 'zz'", "field_length = -1"}, w \in CatWheres}
  \cup {"DELETE FROM " \o t \o w : t \in {"sys_pages", "sys_schema"}, w \in CatWheres}
\* ... each followed, in the same session, by statements that read and write through the catalog
CatProbes8 == <<"SELECT * FROM t8", "SELECT * FROM zz", "SELECT a FROM t8 WHERE a = 1", "INSERT INTO t8 (a) VALUES (1)", "UPDATE t8 SET a = 2",
                "DELETE FROM t8 WHERE a = 2", "CREATE TABLE t9 (a INT)", "INSERT INTO t9 VALUES (1)", "SELECT * FROM t9", "INSERT INTO zz VALUES (1)",
                "SELECT * FROM sys_pages", "SELECT * FROM sys_schema">>
\* degenerate shapes the parser accepts: a table without columns (rows without values), joined to an ordinary one;
\* an INSERT without any row.  One session, in this order.
Degenerate8 == <<"CREATE TABLE v ()", "INSERT INTO v VALUES (), ()", "SELECT * FROM v", "SELECT * FROM t8 JOIN v ON 1 = 1", "SELECT g FROM t8 JOIN v ON 1 = 1",
                 "SELECT c, g FROM v JOIN t8 ON 1 = 1", "SELECT g FROM t8 LEFT JOIN v ON 1 = 1", "SELECT g FROM v RIGHT JOIN t8 ON 1 = 1",
                 "SELECT count(g) FROM t8 JOIN v ON 1 = 1", "SELECT s, avg(g) FROM t8 JOIN v ON 1 = 1 GROUP BY s", "SELECT g FROM t8 JOIN v ON 1 = 1 WHERE a = 1 ORDER BY g",
                 "SELECT count(*) FROM v", "UPDATE v SET a = 1", "DELETE FROM v", "INSERT INTO v VALUES ()", "SELECT * FROM v JOIN v w ON 1 = 1",
                 "INSERT INTO t8 VALUES", "INSERT INTO t8 (a, s) VALUES", "INSERT INTO t8 () VALUES", "INSERT INTO nosuch VALUES", "INSERT INTO v VALUES",
                 "SELECT * FROM t8",
                 \* outer joins of tables of different widths with unmatched rows on either side (the NULL padding has the
                 \* width of the OTHER table), every clause reaching for the last column
                 "CREATE TABLE n1 (k INT)", "INSERT INTO n1 VALUES (1), (55)",
                 "SELECT * FROM t8 RIGHT JOIN n1 ON t8.a = n1.k", "SELECT k, g FROM t8 RIGHT JOIN n1 ON t8.a = n1.k", "SELECT g, k FROM n1 RIGHT JOIN t8 ON n1.k = t8.a",
                 "SELECT * FROM n1 LEFT JOIN t8 ON n1.k = t8.a", "SELECT g FROM n1 LEFT JOIN t8 ON n1.k = t8.a WHERE k = 55", "SELECT k FROM t8 LEFT JOIN n1 ON t8.a = n1.k ORDER BY k",
                 "SELECT count(k), count(g) FROM t8 RIGHT JOIN n1 ON t8.a = n1.k", "SELECT k, count(g) FROM t8 RIGHT JOIN n1 ON t8.a = n1.k GROUP BY k",
                 "SELECT k FROM t8 RIGHT JOIN n1 ON t8.a = n1.k WHERE g = 7 ORDER BY k DESC", "SELECT * FROM t8 RIGHT JOIN n1 ON t8.a = n1.k RIGHT JOIN t8 u ON u.a = n1.k",
                 "SELECT u.g, n1.k FROM n1 LEFT JOIN t8 u ON u.a = n1.k LEFT JOIN n1 m ON m.k = u.g">>
\* LIMIT / OFFSET values incl. the largest integer the parser accepts (code -2; TLC integers are 32 bit)
LimOffs8 == LimOffs \cup {[limit |-> -2, offset |-> o] : o \in {-1, 0, 1, 5}} \cup {[limit |-> l, offset |-> -2] : l \in {-1, 1}}

ASSUME /\ Out("tables8", Tables8) /\ Out("wheres8", Wheres8) /\ Out("lists8", Lists8) /\ Out("orders8", Orders8)
       /\ Out("groups8", Groups8) /\ Out("froms8", Froms8) /\ Out("dmls8", Dmls8) /\ Out("limoffs8", LimOffs8)
       /\ Out("orders8pairs", Orders8Pairs) /\ Out("catdmls8", CatDmls8) /\ Out("catprobes8", {CatProbes8}) /\ Out("degenerate8", {Degenerate8})
=============================================================================
