----------------------------- MODULE SqlSemGen -----------------------------
(* The bounded input spaces of C05 / C06 / C07 as TLA+ sets, enumerated by  *)
(* TLC and printed as JSON (one line per component set).  A test case is a  *)
(* database plus a query assembled from one element of each component; the *)
(* checks run every element of every component at least once and a seeded  *)
(* sample of the product.                                                   *)
EXTENDS SqlSem, Json

VARIABLE x

A == 97  B == 98
Ref(q, c) == [q |-> q, c |-> c]
Col(q, c) == [k |-> "col", q |-> q, c |-> c, val |-> Null]
Lit(v) == [k |-> "lit", q |-> "", c |-> "", val |-> v]
Cmp(l, op, r) == [l |-> l, op |-> op, r |-> r]
NoCmp == Cmp(Lit(Null), "=", Lit(Null))
Item(k, ref, cmp, alias) == [k |-> k, ref |-> ref, cmp |-> cmp, alias |-> alias]
ColItem(q, c, alias) == Item("col", Ref(q, c), NoCmp, alias)
Star == Item("star", Ref("", ""), NoCmp, "")
Ord(q, c, dir) == [q |-> q, c |-> c, dir |-> dir]
From1(t, alias) == [tbl |-> t, alias |-> alias, jt |-> "", on |-> <<>>]
Ops == {"=", "!=", "<", "<=", ">", ">="}
SeqsUpTo(S, n) == UNION {[1..k -> S] : k \in 0..n}

\* ------------------------------------------------------------------ C05
Cols5 == << [n |-> "a", ty |-> "i"], [n |-> "s", ty |-> "s"], [n |-> "c", ty |-> "b"], [n |-> "g", ty |-> "I"] >>
Rows5 == {<<IntV(a), StrV(s), BoolV(c), IntV(a + 5)>> : a \in {1, 2}, s \in {<<A>>, <<A, B>>}, c \in BOOLEAN}
Tables5 == {[cols |-> Cols5, rows |-> r] : r \in SeqsUpTo(Rows5, 2)}
           \cup {[cols |-> Cols5, rows |-> <<r1, r2, r1>>] : r1 \in Rows5, r2 \in Rows5}
Cmps5 == {Cmp(Col("", "a"), op, Lit(IntV(n))) : op \in Ops, n \in {1, 2}}
         \cup {Cmp(Col("", "s"), op, Lit(StrV(<<A, B>>))) : op \in Ops}
         \cup {Cmp(Col("", "c"), op, Lit(BoolV(TRUE))) : op \in {"=", "!="}}
         \cup {Cmp(Lit(IntV(7)), op, Col("", "g")) : op \in {"<", ">=", "="}}
         \cup {Cmp(Col("t5", "a"), "<", Col("", "g"))}
Core5 == {Cmp(Col("", "a"), "=", Lit(IntV(1))), Cmp(Col("", "s"), ">", Lit(StrV(<<A>>))), Cmp(Col("", "c"), "=", Lit(BoolV(TRUE))),
          Cmp(Col("", "a"), ">=", Lit(IntV(2))), Cmp(Col("", "g"), "!=", Lit(IntV(6)))}
Wheres5 == {<<>>} \cup {<< <<c>> >> : c \in Cmps5}
           \cup {<< <<c, d>> >> : c \in Cmps5, d \in Core5} \cup {<< <<c>>, <<d>> >> : c \in Cmps5, d \in Core5}
           \cup {<< <<c, d>>, <<e>> >> : c \in Core5, d \in Core5, e \in Core5}      \* c AND d OR e
           \cup {<< <<c>>, <<d, e>> >> : c \in Core5, d \in Core5, e \in Core5}      \* c OR d AND e
           \cup {<< <<c, d, e>> >> : c \in Core5, d \in Core5, e \in Core5}
           \cup {<< <<c>>, <<d>>, <<e>> >> : c \in Core5, d \in Core5, e \in Core5}
\* select lists with the ORDER BY clauses that may follow them
ListOrders5 ==
  {[list |-> <<Star>>, order |-> o] :
      o \in {<<>>, <<Ord("", "a", "asc")>>, <<Ord("", "a", "desc")>>, <<Ord("", "s", "asc"), Ord("", "a", "desc")>>,
             <<Ord("", "c", "desc"), Ord("", "s", "asc")>>, <<Ord("t5", "g", "desc")>>}}
  \cup {[list |-> <<ColItem("", "a", "")>>, order |-> o] : o \in {<<>>, <<Ord("", "a", "desc")>>}}
  \cup {[list |-> <<ColItem("", "s", ""), ColItem("", "a", "")>>, order |-> o] : o \in {<<>>, <<Ord("", "s", "desc"), Ord("", "a", "asc")>>}}
  \cup {[list |-> <<ColItem("", "a", "x"), ColItem("t5", "s", "")>>, order |-> o] : o \in {<<>>, <<Ord("", "x", "asc")>>, <<Ord("", "s", "desc")>>}}
  \cup {[list |-> <<Item("cmp", Ref("", ""), Cmp(Col("", "a"), "=", Lit(IntV(1))), "e"), ColItem("", "g", "")>>, order |-> o] :
           o \in {<<>>, <<Ord("", "g", "desc")>>, <<Ord("", "e", "asc"), Ord("", "g", "asc")>>}}
  \cup {[list |-> <<ColItem("", "c", ""), Item("cmp", Ref("", ""), Cmp(Col("", "s"), "<", Lit(StrV(<<A, B>>))), ""), ColItem("", "a", "")>>, order |-> <<>>]}
LimOffs == {[limit |-> l, offset |-> o] : l \in {-1, 0, 1, 2, 5}, o \in {-1, 0, 1, 2, 5}}

\* ------------------------------------------------------------------ C06
ColsL == << [n |-> "id", ty |-> "i"], [n |-> "k", ty |-> "i"] >>
ColsR == << [n |-> "k", ty |-> "i"], [n |-> "w", ty |-> "s"] >>
ColsZ == << [n |-> "z", ty |-> "i"], [n |-> "w", ty |-> "s"] >>
RowsL == {<<IntV(i), IntV(k)>> : i \in {1, 2}, k \in {1, 2, 3}}
RowsR == {<<IntV(k), StrV(w)>> : k \in {1, 2, 4}, w \in {<<A>>, <<B>>}}
RowsZ == {<<IntV(z), StrV(w)>> : z \in {1, 2}, w \in {<<A>>, <<B>>}}
Dbs6 == {[l |-> [cols |-> ColsL, rows |-> rl], r |-> [cols |-> ColsR, rows |-> rr], z |-> [cols |-> ColsZ, rows |-> rz]] :
            rl \in SeqsUpTo(RowsL, 2), rr \in SeqsUpTo(RowsR, 2), rz \in {<<>>, <<<<IntV(1), StrV(<<A>>)>>>>, <<<<IntV(2), StrV(<<B>>)>>, <<IntV(1), StrV(<<A>>)>>>>}}
JTs == {"inner", "left", "right"}
OnLR == { << <<Cmp(Col("l", "k"), "=", Col("r", "k"))>> >>,
          << <<Cmp(Col("l", "k"), "=", Col("r", "k")), Cmp(Col("l", "id"), "<", Lit(IntV(2)))>> >>,
          << <<Cmp(Col("l", "id"), "<=", Col("r", "k"))>> >>,
          << <<Cmp(Col("l", "k"), "=", Col("r", "k"))>>, <<Cmp(Col("", "id"), "=", Lit(IntV(2)))>> >> }
OnZ == { << <<Cmp(Col("r", "w"), "=", Col("z", "w"))>> >>, << <<Cmp(Col("l", "id"), "=", Col("", "z"))>> >> }
Froms6 == {<<From1("l", ""), [tbl |-> "r", alias |-> "", jt |-> jt, on |-> on]>> : jt \in JTs, on \in OnLR}
          \cup {<<From1("l", ""), [tbl |-> "r", alias |-> "", jt |-> j1, on |-> on], [tbl |-> "z", alias |-> "", jt |-> j2, on |-> on2]>> :
                   j1 \in JTs, j2 \in JTs, on \in {<< <<Cmp(Col("l", "k"), "=", Col("r", "k"))>> >>}, on2 \in OnZ}
\* aliases: the alias replaces the table name; the same table twice under two aliases
FromsAlias6 == {<<From1("l", "x"), [tbl |-> "l", alias |-> "y", jt |-> jt, on |-> << <<Cmp(Col("x", "k"), op, Col("y", "id"))>> >>]>> : jt \in JTs, op \in {"=", "<"}}
               \cup {<<From1("l", "x"), [tbl |-> "r", alias |-> "", jt |-> jt, on |-> << <<Cmp(Col("x", "k"), "=", Col("r", "k"))>> >>]>> : jt \in JTs}
Lists6 == {<<Star>>, <<ColItem("l", "id", ""), ColItem("r", "w", "")>>, <<ColItem("", "id", ""), ColItem("r", "k", "rk")>>,
           <<ColItem("", "k", "")>>,                \* ambiguous over l and r: must be refused
           <<ColItem("", "w", ""), ColItem("l", "k", "")>>}   \* ambiguous only when z is joined too
ListsAlias6 == {<<Star>>, <<ColItem("x", "id", ""), ColItem("y", "k", "")>>, <<ColItem("x", "k", "a"), ColItem("x", "id", "")>>,
                <<ColItem("l", "id", "")>>}        \* the table name is hidden by its alias
Wheres6 == {<<>>, << <<Cmp(Col("l", "id"), "=", Lit(IntV(1)))>> >>, << <<Cmp(Col("", "id"), ">", Lit(IntV(1)))>> >>}

\* ------------------------------------------------------------------ C07
Cols7 == << [n |-> "p", ty |-> "i"], [n |-> "q", ty |-> "i"], [n |-> "m", ty |-> "i"], [n |-> "n", ty |-> "i"] >>
\* grouping values that collide when printed and concatenated: (1,23) vs (12,3); measures with NULLs
Rows7 == {<<IntV(p[1]), IntV(p[2]), IntV(m), n>> : p \in {<<1, 23>>, <<12, 3>>, <<1, 2>>}, m \in {0, 1, 2, 101}, n \in {Null, IntV(3)}}
Tables7 == {[cols |-> Cols7, rows |-> r] : r \in SeqsUpTo(Rows7, 2)}
           \cup {[cols |-> Cols7, rows |-> <<r1, r2, r3>>] : r1 \in Rows7, r2 \in {<<IntV(1), IntV(23), IntV(0), Null>>, <<IntV(12), IntV(3), IntV(1), IntV(3)>>},
                     r3 \in {<<IntV(1), IntV(23), IntV(1), IntV(3)>>, <<IntV(1), IntV(2), IntV(0), Null>>}}
           \cup {[cols |-> Cols7, rows |-> [i \in 1..4 |-> <<IntV(1), IntV(2), IntV(m[i]), Null>>]] : m \in {<<1, 0, 0, 0>>, <<0, 0, 0, 1>>, <<2, 1, 1, 1>>, <<0, 1, 0, 1>>, <<101, 0, 0, 2>>}}
Agg(k, c) == Item(k, Ref("", c), NoCmp, "")
ListGroups7 ==
  {[list |-> <<Agg("count", "")>>, group |-> <<>>], [list |-> <<Agg("avg", "m"), Agg("countcol", "n")>>, group |-> <<>>],
   [list |-> <<Agg("countcol", "n"), Agg("count", ""), Agg("avg", "m")>>, group |-> <<>>],
   [list |-> <<ColItem("", "p", ""), Agg("count", "")>>, group |-> <<Ref("", "p")>>],
   [list |-> <<Agg("count", ""), ColItem("", "p", "")>>, group |-> <<Ref("", "p")>>],                  \* grouping column not first
   [list |-> <<Agg("avg", "m"), ColItem("", "q", "x")>>, group |-> <<Ref("", "x")>>],                   \* by alias
   [list |-> <<ColItem("t7", "p", ""), Agg("countcol", "n")>>, group |-> <<Ref("", "p")>>],            \* qualified in the list
   [list |-> <<ColItem("t7", "q", ""), Agg("avg", "m")>>, group |-> <<Ref("t7", "q")>>],               \* qualified in both
   [list |-> <<ColItem("", "p", ""), ColItem("", "q", ""), Agg("count", ""), Agg("avg", "m")>>, group |-> <<Ref("", "p"), Ref("", "q")>>],
   [list |-> <<Agg("count", ""), ColItem("", "q", "b"), ColItem("", "p", "a")>>, group |-> <<Ref("", "a"), Ref("", "b")>>],
   [list |-> <<ColItem("", "q", ""), Agg("countcol", "n"), ColItem("", "p", "")>>, group |-> <<Ref("", "q"), Ref("", "p")>>]}
Wheres7 == {<<>>, << <<Cmp(Col("", "m"), "<", Lit(IntV(100)))>> >>, << <<Cmp(Col("", "p"), "=", Lit(IntV(1)))>>, <<Cmp(Col("", "q"), "=", Lit(IntV(3)))>> >>}

Out(name, S) == PrintT(<<"SCN", ToJson([set |-> name, elems |-> SetToSeq(S)])>>)
ASSUME /\ Out("tables5", Tables5) /\ Out("wheres5", Wheres5) /\ Out("listorders5", ListOrders5) /\ Out("limoffs", LimOffs)
       /\ Out("dbs6", Dbs6) /\ Out("froms6", Froms6) /\ Out("fromsalias6", FromsAlias6) /\ Out("lists6", Lists6)
       /\ Out("listsalias6", ListsAlias6) /\ Out("wheres6", Wheres6)
       /\ Out("tables7", Tables7) /\ Out("listgroups7", ListGroups7) /\ Out("wheres7", Wheres7)
Init == x = 0
Next == x' = x
=============================================================================
