----------------------------- MODULE SqlSemGen -----------------------------
(* The bounded input spaces of C05 / C06 / C07 as TLA+ sets, enumerated by  *)
(* TLC and printed as JSON (one line per component set).  A test case is a  *)
(* database plus a query assembled from one element of each component; the *)
(* checks run every element of every component at least once and a seeded  *)
(* sample of the product.                                                   *)
EXTENDS SqlSem, Json

VARIABLE x

A == 97  B == 98
Ref(q, c) == [q |-> q, c |-> c]
Col(q, c) == [k |-> "col", q |-> q, c |-> c, val |-> Null]
Lit(v) == [k |-> "lit", q |-> "", c |-> "", val |-> v]
Cmp(l, op, r) == [l |-> l, op |-> op, r |-> r]
NoCmp == Cmp(Lit(Null), "=", Lit(Null))
Item(k, ref, cmp, alias) == [k |-> k, ref |-> ref, cmp |-> cmp, alias |-> alias]
ColItem(q, c, alias) == Item("col", Ref(q, c), NoCmp, alias)
Star == Item("star", Ref("", ""), NoCmp, "")
Ord(q, c, dir) == [q |-> q, c |-> c, dir |-> dir]
From1(t, alias) == [tbl |-> t, alias |-> alias, jt |-> "", on |-> <<>>]
Ops == {"=", "!=", "<", "<=", ">", ">="}
SeqsUpTo(S, n) == UNION {[1..k -> S] : k \in 0..n}

\* ------------------------------------------------------------------ C05
Cols5 == << [n |-> "a", ty |-> "i"], [n |-> "s", ty |-> "s"], [n |-> "c", ty |-> "b"], [n |-> "g", ty |-> "I"] >>
Rows5 == {<<IntV(a), StrV(s), BoolV(c), IntV(a + 5)>> : a \in {1, 2}, s \in {<<A>>, <<A, B>>}, c \in BOOLEAN}
\* strings that differ only in a run of blanks inside them (and the literals to match): whatever is done to a statement's
\* text on its way to the executor must not touch the inside of a literal
SpStrs5 == {<<A, 32, B>>, <<A, 32, 32, B>>}
RowsSp5 == {<<IntV(a), StrV(s), BoolV(TRUE), IntV(a + 5)>> : a \in {1, 2}, s \in SpStrs5}
Tables5 == {[cols |-> Cols5, rows |-> r] : r \in SeqsUpTo(Rows5, 2)}
           \cup {[cols |-> Cols5, rows |-> <<r1, r2, r1>>] : r1 \in Rows5, r2 \in Rows5}
           \cup {[cols |-> Cols5, rows |-> <<r1, r2, r3>>] : r1 \in RowsSp5, r2 \in RowsSp5, r3 \in RowsSp5}
\* rows with NULLs behind rows without: a NULL column must not show what an earlier row had there
RowsN5 == {<<IntV(a), s, c, IF gn THEN Null ELSE IntV(a + 5)>> : a \in {1, 2}, s \in {Null, StrV(<<A, B>>)}, c \in {Null, BoolV(TRUE)}, gn \in BOOLEAN}
FullRows5 == {<<IntV(1), StrV(<<A, B>>), BoolV(TRUE), IntV(6)>>, <<IntV(2), StrV(<<A>>), BoolV(FALSE), IntV(7)>>}
TablesNull5 == {[cols |-> Cols5, rows |-> <<r1, rn>>] : r1 \in FullRows5, rn \in RowsN5}
               \cup {[cols |-> Cols5, rows |-> <<r1, rn, r2, rm>>] : r1 \in FullRows5, r2 \in FullRows5, rn \in RowsN5,
                                                                   rm \in {<<IntV(1), Null, Null, Null>>, <<IntV(2), Null, BoolV(TRUE), Null>>}}
\* = and != are defined on NULL (NULL equals NULL only); the ordering operators are not, so they stay on the column without NULLs
WheresNull5 == {<<>>, << <<Cmp(Col("", "a"), ">=", Lit(IntV(1)))>> >>, << <<Cmp(Col("", "s"), "=", Lit(StrV(<<A, B>>)))>> >>,
                << <<Cmp(Col("", "s"), "!=", Lit(StrV(<<A, B>>)))>> >>, << <<Cmp(Col("", "c"), "=", Lit(BoolV(TRUE)))>> >>,
                << <<Cmp(Col("", "a"), "=", Lit(IntV(2)))>>, <<Cmp(Col("", "g"), "=", Lit(IntV(6)))>> >>,
                << <<Cmp(Col("", "g"), "!=", Lit(IntV(7))), Cmp(Col("", "s"), "=", Lit(StrV(<<A, B>>)))>> >>}
ListOrdersNull5 == {[list |-> <<Star>>, order |-> <<>>], [list |-> <<Star>>, order |-> <<Ord("", "a", "desc")>>],
                    [list |-> <<ColItem("", "s", ""), ColItem("", "a", "")>>, order |-> <<>>],
                    [list |-> <<ColItem("", "g", ""), ColItem("", "c", ""), ColItem("", "s", "z")>>, order |-> <<>>],
                    [list |-> <<ColItem("", "a", "x"), ColItem("", "s", "")>>, order |-> <<Ord("", "x", "asc")>>]}
\* strings whose whole content spells a reserved word, an operator or a punctuation mark (true, or, *, a comma, Max, AND, false,
\* null, =, an opening parenthesis, a semicolon, count), as data and as literals: what is inside quotes is text, whatever it spells
KwStrs5 == {<<116, 114, 117, 101>>, <<111, 114>>, <<42>>, <<44>>, <<77, 97, 120>>, <<65, 78, 68>>, <<102, 97, 108, 115, 101>>,
            <<110, 117, 108, 108>>, <<61>>, <<40>>, <<59>>, <<99, 111, 117, 110, 116>>}
TablesKw5 == {[cols |-> Cols5, rows |-> <<<<IntV(1), StrV(s1), BoolV(TRUE), IntV(6)>>, <<IntV(2), StrV(s2), BoolV(FALSE), IntV(7)>>>>] : s1 \in KwStrs5, s2 \in KwStrs5}
WheresKw5 == {<<>>} \cup {<< <<Cmp(Col("", "s"), op, Lit(StrV(k)))>> >> : op \in {"=", "!=", "<"}, k \in KwStrs5}
             \cup {<< <<Cmp(Lit(StrV(k)), "=", Col("", "s")), Cmp(Col("", "a"), "<", Lit(IntV(2)))>> >> : k \in KwStrs5}
ListOrdersKw5 == {[list |-> <<Star>>, order |-> o] : o \in {<<>>, <<Ord("", "s", "asc")>>}}
                 \cup {[list |-> <<Item("cmp", Ref("", ""), Cmp(Lit(StrV(k)), "=", Col("", "s")), "e"), ColItem("", "s", "")>>, order |-> <<>>] : k \in KwStrs5}
Cmps5 == {Cmp(Col("", "a"), op, Lit(IntV(n))) : op \in Ops, n \in {1, 2}}
         \cup {Cmp(Col("", "g"), op, Lit(IntV(8))) : op \in {"<", "!="}}      \* 8: a literal that is no octal number, however it is padded
         \cup {Cmp(Col("", "s"), op, Lit(StrV(<<A, B>>))) : op \in Ops}
         \cup {Cmp(Col("", "s"), op, Lit(StrV(sp))) : op \in {"=", "!=", "<"}, sp \in SpStrs5}
         \cup {Cmp(Col("", "c"), op, Lit(BoolV(TRUE))) : op \in {"=", "!="}}
         \cup {Cmp(Lit(IntV(7)), op, Col("", "g")) : op \in {"<", ">=", "="}}
         \cup {Cmp(Col("t5", "a"), "<", Col("", "g"))}
Core5 == {Cmp(Col("", "a"), "=", Lit(IntV(1))), Cmp(Col("", "s"), ">", Lit(StrV(<<A>>))), Cmp(Col("", "c"), "=", Lit(BoolV(TRUE))),
          Cmp(Col("", "a"), ">=", Lit(IntV(2))), Cmp(Col("", "g"), "!=", Lit(IntV(6)))}
Core4 == {Cmp(Col("", "a"), "=", Lit(IntV(1))), Cmp(Col("", "s"), ">", Lit(StrV(<<A>>))), Cmp(Col("", "c"), "=", Lit(BoolV(TRUE))), Cmp(Col("", "g"), "!=", Lit(IntV(6)))}
\* comparisons without a column (what query builders write): true and false
Const5 == {Cmp(Lit(IntV(1)), "=", Lit(IntV(1))), Cmp(Lit(IntV(1)), "=", Lit(IntV(2)))}
Wheres5 == {<<>>} \cup {<< <<c>> >> : c \in Cmps5}
           \cup {<< <<k>> >> : k \in Const5}
           \cup {<< <<k, d>> >> : k \in Const5, d \in Core5} \cup {<< <<d, k>> >> : k \in Const5, d \in Core5}
           \cup {<< <<k, d>>, <<k, e>> >> : k \in Const5, d \in Core5, e \in Core5} \cup {<< <<k>>, <<d>> >> : k \in Const5, d \in Core5}
           \cup {<< <<c, d>> >> : c \in Cmps5, d \in Core5} \cup {<< <<c>>, <<d>> >> : c \in Cmps5, d \in Core5}
           \cup {<< <<c, d>>, <<e>> >> : c \in Core5, d \in Core5, e \in Core5}      \* c AND d OR e
           \cup {<< <<c>>, <<d, e>> >> : c \in Core5, d \in Core5, e \in Core5}      \* c OR d AND e
           \cup {<< <<c, d, e>> >> : c \in Core5, d \in Core5, e \in Core5}
           \cup {<< <<c>>, <<d>>, <<e>> >> : c \in Core5, d \in Core5, e \in Core5}
           \* four comparisons: a run of three ANDs before / after an OR, two and two
           \cup {<< <<c, d, e>>, <<g>> >> : c \in Core4, d \in Core4, e \in Core4, g \in Core4}
           \cup {<< <<g>>, <<c, d, e>> >> : c \in Core4, d \in Core4, e \in Core4, g \in Core4}
           \cup {<< <<c, d>>, <<e, g>> >> : c \in Core4, d \in Core4, e \in Core4, g \in Core4}
\* select lists with the ORDER BY clauses that may follow them
ListOrders5 ==
  {[list |-> <<Star>>, order |-> o] :
      o \in {<<>>, <<Ord("", "a", "asc")>>, <<Ord("", "a", "desc")>>, <<Ord("", "s", "asc"), Ord("", "a", "desc")>>,
             <<Ord("", "c", "desc"), Ord("", "s", "asc")>>, <<Ord("t5", "g", "desc")>>,
             \* a key listed twice, then a key of the other direction
             <<Ord("", "c", "asc"), Ord("", "c", "asc"), Ord("", "a", "desc")>>, <<Ord("", "g", "desc"), Ord("t5", "g", "desc"), Ord("", "a", "asc")>>}}
  \cup {[list |-> <<ColItem("", "a", "")>>, order |-> o] : o \in {<<>>, <<Ord("", "a", "desc")>>}}
  \cup {[list |-> <<ColItem("", "s", ""), ColItem("", "a", "")>>, order |-> o] : o \in {<<>>, <<Ord("", "s", "desc"), Ord("", "a", "asc")>>}}
  \cup {[list |-> <<ColItem("", "a", "x"), ColItem("t5", "s", "")>>, order |-> o] : o \in {<<>>, <<Ord("", "x", "asc")>>, <<Ord("", "s", "desc")>>}}
  \cup {[list |-> <<Item("cmp", Ref("", ""), Cmp(Col("", "a"), "=", Lit(IntV(1))), "e"), ColItem("", "g", "")>>, order |-> o] :
           o \in {<<>>, <<Ord("", "g", "desc")>>, <<Ord("", "e", "asc"), Ord("", "g", "asc")>>}}
  \cup {[list |-> <<ColItem("", "c", ""), Item("cmp", Ref("", ""), Cmp(Col("", "s"), "<", Lit(StrV(<<A, B>>))), ""), ColItem("", "a", "")>>, order |-> <<>>]}
  \* an aliased column next to an expression over the same column; two columns that take each other's names
  \cup {[list |-> <<ColItem("", "a", "x"), Item("cmp", Ref("", ""), Cmp(Col("", "a"), "=", Lit(IntV(1))), ""), ColItem("", "s", "")>>, order |-> o] :
           o \in {<<>>, <<Ord("", "x", "desc")>>}}
  \cup {[list |-> <<ColItem("", "g", "a"), ColItem("", "a", "g"), Item("cmp", Ref("", ""), Cmp(Col("", "a"), ">", Lit(IntV(1))), "big")>>, order |-> o] :
           o \in {<<>>, <<Ord("", "big", "asc"), Ord("", "g", "desc")>>,
                  \* every sort key is an alias AND the name of another column of the table: the alias wins
                  <<Ord("", "g", "desc")>>, <<Ord("", "a", "asc"), Ord("", "g", "desc")>>}}
  \* (g = a + 5 in every row, so the alias must name a column that sorts differently: the text column)
  \cup {[list |-> <<ColItem("", "s", "g"), ColItem("", "a", "")>>, order |-> o] : o \in {<<Ord("", "g", "asc")>>, <<Ord("", "g", "desc"), Ord("", "a", "asc")>>}}
  \cup {[list |-> <<ColItem("", "a", "s"), ColItem("", "s", "a")>>, order |-> o] : o \in {<<Ord("", "s", "desc")>>, <<Ord("", "a", "asc"), Ord("", "s", "asc")>>}}
  \* one column listed twice under two names, or under a name and as itself: every item keeps its own heading
  \cup {[list |-> <<ColItem("", "a", "p"), ColItem("", "a", "q")>>, order |-> o] : o \in {<<>>, <<Ord("", "q", "desc")>>}}
  \cup {[list |-> <<ColItem("", "s", "z"), ColItem("", "s", ""), ColItem("", "a", "")>>, order |-> <<>>],
        [list |-> <<ColItem("", "a", ""), ColItem("t5", "a", "w"), ColItem("", "g", "")>>, order |-> <<>>]}
\* ------------------------------------------------------------------ C01: UPDATE / DELETE over the tables and conditions of C05
\* assignment lists: every column type, values that lengthen and shorten the row, the empty string, several columns in an
\* order that is not the table's, a column the table does not have, a column assigned twice
Asg(c, v) == [c |-> c, val |-> v]
Sets5 == {<<Asg("a", IntV(n))>> : n \in {1, 3}} \cup {<<Asg("s", StrV(s))>> : s \in {<<A>>, <<A, B, B>>, <<>>, <<A, 32, 32, B>>}}
         \cup {<<Asg("c", BoolV(b))>> : b \in BOOLEAN} \cup {<<Asg("g", IntV(8))>>}
         \cup {<<Asg("s", StrV(<<B>>)), Asg("a", IntV(2))>>, <<Asg("g", IntV(6)), Asg("c", BoolV(FALSE)), Asg("a", IntV(1))>>,
               <<Asg("g", IntV(7)), Asg("s", StrV(<<A, B>>))>>}
         \cup {<<Asg("zz", IntV(1))>>, <<Asg("a", IntV(2)), Asg("zz", IntV(1))>>, <<Asg("a", IntV(1)), Asg("a", IntV(2))>>}
Dmls5 == {[k |-> "delete", set |-> <<>>]} \cup {[k |-> "update", set |-> s] : s \in Sets5}
\* WHERE clauses that name a column the table does not have: the statement fails and changes nothing
WheresBad5 == {<< <<Cmp(Col("", "zz"), "=", Lit(IntV(1)))>> >>, << <<Cmp(Col("", "a"), "=", Lit(IntV(1)))>>, <<Cmp(Col("", "zz"), "=", Lit(IntV(1)))>> >>,
               << <<Cmp(Col("u5", "a"), "=", Lit(IntV(1)))>> >>}
LimOffs == {[limit |-> l, offset |-> o] : l \in {-1, 0, 1, 2, 5, 8}, o \in {-1, 0, 1, 2, 5}} \cup {[limit |-> 1, offset |-> 8]}
\* ... and the largest value there is ("skip n rows, keep the rest"): TLC's integers end at 2^31 - 1; the harness writes this one
\* value as 9223372036854775807, the largest the parser takes - to a table of any size either number means "no limit"
MaxLim == 2147483647
LimOffs5 == LimOffs \cup {[limit |-> MaxLim, offset |-> o] : o \in {-1, 0, 1, 2, 5}} \cup {[limit |-> 1, offset |-> MaxLim], [limit |-> MaxLim, offset |-> MaxLim]}

\* ------------------------------------------------------------------ C06
\* three-column tables on both sides of the first join, a two-column and a one-column table after it
\* (row widths 3+3+2 and 3+1: joined rows of every width class the engine builds)
ColsL == << [n |-> "id", ty |-> "i"], [n |-> "k", ty |-> "i"], [n |-> "x", ty |-> "b"] >>
ColsR == << [n |-> "k", ty |-> "i"], [n |-> "w", ty |-> "s"], [n |-> "y", ty |-> "i"] >>
ColsO == << [n |-> "ok", ty |-> "i"] >>
ColsZ == << [n |-> "z", ty |-> "i"], [n |-> "w", ty |-> "s"] >>
RowsL == {<<IntV(i), IntV(k), BoolV(i = 1)>> : i \in {1, 2}, k \in {1, 2, 3}}
RowsR == {<<IntV(k), StrV(w), IntV(10 * k + Len(w))>> : k \in {1, 2, 4}, w \in {<<A>>, <<B, B>>}}
RowsO == {<<IntV(k)>> : k \in {1, 2, 3}}
RowsZ == {<<IntV(z), StrV(w)>> : z \in {1, 2}, w \in {<<A>>, <<B>>}}
Dbs6 == {[l |-> [cols |-> ColsL, rows |-> rl], r |-> [cols |-> ColsR, rows |-> rr], z |-> [cols |-> ColsZ, rows |-> rz], o |-> [cols |-> ColsO, rows |-> ro]] :
            rl \in SeqsUpTo(RowsL, 2), rr \in SeqsUpTo(RowsR, 2),
            rz \in {<<>>, <<<<IntV(1), StrV(<<A>>)>>>>, <<<<IntV(2), StrV(<<B, B>>)>>, <<IntV(1), StrV(<<A>>)>>>>,
                    \* duplicate keys in the third table of a chain: an intermediate row with several partners
                    <<<<IntV(1), StrV(<<A>>)>>, <<IntV(2), StrV(<<A>>)>>, <<IntV(1), StrV(<<B, B>>)>>, <<IntV(2), StrV(<<B, B>>)>>>>},
            ro \in {<<>>, <<<<IntV(2)>>, <<IntV(3)>>>>, <<<<IntV(1)>>, <<IntV(1)>>, <<IntV(3)>>>>}}
JTs == {"inner", "left", "right"}
OnLR == { << <<Cmp(Col("l", "k"), "=", Col("r", "k"))>> >>,
          << <<Cmp(Col("l", "k"), "=", Col("r", "k")), Cmp(Col("l", "id"), "<", Lit(IntV(2)))>> >>,
          << <<Cmp(Col("l", "id"), "<=", Col("r", "k"))>> >>,
          << <<Cmp(Col("l", "k"), "=", Col("r", "k"))>>, <<Cmp(Col("", "id"), "=", Lit(IntV(2)))>> >> }
OnZ == { << <<Cmp(Col("r", "w"), "=", Col("z", "w"))>> >>, << <<Cmp(Col("l", "id"), "=", Col("", "z"))>> >> }
OnLO == { << <<Cmp(Col("l", "k"), "<=", Col("o", "ok"))>> >>, << <<Cmp(Col("", "k"), "=", Col("", "ok"))>> >> }
Froms6 == {<<From1("l", ""), [tbl |-> "r", alias |-> "", jt |-> jt, on |-> on]>> : jt \in JTs, on \in OnLR}
          \cup {<<From1("l", ""), [tbl |-> "o", alias |-> "", jt |-> jt, on |-> on]>> : jt \in JTs, on \in OnLO}
          \cup {<<From1("o", ""), [tbl |-> "l", alias |-> "", jt |-> jt, on |-> on]>> : jt \in JTs, on \in OnLO}
          \cup {<<From1("l", ""), [tbl |-> "r", alias |-> "", jt |-> j1, on |-> on], [tbl |-> "z", alias |-> "", jt |-> j2, on |-> on2]>> :
                   j1 \in JTs, j2 \in JTs, on \in {<< <<Cmp(Col("l", "k"), "=", Col("r", "k"))>> >>}, on2 \in OnZ}
\* aliases: the alias replaces the table name; the same table twice under two aliases
\* the same identifier on both sides: a table joined to itself without aliases, an alias that repeats the other table's name
\* an unqualified name that exists on both sides, in an operand of ON that an earlier operand may already have decided
\* (AND after a false comparison, OR after a true one): it must be refused all the same
FromsAmbOn6 == {<<From1("l", ""), [tbl |-> "r", alias |-> "", jt |-> jt, on |-> on]>> : jt \in JTs,
                   on \in { << <<Cmp(Col("", "k"), "=", Col("r", "k"))>> >>, << <<Cmp(Col("l", "k"), "=", Col("", "k"))>> >>,   \* a lone equality
                            << <<Cmp(Col("", "k"), "=", Col("", "k"))>> >>, << <<Cmp(Col("l", "id"), "=", Col("r", "y")), Cmp(Col("", "k"), "=", Lit(IntV(1)))>> >>,
                            << <<Cmp(Col("l", "id"), "<", Col("r", "y"))>>, <<Cmp(Col("", "k"), "=", Lit(IntV(1)))>> >> }}
\* ... and in a chain: a name that is unique while the first two tables are joined and ambiguous once the third one is
\* (w is a column of r and of z): the second ON must be refused although the first one used the very same reference
FromsChainAmb6 == {<<From1("l", ""), [tbl |-> "r", alias |-> "", jt |-> j1, on |-> << <<Cmp(Col("l", "k"), "=", Col("r", "k")), Cmp(Col("", "w"), "!=", Lit(StrV(<<99>>)))>> >>],
                     [tbl |-> "z", alias |-> "", jt |-> j2, on |-> << <<Cmp(c1, "=", Col("z", "w"))>> >>]>> :
                       j1 \in JTs, j2 \in JTs, c1 \in {Col("", "w"), Col("r", "w")}}
FromsSame6 == {<<From1("l", ""), [tbl |-> "l", alias |-> "", jt |-> jt, on |-> << <<Cmp(Lit(IntV(1)), "=", Lit(IntV(1)))>> >>]>> : jt \in JTs}
              \cup {<<From1("l", ""), [tbl |-> "r", alias |-> "l", jt |-> "inner", on |-> << <<Cmp(Col("", "id"), "=", Lit(IntV(2)))>> >>]>>}
ListsSame6 == {<<Star>>, <<ColItem("", "id", "")>>, <<ColItem("l", "k", ""), ColItem("", "x", "")>>, <<ColItem("", "w", "")>>}
FromsAlias6 == {<<From1("l", "x"), [tbl |-> "l", alias |-> "y", jt |-> jt, on |-> << <<Cmp(Col("x", "k"), op, Col("y", "id"))>> >>]>> : jt \in JTs, op \in {"=", "<"}}
               \cup {<<From1("l", "x"), [tbl |-> "r", alias |-> "", jt |-> jt, on |-> << <<Cmp(Col("x", "k"), "=", Col("r", "k"))>> >>]>> : jt \in JTs}
               \* correlation names that differ by case only are different names
               \cup {<<From1("l", "x"), [tbl |-> "l", alias |-> "X", jt |-> jt, on |-> << <<Cmp(Col("x", "k"), op, Col("X", "id"))>> >>]>> : jt \in JTs, op \in {"=", "<"}}
Lists6 == {<<Star>>, <<ColItem("l", "id", ""), ColItem("r", "w", "")>>, <<ColItem("", "id", ""), ColItem("r", "k", "rk")>>,
           <<ColItem("", "ok", ""), ColItem("l", "x", ""), ColItem("", "id", "")>>, <<ColItem("r", "y", ""), ColItem("", "x", ""), ColItem("z", "z", "")>>,
           <<ColItem("", "k", "")>>,                \* ambiguous over l and r: must be refused
           <<ColItem("", "w", ""), ColItem("l", "k", "")>>}   \* ambiguous only when z is joined too
ListsAlias6 == {<<Star>>, <<ColItem("x", "id", ""), ColItem("y", "k", "")>>, <<ColItem("x", "k", "a"), ColItem("x", "id", "")>>,
                <<ColItem("X", "k", ""), ColItem("x", "id", ""), ColItem("X", "x", "")>>,
                <<ColItem("l", "id", "")>>}        \* the table name is hidden by its alias
Wheres6 == {<<>>, << <<Cmp(Col("l", "id"), "=", Lit(IntV(1)))>> >>, << <<Cmp(Col("", "id"), ">", Lit(IntV(1)))>> >>}

\* ------------------------------------------------------------------ C07
Cols7 == << [n |-> "p", ty |-> "i"], [n |-> "q", ty |-> "i"], [n |-> "m", ty |-> "i"], [n |-> "n", ty |-> "i"], [n |-> "u", ty |-> "s"], [n |-> "v", ty |-> "s"] >>
SP == 32
\* string grouping values that collide when printed side by side: ("a b", "c") vs ("a", "b c")
UV == {<<StrV(<<A, SP, B>>), StrV(<<99>>)>>, <<StrV(<<A>>), StrV(<<B, SP, 99>>)>>}
\* grouping values that collide when printed and concatenated: (1,23) vs (12,3); measures with NULLs
Rows7 == {<<IntV(p[1]), IntV(p[2]), IntV(m), n, uv[1], uv[2]>> : p \in {<<1, 23>>, <<12, 3>>, <<1, 2>>}, m \in {0, 1, 2, 101, -5, -8}, n \in {Null, IntV(3)}, uv \in UV}
Tables7Base == {[cols |-> Cols7, rows |-> r] : r \in SeqsUpTo(Rows7, 2)}
           \cup {[cols |-> Cols7, rows |-> <<r1, r2 \o uv, r3 \o uv>>] : r1 \in Rows7, uv \in UV, r2 \in {<<IntV(1), IntV(23), IntV(0), Null>>, <<IntV(12), IntV(3), IntV(1), IntV(3)>>},
                     r3 \in {<<IntV(1), IntV(23), IntV(1), IntV(3)>>, <<IntV(1), IntV(2), IntV(0), Null>>}}
           \cup {[cols |-> Cols7, rows |-> [i \in 1..4 |-> <<IntV(1), IntV(2), IntV(m[i]), Null, StrV(<<A>>), StrV(<<B>>)>>]] : m \in {<<1, 0, 0, 0>>, <<0, 0, 0, 1>>, <<2, 1, 1, 1>>, <<0, 1, 0, 1>>, <<101, 0, 0, 2>>,
                                                                                                                                   <<-5, -5, -5, -4>>, <<-7, -3, -4, -5>>, <<-1, 0, -2, 3>>}}
\* a nullable BOOLEAN column f at the end (TRUE where m is positive, NULL elsewhere): COUNT(f) counts booleans too
AddF(row) == row \o <<IF row[3].v > 0 THEN BoolV(TRUE) ELSE Null>>
Tables7 == {[cols |-> t.cols \o <<[n |-> "f", ty |-> "b"]>>, rows |-> [i \in 1..Len(t.rows) |-> AddF(t.rows[i])]] : t \in Tables7Base}
\* text grouping values an implementation may confuse when it writes group keys side by side: NULL next to the empty string,
\* a separator character (unit separator, NUL, a comma, a quote) at the end of one value or at the start of the next
Sep7 == {31, 0, 44, 39}
UVN == {<<Null, StrV(<<A>>)>>, <<StrV(<<>>), StrV(<<A>>)>>, <<Null, Null>>, <<StrV(<<>>), StrV(<<>>)>>, <<StrV(<<>>), Null>>}
       \cup {<<StrV(<<A, sp>>), StrV(<<B>>)>> : sp \in Sep7} \cup {<<StrV(<<A>>), StrV(<<sp, B>>)>> : sp \in Sep7}
       \* a value that imitates the boundary between two values: separator + a type tag ("s", "string(") inside the text
       \cup UNION {{<<StrV(<<A, sp>> \o tag \o <<B>>), StrV(<<99>>)>>, <<StrV(<<A>>), StrV(<<B, sp>> \o tag \o <<99>>)>>} : sp \in {31, 0}, tag \in {<<115>>, <<115, 116, 114, 105, 110, 103, 40>>}}
RowGrp7(m, uv) == <<IntV(1), IntV(2), IntV(m), Null, uv[1], uv[2], Null>>
TablesGrp7 == {[cols |-> Cols7 \o <<[n |-> "f", ty |-> "b"]>>, rows |-> <<RowGrp7(0, a), RowGrp7(30, b), RowGrp7(7, c)>>] : a \in UVN, b \in UVN, c \in UVN}
Agg(k, c) == Item(k, Ref("", c), NoCmp, "")
ListGroups7 ==
  {[list |-> <<Agg("count", "")>>, group |-> <<>>], [list |-> <<Agg("avg", "m"), Agg("countcol", "n")>>, group |-> <<>>],
   [list |-> <<Agg("countcol", "n")>>, group |-> <<>>], [list |-> <<Agg("avg", "m")>>, group |-> <<>>],       \* a lone aggregate
   [list |-> <<Agg("countcol", "f"), Agg("count", "")>>, group |-> <<>>], [list |-> <<ColItem("", "p", ""), Agg("countcol", "f")>>, group |-> <<Ref("", "p")>>],
   [list |-> <<Item("countcol", Ref("", "n"), NoCmp, "c")>>, group |-> <<>>],
   [list |-> <<Agg("countcol", "n"), Agg("count", ""), Agg("avg", "m")>>, group |-> <<>>],
   [list |-> <<ColItem("", "p", ""), Agg("count", "")>>, group |-> <<Ref("", "p")>>],
   [list |-> <<Agg("count", ""), ColItem("", "p", "")>>, group |-> <<Ref("", "p")>>],                  \* grouping column not first
   [list |-> <<Agg("avg", "m"), ColItem("", "q", "x")>>, group |-> <<Ref("", "x")>>],                   \* by alias
   [list |-> <<ColItem("t7", "p", ""), Agg("countcol", "n")>>, group |-> <<Ref("", "p")>>],            \* qualified in the list
   [list |-> <<ColItem("t7", "q", ""), Agg("avg", "m")>>, group |-> <<Ref("t7", "q")>>],               \* qualified in both
   [list |-> <<ColItem("", "p", ""), ColItem("", "q", ""), Agg("count", ""), Agg("avg", "m")>>, group |-> <<Ref("", "p"), Ref("", "q")>>],
   [list |-> <<Agg("count", ""), ColItem("", "q", "b"), ColItem("", "p", "a")>>, group |-> <<Ref("", "a"), Ref("", "b")>>],
   [list |-> <<ColItem("", "q", ""), Agg("countcol", "n"), ColItem("", "p", "")>>, group |-> <<Ref("", "q"), Ref("", "p")>>],
   [list |-> <<ColItem("", "u", ""), ColItem("", "v", ""), Agg("count", ""), Agg("avg", "m")>>, group |-> <<Ref("", "u"), Ref("", "v")>>],
   [list |-> <<Agg("count", ""), ColItem("", "v", "b"), ColItem("", "u", "")>>, group |-> <<Ref("", "u"), Ref("", "b")>>],
   [list |-> <<ColItem("", "u", ""), ColItem("", "p", ""), Agg("countcol", "n")>>, group |-> <<Ref("", "u"), Ref("", "p")>>],
   \* the same aggregate listed twice: each item is computed by itself
   [list |-> <<Agg("avg", "m"), Agg("avg", "m")>>, group |-> <<>>],
   [list |-> <<Agg("avg", "m"), ColItem("", "p", ""), Agg("count", ""), Agg("avg", "m"), Agg("count", "")>>, group |-> <<Ref("", "p")>>],
   [list |-> <<Agg("countcol", "n"), Agg("avg", "q"), Agg("countcol", "n"), Agg("avg", "m"), Agg("avg", "q")>>, group |-> <<>>],
   \* AVG over the column with NULLs (refused, or the mean of the other values - never with a NULL counted as a number)
   [list |-> <<Agg("avg", "n")>>, group |-> <<>>], [list |-> <<Agg("count", ""), Agg("avg", "n")>>, group |-> <<>>],
   [list |-> <<ColItem("", "p", ""), Agg("avg", "n"), Agg("count", "")>>, group |-> <<Ref("", "p")>>],
   \* a grouping column that is not in the select list (GroupBad: to be refused, never ignored)
   [list |-> <<Agg("count", "")>>, group |-> <<Ref("", "p")>>],
   [list |-> <<ColItem("", "p", ""), Agg("avg", "m")>>, group |-> <<Ref("", "p"), Ref("", "q")>>],
   \* an aggregate that is given the name of a grouping column (before and after the column in the list): GROUP BY names the column
   [list |-> <<Item("countcol", Ref("", "n"), NoCmp, "p"), ColItem("", "p", "y")>>, group |-> <<Ref("", "p")>>],
   [list |-> <<ColItem("", "q", "k"), Item("avg", Ref("", "m"), NoCmp, "q"), Item("count", Ref("", ""), NoCmp, "p")>>, group |-> <<Ref("", "q")>>],
   [list |-> <<Item("avg", Ref("", "m"), NoCmp, "q"), Item("count", Ref("", ""), NoCmp, "p"), ColItem("", "p", "a"), ColItem("", "q", "b")>>, group |-> <<Ref("", "p"), Ref("", "q")>>],
   \* GROUP BY without an aggregate: still one row per distinct combination
   [list |-> <<ColItem("", "p", "")>>, group |-> <<Ref("", "p")>>],
   [list |-> <<ColItem("", "q", ""), ColItem("", "p", "")>>, group |-> <<Ref("", "p"), Ref("", "q")>>],
   [list |-> <<ColItem("", "u", "k")>>, group |-> <<Ref("", "k")>>]}
\* aggregates on top of a join: the same table under two aliases, two AVGs over equally named columns
QAgg(k, qq, c) == Item(k, Ref(qq, c), NoCmp, "")
FromSelf7 == <<From1("t7", "x"), [tbl |-> "t7", alias |-> "y", jt |-> "inner", on |-> << <<Cmp(Col("x", "p"), "=", Col("y", "p"))>> >>]>>
JoinListGroups7 ==
  {[list |-> <<ColItem("x", "p", ""), Agg("count", ""), QAgg("avg", "x", "m"), QAgg("avg", "y", "m")>>, group |-> <<Ref("x", "p")>>],
   [list |-> <<QAgg("avg", "y", "m"), QAgg("avg", "x", "m")>>, group |-> <<>>],
   [list |-> <<QAgg("countcol", "y", "n")>>, group |-> <<>>],
   [list |-> <<ColItem("x", "q", ""), ColItem("y", "q", ""), Agg("count", "")>>, group |-> <<Ref("x", "q"), Ref("y", "q")>>],
   [list |-> <<ColItem("y", "m", ""), ColItem("x", "m", ""), QAgg("countcol", "x", "n")>>, group |-> <<Ref("y", "m"), Ref("x", "m")>>],
   [list |-> <<ColItem("y", "q", "g"), QAgg("countcol", "x", "n"), QAgg("avg", "x", "q")>>, group |-> <<Ref("", "g")>>]}
Wheres7 == {<<>>, << <<Cmp(Col("", "m"), "<", Lit(IntV(100)))>> >>, << <<Cmp(Col("", "p"), "=", Lit(IntV(1)))>>, <<Cmp(Col("", "q"), "=", Lit(IntV(3)))>> >>}

Out(name, S) == PrintT(<<"SCN", ToJson([set |-> name, elems |-> SetToSeq(S)])>>)
ASSUME /\ Out("tablesgrp7", TablesGrp7)
ASSUME /\ Out("dmls5", Dmls5) /\ Out("wheresbad5", WheresBad5) /\ Out("rows5", Rows5)
ASSUME /\ Out("tableskw5", TablesKw5) /\ Out("whereskw5", WheresKw5) /\ Out("listorderskw5", ListOrdersKw5)
ASSUME /\ Out("tablesnull5", TablesNull5) /\ Out("wheresnull5", WheresNull5) /\ Out("listordersnull5", ListOrdersNull5)
       /\ Out("tables5", Tables5) /\ Out("wheres5", Wheres5) /\ Out("listorders5", ListOrders5) /\ Out("limoffs", LimOffs) /\ Out("limoffs5", LimOffs5)
       /\ Out("dbs6", Dbs6) /\ Out("froms6", Froms6) /\ Out("fromsalias6", FromsAlias6) /\ Out("lists6", Lists6)
       /\ Out("listsalias6", ListsAlias6) /\ Out("wheres6", Wheres6) /\ Out("fromssame6", FromsSame6) /\ Out("fromsambon6", FromsAmbOn6 \cup FromsChainAmb6) /\ Out("listssame6", ListsSame6)
       /\ Out("tables7", Tables7) /\ Out("listgroups7", ListGroups7) /\ Out("wheres7", Wheres7)
       /\ Out("joinlistgroups7", JoinListGroups7) /\ Out("fromself7", {FromSelf7})
Init == x = 0
Next == x' = x
=============================================================================
