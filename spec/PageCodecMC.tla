---------------------------- MODULE PageCodecMC ----------------------------
(* Bounded instance of PageCodec for C12.  TLC enumerates node shapes from *)
(* abstract parameters (kind, cell count, value-size class per cell,       *)
(* tombstone mask, insertion order, cells left behind by a split, a cell   *)
(* whose value was replaced through updateCell by a longer / shorter /     *)
(* equally long one, sibling flags, LSN class, key class) and short        *)
(* sequences of Update / DropCache                                         *)
(* / Fetch over a few adjacent pages.  Every explored transition that is a *)
(* Fetch is printed with the whole action path and the expected register   *)
(* content; harness/cmd/codec builds the concrete nodes and runs the path  *)
(* on a real fileStore.                                                    *)
EXTENDS PageCodec, Json

CONSTANTS Pages,        \* page numbers used
          LeafCounts,   \* cell counts of leaf nodes
          IntCounts,    \* cell counts of internal nodes
          SizeClasses,  \* value sizes
          SmallN,       \* up to this cell count sizes and tombstones are a full product
          SizePats, DelPats, PermPats,   \* patterns for larger leaves
          IntPerms,     \* {"append", "mid"}: how internal cells were added
          SibOpts,      \* subset of {"--", "L-", "-R", "LR"}
          LsnClasses,   \* decimal strings (64-bit values do not fit TLC integers)
          KeyClasses,   \* {"small", "wide"}: magnitude of keys and child offsets
          StaleOpts,    \* subset of BOOLEAN: node keeps cells moved away by a split
          UpdFrom,      \* value sizes a cell had before it was replaced through updateCell ({} = no updated cells)
          MaxOps, MaxUpd, EmitOn

VARIABLES nops, nupd, hist

LeafCap == 9
IntCap == 290

SizePat(pat, n) ==
  [i \in 1..n |->
     CASE pat = "all0" -> 0
       [] pat = "all1" -> 1
       [] pat = "all399" -> 399
       [] pat = "all400" -> 400
       [] pat = "cyc" -> <<0, 1, 399, 400>>[((i - 1) % 4) + 1]
       [] pat = "rcyc" -> <<400, 399, 1, 0>>[((i - 1) % 4) + 1]
       [] pat = "last0" -> IF i = n THEN 0 ELSE 400
       [] pat = "first0" -> IF i = 1 THEN 0 ELSE 400]

DelPat(pat, n) ==
  [i \in 1..n |->
     CASE pat = "none" -> FALSE
       [] pat = "all" -> TRUE
       [] pat = "first" -> (i = 1)
       [] pat = "last" -> (i = n)
       [] pat = "alt" -> (i % 2 = 1)]

\* insertion orders (ranks of keys in the order they were inserted):
\* ascending (what the engine's row ids do), descending (every insert at the
\* front), and ascending with the middle key inserted last (insertLeafCell
\* in the middle) - the last two leave a non-identity offsets array
PermPat(pat, n) ==
  LET m == (n + 1) \div 2 IN
  [j \in 1..n |->
     CASE pat = "id" -> j
       [] pat = "rev" -> n + 1 - j
       [] pat = "mid" -> IF j < m THEN j ELSE IF j < n THEN j + 1 ELSE m]

CellSets(n) ==
  IF n <= SmallN
  THEN {[i \in 1..n |-> [sz |-> s[i], del |-> d[i]]] : s \in [1..n -> SizeClasses], d \in [1..n -> BOOLEAN]}
  ELSE {[i \in 1..n |-> [sz |-> SizePat(sp, n)[i], del |-> DelPat(dp, n)[i]]] : sp \in SizePats, dp \in DelPats}

InsSets(n) == {PermPat(pp, n) : pp \in PermPats}

\* a split leaves the moved cells behind in the slice; the left node of a
\* split has n = total \div 2 referenced cells (total <= capacity).  Only
\* nodes filled in ascending key order are split here: the engine's row ids
\* only ever ascend, and a split node whose offsets are not the identity
\* refers to slots beyond its cell count (outside "nodes the engine can
\* produce"; harness/cmd/codec has a probe for it, reported as a NOTE)
LeafStale(n) == IF n >= 1 /\ 2 * n + 1 <= LeafCap THEN StaleOpts ELSE StaleOpts \ {TRUE}
IntStale(n) == IF n >= 1 /\ 2 * n <= IntCap THEN StaleOpts ELSE StaleOpts \ {TRUE}

\* upd = [pos, from]: the cell of rank pos (0 = none) was first stored with a
\* value of `from` bytes and then replaced, through btreeNode.updateCell, by
\* the value of cells[pos].sz bytes the descriptor shows (longer, shorter,
\* same length, 0 <-> n all arise from the product).  Only for nodes filled
\* in ascending key order, like splits: updateCell addresses the slot by
\* position, which is the cell with that key only under identity offsets.
NoUpd == [pos |-> 0, from |-> 0]
UpdPos(n) == IF n = 0 THEN {} ELSE {1, (n + 1) \div 2, n}
UpdOpts(n, i) == {NoUpd} \cup (IF i = PermPat("id", n) THEN {[pos |-> p, from |-> f] : p \in UpdPos(n), f \in UpdFrom} ELSE {})

LeafNode(n, c, i, st, u, sb, l, k) ==
  [kind |-> "leaf", n |-> n, cells |-> c, ins |-> i, insp |-> "", stale |-> st, upd |-> u, sib |-> sb, lsn |-> l, keys |-> k]
IntNode(n, ip, st, l, k) ==
  [kind |-> "internal", n |-> n, cells |-> <<>>, ins |-> <<>>, insp |-> ip, stale |-> st, upd |-> NoUpd, sib |-> "--", lsn |-> l, keys |-> k]

\* StoreSome(p): a store of any enumerated node at page p.  The node set is
\* never materialised; TLC walks the parameter space lazily.
StoreSome(p, H(_)) ==
  \/ \E n \in LeafCounts : \E c \in CellSets(n), i \in InsSets(n), sb \in SibOpts,
                                l \in LsnClasses, k \in KeyClasses :
      \E st \in (IF i = PermPat("id", n) THEN LeafStale(n) ELSE LeafStale(n) \ {TRUE}), u \in UpdOpts(n, i) :
        Update(p, LeafNode(n, c, i, st, u, sb, l, k)) /\ H(LeafNode(n, c, i, st, u, sb, l, k))
  \/ \E n \in IntCounts : \E ip \in (IF n >= 2 THEN IntPerms ELSE {"append"}), l \in LsnClasses, k \in KeyClasses :
      \E st \in (IF ip = "append" THEN IntStale(n) ELSE IntStale(n) \ {TRUE}) :
        Update(p, IntNode(n, ip, st, l, k)) /\ H(IntNode(n, ip, st, l, k))

mcVars == <<file, cached, flen, ret, got, nops, nupd, hist>>

MCInit == PageInit /\ nops = 0 /\ nupd = 0 /\ hist = <<>>

MCNext ==
  /\ nops < MaxOps
  /\ nops' = nops + 1
  /\ \/ /\ nupd < MaxUpd
        /\ nupd' = nupd + 1
        /\ \E p \in Pages :
              StoreSome(p, LAMBDA n : hist' = Append(hist, [a |-> "update", p |-> p, node |-> n, flen |-> flen']))
     \/ /\ file # <<>>
        /\ DropCache
        /\ hist' = Append(hist, [a |-> "drop"])
        /\ UNCHANGED nupd
     \/ /\ \E p \in Pages :
              /\ Fetch(p)
              /\ hist' = Append(hist, [a |-> "fetch", p |-> p, node |-> got'[1], hit |-> ret'.hit, flen |-> flen'])
        /\ UNCHANGED nupd

\* the history stays out of the fingerprint
View == <<file, cached, flen, ret, got, nops, nupd>>

Emit == (EmitOn /\ ret'.op = "fetch") => PrintT(<<"SCN", ToJson([steps |-> hist'])>>)

\* the register law stated over the history instead of over `file`
MaxOf(S) == CHOOSE x \in S : \A y \in S : y <= x
LastStored(h, p) == h[MaxOf({i \in 1..Len(h) : h[i].a = "update" /\ h[i].p = p})].node
FetchIsLastStored == (ret.op = "fetch") => (got[1] = LastStored(hist, ret.p))

=============================================================================
