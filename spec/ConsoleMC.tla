----------------------------- MODULE ConsoleMC -----------------------------
(* Bounded instance of Console.  Every behaviour TLC explores that ends in  *)
(* a hand-over (or an empty line) is printed as one scenario: the keys, the *)
(* statements the machine handed over, and the known-defect taint.  The     *)
(* harness feeds the keys to the real Terminal.ReadLine, key by key and     *)
(* pasted, and compares.                                                    *)
EXTENDS Console, Json

CONSTANTS MaxKeys,        \* total number of key presses (characters and line breaks)
          MaxEnters,      \* at most this many line breaks
          EmitOn

\* The console as it was found in the unchanged tree, kept as a named deviation next to
\* the machine (DESIGN 3: "deliberate deviations are actions with names"): on Enter it
\* looks only at the last character and cuts the buffer at EVERY semicolon, inside
\* literals too.  Its output travels with tainted scenarios so that the known finding
\* matches only the failure it describes and any other wrong output stays a violation.
VARIABLES nbuf, nout

mcVars == <<buf, inQuote, out, typed, nbuf, nout>>

NaiveTerminated(s) == LET t == TrimR(s) IN t # <<>> /\ t[Len(t)] = SEMI
NaiveSplit(s) == LET P == StmtsAt(s, SelectSeq([i \in 1..Len(s) |-> i], LAMBDA i : s[i] = SEMI))
                 IN  [k \in 1..Len(P) |-> Trim(P[k])]
NKey(c) == nbuf' = Append(nbuf, c) /\ UNCHANGED nout
NEnter == IF Trim(nbuf) = <<>> THEN nbuf' = <<>> /\ UNCHANGED nout
          ELSE IF NaiveTerminated(nbuf) THEN nout' = nout \o NaiveSplit(nbuf) /\ nbuf' = <<>>
          ELSE nbuf' = Append(nbuf, SP) /\ UNCHANGED nout

Enters(s) == Cardinality({i \in 1..Len(s) : s[i] = CR})

\* a behaviour is complete when its last key was Enter and nothing is left in the buffer
Complete(b, t) == t # <<>> /\ t[Len(t)] = CR /\ b = <<>>

\* keys still needed before the behaviour can be complete (close the literal, terminate,
\* press Enter); prefixes that cannot be completed within the bound are not explored
Needs(b, q, t) == IF q < 0 THEN 4 ELSE IF q > 0 THEN 3
                  ELSE IF Trim(b) = <<>> THEN (IF t = <<>> \/ t[Len(t)] = CR THEN 0 ELSE 1)
                  ELSE IF Terminated(b) THEN 1 ELSE 2

MCInit == ConInit /\ nbuf = <<>> /\ nout = <<>>
MCNext == /\ Len(typed) < MaxKeys
          /\ \/ \E c \in Chars : Key(c) /\ NKey(c)
             \/ (inQuote = 0 \/ BreakInLiterals) /\ Enters(typed) < MaxEnters /\ Enter /\ NEnter
          /\ Len(typed') + Needs(buf', inQuote', typed') <= MaxKeys
          /\ Enters(typed') + (IF Complete(buf', typed') THEN 0 ELSE 1) <= MaxEnters
MCSpec == MCInit /\ [][MCNext]_mcVars

\* ghost taint (DESIGN 5.3): the input steps through the situation of a known defect.
\* semicolon-in-quotes: some literal of the input contains a semicolon.
SemiInQuotes(t) == \E i \in 1..Len(t) : t[i] = SEMI /\ QAt(t, i - 1) # 0
Taint(t) == IF SemiInQuotes(t) THEN <<"semicolon-in-quotes">> ELSE <<>>

Emit == (EmitOn /\ Complete(buf', typed')) =>
           PrintT(<<"SCN", ToJson(IF Taint(typed') = <<>>
                                  THEN [keys |-> typed', exp |-> out', taint |-> <<>>]
                                  ELSE [keys |-> typed', exp |-> out', taint |-> Taint(typed'), naive |-> nout'])>>)

\* the taint is exact in the model: the deviation hands over something else than the
\* machine if and only if a literal of the input contains a semicolon
TaintExact == Complete(buf, typed) => ((nout # out) <=> SemiInQuotes(typed))
\* and every tainted complete behaviour of the deviation does violate C20
TaintViolates == (Complete(buf, typed) /\ SemiInQuotes(typed)) => ~Accept(StmtsOf(Entered(typed)), nout)
=============================================================================
