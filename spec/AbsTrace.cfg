INIT TInit
NEXT TNext
POSTCONDITION Accepted
CHECK_DEADLOCK FALSE
