INIT TInit
NEXT TNext
INVARIANTS TWriteAhead THeaderCovers TNoOrphanStamp
POSTCONDITION Accepted
CHECK_DEADLOCK FALSE
