INIT TInit
NEXT TNext
INVARIANTS WriteAhead HeaderCovers NoOrphanStamp
POSTCONDITION Accepted
CHECK_DEADLOCK FALSE
