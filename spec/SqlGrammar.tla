----------------------------- MODULE SqlGrammar -----------------------------
(* The SQL dialect that mkdb's front end (sql/scanner.go, sql/parser.go)  *)
(* supports, written as a grammar that is read left to right.             *)
(*                                                                        *)
(*   - A *statement* is an abstract value (records and sequences): kind,  *)
(*     names, literals, operators, clause contents in order.  Boolean     *)
(*     conditions are trees; text without parentheses can express exactly *)
(*     the trees  OR(g1, OR(g2, ...))  with  gi = AND(l1, AND(l2, ...)),  *)
(*     i.e. AND binds tighter than OR and chains nest to the right.       *)
(*   - Toks(s, form) is the grammar: the token sequence that spells the   *)
(*     statement (one production per operator below, in the order of the  *)
(*     productions of parser.go).  Tokens are abstract records            *)
(*     [t, v, o]; rendering them to bytes (keyword case, white space,     *)
(*     quotes) is the replayer's business.  o marks tokens the grammar    *)
(*     allows to be left out: "kw" optional keywords (INNER, AS, ASC),    *)
(*     "term" the statement terminator, "legacy" the separator of GROUP   *)
(*     BY lists that the parser has always also accepted as white space.  *)
(*   - The machine Pick / EmitNext / Skip / Junk emits a statement token  *)
(*     by token, so every reachable state is a truncation of a valid      *)
(*     statement; Junk steps insert or substitute any vocabulary token.   *)
(*                                                                        *)
(* Used by C10 (each complete derivation gives a pair (ast, toks); the    *)
(* real parser must return ast for every rendering of toks) and by C09    *)
(* (every reachable toks, rendered, must make the real front end return   *)
(* a statement or an error: Outcomes).                                    *)
EXTENDS Integers, Sequences, FiniteSets, TLC

CONSTANTS
  Tables, Cols, Aliases, Dbs,      \* identifier vocabularies (sets of strings, none a keyword)
  IntLits, StrLits,                \* literal vocabularies
  TrickyStrs,                      \* string literals whose content looks like something else: a keyword in some letter
                                   \* case, an operator, punctuation, a number, nothing, a comment opener
  QuotedIdents,                    \* identifiers that must be written in double quotes (keywords, blanks inside)
  UniStrs, UniIdents,              \* string contents / identifiers with characters outside ASCII.  A TLA+ string here
                                   \* writes such a character as <U+hhhh>; the replayer puts the character (its UTF-8
                                   \* bytes) in its place, in the tokens and in the expected statement alike.
  VarcharLens, LimVals,            \* integers used in VARCHAR(n) and LIMIT / OFFSET
  BigInts,                         \* integer literals up to 64 bits.  TLC's integers have 32: such a literal is carried as
                                   \* its decimal text, [k |-> "big", d |-> "3000000000"]; it denotes the integer literal
                                   \* with that value (the replayer compares values), and is spelled by its digits
  BaseTable,                       \* the table used where a clause under study needs "some table"
  \* pools: the subsets that are combined exhaustively where the full product would explode
  LeafSet,                         \* comparison leaves tried one at a time
  LeafPool,                        \* comparison leaves combined into trees of up to MaxLeaves leaves
  ItemPool,                        \* select items combined into lists of up to MaxItems
  CondPool,                        \* representative conditions (ON conditions, combinations)
  ColPool,                         \* column references used in GROUP BY / ORDER BY lists
  LitPool,                         \* literals used in multi-row INSERT / multi-assignment UPDATE
  JoinTblPool,                     \* table references on the right of a JOIN
  MaxItems, MaxJoins, MaxLeaves, MaxGroup, MaxOrder, MaxRows, MaxVals, MaxSet, MaxDefs,
  \* the machine
  Slices,                          \* which slices of the statement universe (SliceNames) the machine picks from
  Stmts,                           \* the slice "given": an explicit set of statements
  Vocab, Vocab2,                   \* junk vocabulary for the first / for any further junk token
  MaxJunk,                         \* junk budget
  MaxTail,                         \* at most this many tokens are emitted after the last junk token
  JunkAtEndOnly                    \* TRUE: junk only after the complete statement (trailing tokens)

VARIABLES ast,    \* the statement picked (ghost: never read by the machine after Init)
          form,   \* which of the equivalent spellings (order of LIMIT and OFFSET)
          rest,   \* tokens still to come
          toks,   \* tokens emitted so far
          junk,   \* junk tokens used
          tail    \* tokens emitted since the last junk token

vars == <<ast, form, rest, toks, junk, tail>>

-----------------------------------------------------------------------------
(* Abstract syntax                                                         *)

Col(q, n)      == [k |-> "col", q |-> q, n |-> n]          \* q = "" : unqualified
IntL(i)        == [k |-> "int", i |-> i]
BigL(d)        == [k |-> "big", d |-> d]                    \* an integer literal given by its decimal text
StrL(s)        == [k |-> "str", s |-> s]
BoolL(b)       == [k |-> "bool", b |-> b]
Star           == [k |-> "star"]
Cmp(op, l, r)  == [k |-> "cmp", op |-> op, l |-> l, r |-> r]
AndN(l, r)     == [k |-> "and", l |-> l, r |-> r]
OrN(l, r)      == [k |-> "or", l |-> l, r |-> r]
CountOf(a)     == [k |-> "count", arg |-> a]                 \* a = Star or a column reference
AvgOf(a)       == [k |-> "avg", arg |-> a]
Item(e, al)    == [e |-> e, alias |-> al]                    \* al = "" : no alias
Tbl(n, al)     == [name |-> n, alias |-> al]
JoinOf(jt, tb, on) == [jt |-> jt, tbl |-> tb, on |-> on]
Ord(key, dir)  == [key |-> key, dir |-> dir]
Asg(c, v)      == [col |-> c, val |-> v]
Def(n, ty)     == [name |-> n, type |-> ty]
Ty(kk, len)    == [k |-> kk, len |-> len]                    \* len = 0 unless VARCHAR

\* optional clauses are sequences of length 0 or 1
Sel(items, from, joins, where, group, order, limit, offset) ==
  [k |-> "select", items |-> items, from |-> from, joins |-> joins, where |-> where,
   group |-> group, order |-> order, limit |-> limit, offset |-> offset]
Ins(tb, cols, rows)  == [k |-> "insert", table |-> tb, cols |-> cols, rows |-> rows]
Upd(tb, set, where)  == [k |-> "update", table |-> tb, set |-> set, where |-> where]
Del(tb, where)       == [k |-> "delete", table |-> tb, where |-> where]
CreT(tb, defs)       == [k |-> "create_table", table |-> tb, defs |-> defs]
CreD(n)              == [k |-> "create_database", name |-> n]
UseD(n)              == [k |-> "use", name |-> n]
ShowD                == [k |-> "show_databases"]

StmtKinds == {"select", "insert", "update", "delete", "create_table", "create_database", "use", "show_databases"}

CmpOps    == {"=", "!=", "<", ">", "<=", ">="}
JoinTypes == {"INNER", "LEFT", "RIGHT"}
Dirs      == {"ASC", "DESC"}
Quals     == Tables \cup Aliases
ColRefs   == {Col("", c) : c \in Cols} \cup {Col(q, c) : q \in Quals, c \in Cols}
Lits      == {IntL(i) : i \in IntLits} \cup {StrL(s) : s \in StrLits} \cup {BoolL(b) : b \in BOOLEAN}
Operands  == ColRefs \cup Lits
Leaves    == {Cmp(op, l, r) : op \in CmpOps, l \in Operands, r \in Operands}
TblRefs   == {Tbl(t, al) : t \in Tables, al \in {""} \cup Aliases}
Types     == {Ty("INT", 0), Ty("BIGINT", 0), Ty("BOOLEAN", 0)} \cup {Ty("VARCHAR", n) : n \in VarcharLens}

Seqs(S, n) == [1..n -> S]          \* the sequences of length n over S
Opt(S) == {<<>>} \cup {<<x>> : x \in S}

\* Conditions.  A condition without parentheses is a sequence of leaves cut into
\* groups: leaves of a group are joined by AND, groups by OR.
RECURSIVE AndTree(_), OrTree(_), SplitAt(_, _, _, _)
AndTree(g)  == IF Len(g) = 1 THEN g[1] ELSE AndN(g[1], AndTree(Tail(g)))
OrTree(gs)  == IF Len(gs) = 1 THEN AndTree(gs[1]) ELSE OrN(AndTree(gs[1]), OrTree(Tail(gs)))
SplitAt(ls, cuts, i, cur) ==
  IF i > Len(ls) THEN <<cur>>
  ELSE IF (i - 1) \in cuts THEN <<cur>> \o SplitAt(ls, cuts, i + 1, <<ls[i]>>)
       ELSE SplitAt(ls, cuts, i + 1, Append(cur, ls[i]))
Split(ls, cuts) == SplitAt(ls, cuts, 2, <<ls[1]>>)
\* every condition with exactly n leaves taken from P
CondsOfLen(P, n) == {OrTree(Split(ls, cuts)) : ls \in [1..n -> P], cuts \in SUBSET (1..(n - 1))}

RECURSIVE NLeaves(_)
NLeaves(c) == IF c.k \in {"and", "or"} THEN NLeaves(c.l) + NLeaves(c.r) ELSE 1

\* the trees that text without parentheses can express
OperandKinds == {"col", "int", "big", "str", "bool"}
RECURSIVE Expressible(_)
Expressible(c) ==
  CASE c.k = "or"  -> c.l.k # "or" /\ Expressible(c.l) /\ Expressible(c.r)
    [] c.k = "and" -> c.l.k = "cmp" /\ c.r.k \in {"cmp", "and"} /\ Expressible(c.r)
    [] c.k = "cmp" -> c.l.k \in OperandKinds /\ c.r.k \in OperandKinds /\ c.op \in CmpOps
    [] OTHER -> FALSE

-----------------------------------------------------------------------------
(* What the parser refuses by design although the grammar can spell it:    *)
(* parser.go validateGroupByFields.                                        *)

IsCol(e)  == e.k = "col"
IsAggr(e) == e.k \in {"count", "avg"}
Matches(it, g) == /\ IsCol(it.e)
                  /\ \/ it.e = g
                     \/ it.alias = g.n
                     \/ (it.e.n = g.n /\ g.q = "")
GroupOK(s) ==
  LET colItems == {i \in 1..Len(s.items) : IsCol(s.items[i].e)}
      needs    == (\E i \in 1..Len(s.items) : IsAggr(s.items[i].e)) \/ Len(s.group) > 0
  IN  needs => /\ \A i \in colItems : \E j \in 1..Len(s.group) : Matches(s.items[i], s.group[j])
               \* every grouping column is one - exactly one - column of the select list (rows are grouped by their select-list
               \* values: a grouping column that is not selected could only be ignored, and is refused instead)
               /\ \A j \in 1..Len(s.group) : Cardinality({i \in colItems : Matches(s.items[i], s.group[j])}) = 1

\* `*` stands alone and takes no alias; without FROM a SELECT is its select list only
SelectWF(s) ==
  /\ Len(s.items) >= 1
  /\ \A i \in 1..Len(s.items) : s.items[i].e.k = "star" => (Len(s.items) = 1 /\ s.items[i].alias = "")
  /\ (s.from = <<>>) => (s.joins = <<>> /\ s.where = <<>> /\ s.group = <<>> /\ s.order = <<>>
                         /\ s.limit = <<>> /\ s.offset = <<>>)
  /\ GroupOK(s)
StmtWF(s) == s.k = "select" => SelectWF(s)

-----------------------------------------------------------------------------
(* Tokens                                                                  *)

KW(w)     == [t |-> "KW", v |-> w, o |-> ""]
OptKW(w)  == [t |-> "KW", v |-> w, o |-> "kw"]
P(x)      == [t |-> "P", v |-> x, o |-> ""]
\* an identifier; written "n" (a delimited identifier) when it could not be written bare
Id(n)     == [t |-> (IF n \in QuotedIdents THEN "QID" ELSE "IDENT"), v |-> n, o |-> ""]
IntT(i)   == [t |-> "INT", v |-> ToString(i), o |-> ""]
StrT(s)   == [t |-> "STR", v |-> s, o |-> ""]
Raw(x)    == [t |-> "RAW", v |-> x, o |-> ""]      \* literal source text
Lex(c)    == [t |-> "LEX", v |-> c, o |-> ""]      \* a named lexical class the replayer spells out
Terminator  == [t |-> "P", v |-> ";", o |-> "term"]
LegacyComma == [t |-> "P", v |-> ",", o |-> "legacy"]

\* the token kinds of sql/scanner.go
Keywords == {"TRUE", "FALSE", "AND", "OR", "AS", "ASC", "AVG", "BEGIN", "BY", "CASE", "COMMIT", "COUNT",
             "CREATE", "DATABASE", "DELETE", "DESC", "DISTINCT", "ELSE", "END", "EXISTS", "FROM", "FULL",
             "GROUP", "HAVING", "IN", "INNER", "INSERT", "INTO", "JOIN", "LEFT", "LIKE", "LIMIT", "MAX",
             "MIN", "NOT", "NULL", "OFFSET", "ON", "ORDER", "OUTER", "RIGHT", "SELECT", "SET", "SHOW", "SUM",
             "BOOLEAN", "INT", "BIGINT", "VARCHAR", "TABLE", "THEN", "UNION", "UNIQUE", "UPDATE", "USE",
             "VALUES", "WHEN", "WHERE", "WITH"}
Puncts   == {"!", "*", "=", "!=", ">", "<", "<=", ">=", "(", ")", ",", ".", ";"}

\* keywords that begin a statement, keywords the grammar uses at all, and the tokens that therefore can
\* never continue a complete statement: a text "statement + such a token" is not the beginning of any
\* statement, so it must not be read as that statement (GrammarUsesOnly checks the premise on the universe)
InitialKeywords == {"SELECT", "INSERT", "UPDATE", "DELETE", "CREATE", "USE", "SHOW"}
GrammarKeywords == InitialKeywords \cup
            {"TRUE", "FALSE", "AND", "OR", "AS", "ASC", "AVG", "BY", "COUNT", "DATABASE", "DESC", "FROM", "GROUP",
             "INNER", "INTO", "JOIN", "LEFT", "LIMIT", "OFFSET", "ON", "ORDER", "RIGHT", "SET", "BOOLEAN", "INT",
             "BIGINT", "VARCHAR", "TABLE", "VALUES", "WHERE"}
NeverContinues == {KW(w) : w \in (Keywords \ GrammarKeywords) \cup InitialKeywords} \cup {P("!")}

\* source text that is not one clean token of the dialect
RawTexts == {"99999999999999999999", "9223372036854775808", "0x10", "0x", "1_0", "1__0", "017", "08", "0b102",
             "2147483648", "9223372036854775807", "1.5", ".5", "1.", "1e9", "1e", "1e+", "0x1p-2", "'", "''", "'abc", "'a b' c'", "`abc`", "`", "`abc",
             "--", "-- x", "-", "-1", "+", "/", "/*", "/* c */", "*/", "//", "// x", "/**/",
             "@", "#", "$", "%", "&", "|", "^", "~", "?", ":", "[", "]", "{", "}", "_", "__x", "a.b.c", "1a", "a1", "=="}
\* classes that cannot be written in a TLA+ string
LexClasses == {"dquote", "dq_unterminated", "dq_ident", "dq_empty", "dq_keyword", "sq_escape", "sq_newline",
               "backslash", "nul", "nul_in_ident", "bad_utf8", "trunc_utf8", "bom", "bom_inside", "nonascii_ident",
               "nonascii_punct", "long_ident", "long_string", "long_int", "cr", "vtab", "tab_nl"}

CoreVocab == {KW(w) : w \in Keywords} \cup {P(x) : x \in Puncts}
             \cup {Id(n) : n \in {BaseTable, "zz", "databases"}}
             \cup {IntT(i) : i \in {0, 7}} \cup {StrT(s) : s \in {"", "q r"}}
\* quoted text that would be a keyword / operator / terminator without its quotes
QuotedLookalikes == {StrT(x) : x \in {"true", "and", "select", "=", ";"}}
FullVocab == CoreVocab \cup QuotedLookalikes \cup {Raw(x) : x \in RawTexts} \cup {Lex(c) : c \in LexClasses}

-----------------------------------------------------------------------------
(* The grammar: Toks                                                       *)

RECURSIVE Sep(_, _)
Sep(parts, sep) ==       \* parts: a sequence of token sequences
  IF Len(parts) = 0 THEN <<>>
  ELSE IF Len(parts) = 1 THEN parts[1] ELSE parts[1] \o <<sep>> \o Sep(Tail(parts), sep)
Map(f(_), s) == [i \in 1..Len(s) |-> f(s[i])]

ColToks(c) == IF c.q = "" THEN <<Id(c.n)>> ELSE <<Id(c.q), P("."), Id(c.n)>>
OperandToks(x) ==
  CASE x.k = "col"  -> ColToks(x)
    [] x.k = "int"  -> <<IntT(x.i)>>
    [] x.k = "big"  -> <<[t |-> "INT", v |-> x.d, o |-> ""]>>
    [] x.k = "str"  -> <<StrT(x.s)>>
    [] x.k = "bool" -> <<KW(IF x.b THEN "TRUE" ELSE "FALSE")>>

RECURSIVE CondToks(_)
CondToks(c) ==                                   \* OrCondition / AndCondition / ComparisonPredicate
  CASE c.k = "or"  -> CondToks(c.l) \o <<KW("OR")>> \o CondToks(c.r)
    [] c.k = "and" -> CondToks(c.l) \o <<KW("AND")>> \o CondToks(c.r)
    [] c.k = "cmp" -> OperandToks(c.l) \o <<P(c.op)>> \o OperandToks(c.r)
    [] OTHER       -> OperandToks(c)

ExprToks(e) ==                                   \* DerivedColumn / SetFunctionSpecification
  CASE e.k = "star"  -> <<P("*")>>
    [] e.k = "count" -> <<KW("COUNT"), P("(")>> \o (IF e.arg.k = "star" THEN <<P("*")>> ELSE ColToks(e.arg)) \o <<P(")")>>
    [] e.k = "avg"   -> <<KW("AVG"), P("(")>> \o ColToks(e.arg) \o <<P(")")>>
    [] OTHER         -> CondToks(e)
ItemToks(it) == ExprToks(it.e) \o (IF it.alias = "" THEN <<>> ELSE <<OptKW("AS"), Id(it.alias)>>)
TblToks(tb)  == <<Id(tb.name)>> \o (IF tb.alias = "" THEN <<>> ELSE <<Id(tb.alias)>>)
JoinToks(j)  == (IF j.jt = "INNER" THEN <<OptKW("INNER")>> ELSE <<KW(j.jt)>>)
                \o <<KW("JOIN")>> \o TblToks(j.tbl) \o <<KW("ON")>> \o CondToks(j.on)
OrdToks(o)   == ColToks(o.key) \o (IF o.dir = "ASC" THEN <<OptKW("ASC")>> ELSE <<KW("DESC")>>)
WhereToks(w) == IF w = <<>> THEN <<>> ELSE <<KW("WHERE")>> \o CondToks(w[1])
Flat(parts)  == Sep(parts, P(","))
RECURSIVE Concat(_)
Concat(parts) == IF Len(parts) = 0 THEN <<>> ELSE parts[1] \o Concat(Tail(parts))

Forms(s) == IF s.k = "select" /\ s.limit # <<>> /\ s.offset # <<>> THEN {"LO", "OL"} ELSE {"LO"}

SelectToks(s, f) ==
  LET lim == IF s.limit = <<>> THEN <<>> ELSE <<KW("LIMIT")>> \o OperandToks(s.limit[1])      \* an integer literal
      off == IF s.offset = <<>> THEN <<>> ELSE <<KW("OFFSET")>> \o OperandToks(s.offset[1])
  IN  <<KW("SELECT")>> \o Flat(Map(ItemToks, s.items))
      \o (IF s.from = <<>> THEN <<>> ELSE <<KW("FROM")>> \o TblToks(s.from[1]))
      \o Concat(Map(JoinToks, s.joins))
      \o WhereToks(s.where)
      \o (IF s.group = <<>> THEN <<>> ELSE <<KW("GROUP"), KW("BY")>> \o Sep(Map(ColToks, s.group), LegacyComma))
      \o (IF s.order = <<>> THEN <<>> ELSE <<KW("ORDER"), KW("BY")>> \o Flat(Map(OrdToks, s.order)))
      \o (IF f = "LO" THEN lim \o off ELSE off \o lim)

RowToks(r)  == <<P("(")>> \o Flat(Map(OperandToks, r)) \o <<P(")")>>
IdToks(n)   == <<Id(n)>>
InsertToks(s) ==
  <<KW("INSERT"), KW("INTO"), Id(s.table)>>
  \o (IF s.cols = <<>> THEN <<>> ELSE <<P("(")>> \o Flat(Map(IdToks, s.cols)) \o <<P(")")>>)
  \o <<KW("VALUES")>> \o Flat(Map(RowToks, s.rows))
AsgToks(a)  == <<Id(a.col), P("=")>> \o OperandToks(a.val)
UpdateToks(s) == <<KW("UPDATE"), Id(s.table), KW("SET")>> \o Flat(Map(AsgToks, s.set)) \o WhereToks(s.where)
DeleteToks(s) == <<KW("DELETE"), KW("FROM"), Id(s.table)>> \o WhereToks(s.where)
TypeToks(ty) == IF ty.k = "VARCHAR" THEN <<KW("VARCHAR"), P("("), IntT(ty.len), P(")")>> ELSE <<KW(ty.k)>>
DefToks(d)  == <<Id(d.name)>> \o TypeToks(d.type)
CreateTableToks(s) == <<KW("CREATE"), KW("TABLE"), Id(s.table), P("(")>> \o Flat(Map(DefToks, s.defs)) \o <<P(")")>>

Toks(s, f) ==
  (CASE s.k = "select"          -> SelectToks(s, f)
     [] s.k = "insert"          -> InsertToks(s)
     [] s.k = "update"          -> UpdateToks(s)
     [] s.k = "delete"          -> DeleteToks(s)
     [] s.k = "create_table"    -> CreateTableToks(s)
     [] s.k = "create_database" -> <<KW("CREATE"), KW("DATABASE"), Id(s.name)>>
     [] s.k = "use"             -> <<KW("USE"), Id(s.name)>>
     [] s.k = "show_databases"  -> <<KW("SHOW"), KW("DATABASES")>>)
  \o <<Terminator>>

-----------------------------------------------------------------------------
(* The bounded statement universe: every clause is varied exhaustively     *)
(* within its bound while the other clauses stay at a base value, plus a   *)
(* slice that combines a few values of every clause.                       *)

BaseFrom  == <<Tbl(BaseTable, "")>>
BaseItems == <<Item(Star, "")>>
NoC == <<>>
SimpleSel(items) == Sel(items, BaseFrom, NoC, NoC, NoC, NoC, NoC, NoC)
WhereSel(c)      == Sel(BaseItems, BaseFrom, NoC, <<c>>, NoC, NoC, NoC, NoC)

Trees(n)   == CondsOfLen(LeafPool, n)
ItemExprs  == ColRefs \cup Lits \cup {CountOf(Star)} \cup {CountOf(c) : c \in ColRefs} \cup {AvgOf(c) : c \in ColRefs}
AliasOpts  == {""} \cup Aliases
JoinSet    == {JoinOf(jt, tb, on) : jt \in JoinTypes, tb \in JoinTblPool, on \in CondPool}
OrdSet     == {Ord(c, d) : c \in ColPool, d \in Dirs}
AsgSet     == {Asg(c, v) : c \in Cols, v \in LitPool}
CountStar  == <<Item(CountOf(Star), "")>>

\* a few values of every clause, all combinations
ComboCond   == CHOOSE c \in CondPool : c.k = "cmp"
ComboGroup  == CHOOSE g \in Seqs(ColPool, 2) : g[1] # g[2]
ComboCol    == CHOOSE c \in ColPool : c.q # ""
ComboLim    == CHOOSE n \in LimVals : TRUE
LimLits     == {IntL(n) : n \in LimVals}
BigLits     == {BigL(d) : d \in BigInts}
ComboItems  == {CountStar} \cup {<<it>> : it \in ItemPool}
ComboJoins  == {NoC} \cup {<<JoinOf(jt, tb, ComboCond)>> : jt \in {"INNER", "LEFT"}, tb \in JoinTblPool}

\* rows of one INSERT have the same width; a column list, when present, has that width too
FixedCols(w) == CHOOSE f \in [1..w -> Cols] : \A i, j \in 1..w : i # j => f[i] # f[j]
FixedRow(w)  == [i \in 1..w |-> CHOOSE v \in LitPool : TRUE]
FixedAsg     == <<Asg(CHOOSE x \in Cols : TRUE, CHOOSE v \in LitPool : TRUE)>>
PlainStr     == StrL(CHOOSE x \in StrLits : TRUE)
PlainCol     == Col("", CHOOSE x \in Cols : TRUE)
\* column names are taken in a fixed order; what varies is the number of columns and their types
DefNames == CHOOSE f \in [1..MaxDefs -> Cols \cup Aliases \cup Tables \cup Dbs] : \A i, j \in 1..MaxDefs : i # j => f[i] # f[j]

SliceNames == {"sel_item_expr", "sel_item_leaf", "sel_item_tree", "sel_items", "sel_nofrom", "sel_star",
               "sel_from", "sel_on", "sel_where_leaf", "sel_where_tree",
               "sel_group_count", "sel_group_cols", "sel_group_alias", "sel_order", "sel_limit", "sel_combo",
               "ins_cols", "ins_row", "ins_rows", "upd_one", "upd_list", "upd_where_leaf", "upd_where_tree",
               "del_all", "del_leaf", "del_tree", "create_table", "create_database", "use", "show", "given",
               "str_insert", "str_update", "str_cond", "str_item", "qid", "uni", "big"}

\* A slice is a family of sets indexed by a size (list length, number of leaves; for INSERT
\* 10 * width + rows): SliceSizes(name) are the sizes within the bounds, Slice(name, n) one member.
\* (Operators with parameters, so that TLC builds only what a configuration uses, one size at a time.)
SliceSizes(name) ==
  CASE name \in {"sel_item_tree", "sel_where_tree", "upd_where_tree", "del_tree"} -> 2..MaxLeaves
    [] name = "sel_on"          -> 1..MaxLeaves
    [] name = "sel_items"       -> 1..MaxItems
    [] name = "sel_nofrom"      -> 1..2
    [] name = "sel_from"        -> 0..MaxJoins
    [] name \in {"sel_group_count", "sel_group_cols", "sel_group_alias"} -> 1..MaxGroup
    [] name = "sel_order"       -> 1..MaxOrder
    [] name \in {"ins_cols", "ins_row"} -> 1..MaxVals
    [] name = "ins_rows"        -> {10 * w + r : w \in 1..MaxVals, r \in 1..MaxRows}
    [] name = "upd_list"        -> 1..MaxSet
    [] name = "create_table"    -> 1..MaxDefs
    [] OTHER                    -> {0}

Slice(name, n) ==
  CASE name = "sel_item_expr"  -> {SimpleSel(<<Item(e, al)>>) : e \in ItemExprs, al \in AliasOpts}
    [] name = "sel_item_leaf"  -> {SimpleSel(<<Item(e, al)>>) : e \in LeafSet, al \in AliasOpts}
    [] name = "sel_item_tree"  -> {SimpleSel(<<Item(e, al)>>) : e \in Trees(n), al \in AliasOpts}
    [] name = "sel_items"      -> {SimpleSel(il) : il \in Seqs(ItemPool, n)}
    [] name = "sel_nofrom"     -> {Sel(il, NoC, NoC, NoC, NoC, NoC, NoC, NoC) : il \in Seqs(ItemPool, n)}
    [] name = "sel_star"       -> {SimpleSel(BaseItems)}
    [] name = "sel_from"       -> {Sel(BaseItems, <<tr>>, js, NoC, NoC, NoC, NoC, NoC) : tr \in TblRefs, js \in Seqs(JoinSet, n)}
    [] name = "sel_on"         -> {Sel(BaseItems, BaseFrom, <<JoinOf(jt, tb, on)>>, NoC, NoC, NoC, NoC, NoC) :
                                      jt \in JoinTypes, tb \in JoinTblPool, on \in Trees(n)}
    [] name = "sel_where_leaf" -> {WhereSel(c) : c \in LeafSet}
    [] name = "sel_where_tree" -> {WhereSel(c) : c \in Trees(n)}
    [] name = "sel_group_count" -> {Sel(CountStar, BaseFrom, NoC, NoC, g, NoC, NoC, NoC) : g \in Seqs(ColPool, n)}
    [] name = "sel_group_cols" -> {Sel([i \in 1..n |-> Item(g[i], "")] \o CountStar, BaseFrom, NoC, NoC, g, NoC, NoC, NoC) :
                                      g \in Seqs(ColPool, n)}
    [] name = "sel_group_alias" -> {Sel(<<Item(g[1], al), Item(AvgOf(c), "")>>, BaseFrom, NoC, NoC,
                                        <<Col("", al)>> \o Tail(g), NoC, NoC, NoC) : g \in Seqs(ColPool, n), al \in Aliases, c \in ColPool}
    [] name = "sel_order"      -> {Sel(BaseItems, BaseFrom, NoC, NoC, NoC, o, NoC, NoC) : o \in Seqs(OrdSet, n)}
    [] name = "sel_limit"      -> {Sel(BaseItems, BaseFrom, NoC, NoC, NoC, o, l, f) :
                                      o \in {NoC, <<Ord(ComboCol, "DESC")>>}, l \in Opt(LimLits), f \in Opt(LimLits)}
    [] name = "sel_combo"      -> {Sel(il, <<tr>>, js, w, g, o, l, f) :
                                      il \in ComboItems, tr \in {Tbl(BaseTable, al) : al \in AliasOpts}, js \in ComboJoins,
                                      w \in Opt(CondPool), g \in {NoC, ComboGroup},
                                      o \in {NoC, <<Ord(ComboCol, "ASC"), Ord(ComboCol, "DESC")>>},
                                      l \in Opt({IntL(ComboLim)}), f \in Opt({IntL(ComboLim)})}
    [] name = "ins_cols"       -> {Ins(tb, cols, <<FixedRow(n)>>) : tb \in Tables, cols \in Seqs(Cols, n)}
    [] name = "ins_row"        -> {Ins(BaseTable, cols, <<row>>) : cols \in {NoC, FixedCols(n)}, row \in Seqs(Lits, n)}
    [] name = "ins_rows"       -> {Ins(BaseTable, cols, rows) : cols \in {NoC, FixedCols(n \div 10)},
                                                             rows \in Seqs(Seqs(LitPool, n \div 10), n % 10)}
    [] name = "upd_one"        -> {Upd(tb, <<Asg(c, v)>>, w) : tb \in Tables, c \in Cols, v \in Lits, w \in Opt(CondPool)}
    [] name = "upd_list"       -> {Upd(BaseTable, set, w) : set \in Seqs(AsgSet, n), w \in Opt(CondPool)}
    [] name = "upd_where_leaf" -> {Upd(BaseTable, FixedAsg, <<c>>) : c \in LeafSet}
    [] name = "upd_where_tree" -> {Upd(BaseTable, FixedAsg, <<c>>) : c \in Trees(n)}
    [] name = "del_all"        -> {Del(tb, NoC) : tb \in Tables}
    [] name = "del_leaf"       -> {Del(BaseTable, <<c>>) : c \in LeafSet}
    [] name = "del_tree"       -> {Del(BaseTable, <<c>>) : c \in Trees(n)}
    [] name = "create_table"   -> {CreT(tb, [i \in 1..n |-> Def(DefNames[i], tys[i])]) : tb \in Tables, tys \in Seqs(Types, n)}
    [] name = "create_database" -> {CreD(d) : d \in Dbs}
    [] name = "use"            -> {UseD(d) : d \in Dbs}
    [] name = "show"           -> {ShowD}
    [] name = "given"          -> Stmts
    \* string literals that look like something else, in every place a literal can stand
    [] name = "str_insert"     -> {Ins(BaseTable, NoC, <<<<StrL(x)>>>>) : x \in TrickyStrs}
                                  \cup {Ins(BaseTable, NoC, <<<<PlainStr, StrL(x), PlainStr>>>>) : x \in TrickyStrs}
                                  \cup {Ins(BaseTable, FixedCols(2), <<<<StrL(x), StrL(y)>>, <<StrL(y), IntL(ComboLim)>>>>) : x, y \in TrickyStrs}
    [] name = "str_update"     -> {Upd(BaseTable, <<Asg(PlainCol.n, StrL(x))>>, IF wh THEN <<Cmp("=", PlainCol, StrL(x))>> ELSE NoC) : x \in TrickyStrs, wh \in BOOLEAN}
                                  \cup {Upd(BaseTable, <<Asg(PlainCol.n, StrL(x)), Asg(PlainCol.n, StrL(y))>>, NoC) : x, y \in TrickyStrs}
    [] name = "str_cond"       -> LET cs == {Cmp(op, PlainCol, StrL(x)) : op \in CmpOps, x \in TrickyStrs}
                                           \cup {Cmp(op, StrL(x), PlainCol) : op \in CmpOps, x \in TrickyStrs}
                                           \cup {AndN(Cmp("=", PlainCol, StrL(x)), Cmp("!=", StrL(y), PlainCol)) : x, y \in TrickyStrs}
                                           \cup {OrN(Cmp("=", PlainCol, StrL(x)), Cmp("<", PlainCol, StrL(x))) : x \in TrickyStrs}
                                  IN  {WhereSel(c) : c \in cs} \cup {Del(BaseTable, <<c>>) : c \in cs}
                                      \cup {Sel(BaseItems, BaseFrom, <<JoinOf("LEFT", tb, c)>>, NoC, NoC, NoC, NoC, NoC) : tb \in JoinTblPool, c \in cs}
    [] name = "str_item"       -> {SimpleSel(<<Item(StrL(x), al)>>) : x \in TrickyStrs, al \in AliasOpts}
                                  \cup {SimpleSel(<<Item(Cmp("=", PlainCol, StrL(x)), al), Item(StrL(x), "")>>) : x \in TrickyStrs, al \in AliasOpts}
                                  \cup {Sel(<<Item(StrL(x), "")>>, NoC, NoC, NoC, NoC, NoC, NoC, NoC) : x \in TrickyStrs}
    \* delimited identifiers in every place an identifier can stand
    [] name = "qid"            -> {Sel(<<Item(Col(qj, qi), al)>>, <<Tbl(qi, qj)>>, <<JoinOf("INNER", Tbl(qj, qi), Cmp("=", Col(qj, qi), Col(qi, qj)))>>,
                                       <<Cmp("=", Col("", qi), StrL(qi))>>, <<Col(qj, qi)>>, <<Ord(Col("", qi), "DESC")>>, NoC, NoC) :
                                      qi \in QuotedIdents, qj \in QuotedIdents, al \in {""} \cup QuotedIdents}
                                  \cup {Ins(qi, <<qj>>, <<<<StrL(qi)>>>>) : qi \in QuotedIdents, qj \in QuotedIdents}
                                  \cup {Upd(qi, <<Asg(qj, StrL(qi))>>, <<Cmp("=", Col(qi, qj), IntL(ComboLim))>>) : qi \in QuotedIdents, qj \in QuotedIdents}
                                  \cup {Del(qi, NoC) : qi \in QuotedIdents}
                                  \cup {CreT(qi, <<Def(qj, Ty("INT", 0)), Def(qi, Ty("VARCHAR", ComboLim + 1))>>) : qi \in QuotedIdents, qj \in QuotedIdents}
                                  \cup {CreD(qi) : qi \in QuotedIdents} \cup {UseD(qi) : qi \in QuotedIdents}

    \* integer literals beyond 32 bits wherever an integer literal can stand
    [] name = "big"            -> {Ins(BaseTable, NoC, <<<<x>>>>) : x \in BigLits}
                                  \cup {Ins(BaseTable, FixedCols(2), <<<<x, y>>, <<PlainStr, x>>>>) : x \in BigLits, y \in BigLits}
                                  \cup {Upd(BaseTable, <<Asg(PlainCol.n, x)>>, <<Cmp(op, PlainCol, y)>>) : x \in BigLits, y \in BigLits, op \in CmpOps}
                                  \cup {WhereSel(Cmp(op, x, PlainCol)) : x \in BigLits, op \in CmpOps}
                                  \cup {Del(BaseTable, <<AndN(Cmp("<", PlainCol, x), Cmp(">=", y, PlainCol))>>) : x \in BigLits, y \in BigLits}
                                  \cup {Sel(BaseItems, BaseFrom, <<JoinOf("RIGHT", tb, Cmp("=", PlainCol, x))>>, NoC, NoC, NoC, NoC, NoC) :
                                           tb \in JoinTblPool, x \in BigLits}
                                  \cup {SimpleSel(<<Item(x, al), Item(Cmp("!=", x, y), "")>>) : x \in BigLits, y \in BigLits, al \in AliasOpts}
                                  \cup {Sel(BaseItems, BaseFrom, NoC, NoC, NoC, NoC, l, f) : l \in Opt(BigLits), f \in Opt(BigLits \cup LimLits)}
    \* characters of 2, 3 and 4 bytes in literals and identifiers
    [] name = "uni"            -> {Ins(ti, <<ci>>, <<<<StrL(x), IntL(ComboLim), StrL(y)>>, <<StrL(y), StrL(x), PlainStr>>>>) :
                                      ti \in UniIdents, ci \in UniIdents, x \in UniStrs, y \in UniStrs}
                                  \cup {Upd(ti, <<Asg(ci, StrL(x))>>, <<Cmp("=", Col(ti, ci), StrL(y))>>) :
                                      ti \in UniIdents, ci \in UniIdents, x \in UniStrs, y \in UniStrs}
                                  \cup {Sel(<<Item(StrL(x), ci), Item(Col("", ci), "")>>, <<Tbl(ti, ci)>>, NoC,
                                          <<OrN(Cmp("!=", StrL(x), Col(ci, ti)), Cmp("<", Col("", ci), StrL(y)))>>, NoC,
                                          <<Ord(Col("", ci), "DESC")>>, NoC, NoC) :
                                      ti \in UniIdents, ci \in UniIdents, x \in UniStrs, y \in UniStrs}
                                  \cup {Del(ti, <<Cmp("=", StrL(x), StrL(y))>>) : ti \in UniIdents, x \in UniStrs, y \in UniStrs}
                                  \cup {CreT(ti, <<Def(ci, Ty("INT", 0))>>) : ti \in UniIdents, ci \in UniIdents}

\* membership in the universe a configuration works with
InUniverse(names, s) == StmtWF(s) /\ \E nm \in names : \E n \in SliceSizes(nm) : s \in Slice(nm, n)

\* C10 counts these: a statement that exercises an optional construct or a boolean tree
HasOptional(s) == \E i \in DOMAIN Toks(s, "LO") : Toks(s, "LO")[i].o \in {"kw", "legacy"}
StmtConds(s) ==
  CASE s.k = "select" -> {s.items[i].e : i \in 1..Len(s.items)} \cup {s.joins[i].on : i \in 1..Len(s.joins)}
                         \cup {s.where[i] : i \in 1..Len(s.where)}
    [] s.k \in {"update", "delete"} -> {s.where[i] : i \in 1..Len(s.where)}
    [] OTHER -> {}
HasTree(s) == \E c \in StmtConds(s) : c.k \in {"and", "or"}
NonTrivial(s) == HasOptional(s) \/ HasTree(s)

-----------------------------------------------------------------------------
(* The machine                                                             *)

Pick == \E nm \in Slices : \E n \in SliceSizes(nm) : \E s \in Slice(nm, n) : \E f \in Forms(s) :
           /\ StmtWF(s)
           /\ ast = s /\ form = f /\ rest = Toks(s, f)
           /\ toks = <<>> /\ junk = 0 /\ tail = 0

CanEmit == rest # <<>> /\ ~JunkAtEndOnly /\ (junk = 0 \/ tail < MaxTail)

\* the next token of the statement
EmitNext == /\ CanEmit
            /\ toks' = Append(toks, Head(rest)) /\ rest' = Tail(rest)
            /\ tail' = IF junk = 0 THEN 0 ELSE tail + 1
            /\ UNCHANGED <<ast, form, junk>>

\* a token the grammar allows to be left out is left out
Skip == /\ CanEmit /\ Head(rest).o # ""
        /\ rest' = Tail(rest)
        /\ UNCHANGED <<ast, form, toks, junk, tail>>

\* the whole remainder at once: EmitNext repeated to the end (used where only complete derivations matter)
Finish == /\ rest # <<>>
          /\ toks' = toks \o rest /\ rest' = <<>>
          /\ UNCHANGED <<ast, form, junk, tail>>

JunkVocab == IF junk = 0 THEN Vocab ELSE Vocab2
JunkOK    == junk < MaxJunk /\ (JunkAtEndOnly => rest = <<>>)

\* any vocabulary token is inserted here ...
JunkInsert(tk) == /\ JunkOK /\ tk \in JunkVocab
                  /\ toks' = Append(toks, tk) /\ junk' = junk + 1 /\ tail' = 0
                  /\ UNCHANGED <<ast, form, rest>>
\* ... or takes the place of the next token
JunkSubst(tk) == /\ JunkOK /\ tk \in JunkVocab /\ rest # <<>> /\ ~JunkAtEndOnly
                 /\ <<tk.t, tk.v>> # <<Head(rest).t, Head(rest).v>>
                 /\ toks' = Append(toks, tk) /\ rest' = Tail(rest) /\ junk' = junk + 1 /\ tail' = 0
                 /\ UNCHANGED <<ast, form>>

Next == EmitNext \/ Skip \/ (\E tk \in Vocab \cup Vocab2 : JunkInsert(tk) \/ JunkSubst(tk))

\* complete derivations only, then junk (if any budget) after the end
NextComplete == Finish \/ (\E tk \in Vocab \cup Vocab2 : JunkInsert(tk))

Spec == Pick /\ [][Next]_vars

-----------------------------------------------------------------------------
(* Properties of the machine itself                                        *)

TokenOK(tk) == /\ tk.t \in {"KW", "P", "IDENT", "QID", "INT", "STR", "RAW", "LEX"}
               /\ tk.o \in {"", "kw", "term", "legacy"}
TypeOK == /\ ast.k \in StmtKinds /\ StmtWF(ast) /\ form \in Forms(ast)
          /\ \A i \in DOMAIN toks : TokenOK(toks[i])
          /\ \A i \in DOMAIN rest : TokenOK(rest[i])
          /\ junk \in 0..MaxJunk

\* every reachable state without junk is a truncation of the picked statement's
\* token sequence with some optional tokens left out
RECURSIVE IsSubseqKeepingRequired(_, _)
IsSubseqKeepingRequired(a, b) ==     \* a is b with some optional tokens removed
  IF a = <<>> THEN \A i \in DOMAIN b : b[i].o # ""
  ELSE IF b = <<>> THEN FALSE
  ELSE IF Head(a) = Head(b) THEN IsSubseqKeepingRequired(Tail(a), Tail(b))
  ELSE Head(b).o # "" /\ IsSubseqKeepingRequired(a, Tail(b))
TruncationInv ==
  junk = 0 => LET full == Toks(ast, form)
                  done == SubSeq(full, 1, Len(full) - Len(rest))
              IN  /\ rest = SubSeq(full, Len(full) - Len(rest) + 1, Len(full))
                  /\ IsSubseqKeepingRequired(toks, done)

\* the statement proper uses grammar keywords only, and a statement keyword only in first position
GrammarUsesOnly ==
  junk = 0 => LET all == toks \o rest IN
              /\ \A i \in 1..Len(all) : all[i].t = "KW" => all[i].v \in GrammarKeywords \cup {"DATABASES"}
              /\ \A i \in 2..Len(all) : \A tk \in NeverContinues : ~(tk.t = all[i].t /\ tk.v = all[i].v)

\* what the front end may answer, whatever the input (C09)
Outcomes == {"stmt", "error"}
=============================================================================
