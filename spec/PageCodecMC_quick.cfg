CONSTANTS
  Pages = {2}
  LeafCounts = {0, 1, 2, 4, 8, 9}
  IntCounts = {0, 1, 2, 145, 289, 290}
  SizeClasses = {0, 1, 399, 400}
  SizePats = {"all0", "all400", "cyc", "last0", "first0"}
  DelPats = {"none", "all", "first", "alt"}
  PermPats = {"id", "rev", "mid"}
  IntPerms = {"append", "mid"}
  SibOpts = {"--", "L-", "-R", "LR"}
  LsnClasses = {"0", "1", "4294967297"}
  KeyClasses = {"small", "wide"}
  StaleOpts = {FALSE, TRUE}
  UpdFrom = {}
  SmallN = 2
  MaxOps = 3
  MaxUpd = 1
  EmitOn = TRUE
INIT MCInit
NEXT MCNext
VIEW View
ACTION_CONSTRAINT Emit
INVARIANTS OnePageEach CacheOK FetchReturnsRegister FetchIsLastStored
PROPERTIES OthersUndisturbed ReadsChangeNothing
CHECK_DEADLOCK FALSE
