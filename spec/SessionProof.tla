---------------------------- MODULE SessionProof ----------------------------
(* The three promises of Session.tla hold for histories of any length, any  *)
(* number of databases and rows: TypeOK is an inductive invariant, and      *)
(* every step satisfies Isolation, ErrorsChangeNothing, PausesChangeNothing.*)
(* TLC checks the same on bounded instances (SessionMC) whose behaviours    *)
(* are replayed on the real engine (C17); this proof (TLAPS) removes the    *)
(* bound on the specification side.                                         *)
EXTENDS Session, TLAPS

Spec == SessInit /\ [][SessNext]_sessVars

THEOREM InitType == SessInit => TypeOK
  BY DEF SessInit, TypeOK

LEMMA StepType == TypeOK /\ [SessNext]_sessVars => TypeOK'
<1> SUFFICES ASSUME TypeOK, [SessNext]_sessVars PROVE TypeOK'
  OBVIOUS
<1> USE DEF TypeOK
<1>1. CASE UNCHANGED sessVars
  BY <1>1 DEF sessVars
<1>2. CASE Tick
  BY <1>2 DEF Tick
<1>3. ASSUME NEW n \in Names, CreateDb(n) PROVE TypeOK'
  BY <1>3 DEF CreateDb
<1>4. ASSUME NEW n \in Names, Use(n) PROVE TypeOK'
  BY <1>4 DEF Use
<1>5. CASE Show
  BY <1>5 DEF Show
<1>6. CASE CreateTable
  BY <1>6 DEF CreateTable
<1>7. CASE Restart
  BY <1>7 DEF Restart
<1>8. CASE CrashRestart
  BY <1>8 DEF CrashRestart
<1>9. ASSUME NEW v \in Vals, Insert(v) PROVE TypeOK'
  BY <1>9 DEF Insert
<1>10. ASSUME NEW v \in Vals, Delete(v) PROVE TypeOK'
  BY <1>10 DEF Delete
<1>11. CASE OtherTable
  BY <1>11 DEF OtherTable
<1> QED BY <1>1, <1>2, <1>3, <1>4, <1>5, <1>6, <1>7, <1>8, <1>9, <1>10, <1>11 DEF SessNext

\* the action formulas inside the three temporal properties
IsoStep == \A d \in dbs : d # cur => content'[d] = content[d]
ErrStep == res'.k = "error" => UNCHANGED <<dbs, cur, content>>
PauseStep == res'.k \in {"tick", "restart", "crash"} => UNCHANGED <<dbs, content>>

LEMMA StepProps == TypeOK /\ [SessNext]_sessVars => IsoStep /\ ErrStep /\ PauseStep
<1> SUFFICES ASSUME TypeOK, [SessNext]_sessVars PROVE IsoStep /\ ErrStep /\ PauseStep
  OBVIOUS
<1> USE DEF TypeOK, IsoStep, ErrStep, PauseStep, R, OK, ERR
<1>1. CASE UNCHANGED sessVars
  BY <1>1 DEF sessVars
<1>2. CASE Tick
  BY <1>2 DEF Tick
<1>3. ASSUME NEW n \in Names, CreateDb(n) PROVE IsoStep /\ ErrStep /\ PauseStep
  BY <1>3 DEF CreateDb
<1>4. ASSUME NEW n \in Names, Use(n) PROVE IsoStep /\ ErrStep /\ PauseStep
  BY <1>4 DEF Use
<1>5. CASE Show
  BY <1>5 DEF Show
<1>6. CASE CreateTable
  BY <1>6 DEF CreateTable
<1>7. CASE Restart
  BY <1>7 DEF Restart
<1>8. CASE CrashRestart
  BY <1>8 DEF CrashRestart
<1>9. ASSUME NEW v \in Vals, Insert(v) PROVE IsoStep /\ ErrStep /\ PauseStep
  BY <1>9 DEF Insert
<1>10. ASSUME NEW v \in Vals, Delete(v) PROVE IsoStep /\ ErrStep /\ PauseStep
  BY <1>10 DEF Delete
<1>11. CASE OtherTable
  BY <1>11 DEF OtherTable
<1> QED BY <1>1, <1>2, <1>3, <1>4, <1>5, <1>6, <1>7, <1>8, <1>9, <1>10, <1>11 DEF SessNext

THEOREM Promises == Spec => /\ []TypeOK
                            /\ [][IsoStep]_sessVars /\ [][ErrStep]_sessVars /\ [][PauseStep]_sessVars
<1>1. Spec => []TypeOK
  BY InitType, StepType, PTL DEF Spec
<1>2. TypeOK /\ [SessNext]_sessVars => [IsoStep]_sessVars /\ [ErrStep]_sessVars /\ [PauseStep]_sessVars
  BY StepProps
<1> QED BY <1>1, <1>2, PTL DEF Spec

THEOREM Spec => Isolation /\ ErrorsChangeNothing /\ PausesChangeNothing
  BY Promises DEF Isolation, ErrorsChangeNothing, PausesChangeNothing, IsoStep, ErrStep, PauseStep
=============================================================================
