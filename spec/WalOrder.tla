------------------------------ MODULE WalOrder ------------------------------
(* The write-ordering discipline of the store, one action per step the code *)
(* takes: a statement takes the shared lock, stamps pages with fresh LSNs,  *)
(* appends one log record per stamp and releases the lock; a flush takes    *)
(* the exclusive lock, writes every dirty page, then the header, and        *)
(* releases it; a crash forgets the cache and keeps what the files hold;    *)
(* recovery re-stamps pages from log records newer than the page and ends   *)
(* with a flush.  Store.tla says WHAT the pages and the log contain; this   *)
(* module says IN WHICH ORDER the code may touch them.  It is what makes    *)
(* the log a write-AHEAD log (C02/C03), what keeps a flush from seeing half *)
(* a statement (C13), what makes the header the last word of a flush (C04)  *)
(* and what "a refused statement changes nothing" means for pages (C14).    *)
(*                                                                          *)
(* In the README's words the page cache is NO STEAL (no page of a running    *)
(* statement reaches the data file: WritePage needs the exclusive lock, and *)
(* a full cache refuses rather than writes - Aborted) and NO FORCE (a       *)
(* statement returns once its records are in the log: Result asks for       *)
(* stamped = logged, never for a flush, CREATE TABLE excepted).             *)
(*                                                                          *)
(* Every action takes the values the code used (page, LSN, ...) as          *)
(* arguments: WalOrderMC.tla picks them nondeterministically from small     *)
(* sets, WalOrderTrace.tla takes them from a recorded run of the real store.*)
EXTENDS Integers, FiniteSets, TLC

VARIABLES
  lock,      \* "none" | "S" (a statement) | "X" (a flush)
  kind,      \* announced statement: "none" | "read" | "create" | "insert" | "update" | "delete"
  inRec,     \* between a crash and the end of recovery
  stamp,     \* page -> LSN it was last stamped with, for the pages dirty in the cache
  stamped,   \* LSNs stamped since the statement began
  logged,    \* LSNs logged since the statement began
  lastStamp, \* the latest LSN stamped since the statement (or the recovery) began
  maxLogged, \* highest LSN in the log file
  unlogged,  \* LSNs stamped by CREATE TABLE (never logged: it flushes before it returns)
  disk,      \* page -> LSN of the version in the data file
  hdrNext,   \* next LSN according to the header in the data file
  hdrNx,     \* next free page according to the header in the data file
  hdrDone    \* the flush in progress / the last flush: "no" header not written yet, "yes" written, "failed" abandoned on a write error

woVars == <<lock, kind, inRec, stamp, stamped, logged, lastStamp, maxLogged, unlogged, disk, hdrNext, hdrNx, hdrDone>>

DML == {"insert", "update", "delete"}
DiskLsn(p) == IF p \in DOMAIN disk THEN disk[p] ELSE 0
Put(f, k, v) == [x \in DOMAIN f \cup {k} |-> IF x = k THEN v ELSE f[x]]
Drop(f, k) == [x \in DOMAIN f \ {k} |-> f[x]]

WoInit == /\ lock = "none" /\ kind = "none" /\ inRec = FALSE /\ stamp = <<>> /\ stamped = {} /\ logged = {}
          /\ lastStamp = 0 /\ maxLogged = 0 /\ unlogged = {} /\ disk = <<>> /\ hdrNext = 0 /\ hdrNx = 0 /\ hdrDone = "no"

\* the session announces a statement (harness mark; the code has not started yet)
Begin(k) == /\ lock = "none" /\ kind = "none" /\ ~inRec
            /\ kind' = k /\ lastStamp' = 0
            /\ UNCHANGED <<lock, inRec, stamp, stamped, logged, maxLogged, unlogged, disk, hdrNext, hdrNx, hdrDone>>

\* StartTxn: shared lock.  Not while a flush runs; an unannounced one is a read.
\* Nor by a statement that released the lock with stamped changes it had not logged: such a statement is over (Aborted).
SharedLock == /\ lock = "none" /\ ~inRec
              /\ kind \in DML => stamped = {}     \* ... and one that has changed pages under the lock does not take it a second time:
                                                  \* between its two halves the flusher - and a crash - would see some of its rows
              /\ lock' = "S" /\ kind' = (IF kind = "none" THEN "read" ELSE kind)
              /\ UNCHANGED <<inRec, stamp, stamped, logged, lastStamp, maxLogged, unlogged, disk, hdrNext, hdrNx, hdrDone>>

\* markDirty(lsn) on page p.  In a statement: only under the shared lock of a writing statement, with an LSN that
\* is fresh (beyond the log and beyond the header's promise) and never smaller than the previous stamp; lsn 0 is
\* the stamp of a page that was just allocated.  In recovery: the LSN of a log record, newer than the page's
\* version in the data file (an older or equal record is already in the page and must be skipped).
Stamp(p, lsn) ==
  /\ IF inRec
     THEN /\ lock = "none"
          /\ lsn <= maxLogged /\ lsn >= lastStamp
          /\ (p \in DOMAIN stamp \/ lsn > DiskLsn(p))
     ELSE /\ lock = "S" /\ kind \in DML \cup {"create"}
          /\ lsn = 0 \/ (lsn > maxLogged /\ lsn >= hdrNext /\ lsn >= lastStamp)
  /\ stamp' = Put(stamp, p, lsn)
  /\ stamped' = stamped \cup ({lsn} \ {0})
  /\ lastStamp' = IF lsn = 0 THEN lastStamp ELSE lsn
  /\ UNCHANGED <<lock, kind, inRec, logged, maxLogged, unlogged, disk, hdrNext, hdrNx, hdrDone>>

\* one record appended to the log: under the statement's lock, after the change it describes was made in the
\* cache (its LSN was stamped), with an LSN above everything already in the log
LogAppend(lsn) == /\ lock = "S" /\ kind \in DML /\ ~inRec
                  /\ lsn \in stamped /\ lsn > maxLogged
                  /\ maxLogged' = lsn /\ logged' = logged \cup {lsn}
                  /\ UNCHANGED <<lock, kind, inRec, stamp, stamped, lastStamp, unlogged, disk, hdrNext, hdrNx, hdrDone>>

LogSync == /\ lock = "S" /\ kind \in DML /\ UNCHANGED woVars

\* EndTxn.  A read has stamped nothing and is over; a writing statement stays announced until its result is known.
SharedUnlock == /\ lock = "S"
                /\ kind = "read" => (stamped = {} /\ logged = {})
                /\ lock' = "none" /\ kind' = (IF kind = "read" THEN "none" ELSE kind)
                /\ UNCHANGED <<inRec, stamp, stamped, logged, lastStamp, maxLogged, unlogged, disk, hdrNext, hdrNx, hdrDone>>

\* the statement returned.  Refused: it stamped and logged nothing (C14).  Accepted DML: every stamp has its
\* log record (write-ahead: nothing of it can reach the data file unlogged).  Accepted CREATE TABLE: nothing was
\* logged, and everything it stamped is already in the data file.
Result(ok) == /\ lock = "none" /\ kind \in DML \cup {"create"}
              /\ ~ok => (stamped = {} /\ logged = {})
              /\ (ok /\ kind \in DML) => stamped = logged
              /\ (ok /\ kind = "create") => (logged = {} /\ DOMAIN stamp = {})
              /\ unlogged' = (IF kind = "create" THEN unlogged \cup stamped ELSE unlogged)
              /\ kind' = "none" /\ stamped' = {} /\ logged' = {}
              /\ UNCHANGED <<lock, inRec, stamp, lastStamp, maxLogged, disk, hdrNext, hdrNx, hdrDone>>

\* the statement was abandoned half-way because the page cache was full of dirty pages (ErrLRUCacheFull): the
\* precondition of C16 is not met; nothing of it was logged, and what it stamped dies with the process (the
\* harness abandons the process right after)
Aborted == /\ lock = "none" /\ kind \in DML \cup {"create"}
           /\ logged = {}
           /\ \A p \in DOMAIN disk : disk[p] \notin stamped      \* (it never got as far as a flush of its own)
           /\ kind' = "none" /\ stamped' = {}
           /\ UNCHANGED <<lock, inRec, stamp, logged, lastStamp, maxLogged, unlogged, disk, hdrNext, hdrNx, hdrDone>>

\* flushPages takes the exclusive lock: never while a statement holds the shared one (C13)
\* and never while an announced statement has stamped changes it has not logged yet: a statement appends its
\* records before it releases the shared lock (Locks!LoggedBeforeUnlock), so the flusher cannot meet such a page -
\* it could neither write it (write-ahead) nor finish without it (WalOrderLive: the flush would never end)
ExclusiveLock == /\ lock = "none"
                 /\ kind \in DML => stamped \subseteq logged
                 /\ lock' = "X" /\ hdrDone' = "no"
                 /\ UNCHANGED <<kind, inRec, stamp, stamped, logged, lastStamp, maxLogged, unlogged, disk, hdrNext, hdrNx>>

\* one page written to the data file: inside a flush, before its header, a page that is dirty, in the version
\* it was last stamped with; and whatever LSN it carries is in the log already (or was never to be logged)
Covered(lsn) == lsn = 0 \/ lsn <= maxLogged \/ lsn \in unlogged \/ (kind = "create" /\ lsn \in stamped)
WritePage(p, lsn) == /\ lock = "X" /\ hdrDone = "no"
                     /\ IF p \in DOMAIN stamp THEN lsn = stamp[p] ELSE lsn = 0
                     /\ Covered(lsn)
                     /\ disk' = Put(disk, p, lsn)
                     /\ stamp' = IF p \in DOMAIN stamp THEN Drop(stamp, p) ELSE stamp
                     /\ UNCHANGED <<lock, kind, inRec, stamped, logged, lastStamp, maxLogged, unlogged, hdrNext, hdrNx, hdrDone>>

\* the header: after every dirty page of this flush, promising LSNs beyond everything on disk and in the log,
\* and free pages beyond every page in the file; neither promise ever moves backwards
WriteHeader(next, nx) == /\ lock = "X" /\ hdrDone = "no"
                         /\ DOMAIN stamp = {}
                         /\ next > maxLogged /\ (\A p \in DOMAIN disk : disk[p] < next) /\ next >= hdrNext
                         /\ nx >= hdrNx /\ \A p \in DOMAIN disk : p < nx
                         /\ hdrNext' = next /\ hdrNx' = nx /\ hdrDone' = "yes"
                         /\ UNCHANGED <<lock, kind, inRec, stamp, stamped, logged, lastStamp, maxLogged, unlogged, disk>>

\* a page write fails (I/O error): the flush is abandoned at once - nothing reached the file for this page, it stays
\* dirty in the cache (so it can never be evicted), the pages not yet written stay dirty too, no header is written
WritePageFails(p, lsn) == /\ lock = "X" /\ hdrDone = "no"
                          /\ p \in DOMAIN stamp /\ lsn = stamp[p]
                          /\ hdrDone' = "failed"
                          /\ UNCHANGED <<lock, kind, inRec, stamp, stamped, logged, lastStamp, maxLogged, unlogged, disk, hdrNext, hdrNx>>

ExclusiveUnlock == /\ lock = "X" /\ hdrDone \in {"yes", "failed"}
                   /\ lock' = "none"
                   /\ UNCHANGED <<kind, inRec, stamp, stamped, logged, lastStamp, maxLogged, unlogged, disk, hdrNext, hdrNx, hdrDone>>

\* the process dies between steps of no lock holder (crashes inside a log append are composed by the harness
\* as: the statement completes, then the log is cut): the cache is gone, the log keeps records up to m
\* (what a crash cannot take away: records of changes that reached the data file - they were in the log before)
Crash(m) == /\ lock = "none"
            /\ m <= maxLogged
            /\ \A p \in DOMAIN disk : disk[p] \in unlogged \/ disk[p] <= m
            /\ inRec' = TRUE /\ maxLogged' = m /\ stamp' = <<>> /\ kind' = "none"
            /\ stamped' = {} /\ logged' = {} /\ lastStamp' = 0
            /\ UNCHANGED <<lock, unlogged, disk, hdrNext, hdrNx, hdrDone>>

\* recovery is over: it ended with a complete flush
Recovered == /\ inRec /\ lock = "none" /\ DOMAIN stamp = {}
             /\ inRec' = FALSE /\ lastStamp' = 0 /\ stamped' = {}
             /\ UNCHANGED <<lock, kind, stamp, logged, maxLogged, unlogged, disk, hdrNext, hdrNx, hdrDone>>

-----------------------------------------------------------------------------
(* What the discipline buys (checked by TLC on the bounded instance, and on *)
(* every state of every validated trace)                                    *)

\* write-ahead: the data file never holds a change whose log record is not in the log file
\* (at a crash maxLogged shrinks only past records of a statement that the harness cut - those never reached a page)
WriteAhead == \A p \in DOMAIN disk : disk[p] = 0 \/ disk[p] <= maxLogged \/ disk[p] \in unlogged
                                      \/ (kind = "create" /\ disk[p] \in stamped)
\* outside a flush the header covers the file: no page beyond the free pointer, no LSN at or beyond the next LSN
\* (after a flush that was abandoned on a write error the file is ahead of its header until the next complete flush)
HeaderCovers == (lock # "X" /\ hdrNext > 0 /\ hdrDone = "yes") => (\A p \in DOMAIN disk : p < hdrNx /\ disk[p] < hdrNext)
\* a refused or read-only statement leaves no trace: whatever is dirty was stamped by an accepted statement,
\* by the statement still running, or by recovery
NoOrphanStamp == (kind = "read") => stamped = {}
=============================================================================
