--------------------------- MODULE ConsoleEditMC ---------------------------
(* Bounded instance of ConsoleEdit.  `typed` (the key path) is outside the  *)
(* VIEW, so TLC keeps one - under breadth-first search a shortest - key     *)
(* path per editor state; the action constraint prints, for every           *)
(* transition TLC explores, that path plus the key and the state the        *)
(* specification expects afterwards.  The harness presses the keys on the   *)
(* real Terminal and compares line, cursor, history position and the        *)
(* statements handed over.                                                  *)
EXTENDS ConsoleEdit, Json

CONSTANTS MaxLen,         \* longest edit line
          MaxKeys,        \* longest key path
          MaxOut,         \* at most this many statements handed over
          EmitOn

View == <<buf, pos, out, hist, hidx, pend>>

MCNext == /\ Len(typed) < MaxKeys
          /\ EdNext
          /\ Len(buf') <= MaxLen
          /\ Len(out') <= MaxOut

Emit == EmitOn => PrintT(<<"SCN", ToJson([keys |-> typed', buf |-> buf', pos |-> pos', out |-> out',
                                           hidx |-> hidx', nh |-> Len(hist')])>>)
=============================================================================
