----------------------------- MODULE WalOrderMC -----------------------------
(* Bounded instance of WalOrder: every interleaving of statements, flushes,  *)
(* crashes and recoveries over a few pages and LSNs that the discipline      *)
(* allows.  TLC checks that the discipline implies write-ahead logging and   *)
(* a header that covers the file.                                            *)
EXTENDS WalOrder

CONSTANTS Pages, MaxLsn, MaxCrash
VARIABLE crashes

MCInit == WoInit /\ crashes = 0
Lsns == 0..MaxLsn
MCNext ==
  \/ /\ UNCHANGED crashes
     /\ \/ \E k \in DML \cup {"create"} : Begin(k)
        \/ SharedLock \/ SharedUnlock \/ Aborted \/ ExclusiveLock \/ ExclusiveUnlock \/ Recovered
        \/ \E p \in Pages, n \in Lsns : Stamp(p, n) \/ WritePage(p, n) \/ WritePageFails(p, n)
        \/ \E n \in Lsns : LogAppend(n)
        \/ \E ok \in BOOLEAN : Result(ok)
        \/ \E n \in 1..(MaxLsn + 1), x \in 1..(Cardinality(Pages) + 1) : WriteHeader(n, x)
  \/ /\ crashes < MaxCrash /\ crashes' = crashes + 1
     /\ \E m \in Lsns : Crash(m)
MCSpec == MCInit /\ [][MCNext]_<<woVars, crashes>>
\* the log never loses a record whose change is in the data file, so recovery can always redo the rest
LogMonotoneOutsideCrash == [][inRec' = inRec => maxLogged' >= maxLogged]_<<woVars, crashes>>
=============================================================================
