------------------------------- MODULE BTree -------------------------------
(* mkdb's on-disk B+ tree (storage/btree.go, btreeNode.split in page.go)   *)
(* as operators over a page map.                                           *)
(*                                                                         *)
(* A "view" of the file is a pair (c, d): c maps page ids to pages changed *)
(* in memory and not yet written (the dirty part of the page cache), d is  *)
(* the data file.  Rd reads through c to d; a page that was never written  *)
(* reads as zero bytes, which the code decodes as an empty internal node.  *)
(*                                                                         *)
(* Insert follows insertLeaf/insertInternal step by step: position by key, *)
(* stamp the LSN, split when the node REACHES capacity, allocation order   *)
(* (new sibling first, new root last), sibling relinking, separator =      *)
(* first key of the right half, the "key already exists" results met in    *)
(* log replay.                                                             *)
EXTENDS Integers, Sequences, FiniteSets, TLC

CONSTANTS LeafCap, IntCap,   \* a node splits when it reaches this many cells (code: 9 / 290)
          FixSplitTomb        \* TRUE: split carries tombstones to the new page (repaired code); FALSE: as found

Upd(f, k, v) == [x \in (DOMAIN f) \cup {k} |-> IF x = k THEN v ELSE f[x]]
Drop(f, k)   == [x \in (DOMAIN f) \ {k} |-> f[x]]

Leaf(cells, hl, l, hr, r, lsn) == [kind |-> "L", cells |-> cells, hl |-> hl, l |-> l, hr |-> hr, r |-> r, lsn |-> lsn]
Inner(seps, right, lsn)        == [kind |-> "I", seps |-> seps, right |-> right, lsn |-> lsn]
Garbage == Inner(<<>>, 0, 0)       \* what an unwritten (all zero) page decodes to
\* fuel for descending a tree: only a cyclic (corrupted) page graph can use it up
DepthFuel == 16
Cell(k, d, v) == [k |-> k, d |-> d, v |-> v]
Sep(k, c) == [k |-> k, c |-> c]

Rd(c, d, p) == IF p \in DOMAIN c THEN c[p] ELSE IF p \in DOMAIN d THEN d[p] ELSE Garbage

\* position (1-based) of the first element with key > key, or Len+1 (findCellOffsetByKey's insertion point)
RECURSIVE FirstGT(_, _, _)
FirstGT(s, key, i) == IF i > Len(s) THEN i ELSE IF s[i].k > key THEN i ELSE FirstGT(s, key, i + 1)
HasKey(s, key) == \E i \in 1..Len(s) : s[i].k = key
InsertAt(s, i, x) == SubSeq(s, 1, i - 1) \o <<x>> \o SubSeq(s, i, Len(s))

\* st = [c |-> dirty pages, nx |-> next free page id]; result [st, up, err]
\*   up = <<>> or <<[k, right]>>: the node split, separator k, new right page
\*   err in {"ok", "exists", "broken"}
Res(st, up, err) == [st |-> st, up |-> up, err |-> err]

\* insertLeaf(parent, cur = page id, key, lsn, val).  par = 0 when cur is the root of this insertion.
InsLeaf(st, d, par, id, key, lsn, val) ==
  LET n == Rd(st.c, d, id) IN
  IF HasKey(n.cells, key) THEN Res(st, <<>>, "exists") ELSE
  LET cells == InsertAt(n.cells, FirstGT(n.cells, key, 1), Cell(key, FALSE, val))
      n1 == [n EXCEPT !.cells = cells, !.lsn = lsn]
  IN IF Len(cells) < LeafCap THEN Res([st EXCEPT !.c = Upd(st.c, id, n1)], <<>>, "ok") ELSE
  LET mid == Len(cells) \div 2
      new == st.nx
      rcells == [i \in 1..(Len(cells) - mid) |->
                    IF FixSplitTomb THEN cells[mid + i] ELSE [cells[mid + i] EXCEPT !.d = FALSE]]
      newKey == rcells[1].k
      oldR == n.r
      lft == [n1 EXCEPT !.cells = SubSeq(cells, 1, mid), !.hr = TRUE, !.r = new]
      rgt0 == Leaf(rcells, TRUE, id, FALSE, 0, lsn)
      st1 == [c |-> Upd(Upd(st.c, id, lft), new, rgt0), nx |-> new + 1]
  IN IF par = 0 THEN
        \* root leaf split: a new root is allocated after the new sibling
        LET root == st1.nx
        IN Res([c |-> Upd(st1.c, root, Inner(<<Sep(newKey, id)>>, new, lsn)), nx |-> root + 1], <<[k |-> newKey, right |-> new, root |-> root]>>, "ok")
     ELSE
        LET p == Rd(st1.c, d, par) IN
        IF p.seps = <<>> THEN Res(st1, <<>>, "broken") ELSE
        IF newKey > p.seps[Len(p.seps)].k THEN
           LET p1 == [p EXCEPT !.seps = Append(p.seps, Sep(newKey, p.right)), !.right = new, !.lsn = lsn]
           IN Res([st1 EXCEPT !.c = Upd(st1.c, par, p1)], <<[k |-> newKey, right |-> new, root |-> 0]>>, "ok")
        ELSE
           \* a leaf that is not the rightmost child split (only met in log replay)
           IF HasKey(p.seps, newKey) THEN Res(st1, <<>>, "exists") ELSE
           LET off == FirstGT(p.seps, newKey, 1)
               old == p.seps[off]
               seps == SubSeq(p.seps, 1, off - 1) \o <<Sep(newKey, old.c), Sep(old.k, new)>> \o SubSeq(p.seps, off + 1, Len(p.seps))
               p1 == [p EXCEPT !.seps = seps, !.lsn = lsn]
               rgt == [rgt0 EXCEPT !.hr = TRUE, !.r = oldR]
               rs == Rd(st1.c, d, oldR)
               c2 == Upd(Upd(st1.c, new, rgt), par, p1)
               c3 == IF rs.kind = "L" THEN Upd(c2, oldR, [rs EXCEPT !.l = new, !.lsn = lsn]) ELSE c2
           IN Res([st1 EXCEPT !.c = c3], <<[k |-> newKey, right |-> new, root |-> 0]>>, "ok")

\* split of the internal node `id` (now holding `n`) after it received a separator
SplitInner(st, d, par, id, lsn) ==
  LET n == Rd(st.c, d, id)
      seps == n.seps
      mid == Len(seps) \div 2          \* 0-based index of the separator that moves up
      new == st.nx
      upk == seps[mid + 1].k
      rgt == Inner(SubSeq(seps, mid + 2, Len(seps)), n.right, lsn)
      lft == [n EXCEPT !.seps = SubSeq(seps, 1, mid), !.right = seps[mid + 1].c]
      st1 == [c |-> Upd(Upd(st.c, id, lft), new, rgt), nx |-> new + 1]
  IN IF par = 0 THEN
        LET root == st1.nx
        IN Res([c |-> Upd(st1.c, root, Inner(<<Sep(upk, id)>>, new, lsn)), nx |-> root + 1], <<[k |-> upk, right |-> new, root |-> root]>>, "ok")
     ELSE
        LET p == Rd(st1.c, d, par)
            p1 == [p EXCEPT !.seps = Append(p.seps, Sep(upk, p.right)), !.right = new, !.lsn = lsn]
        IN Res([st1 EXCEPT !.c = Upd(st1.c, par, p1)], <<[k |-> upk, right |-> new, root |-> 0]>>, "ok")

\* insertInternal(parent, cur, ...).  fuel guards against cyclic page graphs in corrupted images.
RECURSIVE InsInner(_, _, _, _, _, _, _, _)
InsInner(st, d, par, id, key, lsn, val, fuel) ==
  LET n == Rd(st.c, d, id) IN
  IF fuel = 0 THEN Res(st, <<>>, "broken") ELSE
  IF HasKey(n.seps, key) THEN Res(st, <<>>, "exists") ELSE
  LET i == FirstGT(n.seps, key, 1)
      child == IF i > Len(n.seps) THEN n.right ELSE n.seps[i].c
      cn == Rd(st.c, d, child)
      r == IF cn.kind = "L" THEN InsLeaf(st, d, id, child, key, lsn, val)
                            ELSE InsInner(st, d, id, child, key, lsn, val, fuel - 1)
  IN IF r.err # "ok" THEN r ELSE
     LET n2 == Rd(r.st.c, d, id) IN
     IF Len(n2.seps) < IntCap THEN Res(r.st, <<>>, "ok")
     ELSE SplitInner(r.st, d, par, id, lsn)

\* BTree.insertKey on the tree whose root page is `root`; result [st, root, err]
InsertKey(st, d, root, key, lsn, val) ==
  LET n == Rd(st.c, d, root)
      r == IF n.kind = "L" THEN InsLeaf(st, d, 0, root, key, lsn, val)
                           ELSE InsInner(st, d, 0, root, key, lsn, val, DepthFuel)
      newroot == IF r.up # <<>> /\ r.up[1].root # 0 THEN r.up[1].root ELSE root
  IN [st |-> r.st, root |-> newroot, err |-> r.err]

-----------------------------------------------------------------------------
(* Reading: scans and point lookup, as scanRight / scanLeft / findCell do.   *)

BrokenCell == Cell(-1, FALSE, [tag |-> "X", a |-> "", b |-> 0, c |-> ""])

\* leftmost leaf: first separator's child at every level (an empty internal node makes the code panic)
RECURSIVE Leftmost(_, _, _, _)
Leftmost(c, d, id, fuel) ==
  LET n == Rd(c, d, id) IN
  IF n.kind = "L" THEN id ELSE IF fuel = 0 \/ n.seps = <<>> THEN -1 ELSE Leftmost(c, d, n.seps[1].c, fuel - 1)
RECURSIVE Rightmost(_, _, _, _)
Rightmost(c, d, id, fuel) ==
  LET n == Rd(c, d, id) IN
  IF n.kind = "L" THEN id ELSE IF fuel = 0 THEN -1 ELSE Rightmost(c, d, n.right, fuel - 1)

RECURSIVE ChainR(_, _, _, _)
ChainR(c, d, id, fuel) ==
  IF id = -1 \/ fuel = 0 THEN <<BrokenCell>> ELSE
  LET n == Rd(c, d, id) IN
  IF n.kind # "L" THEN <<BrokenCell>>
  ELSE n.cells \o (IF n.hr THEN ChainR(c, d, n.r, fuel - 1) ELSE <<>>)
RECURSIVE ChainL(_, _, _, _)
ChainL(c, d, id, fuel) ==
  IF id = -1 \/ fuel = 0 THEN <<BrokenCell>> ELSE
  LET n == Rd(c, d, id) IN
  IF n.kind # "L" THEN <<BrokenCell>>
  ELSE (IF n.hl THEN ChainL(c, d, n.l, fuel - 1) ELSE <<>>) \o n.cells

Live(s) == SelectSeq(s, LAMBDA x : ~x.d)
\* fuel for walking sibling chains: only a cyclic (corrupted) chain can use it up
ChainFuel == 100000
AllCellsR(c, d, root) == ChainR(c, d, Leftmost(c, d, root, DepthFuel), ChainFuel)
AllCellsL(c, d, root) == ChainL(c, d, Rightmost(c, d, root, DepthFuel), ChainFuel)
ScanRight(c, d, root) == Live(AllCellsR(c, d, root))
IsBroken(s) == \E i \in 1..Len(s) : s[i].k = -1

\* leaf page that findCell reaches for key
RECURSIVE FindLeaf(_, _, _, _, _)
FindLeaf(c, d, id, key, fuel) ==
  LET n == Rd(c, d, id) IN
  IF n.kind = "L" \/ fuel = 0 THEN id
  ELSE LET i == FirstGT(n.seps, key, 1) IN FindLeaf(c, d, IF i > Len(n.seps) THEN n.right ELSE n.seps[i].c, key, fuel - 1)

-----------------------------------------------------------------------------
(* C11: shape invariants of the tree rooted at `root` in view (c, d).        *)

RECURSIVE Pages(_, _, _, _)       \* pages of the subtree in tree order (with repetitions if shared)
Pages(c, d, id, fuel) ==
  LET n == Rd(c, d, id) IN
  IF n.kind = "L" \/ fuel = 0 THEN <<id>>
  ELSE LET kids == [i \in 1..Len(n.seps) |-> n.seps[i].c] \o <<n.right>>
           RECURSIVE Cat(_)
           Cat(i) == IF i > Len(kids) THEN <<>> ELSE Pages(c, d, kids[i], fuel - 1) \o Cat(i + 1)
       IN <<id>> \o Cat(1)

RECURSIVE LeavesInOrder(_, _, _, _)
LeavesInOrder(c, d, id, fuel) ==
  LET n == Rd(c, d, id) IN
  IF n.kind = "L" THEN <<id>> ELSE IF fuel = 0 THEN <<>>
  ELSE LET kids == [i \in 1..Len(n.seps) |-> n.seps[i].c] \o <<n.right>>
           RECURSIVE Cat(_)
           Cat(i) == IF i > Len(kids) THEN <<>> ELSE LeavesInOrder(c, d, kids[i], fuel - 1) \o Cat(i + 1)
       IN Cat(1)

RECURSIVE Depths(_, _, _, _)      \* set of depths at which leaves occur
Depths(c, d, id, fuel) ==
  LET n == Rd(c, d, id) IN
  IF n.kind = "L" THEN {0} ELSE IF fuel = 0 THEN {-1}
  ELSE LET kids == {n.seps[i].c : i \in 1..Len(n.seps)} \cup {n.right}
       IN UNION {{x + 1 : x \in Depths(c, d, k, fuel - 1)} : k \in kids}

\* every key of the subtree lies in [lo, hi) (hi = -1: unbounded); keys ascending inside nodes
RECURSIVE Bounded(_, _, _, _, _, _)
Bounded(c, d, id, lo, hi, fuel) ==
  LET n == Rd(c, d, id)
      InB(k) == k >= lo /\ (hi = -1 \/ k < hi)
  IN IF n.kind = "L" THEN
        /\ \A i \in 1..Len(n.cells) : InB(n.cells[i].k)
        /\ \A i \in 1..(Len(n.cells) - 1) : n.cells[i].k < n.cells[i + 1].k
     ELSE /\ fuel > 0
          /\ Len(n.seps) >= 1
          /\ \A i \in 1..Len(n.seps) : InB(n.seps[i].k)
          /\ \A i \in 1..(Len(n.seps) - 1) : n.seps[i].k < n.seps[i + 1].k
          /\ \A i \in 1..Len(n.seps) :
                Bounded(c, d, n.seps[i].c, IF i = 1 THEN lo ELSE n.seps[i - 1].k, n.seps[i].k, fuel - 1)
          /\ Bounded(c, d, n.right, n.seps[Len(n.seps)].k, hi, fuel - 1)

SeqToSet(s) == {s[i] : i \in 1..Len(s)}
Rev(s) == [i \in 1..Len(s) |-> s[Len(s) + 1 - i]]

RECURSIVE ChainPagesR(_, _, _, _)
ChainPagesR(c, d, id, fuel) ==
  IF fuel = 0 THEN <<-1>> ELSE
  LET n == Rd(c, d, id) IN
  IF n.kind # "L" THEN <<-1>> ELSE <<id>> \o (IF n.hr THEN ChainPagesR(c, d, n.r, fuel - 1) ELSE <<>>)
RECURSIVE ChainPagesL(_, _, _, _)
ChainPagesL(c, d, id, fuel) ==
  IF fuel = 0 THEN <<-1>> ELSE
  LET n == Rd(c, d, id) IN
  IF n.kind # "L" THEN <<-1>> ELSE <<id>> \o (IF n.hl THEN ChainPagesL(c, d, n.l, fuel - 1) ELSE <<>>)

TreeOK(c, d, root) ==
  LET pgs == Pages(c, d, root, DepthFuel)
      lvs == LeavesInOrder(c, d, root, DepthFuel)
      cells == AllCellsR(c, d, root)
  IN /\ Cardinality(SeqToSet(pgs)) = Len(pgs)                       \* no page reachable twice
     /\ Cardinality(Depths(c, d, root, DepthFuel)) = 1                      \* all leaves at the same depth
     /\ Bounded(c, d, root, 0, -1, DepthFuel)                               \* separator bounds, ascending keys
     /\ \A i \in 1..Len(pgs) :                                      \* no node at or over capacity at rest
           LET n == Rd(c, d, pgs[i]) IN
           IF n.kind = "L" THEN Len(n.cells) < LeafCap ELSE Len(n.seps) < IntCap
     /\ lvs # <<>>
     /\ ChainPagesR(c, d, lvs[1], ChainFuel) = lvs                          \* forward chain = leaves in tree order
     /\ ChainPagesL(c, d, lvs[Len(lvs)], ChainFuel) = Rev(lvs)              \* backward chain = exact reverse
     /\ ~Rd(c, d, lvs[1]).hl /\ ~Rd(c, d, lvs[Len(lvs)]).hr
     /\ \A i \in 1..Len(cells) :                                     \* every stored key is found from the root
           LET lf == Rd(c, d, FindLeaf(c, d, root, cells[i].k, DepthFuel)) IN lf.kind = "L" /\ HasKey(lf.cells, cells[i].k)
=============================================================================
