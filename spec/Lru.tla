------------------------------- MODULE Lru -------------------------------
(* The page cache of mkdb (storage/lru.go) as a state machine.            *)
(*                                                                        *)
(* Entries are pages identified by a key (file offset). A page carries a  *)
(* dirty flag that belongs to the page, not to the cache: the cache only  *)
(* reads it when it looks for a victim.  One action per call of the API   *)
(* (set / get) plus the two flag transitions (markDirty / markClean).     *)
(*                                                                        *)
(* The mechanism (a recency list walked from the cold end, skipping dirty *)
(* pages) is modelled as the code does it; the properties of C15 are      *)
(* stated independently of the list, over a ghost logical clock lastUse.  *)
EXTENDS Integers, Sequences, FiniteSets, TLC

CONSTANTS Keys,      \* page keys
          PVals,     \* page contents (identities of stored pages)
          Cap        \* capacity (maxNodes)

VARIABLES order,     \* resident keys, most recently used first
          val,       \* key -> content, for resident keys
          dirty,     \* set of resident keys whose page is dirty
          clock,     \* ghost: logical time
          lastUse,   \* ghost: key -> time of last set/get, for resident keys
          ret        \* result of the last call: [op, k, r, hit, ev, v]

lruVars == <<order, val, dirty, clock, lastUse, ret>>

Resident == {order[i] : i \in 1..Len(order)}
Without(s, k) == SelectSeq(s, LAMBDA x : x # k)
Upd(f, k, v) == [x \in (DOMAIN f) \cup {k} |-> IF x = k THEN v ELSE f[x]]
Drop(f, k) == [x \in (DOMAIN f) \ {k} |-> f[x]]
NoKey == 0   \* keys are positive

\* the walk of lru.go: from the back of the list towards the front, the first clean entry
RECURSIVE VictimFrom(_)
VictimFrom(i) == IF i = 0 THEN NoKey
                 ELSE IF order[i] \notin dirty THEN order[i] ELSE VictimFrom(i - 1)
Victim == VictimFrom(Len(order))

LruInit == /\ order = <<>> /\ val = <<>> /\ dirty = {} /\ clock = 0 /\ lastUse = <<>>
           /\ ret = [op |-> "init", k |-> NoKey, r |-> TRUE, hit |-> FALSE, ev |-> NoKey, v |-> 0]

Touch(k) == /\ clock' = clock + 1 /\ lastUse' = Upd(lastUse, k, clock + 1)

\* set(key, page): d is the dirty flag of the page object handed in
Set(k, v, d) ==
  IF k \in Resident THEN
       /\ order' = <<k>> \o Without(order, k)
       /\ val' = Upd(val, k, v)
       /\ dirty' = IF d THEN dirty \cup {k} ELSE dirty \ {k}
       /\ Touch(k)
       /\ ret' = [op |-> "set", k |-> k, r |-> TRUE, hit |-> TRUE, ev |-> NoKey, v |-> v]
  ELSE IF Len(order) = Cap THEN
       LET x == Victim IN
       IF x = NoKey THEN
            /\ ret' = [op |-> "set", k |-> k, r |-> FALSE, hit |-> FALSE, ev |-> NoKey, v |-> v]
            /\ UNCHANGED <<order, val, dirty, clock, lastUse>>
       ELSE /\ order' = <<k>> \o Without(order, x)
            /\ val' = Upd(Drop(val, x), k, v)
            /\ dirty' = IF d THEN dirty \cup {k} ELSE dirty
            /\ clock' = clock + 1
            /\ lastUse' = Upd(Drop(lastUse, x), k, clock + 1)
            /\ ret' = [op |-> "set", k |-> k, r |-> TRUE, hit |-> FALSE, ev |-> x, v |-> v]
  ELSE /\ order' = <<k>> \o order
       /\ val' = Upd(val, k, v)
       /\ dirty' = IF d THEN dirty \cup {k} ELSE dirty
       /\ Touch(k)
       /\ ret' = [op |-> "set", k |-> k, r |-> TRUE, hit |-> FALSE, ev |-> NoKey, v |-> v]

Get(k) ==
  IF k \in Resident THEN
       /\ order' = <<k>> \o Without(order, k)
       /\ Touch(k)
       /\ ret' = [op |-> "get", k |-> k, r |-> TRUE, hit |-> TRUE, ev |-> NoKey, v |-> val[k]]
       /\ UNCHANGED <<val, dirty>>
  ELSE /\ ret' = [op |-> "get", k |-> k, r |-> FALSE, hit |-> FALSE, ev |-> NoKey, v |-> 0]
       /\ UNCHANGED <<order, val, dirty, clock, lastUse>>

MarkDirty(k) == /\ k \in Resident /\ k \notin dirty
                /\ dirty' = dirty \cup {k}
                /\ ret' = [op |-> "dirty", k |-> k, r |-> TRUE, hit |-> TRUE, ev |-> NoKey, v |-> val[k]]
                /\ UNCHANGED <<order, val, clock, lastUse>>
MarkClean(k) == /\ k \in Resident /\ k \in dirty
                /\ dirty' = dirty \ {k}
                /\ ret' = [op |-> "clean", k |-> k, r |-> TRUE, hit |-> TRUE, ev |-> NoKey, v |-> val[k]]
                /\ UNCHANGED <<order, val, clock, lastUse>>

LruNext == \E k \in Keys :
              \/ \E v \in PVals, d \in BOOLEAN : Set(k, v, d)
              \/ Get(k) \/ MarkDirty(k) \/ MarkClean(k)

-----------------------------------------------------------------------------
(* Property C15, stated without reference to the list.                     *)

CapOK == Len(order) <= Cap /\ Cardinality(Resident) = Len(order)
DomOK == DOMAIN val = Resident /\ DOMAIN lastUse = Resident /\ dirty \subseteq Resident

\* a lookup returns the most recently stored page for the key while it is resident:
\* val[k] is only ever changed by Set(k, v, _), to v
GetReturnsStored == (ret.op = "get" /\ ret.hit) => ret.v = val[ret.k]
ValOnlyChangedBySet ==
   [][ \A k \in Resident \cap {order'[i] : i \in 1..Len(order')} :
          val'[k] # val[k] => (ret'.op = "set" /\ ret'.k = k /\ val'[k] = ret'.v) ]_lruVars

\* the entry evicted is the least recently used among the clean ones; a dirty page is never evicted
EvictIsLruClean ==
   [][ LET gone == Resident \ {order'[i] : i \in 1..Len(order')} IN
       /\ Cardinality(gone) <= 1
       /\ \A x \in gone : /\ x \notin dirty
                           /\ \A y \in Resident \ dirty : lastUse[x] <= lastUse[y]
                           /\ ret'.op = "set" /\ ret'.ev = x /\ Len(order) = Cap ]_lruVars

\* an insertion is refused only when the cache is full of dirty pages (and then nothing changes)
RefuseOnlyWhenFullOfDirty ==
   [][ (ret'.op = "set") =>
         ( (~ret'.r) <=> (ret'.k \notin Resident /\ Len(order) = Cap /\ Resident \subseteq dirty) ) ]_lruVars
RefusalChangesNothing ==
   [][ (ret'.op = "set" /\ ~ret'.r) => UNCHANGED <<order, val, dirty>> ]_lruVars
=============================================================================
