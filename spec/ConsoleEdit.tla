---------------------------- MODULE ConsoleEdit ----------------------------
(* The console's line editor (cmd/console/go_terminal.go, handleKey) as a   *)
(* state machine: Console.tla types characters at the end of the buffer    *)
(* only; here the buffer has a cursor, the editing keys of handleKey, and   *)
(* the history ring.  It grows the specification beyond what C20           *)
(* quantifies over (statements and line breaks): a user who corrects a      *)
(* statement with the editing keys, or recalls one from the history, has    *)
(* "typed" the text that stands on the line when Enter is pressed.          *)
(*                                                                         *)
(* One action per case of handleKey, with the grain of the code:           *)
(*   Ins(c)      default case / addKeyToLine: c goes in at the cursor       *)
(*   Bksp        keyBackspace (127, ^H)     eraseNPreviousChars(1)          *)
(*   Left Right Home End                    cursor only                     *)
(*   WLeft WRight   Alt-Left / Alt-Right    countToLeftWord / RightWord     *)
(*   DelWord     ^W                         eraseNPreviousChars(countToLeftWord) *)
(*   KillEnd     ^K                         line = line[:pos]               *)
(*   KillStart   ^U                         eraseNPreviousChars(pos)        *)
(*   DelChar     ^D on a non-empty line     erase the character under the cursor *)
(*   Up Down     ^P ^N / arrows             history ring, the fresh line kept in `pend` *)
(*   EEnter      keyEnter                   empty: clear; terminated: hand over every   *)
(*                                          statement of the line, record them in the   *)
(*                                          history; otherwise the line break goes in   *)
(*                                          as one blank AT THE CURSOR                  *)
(* "Word" is what the code means by it: a run of characters other than the *)
(* blank (32), including the code's own quirk at the start of the line.     *)
(*                                                                         *)
(* buf, inQuote, out, typed are Console's variables: buf is the edit line,  *)
(* inQuote the lexical state at its END (kept equal to QAt(buf, Len(buf))), *)
(* out what was handed over, typed the ghost list of key codes pressed.     *)
EXTENDS Console

CONSTANTS EChars,          \* characters the bounded generator types (a subset of Chars)
          HistMax          \* size of the history ring (100 in the code)

VARIABLES pos,             \* cursor: number of characters of buf to its left
          hist,            \* statements the history holds, oldest first (at most HistMax)
          hidx,            \* -1: a fresh line is being edited; n >= 0: the n-th previous entry is shown
          pend             \* the fresh line as it was when the user first went up

edVars == <<buf, inQuote, out, typed, pos, hist, hidx, pend>>

\* key codes of the editing keys as they appear in `typed` and in scenarios (the control byte where there is one)
K_HOME == 1   K_LEFT == 2   K_DEL == 4    K_END == 5    K_RIGHT == 6   K_KILLEND == 11
K_DOWN == 14  K_UP == 16    K_KILLSTART == 21   K_DELWORD == 23   K_BKSP == 127
K_WLEFT == 1001   K_WRIGHT == 1002
EditKeys == {K_HOME, K_LEFT, K_DEL, K_END, K_RIGHT, K_KILLEND, K_DOWN, K_UP, K_KILLSTART, K_DELWORD, K_BKSP, K_WLEFT, K_WRIGHT}

-----------------------------------------------------------------------------
PutAt(s, p, c) == SubSeq(s, 1, p) \o <<c>> \o SubSeq(s, p + 1, Len(s))
\* s without its characters a+1 .. b
Without(s, a, b) == SubSeq(s, 1, a) \o SubSeq(s, b + 1, Len(s))
LastN(s, n) == IF Len(s) <= n THEN s ELSE SubSeq(s, Len(s) - n + 1, Len(s))

\* countToLeftWord / countToRightWord of go_terminal.go; p counts characters from 0 as the code does: s[p + 1] is line[p]
RECURSIVE SkipBlanksL(_, _)
SkipBlanksL(s, p) == IF p > 0 /\ s[p + 1] = SP THEN SkipBlanksL(s, p - 1) ELSE p
RECURSIVE SkipWordL(_, _)
SkipWordL(s, p) == IF p > 0 THEN (IF s[p + 1] = SP THEN p + 1 ELSE SkipWordL(s, p - 1)) ELSE p
CountLeftWord(s, p) == IF p = 0 THEN 0 ELSE p - SkipWordL(s, SkipBlanksL(s, p - 1))
RECURSIVE SkipWordR(_, _)
SkipWordR(s, p) == IF p < Len(s) /\ s[p + 1] # SP THEN SkipWordR(s, p + 1) ELSE p
RECURSIVE SkipBlanksR(_, _)
SkipBlanksR(s, p) == IF p < Len(s) /\ s[p + 1] = SP THEN SkipBlanksR(s, p + 1) ELSE p
CountRightWord(s, p) == SkipBlanksR(s, SkipWordR(s, p)) - p

\* the n-th previous history entry (0 = the latest)
HasPrev(n) == n >= 0 /\ n < Len(hist)
Prev(n) == hist[Len(hist) - n]

-----------------------------------------------------------------------------
EdInit == ConInit /\ pos = 0 /\ hist = <<>> /\ hidx = -1 /\ pend = <<>>

\* every step records its key and keeps inQuote the lexical state at the end of the line
Pressed(k) == typed' = Append(typed, k) /\ inQuote' = QAt(buf', Len(buf'))
SameHist == UNCHANGED <<hist, hidx, pend>>

Ins(c) == /\ buf' = PutAt(buf, pos, c) /\ pos' = pos + 1
          /\ Pressed(c) /\ UNCHANGED out /\ SameHist

Erase(n) == LET m == IF pos < n THEN pos ELSE n IN          \* eraseNPreviousChars
            buf' = Without(buf, pos - m, pos) /\ pos' = pos - m

Bksp      == Erase(1) /\ Pressed(K_BKSP) /\ UNCHANGED out /\ SameHist
DelWord   == Erase(CountLeftWord(buf, pos)) /\ Pressed(K_DELWORD) /\ UNCHANGED out /\ SameHist
KillStart == Erase(pos) /\ Pressed(K_KILLSTART) /\ UNCHANGED out /\ SameHist
KillEnd   == buf' = SubSeq(buf, 1, pos) /\ UNCHANGED pos /\ Pressed(K_KILLEND) /\ UNCHANGED out /\ SameHist
\* ^D on an empty line ends the session (readLine); the user does not do that here
DelChar   == /\ buf # <<>>
             /\ IF pos < Len(buf) THEN buf' = Without(buf, pos, pos + 1) ELSE UNCHANGED buf
             /\ UNCHANGED pos /\ Pressed(K_DEL) /\ UNCHANGED out /\ SameHist

Move(k, p) == pos' = p /\ UNCHANGED buf /\ Pressed(k) /\ UNCHANGED out /\ SameHist
Left   == Move(K_LEFT,  IF pos = 0 THEN 0 ELSE pos - 1)
Right  == Move(K_RIGHT, IF pos = Len(buf) THEN pos ELSE pos + 1)
Home   == Move(K_HOME, 0)
End    == Move(K_END, Len(buf))
WLeft  == Move(K_WLEFT,  pos - CountLeftWord(buf, pos))
WRight == Move(K_WRIGHT, pos + CountRightWord(buf, pos))

Up == /\ UNCHANGED <<out, hist>>
      /\ IF HasPrev(hidx + 1)
         THEN /\ pend' = IF hidx = -1 THEN buf ELSE pend
              /\ hidx' = hidx + 1
              /\ buf' = Prev(hidx + 1) /\ pos' = Len(buf')
         ELSE UNCHANGED <<buf, pos, hidx, pend>>
      /\ Pressed(K_UP)

Down == /\ UNCHANGED <<out, hist, pend>>
        /\ IF hidx = -1 THEN UNCHANGED <<buf, pos, hidx>>
           ELSE IF hidx = 0 THEN buf' = pend /\ pos' = Len(pend) /\ hidx' = -1
           ELSE buf' = Prev(hidx - 1) /\ pos' = Len(buf') /\ hidx' = hidx - 1
        /\ Pressed(K_DOWN)

Handed(s) == [k \in 1..Len(StmtsOf(s)) |-> Trim(StmtsOf(s)[k])]

EEnter == /\ IF Trim(buf) = <<>> THEN                       \* nothing on the line: it is cleared, nothing handed over
                  buf' = <<>> /\ pos' = 0 /\ UNCHANGED out /\ SameHist
             ELSE IF Terminated(buf) THEN                   \* every statement of the line goes to the engine and into the history
                  /\ out' = out \o Handed(buf)
                  /\ hist' = LastN(hist \o Handed(buf), HistMax) /\ hidx' = -1 /\ UNCHANGED pend
                  /\ buf' = <<>> /\ pos' = 0
             ELSE                                           \* the line break is one blank where the cursor stands
                  buf' = PutAt(buf, pos, SP) /\ pos' = pos + 1 /\ UNCHANGED out /\ SameHist
          /\ Pressed(CR)

EdNext == \/ \E c \in EChars : Ins(c)
          \/ Bksp \/ DelWord \/ KillStart \/ KillEnd \/ DelChar
          \/ Left \/ Right \/ Home \/ End \/ WLeft \/ WRight
          \/ Up \/ Down
          \/ EEnter
EdSpec == EdInit /\ [][EdNext]_edVars

-----------------------------------------------------------------------------
(* Properties of the editor                                                 *)

EdTypeOK == /\ pos \in 0..Len(buf)
            /\ hidx \in -1..(Len(hist) - 1)
            /\ inQuote = QAt(buf, Len(buf))
            /\ Len(hist) <= HistMax

\* whatever was handed over is one complete statement per piece: terminated, nothing behind the terminator,
\* no second terminator inside, no blank at either end
HandedAreStatements == \A i \in 1..Len(out) : StmtsOf(out[i]) = <<out[i]>> /\ Trim(out[i]) = out[i]

\* the history is the tail of what was handed over
HistIsTailOfOut == hist = LastN(out, HistMax)

\* what the history shows is a statement that was handed over before (or the fresh line, at -1)
ShownIsHistory == hidx >= 0 => HasPrev(hidx)

\* only Enter hands anything over, and it leaves an empty line behind when it does; editing keys never change out
OnlyEnterHandsOver == [][out' # out => (typed'[Len(typed')] = CR /\ buf' = <<>> /\ pos' = 0
                                          /\ out' = out \o Handed(buf))]_edVars

\* an Enter that hands nothing over loses nothing: the line is empty (it was blank) or it is the old line with one blank more
EnterLosesNothing == [][(Len(typed') = Len(typed) + 1 /\ typed'[Len(typed')] = CR /\ out' = out)
                          => (buf' = <<>> /\ Trim(buf) = <<>>) \/ \E p \in 0..Len(buf) : buf' = PutAt(buf, p, SP)]_edVars

\* typing at the end of the line only, with Enter, IS the machine of Console.tla (the editor refines it step by step)
PlainStep == \/ \E c \in EChars : pos = Len(buf) /\ Ins(c)
             \/ pos = Len(buf) /\ EEnter
RefinesConsole == [][PlainStep => ((\E c \in Chars : Key(c)) \/ Enter)]_edVars
=============================================================================
