------------------------------ MODULE MkdbAbs ------------------------------
(* What the user of one mkdb database is promised, with statements as       *)
(* atomic steps: a table is the sequence of its rows' values in insertion   *)
(* order.  A crash between statements loses nothing; a crash while a        *)
(* statement is being logged leaves some prefix of its row operations.      *)
(* Store.tla carries this state as its ghost `abs`; AbsTrace.tla validates  *)
(* long runs of the real engine (production page capacities) against it.    *)
EXTENDS Integers, Sequences, FiniteSets

VARIABLES tables      \* table name -> sequence of row values
absVars == <<tables>>

AInit == tables = <<>>

Has(t) == t \in DOMAIN tables
WithTable(t) == [x \in (DOMAIN tables) \cup {t} |-> IF x = t THEN <<>> ELSE tables[x]]
MatchPos(t, w) == SelectSeq([j \in 1..Len(tables[t]) |-> j], LAMBDA j : w = 0 \/ tables[t][j] = w)

\* effects of whole statements
InsertAll(t, rows) == [tables EXCEPT ![t] = @ \o rows]
\* the first k matching rows (in scan order) are exactly the matching rows at positions up to the k-th match
UpdateFirst(t, w, v, k) == LET ps == MatchPos(t, w)
                               lim == IF k = 0 THEN 0 ELSE ps[k] IN
   [tables EXCEPT ![t] = [j \in 1..Len(@) |-> IF j <= lim /\ (w = 0 \/ @[j] = w) THEN v ELSE @[j]]]
DeleteFirst(t, w, k) == LET ps == MatchPos(t, w) old == tables[t]
                            lim == IF k = 0 THEN 0 ELSE ps[k] IN
   [tables EXCEPT ![t] = SelectSeq([j \in 1..Len(old) |-> IF j <= lim /\ (w = 0 \/ old[j] = w) THEN -9 ELSE old[j]], LAMBDA x : x # -9)]

Create(t, ok)        == /\ ok = ~Has(t)
                        /\ tables' = (IF ok THEN WithTable(t) ELSE tables)
Insert(t, rows, ok)  == /\ (ok => Has(t))
                        /\ tables' = (IF ok THEN InsertAll(t, rows) ELSE tables)
Update(t, w, v, ok)  == /\ (ok => Has(t))
                        /\ tables' = (IF ok THEN UpdateFirst(t, w, v, Len(MatchPos(t, w))) ELSE tables)
Delete(t, w, ok)     == /\ (ok => Has(t))
                        /\ tables' = (IF ok THEN DeleteFirst(t, w, Len(MatchPos(t, w))) ELSE tables)
\* flushes, evictions, crashes between statements, recoveries: nothing changes
Pause                == UNCHANGED absVars
\* a crash while the statement (kind, t, args) was appending its log records: any prefix of its row operations survives
CrashInInsert(t, rows, k) == /\ Has(t) /\ k \in 0..Len(rows) /\ tables' = InsertAll(t, SubSeq(rows, 1, k))
CrashInUpdate(t, w, v, k) == /\ Has(t) /\ k \in 0..Len(MatchPos(t, w)) /\ tables' = UpdateFirst(t, w, v, k)
CrashInDelete(t, w, k)    == /\ Has(t) /\ k \in 0..Len(MatchPos(t, w)) /\ tables' = DeleteFirst(t, w, k)
\* an observation
Select(t, rows, exists) == /\ exists = Has(t) /\ (exists => rows = tables[t]) /\ UNCHANGED absVars
=============================================================================
