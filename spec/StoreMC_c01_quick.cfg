CONSTANTS
  LeafCap = 3
  IntCap = 3
  FixSplitTomb = TRUE
  FixDeleteLSN = TRUE
  FixReplayLSN = TRUE
  Tables = {"t1", "t2"}
  Vals = {1, 2}
  BadVals = {}
  WalSteps = FALSE
  WalParts = {0}
  FlushSteps = FALSE
  CrashAt = {}
  MaxStmts = 4
  MaxRows = 2
  MaxFlush = 1
  MaxCrash = 0
  EmitOn = FALSE
  EmitMod = 1
  Script <- ScriptNone
  ScriptRows <- RowsNone
  ScriptSeqs <- SeqsNone
INIT MCInit
NEXT MCNext
VIEW View
ACTION_CONSTRAINT Emit
INVARIANTS ScanEqAbs CatalogOK TreesOK IdsOK StartsUp NothingLost
CHECK_DEADLOCK FALSE
