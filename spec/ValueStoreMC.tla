---------------------------- MODULE ValueStoreMC ----------------------------
(* Bounded instance of ValueStore for C08.  TLC enumerates schemas (every   *)
(* sequence of MinCols..MaxCols column types, order matters), rows built    *)
(* from value classes (boundary integers, NULL, booleans, wrong-type        *)
(* values, strings whose length puts the encoded row at 399 / 400 / 401     *)
(* bytes - TLC does the size arithmetic), SET lists, and interleavings with *)
(* Flush / EvictAll / Restart.  Every explored Get transition is printed    *)
(* with its action path, the expected outcome (ok / refused) of every       *)
(* statement on the path and the expected table.  harness/cmd/valstore      *)
(* runs the path on the real engine, twice: with direct statement values    *)
(* and as SQL text.                                                         *)
(*                                                                          *)
(* The same instance serves C14 ("a statement that returns an error changes *)
(* nothing") with MixedUpd = TRUE: tables of several rows whose other       *)
(* columns differ in size, SET lists whose string suits the first row and   *)
(* makes a later row (or the first row only) exceed the limit.  LifeFrom    *)
(* and EmitSel keep those instances small: lifecycle steps only after the   *)
(* rows are in, and only scenarios holding a refused UPDATE are printed.    *)
EXTENDS ValueStore, FiniteSets, Json

CONSTANTS MinCols, MaxCols,
          Types,       \* column types used
          IntCls,      \* integer classes offered to INT columns
          BigCls,      \* integer classes offered to BIGINT columns
          StrCls,      \* string classes offered to VARCHAR columns: "l0" "l1" "l150" "l300" "f399" "f400" "f401"
          WithNull, WithWrong,   \* offer NULL / wrong-type values
          MaxBad,      \* at most this many refusable cells per row or SET list
          WithUpd,     \* UpdateAll enabled
          WithGuard,   \* a refused row is also offered as the second row of a two-row INSERT behind a row the table accepts (guard |-> TRUE)
          WithUnknown, \* statements naming a column the table does not have (x |-> TRUE in the scenario: column "zz" is added to the list)
                      \* or naming their first column twice (y |-> TRUE)
          MaxMut,      \* Put / UpdateAll attempts per scenario
          MaxLife,     \* Flush / EvictAll / Restart steps per scenario
          LifeFrom,    \* lifecycle steps only once this many Put / UpdateAll were attempted (0: anywhere)
          EmitSel,     \* "all": print every Get transition; "refused-upd": only those after a refused UpdateAll;
                       \* "mixed-upd": only those after an UpdateAll refused by some of the rows only (needs MixedUpd)
          EmitOn
\* MixedUpd (declared in ValueStore): UpdateAll also where rows differ in outcome

VARIABLES life,      \* lifecycle steps so far, in order
          lastmut,   \* the last Put / UpdateAll attempted (<<>> before the first)
          hist

In32 == {"min32", "m1", "0", "1", "max32"}
IV(c) == [t |-> "i", cls |-> c, w |-> IF c \in In32 THEN 32 ELSE 64, len |-> 0]
SV(c, n) == [t |-> "s", cls |-> c, w |-> 0, len |-> n]
BV(c) == [t |-> "b", cls |-> c, w |-> 0, len |-> 0]
NV == [t |-> "n", cls |-> "null", w |-> 0, len |-> 0]
KEEP == [t |-> "k", cls |-> "keep", w |-> 0, len |-> 0]   \* SET list: column not assigned

\* fill classes get their length from the rest of the row (-1 = not yet known)
FillTarget(c) == CASE c = "f399" -> 399 [] c = "f400" -> 400 [] c = "f401" -> 401 [] OTHER -> 0
\* sp3 / sp4: two fixed texts that differ only in a run of blanks inside them ("a b", "a  b")
StrVal(c) == CASE c = "l0" -> SV(c, 0) [] c = "l1" -> SV(c, 1) [] c = "l150" -> SV(c, 150) [] c = "l300" -> SV(c, 300)
               [] c = "sp3" -> SV(c, 3) [] c = "sp4" -> SV(c, 4)
               \* texts that spell a boolean literal, a reserved word, a punctuation mark ("true", "FALSE", "left", ","): text all the same
               [] c = "kwt" -> SV(c, 4) [] c = "kwf" -> SV(c, 5) [] c = "kwl" -> SV(c, 4) [] c = "kwc" -> SV(c, 1)
               [] OTHER -> SV(c, 0 - 1)
IsFill(v) == v.t = "s" /\ v.len < 0

Nulls == IF WithNull THEN {NV} ELSE {}
Cands(type) ==
  Nulls \cup
  CASE type = "INT" -> {IV(c) : c \in IntCls} \cup (IF WithWrong THEN {SV("l1", 1), BV("true")} ELSE {})
    [] type = "BIGINT" -> {IV(c) : c \in BigCls} \cup (IF WithWrong THEN {SV("l1", 1), BV("false")} ELSE {})
    [] type = "BOOLEAN" -> {BV("true"), BV("false")} \cup (IF WithWrong THEN {IV("1"), IV("0"), SV("l1", 1)} ELSE {})
                           \* a text that spells TRUE is a text: the wrong type for this column
                           \cup (IF WithWrong THEN {StrVal(c) : c \in StrCls \cap {"kwt", "kwf"}} ELSE {})
    [] type = "VARCHAR" -> {StrVal(c) : c \in StrCls} \cup (IF WithWrong THEN {IV("0"), BV("true")} ELSE {})

RECURSIVE Prod(_, _, _)
Prod(s, n, extra) == IF n = 0 THEN {<<>>}
                     ELSE {Append(r, c) : r \in Prod(s, n - 1, extra), c \in Cands(s[n]) \cup extra}

\* a cell that can get a statement refused
Bad(type, v) == v.t # "k" /\ (~Valid(type, v) \/ v.cls = "f401")
BadCount(s, r) == Cardinality({i \in 1..Len(s) : Bad(s[i], r[i])})
FillCols(r) == {i \in 1..Len(r) : IsFill(r[i])}

\* bytes of a cell in the row: by the column type when the value suits it, else by the value itself
AnySize(type, v) ==
  IF Valid(type, v) THEN ColSize(type, v)
  ELSE 1 + (CASE v.t = "i" -> 8 [] v.t = "b" -> 1 [] v.t = "s" -> 4 + v.len [] OTHER -> 0)

\* length of the one fill string so that the whole row encodes to its target size
FillLen(s, r, i) ==
  FillTarget(r[i].cls) - 5 - SumTo([j \in 1..Len(s) |-> IF j = i THEN 0 ELSE AnySize(s[j], r[j])], Len(s))

Resolved(s, r) ==
  IF FillCols(r) = {} THEN r
  ELSE LET i == CHOOSE i \in FillCols(r) : TRUE IN [r EXCEPT ![i].len = FillLen(s, r, i)]

RawOK(s, r) == /\ Cardinality(FillCols(r)) <= 1
               /\ BadCount(s, r) <= MaxBad
               /\ \A i \in FillCols(r) : FillLen(s, r, i) >= 0

Schemas == UNION {[1..n -> Types] : n \in MinCols..MaxCols}

mcVars == <<schema, abs, mem, disk, warm, dirty, gen, nmut, ret, life, lastmut, hist>>

MCInit == /\ \E s \in Schemas : VSInit(s)
          /\ life = <<>> /\ lastmut = <<>> /\ hist = <<>>

Strip(v) == [t |-> v.t, cls |-> v.cls, len |-> v.len]

\* the first row of a guarded INSERT: small valid values, whatever the classes of the configuration are
GuardRow(s) == [i \in 1..Len(s) |-> CASE s[i] = "INT" -> IV("1") [] s[i] = "BIGINT" -> IV("1") [] s[i] = "BOOLEAN" -> BV("true") [] OTHER -> SV("l1", 1)]

DoPut == \E raw \in Prod(schema, Len(schema), {}) : \E guarded \in (IF WithGuard THEN BOOLEAN ELSE {FALSE}) :
           /\ RawOK(schema, raw)
           /\ LET row == Resolved(schema, raw) IN
              /\ guarded => ~Accept(schema, row)            \* only where the statement must be refused (two accepted rows are two Puts)
              /\ IF guarded THEN PutTwo(GuardRow(schema), row) ELSE Put(row)
              /\ lastmut' = <<[a |-> "put", k |-> nmut', row |-> [i \in 1..Len(row) |-> Strip(row[i])], ok |-> ret'.ok, guard |-> guarded]>>
              /\ hist' = Append(hist, lastmut'[1])

\* SET list: some columns keep their value; a fill string is sized against the first row
DoUpd == /\ WithUpd
         /\ Len(Load) >= 1
         /\ \E raw \in Prod(schema, Len(schema), {KEEP}) :
              LET cols == {i \in 1..Len(schema) : raw[i].t # "k"}
                  first == [i \in 1..Len(schema) |-> IF i \in cols THEN raw[i] ELSE Load[1][i]]
              IN /\ cols # {}
                 /\ RawOK(schema, raw)
                 /\ \A i \in FillCols(raw) : FillLen(schema, first, i) >= 0
                 /\ LET res == Resolved(schema, first)
                        set == [i \in cols |-> res[i]]
                        items == SelectSeq([i \in 1..Len(schema) |-> [c |-> i, v |-> Strip(res[i]), on |-> i \in cols]],
                                           LAMBDA x : x.on)
                    IN /\ UpdateAll(set)
                       \* with MixedUpd the scenario also says whether the rows differ in outcome, and if
                       \* so whether the first row is among the refused ones or only later rows are
                       /\ lastmut' = IF MixedUpd
                                        THEN <<[a |-> "upd", k |-> nmut', set |-> items, ok |-> ret'.ok,
                                                mixed |-> LET new == NewRows(Load, set, nmut') IN
                                                          IF ~Mixed(new) THEN "no"
                                                          ELSE IF Accept(schema, new[1]) THEN "later-refused" ELSE "first-refused"]>>
                                        ELSE <<[a |-> "upd", k |-> nmut', set |-> items, ok |-> ret'.ok]>>
                       /\ hist' = Append(hist, lastmut'[1])

\* an otherwise valid INSERT / UPDATE whose column list also names "zz" (x), or names its first column twice (y)
DoUnknown ==
  /\ WithUnknown
  /\ \E raw \in Prod(schema, Len(schema), {}) : \E kind \in {"x", "y"} :
       /\ RawOK(schema, raw) /\ BadCount(schema, raw) = 0 /\ FillCols(raw) = {}
       /\ \/ /\ IF kind = "x" THEN UnknownColumn("put") ELSE RepeatedColumn("put")
             /\ lastmut' = <<[a |-> "put", k |-> nmut', row |-> [i \in 1..Len(raw) |-> Strip(raw[i])], ok |-> FALSE, x |-> kind = "x", y |-> kind = "y"]>>
          \/ /\ Len(Load) >= 1
             /\ IF kind = "x" THEN UnknownColumn("upd") ELSE RepeatedColumn("upd")
             /\ lastmut' = <<[a |-> "upd", k |-> nmut', set |-> <<[c |-> 1, v |-> Strip(raw[1]), on |-> TRUE]>>, ok |-> FALSE, x |-> kind = "x", y |-> kind = "y"]>>
       /\ hist' = Append(hist, lastmut'[1])

MCNext ==
  /\ ret.op # "get"            \* a Get ends the scenario
  /\ \/ /\ nmut < MaxMut
        /\ (DoPut \/ DoUpd \/ DoUnknown)
        /\ UNCHANGED life
     \/ /\ Len(life) < MaxLife
        /\ nmut >= LifeFrom
        /\ \/ Flush /\ life' = Append(life, "F") /\ hist' = Append(hist, [a |-> "flush"])
           \/ EvictAll /\ life' = Append(life, "E") /\ hist' = Append(hist, [a |-> "evict"])
           \/ Restart /\ life' = Append(life, "R") /\ hist' = Append(hist, [a |-> "restart"])
        /\ UNCHANGED lastmut
     \/ /\ Get
        /\ hist' = Append(hist, [a |-> "get", rows |-> [r \in 1..Len(ret'.rows) |->
                                    [i \in 1..Len(schema) |-> [t |-> ret'.rows[r][i].t, cls |-> ret'.rows[r][i].cls,
                                                               len |-> ret'.rows[r][i].len, by |-> ret'.rows[r][i].by]]]])
        /\ UNCHANGED <<life, lastmut>>

\* The order of lifecycle steps is part of the state (all orders are to be
\* explored) and so is the last statement attempted: refused statements leave
\* the table as it was, and each of them must still get its own scenarios
\* ("... ; refused statement ; lifecycle steps ; Get").  The history is not.
View == <<schema, abs, mem, disk, warm, dirty, gen, nmut, ret, life, lastmut>>

RefusedUpd(h) == \E i \in 1..Len(h) : h[i].a = "upd" /\ ~h[i].ok /\ (EmitSel = "mixed-upd" => h[i].mixed # "no")
Emit == (EmitOn /\ ret'.op = "get" /\ (EmitSel = "all" \/ RefusedUpd(hist'))) => PrintT(<<"SCN", ToJson([schema |-> schema, steps |-> hist'])>>)
=============================================================================
