CONSTANTS
  Keys = {}
  PVals = {}
  Cap = 8
INIT TraceInit
NEXT TraceNext
INVARIANTS CapOK DomOK GetReturnsStored
POSTCONDITION TraceAccepted
CHECK_DEADLOCK FALSE
