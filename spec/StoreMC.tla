------------------------------ MODULE StoreMC ------------------------------
(* Bounded instance of Store for TLC, with a history variable.  For every   *)
(* transition that completes something observable (a statement returned, a  *)
(* flush ended, a recovery ended) TLC prints one scenario: the action path  *)
(* that leads there, what the user is promised at that point (abs, or the   *)
(* allowed states after a crash) and the model's own page-level state.  The *)
(* Go harness executes the path on the real engine and compares.            *)
EXTENDS Store, Json, SequencesExt

CONSTANTS MaxStmts, MaxRows, MaxFlush, MaxCrash, MaxEvict, EmitOn,
          EmitSel,     \* which completed paths are printed: "all", "crash", "crash-wal", "crash-flush", "error"
          EmitMod,     \* 1: every selected path is printed; k > 1: each one with probability 1/k (sampling inside TLC,
                       \* for configurations whose exploration is cheap and whose printing is not)
          BadMode,     \* which invalid rows INSERT/UPDATE may carry: "none", "type-size", "count-range", "all"
          Wheres,      \* WHERE clauses of UPDATE / DELETE (see Store!Match): 0, values, 100 + k for `a >= k`
          DmlTables,   \* tables that INSERT/UPDATE/DELETE address (a subset of Tables, to focus a configuration)
          Ops,         \* statement kinds explored: subset of {"create", "insert", "update", "delete"}
          ScriptSeqs,  \* <<>>: any values; otherwise the k-th statement, if an INSERT and ScriptSeqs[k] is not empty, inserts a sequence of values in ScriptSeqs[k]
          ScriptRows,  \* <<>>: any number of rows per INSERT; otherwise the k-th statement, if an INSERT, has a row count in ScriptRows[k]
          Script       \* <<>>: any statement at any position; otherwise the k-th statement of a path is of a kind in Script[k]
                       \* (a narrow corridor through long histories: row counts, flush and crash points still vary freely)

VARIABLES cnt, hist,
          fails    \* kinds of statements refused so far on this path.  A refused statement changes nothing in the specification,
                   \* so without this ghost every path through one is merged (VIEW) with the first one found, and only that
                   \* one is ever continued: the ghost keeps one continuing path per kind of refusal

\* (TLC's configuration files cannot spell negative numbers, hence the mode names)
BadVals == CASE BadMode = "none" -> {}
             [] BadMode = "type-size" -> {-1, -2}
             [] BadMode = "count-range" -> {-3, -4}
             [] BadMode = "all" -> {-1, -2, -3, -4}
mcVars == <<disk, dhdr, cache, mhdr, walD, torn, walU, pc, abs, pend, cands, taint, scope, out, cnt, hist, fails>>

RowSeqs == UNION {[1..n -> Vals \cup BadVals] : n \in 1..MaxRows}
\* at most one invalid row per statement (enough for "the k-th row is the invalid one, for every k");
\* a row with a NULL INT column (value 9) can only be written as a one-row INSERT with a shorter column list
OneBad(rows) == /\ Cardinality({i \in 1..Len(rows) : rows[i] < 0}) <= 1
                /\ (\E i \in 1..Len(rows) : rows[i] = 9) => Len(rows) = 1

H(step) == hist' = Append(hist, step)
Bump(f) == cnt' = [cnt EXCEPT ![f] = @ + 1]

MCInit == Init /\ cnt = [st |-> 0, fl |-> 0, cr |-> 0, ev |-> 0] /\ hist = <<>> /\ fails = {}
Refused(kind) == fails' = IF out'.k = "error" THEN fails \cup {kind} ELSE fails

\* nothing further is explored after a known-defective situation: what follows it is not judged anyway
\* scripts (TLC's configuration files cannot spell sequences: a configuration says `Script <- ScriptX`)
ScriptNone == <<>>
\* a table grown to two leaves and flushed; then, in one flush interval: a row inserted, every row updated, and an insert
\* that splits the right-most leaf and moves that row to the new page
ScriptInsUpdSplit == <<{"create"}, {"insert"}, {"insert"}, {"insert"}, {"update"}, {"insert"}>>
\* the same with a delete in the interval
ScriptInsDelSplit == <<{"create"}, {"insert"}, {"insert"}, {"insert"}, {"delete"}, {"insert"}, {"insert"}>>
\* two tables growing in turns, then updates and deletes
ScriptTwoTables == <<{"create"}, {"create"}, {"insert"}, {"insert"}, {"insert"}, {"insert"}, {"update", "delete"}, {"insert"}>>

StmtOK == pc.k = "idle" /\ cnt.st < MaxStmts /\ taint = {}
Scripted(kind) == Script = <<>> \/ (cnt.st < Len(Script) /\ kind \in Script[cnt.st + 1])
ScriptedRows(n) == ScriptRows = <<>> \/ (cnt.st < Len(ScriptRows) /\ n \in ScriptRows[cnt.st + 1])
ScriptedSeq(rows) == IF cnt.st >= Len(ScriptSeqs) THEN TRUE ELSE IF ScriptSeqs[cnt.st + 1] = {} THEN TRUE ELSE rows \in ScriptSeqs[cnt.st + 1]
SeqsNone == <<>>
SeqsInsUpdSplit == <<{}, {<<1, 1, 1>>}, {<<1>>}, {<<1>>}, {}, {<<1>>}>>
\* a table grown until its root is an internal page, one more logged insert, then row ids handed out by unlogged
\* statements (CREATE TABLE); a crash anywhere; then statements that take fresh row ids
ScriptGrowThenDdl == <<{"create"}, {"insert"}, {"insert"}, {"insert"}, {"create"}, {"create", "insert"}, {"create", "insert"}>>
RowsGrowThenDdl == <<{0}, {2}, {2}, {1, 2}, {0}, {1, 2}, {1, 2}>>
\* a table whose root has split (a root-move record for the catalog is in the log), flushed; one more insert; then a second
\* CREATE TABLE, whose own flush is torn
ScriptSplitThenCreate == <<{"create"}, {"insert"}, {"insert"}, {"create"}, {"insert"}>>
RowsSplitThenCreate == <<{0}, {3}, {1}, {0}, {1}>>
\* a table grown until its internal root splits (three levels at capacities 3/3), three rows per statement
ScriptGrowDeep == <<{"create"}, {"insert"}, {"insert"}, {"insert"}, {"insert"}>>
RowsGrowDeep == <<{0}, {3}, {3}, {3}, {1, 2}>>
RowsNone == <<>>
RowsInsUpdSplit == <<{0}, {3}, {1}, {1}, {0}, {1}>>
RowsInsDelSplit == <<{0}, {3}, {1}, {1}, {0}, {1}, {1}>>

MCNext ==
  \/ /\ StmtOK /\ "create" \in Ops /\ Scripted("create") /\ \E t \in Tables, bad \in (IF BadVals = {} THEN {FALSE} ELSE BOOLEAN) :
          CreateStmt(t, bad) /\ H([a |-> "create", t |-> t, bad |-> bad]) /\ Bump("st") /\ Refused(<<IF bad THEN "create-bad" ELSE "create", t>>)
  \/ /\ StmtOK /\ "insert" \in Ops /\ Scripted("insert") /\ \E t \in DmlTables, rows \in RowSeqs :
          OneBad(rows) /\ ScriptedRows(Len(rows)) /\ ScriptedSeq(rows) /\ InsertStmt(t, rows) /\ H([a |-> "insert", t |-> t, rows |-> rows]) /\ Bump("st") /\ Refused(<<"insert", t>>)
  \/ /\ StmtOK /\ "update" \in Ops /\ Scripted("update") /\ \E t \in DmlTables, w \in Wheres, v \in (Vals \ {9}) \cup (BadVals \cap {-1, -2}) :
          UpdateStmt(t, w, v) /\ H([a |-> "update", t |-> t, w |-> w, v |-> v]) /\ Bump("st") /\ Refused(<<"update", t>>)
  \/ /\ StmtOK /\ "delete" \in Ops /\ Scripted("delete") /\ \E t \in DmlTables, w \in Wheres :
          DeleteStmt(t, w) /\ H([a |-> "delete", t |-> t, w |-> w]) /\ Bump("st") /\ Refused(<<"delete", t>>)
  \/ /\ cnt.fl < MaxFlush /\ taint = {} /\ (cache # <<>> \/ dhdr # mhdr)
     /\ FlushBegin /\ H([a |-> "flush"]) /\ Bump("fl") /\ UNCHANGED fails
  \/ /\ cnt.ev < MaxEvict /\ taint = {} /\ EvictAll /\ H([a |-> "evict"]) /\ Bump("ev") /\ UNCHANGED fails
  \/ /\ \E p \in pc.todo : FlushPage(p) /\ UNCHANGED <<cnt, hist, fails>>
  \/ /\ FlushHdr /\ UNCHANGED <<cnt, hist, fails>>
  \/ /\ WalStep /\ UNCHANGED <<cnt, hist, fails>>
  \/ /\ cnt.cr < MaxCrash
     /\ \E keep \in BOOLEAN, part \in WalParts :
          /\ Crash(keep, part)
          /\ H([a |-> "crash", at |-> pc.k, during |-> pc.after, i |-> pc.i, sub |-> pc.sub, keep |-> keep, part |-> part,
                 written |-> SetToSortSeq(pc.orig \ pc.todo, <), orig |-> SetToSortSeq(pc.orig, <), hdr |-> FALSE])
     /\ Bump("cr") /\ UNCHANGED fails
  \/ /\ Recover /\ H([a |-> "recover"]) /\ UNCHANGED <<cnt, fails>>

\* ---- what is printed
PageIds(c, d) == SetToSortSeq((DOMAIN c) \cup (DOMAIN d), <)
PageOut(p, n) ==
  IF n.kind = "L"
  THEN [id |-> p, kind |-> "L", keys |-> [i \in 1..Len(n.cells) |-> n.cells[i].k],
        dead |-> [i \in 1..Len(n.cells) |-> IF n.cells[i].d THEN 1 ELSE 0],
        vals |-> [i \in 1..Len(n.cells) |-> n.cells[i].v.b],
        kids |-> <<>>, l |-> IF n.hl THEN n.l ELSE 0, r |-> IF n.hr THEN n.r ELSE 0, lsn |-> n.lsn]
  ELSE [id |-> p, kind |-> "I", keys |-> [i \in 1..Len(n.seps) |-> n.seps[i].k],
        dead |-> <<>>, vals |-> <<>>,
        kids |-> [i \in 1..Len(n.seps) |-> n.seps[i].c] \o <<n.right>>, l |-> 0, r |-> 0, lsn |-> n.lsn]
Post(c, d, h) == [pages |-> [i \in 1..Len(PageIds(c, d)) |-> PageOut(PageIds(c, d)[i], Rd(c, d, PageIds(c, d)[i]))],
                  hdr |-> <<h.lastKey, h.ptRoot, h.nx, h.lsn>>]
AbsOut(a) == LET ts == SetToSortSeq(DOMAIN a, LAMBDA x, y : TRUE) IN [i \in 1..Len(ts) |-> [t |-> ts[i], rows |-> a[ts[i]]]]

\* the specification's own pages hold the promise a, and everything the harness looks at (catalog, tree shapes, row
\* ids, room for the next allocation) is in order
Healthy(c, d, h, a) ==
  LET S == [c |-> c, nx |-> h.nx, h |-> h]
      sv == SchemaView(c, d, h)
      names == {x.v.a : x \in {y \in SeqToSet(CatRows(S, d)) : ~y.d /\ y.v.tag = "P"}}
  IN /\ PageView(c, d, h) = a
     /\ "sys_schema" \in names
     /\ \A t \in DOMAIN a : SelectSeq(sv, LAMBDA x : x[1] = t) = [i \in 1..Len(ColsOf(t)) |-> <<t, ColsOf(t)[i][1], ColsOf(t)[i][2]>>]
     /\ \A i \in 1..Len(sv) : sv[i][1] \in (DOMAIN a) \cup {"sys_pages", "sys_schema"}
     /\ TreeOK(c, d, h.ptRoot)
     /\ \A t \in names \ {"sys_pages"} : TreeOK(c, d, RootOf(S, d, t))
     /\ \A k \in IdsView(c, d, h) : k <= h.lastKey
     \* (a stale free pointer - every page written, the header not - is damage too, but a latent one: nothing the
     \* harness does at the end of a path allocates a page, so it can never be what made a replay fail)

Selected == CASE EmitSel = "all" -> TRUE
              [] EmitSel = "crash" -> \E i \in 1..Len(hist') : hist'[i].a = "crash"
              [] EmitSel = "crash-wal" -> \E i \in 1..Len(hist') : hist'[i].a = "crash" /\ hist'[i].at = "wal"
              [] EmitSel = "crash-flush" -> \E i \in 1..Len(hist') : hist'[i].a = "crash" /\ hist'[i].at = "flush"
              [] EmitSel = "error" -> out'.k = "error"
Emit == (EmitOn /\ out'.k # "none" /\ Selected /\ (EmitMod = 1 \/ RandomElement(1..EmitMod) = 1)) =>
          PrintT(<<"SCN", ToJson([steps |-> hist', out |-> out'.k,
                                  abs |-> AbsOut(abs'),
                                  allowed |-> IF out'.k \in {"recovered", "lost", "dead"}
                                              THEN [i \in 1..Len(cands) |-> AbsOut(cands[i])] ELSE <<AbsOut(abs')>>,
                                  schema |-> SchemaView(cache', disk', mhdr'),
                                  post |-> Post(cache', disk', mhdr'),
                                  wal |-> Len(walD'),
                                  taint |-> SetToSortSeq(taint', LAMBDA x, y : TRUE),
                                  \* on a path through a known-defective situation: do the specification's own pages still
                                  \* hold an allowed state?  (FALSE = the specification itself predicts the damage here)
                                  pvok |-> IF taint' = {} THEN TRUE
                                           ELSE IF out'.k \in {"dead", "lost"} THEN FALSE
                                           ELSE Healthy(cache', disk', mhdr', abs'),
                                  scope |-> scope'])>>)

View == <<disk, dhdr, cache, mhdr, walD, torn, walU, pc, abs, pend, cands, taint, scope, cnt, fails>>
=============================================================================
