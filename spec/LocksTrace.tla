----------------------------- MODULE LocksTrace -----------------------------
(* C13, code -> specification: event traces recorded from real goroutines    *)
(* (hooks at lock acquisition/release, first change, data-file writes, log   *)
(* writes; sequence numbers taken under one mutex at the hook) must be       *)
(* behaviours of Locks.  A page or header write inside a statement's window, *)
(* a change outside the lock, or a statement that never took the lock is an  *)
(* event no action of Locks can match: the trace is rejected there.          *)
EXTENDS Locks, Json, Sequences

VARIABLE l
Trace == ndJsonDeserialize("trace.ndjson")
trVars == <<stmt, inS, took, changed, logged, writer, tried, l>>
Ev == Trace[l]
Is(e) == l <= Len(Trace) /\ Ev.e = e /\ l' = l + 1

TInit == LInit /\ l = 1 /\ TLCSet(1, 1)
TReset == Is("reset") /\ stmt' = "none" /\ inS' = FALSE /\ took' = FALSE /\ changed' = FALSE /\ logged' = FALSE /\ writer' = "none" /\ tried' = {}
TStep == \/ TReset
         \/ Is("begin") /\ Begin(Ev.k)
         \/ Is("S+") /\ Ev.g = "S" /\ SLock
         \/ Is("dirty") /\ Ev.g = "S" /\ Change
         \/ Is("wlen") /\ Ev.g = "S" /\ WalWrite(FALSE)
         \/ Is("wbody") /\ Ev.g = "S" /\ WalWrite(FALSE)
         \/ Is("wsync") /\ Ev.g = "S" /\ WalWrite(TRUE)
         \/ Is("S-") /\ Ev.g = "S" /\ SUnlock
         \/ Is("end") /\ End
         \/ Is("X?") /\ XTry(Ev.g)
         \/ Is("X+") /\ XLock(Ev.g)
         \/ Is("page") /\ Write(Ev.g)
         \/ Is("hdr") /\ Write(Ev.g)
         \/ Is("X-") /\ XUnlock(Ev.g)
\* the high-water mark is advanced only after the event was matched by an action
TNext == TStep /\ TLCSet(1, l')
Accepted == LET r == TLCGet(1) IN PrintT(<<"OUT", ToJson([reached |-> r, len |-> Len(Trace)])>>) /\ r = Len(Trace) + 1
=============================================================================
