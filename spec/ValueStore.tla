----------------------------- MODULE ValueStore -----------------------------
(* One table of mkdb as a value store (C08).                                *)
(*                                                                          *)
(* Mechanism: statements work on the page cache (`mem`, meaningful while    *)
(* the cache is warm); Flush copies it to the file (`disk`); EvictAll       *)
(* flushes and empties the cache; Restart closes the store (which flushes), *)
(* runs recovery and opens it again with an empty cache.  A statement on a  *)
(* cold cache loads from the file first.                                    *)
(*                                                                          *)
(* Promise: the ghost variable `abs` is the table the statement history     *)
(* implies - rows accepted by Put, changed by accepted UpdateAll, nothing   *)
(* else - and every Get returns exactly `abs`, whatever Flush / EvictAll /  *)
(* Restart happened in between.  A refused statement changes nothing.       *)
EXTENDS Values, TLC

\* FALSE: UpdateAll is defined only where every row has the same outcome (the
\* scope of C08).  TRUE: also where some new rows are accepted and some are
\* refused; the statement is atomic - it succeeds iff every new row is
\* accepted, otherwise nothing changes (C14 at this level).
CONSTANT MixedUpd

VARIABLES schema,   \* sequence of column types
          abs,      \* ghost: sequence of rows the history implies
          mem,      \* table as seen through the cache (when warm)
          disk,     \* table as persisted in the file
          warm,     \* the cache holds the table's pages
          dirty,    \* the cache holds changes the file does not
          gen,      \* number of restarts
          nmut,     \* number of Put / UpdateAll attempts so far
          ret       \* the last call: [op, ok, rows]

vsVars == <<schema, abs, mem, disk, warm, dirty, gen, nmut, ret>>

\* the table a statement sees
Load == IF warm THEN mem ELSE disk

\* a row as stored by mutation k: every cell remembers who wrote it
Stamp(row, k) == [i \in 1..Len(row) |-> [t |-> row[i].t, cls |-> row[i].cls, w |-> row[i].w, len |-> row[i].len, by |-> k]]

VSInit(s) == /\ schema = s /\ abs = <<>> /\ mem = <<>> /\ disk = <<>>
             /\ warm = TRUE /\ dirty = FALSE /\ gen = 0 /\ nmut = 0
             /\ ret = [op |-> "init", ok |-> TRUE, rows |-> <<>>]

\* INSERT of one row
Put(row) ==
  LET ok == Accept(schema, row) IN
  /\ nmut' = nmut + 1
  /\ warm' = TRUE
  /\ IF ok THEN /\ abs' = Append(abs, Stamp(row, nmut + 1))
                /\ mem' = Append(Load, Stamp(row, nmut + 1))
                /\ dirty' = TRUE
           ELSE /\ abs' = abs /\ mem' = Load /\ dirty' = dirty
  /\ ret' = [op |-> "put", ok |-> ok, rows |-> <<>>]
  /\ UNCHANGED <<schema, disk, gen>>

\* INSERT of two rows in one statement, the first of which (g) is a row the table accepts: both rows are stored or - when the
\* second one is refused - neither is, and the statement reports the error (a statement is validated as a whole before
\* its first row is stored: whatever makes a row unacceptable must be seen by that validation, not only by the store)
PutTwo(g, row) ==
  LET ok == Accept(schema, g) /\ Accept(schema, row)
      two == <<Stamp(g, nmut + 1), Stamp(row, nmut + 1)>> IN
  /\ nmut' = nmut + 1
  /\ warm' = TRUE
  /\ IF ok THEN /\ abs' = abs \o two /\ mem' = Load \o two /\ dirty' = TRUE
           ELSE /\ abs' = abs /\ mem' = Load /\ dirty' = dirty
  /\ ret' = [op |-> "put", ok |-> ok, rows |-> <<>>]
  /\ UNCHANGED <<schema, disk, gen>>

\* a row after SET: set is a function from some column numbers to values
Override(row, set, k) ==
  [i \in 1..Len(row) |-> IF i \in DOMAIN set
                            THEN [t |-> set[i].t, cls |-> set[i].cls, w |-> set[i].w, len |-> set[i].len, by |-> k]
                            ELSE row[i]]
NewRows(tbl, set, k) == [r \in 1..Len(tbl) |-> Override(tbl[r], set, k)]
AllAccepted(tbl) == \A r \in 1..Len(tbl) : Accept(schema, tbl[r])
NoneAccepted(tbl) == \A r \in 1..Len(tbl) : ~Accept(schema, tbl[r])

\* some new rows would be accepted and some refused
Mixed(tbl) == ~AllAccepted(tbl) /\ ~NoneAccepted(tbl)

\* UPDATE ... SET (no WHERE): every row gets the new values, or - when one of
\* the new rows is refused - none does and the statement reports the error.
\* There must be a row (an UPDATE that matches nothing stores nothing and
\* validates nothing).  With MixedUpd = FALSE the action is defined only where
\* the outcome is the same for every row (C08); with MixedUpd = TRUE also where
\* the statement fails on some rows only: still nothing changes (C14).
UpdateAll(set) ==
  LET new == NewRows(Load, set, nmut + 1) IN
  /\ Len(Load) >= 1
  /\ MixedUpd \/ ~Mixed(new)
  /\ nmut' = nmut + 1
  /\ warm' = TRUE
  /\ IF AllAccepted(new)
        THEN /\ abs' = NewRows(abs, set, nmut + 1) /\ mem' = new /\ dirty' = TRUE
        ELSE /\ abs' = abs /\ mem' = Load /\ dirty' = dirty
  /\ ret' = [op |-> "upd", ok |-> AllAccepted(new), rows |-> <<>>]
  /\ UNCHANGED <<schema, disk, gen>>

\* a statement (INSERT or UPDATE) that names a column the table does not have is refused as a whole, whatever its other
\* values are: a value is never accepted and then not stored
UnknownColumn(op) ==
  /\ nmut' = nmut + 1
  /\ warm' = TRUE
  /\ abs' = abs /\ mem' = Load /\ dirty' = dirty
  /\ ret' = [op |-> op, ok |-> FALSE, rows |-> <<>>]
  /\ UNCHANGED <<schema, disk, gen>>

\* ... and so is a statement that names one column twice (INSERT INTO t (c1, c1) ..., UPDATE t SET c1 = .., c1 = ..):
\* one of the two values it offers could not be stored
RepeatedColumn(op) == UnknownColumn(op)

Flush == /\ disk' = Load /\ mem' = Load /\ dirty' = FALSE
         /\ ret' = [op |-> "flush", ok |-> TRUE, rows |-> <<>>]
         /\ UNCHANGED <<schema, abs, warm, gen, nmut>>

EvictAll == /\ disk' = Load /\ mem' = <<>> /\ warm' = FALSE /\ dirty' = FALSE
            /\ ret' = [op |-> "evict", ok |-> TRUE, rows |-> <<>>]
            /\ UNCHANGED <<schema, abs, gen, nmut>>

Restart == /\ disk' = Load /\ mem' = <<>> /\ warm' = FALSE /\ dirty' = FALSE
           /\ gen' = gen + 1
           /\ ret' = [op |-> "restart", ok |-> TRUE, rows |-> <<>>]
           /\ UNCHANGED <<schema, abs, nmut>>

\* SELECT * FROM t
Get == /\ ret' = [op |-> "get", ok |-> TRUE, rows |-> Load]
       /\ mem' = Load /\ warm' = TRUE
       /\ UNCHANGED <<schema, abs, disk, dirty, gen, nmut>>

-----------------------------------------------------------------------------
(* C08 at this level.                                                       *)

\* every read returns the rows the history implies, cell for cell
GetReturnsAbs == (ret.op = "get") => (ret.rows = abs)

\* nothing that was refused is ever in the table; everything in it is valid and fits
OnlyAcceptedStored == \A r \in 1..Len(abs) : Accept(schema, abs[r])

\* the mechanism agrees with the promise
MechanismOK == /\ Load = abs
               /\ (~dirty) => disk = abs

\* a refused statement changes nothing (C14 at this level: with MixedUpd this
\* includes an UPDATE that only some of the rows refuse)
RefusedChangesNothing ==
  [][ (ret'.op \in {"put", "upd"} /\ ~ret'.ok) => (abs' = abs /\ Load' = Load /\ disk' = disk) ]_vsVars

\* only Put and UpdateAll change what the table means
LifecycleChangesNothing ==
  [][ (ret'.op \in {"flush", "evict", "restart", "get"}) => (abs' = abs /\ Load' = Load) ]_vsVars
=============================================================================
