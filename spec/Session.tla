------------------------------ MODULE Session ------------------------------
(* One session over several databases (engine/session.go, storage/file.go,  *)
(* OpenRelation / CreateDB): CREATE DATABASE, USE, SHOW DATABASES, DDL and   *)
(* DML routed to the selected database, timer ticks and restarts.            *)
(*                                                                           *)
(* This is the promise at the level the user sees (C17): every database      *)
(* holds exactly what was written while it was selected.  The page level of  *)
(* one store is Store.tla; what this module adds is the set of stores.  In   *)
(* the code as found USE abandoned the previous store (its timer kept        *)
(* flushing a stale header and stale pages) and a failed USE left the        *)
(* session without a store; the repaired code closes the previous store and  *)
(* keeps it on failure, so exactly one store is open.  `unsaved` records     *)
(* which databases have changes that are only in a page cache: it does not   *)
(* change the promise, it makes TLC distinguish - and therefore generate -   *)
(* the paths on which a leaked or re-opened store would lose them.           *)
EXTENDS Integers, Sequences, FiniteSets, TLC

CONSTANTS Names,     \* database names as typed (upper and lower case variants)
          BadNames,  \* the names among them that are no name of ONE directory entry ("x/y", "..", "."): a database is a
                     \* directory under data/, so such a name would be another database's directory, or none at all
          Vals       \* row values

VARIABLES dbs,       \* created databases (lower case)
          cur,       \* selected database, "" if none
          content,   \* db -> [has |-> table exists, rows |-> sequence of values]
          unsaved,   \* set of dbs with changes not yet flushed
          ticked,    \* a timer tick happened since the last statement (a tick changes nothing in the promise;
                     \* the flag makes the state after it a different state, so TLC continues paths through it:
                     \* a store the code leaked writes its stale header exactly then)
          res        \* outcome of the last step (observation only)

sessVars == <<dbs, cur, content, unsaved, ticked, res>>

Lower(n) == CASE n = "A" -> "a" [] n = "B" -> "b" [] OTHER -> n
NoTable == [has |-> FALSE, rows |-> <<>>]
R(k, show) == [k |-> k, show |-> show]
OK == R("ok", {})
ERR == R("error", {})

SessInit == dbs = {} /\ cur = "" /\ content = <<>> /\ unsaved = {} /\ ticked = FALSE /\ res = R("init", {})

CreateDb(n) ==
  LET d == Lower(n) IN
  IF d \in dbs \/ n \in BadNames THEN res' = ERR /\ UNCHANGED <<dbs, cur, content, unsaved>>
  ELSE /\ dbs' = dbs \cup {d}
       /\ content' = [x \in dbs \cup {d} |-> IF x = d THEN NoTable ELSE content[x]]
       /\ res' = OK /\ UNCHANGED <<cur, unsaved>>

\* USE closes the previously selected store (which flushes it) and opens the new one;
\* a database that does not exist is an error that changes nothing
Use(n) ==
  LET d == Lower(n) IN
  IF d \notin dbs THEN res' = ERR /\ UNCHANGED <<dbs, cur, content, unsaved>>
  ELSE /\ cur' = d /\ unsaved' = unsaved \ {cur} /\ res' = OK /\ UNCHANGED <<dbs, content>>

Show == res' = R("ok", dbs) /\ UNCHANGED <<dbs, cur, content, unsaved>>

CreateTable ==
  IF cur = "" \/ content[cur].has THEN res' = ERR /\ UNCHANGED <<dbs, cur, content, unsaved>>
  ELSE /\ content' = [content EXCEPT ![cur].has = TRUE]
       /\ unsaved' = unsaved \ {cur}          \* CREATE TABLE ends with its own flush
       /\ res' = OK /\ UNCHANGED <<dbs, cur>>

Insert(v) ==
  IF cur = "" \/ ~content[cur].has THEN res' = ERR /\ UNCHANGED <<dbs, cur, content, unsaved>>
  ELSE /\ content' = [content EXCEPT ![cur].rows = Append(@, v)]
       /\ unsaved' = unsaved \cup {cur} /\ res' = OK /\ UNCHANGED <<dbs, cur>>

Delete(v) ==
  IF cur = "" \/ ~content[cur].has THEN res' = ERR /\ UNCHANGED <<dbs, cur, content, unsaved>>
  ELSE /\ content' = [content EXCEPT ![cur].rows = SelectSeq(@, LAMBDA x : x # v)]
       /\ unsaved' = IF \E i \in 1..Len(content[cur].rows) : content[cur].rows[i] = v THEN unsaved \cup {cur} ELSE unsaved
       /\ res' = OK /\ UNCHANGED <<dbs, cur>>

\* 100 ms pass: the flusher of every open store runs once
Tick == /\ ~ticked /\ ticked' = TRUE /\ unsaved' = {} /\ res' = R("tick", {}) /\ UNCHANGED <<dbs, cur, content>>

\* clean shutdown and a new process: nothing selected
Restart == /\ cur' = "" /\ unsaved' = {} /\ res' = R("restart", {}) /\ UNCHANGED <<dbs, content>>

\* the process dies (nothing is closed or flushed) and a new one starts: every statement that returned had its
\* records fsynced, so recovery of every database restores exactly the promise
\* (A process that dies INSIDE CreateDb is the same step as far as every other database is concerned: CreateDb is atomic
\* here, the statement never returned and nothing is promised about the new name - on disk it is several writes, and the
\* replay harness restarts on every prefix of them, scenario `half`: the other databases are as they were and work, and
\* statements on the unfinished one are answered, by an error.)
CrashRestart == /\ cur' = "" /\ unsaved' = {} /\ res' = R("crash", {}) /\ UNCHANGED <<dbs, content>>

\* CREATE TABLE of a table other than t in the selected database: nothing the promises talk about changes (how many
\* such tables there are is not part of the state; the replayed paths also get eight of them in a row, which makes the
\* catalog's own tree grow a level)
OtherTable ==
  IF cur = "" THEN res' = ERR /\ UNCHANGED <<dbs, cur, content, unsaved>>
  ELSE /\ unsaved' = unsaved \ {cur}          \* CREATE TABLE ends with its own flush
       /\ res' = OK /\ UNCHANGED <<dbs, cur, content>>

SessNext == \/ Tick
            \/ /\ ticked' = FALSE
               /\ \/ \E n \in Names : CreateDb(n) \/ Use(n)
                  \/ Show \/ CreateTable \/ OtherTable \/ Restart \/ CrashRestart
                  \/ \E v \in Vals : Insert(v) \/ Delete(v)

-----------------------------------------------------------------------------
TypeOK == /\ dbs \subseteq {Lower(n) : n \in Names \ BadNames} /\ cur \in dbs \cup {""}
          /\ DOMAIN content = dbs /\ unsaved \subseteq dbs
\* isolation: a step changes the content of the selected database only
Isolation == [][\A d \in dbs : d # cur => content'[d] = content[d]]_sessVars
\* failing statements change nothing
ErrorsChangeNothing == [][res'.k = "error" => UNCHANGED <<dbs, cur, content>>]_sessVars
\* ticks and restarts change no content
PausesChangeNothing == [][res'.k \in {"tick", "restart", "crash"} => UNCHANGED <<dbs, content>>]_sessVars
=============================================================================
