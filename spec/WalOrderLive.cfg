CONSTANTS
  Pages = {1, 2}
  MaxLsn = 2
  MaxCrash = 0
SPECIFICATION LiveSpec
INVARIANTS WriteAhead HeaderCovers NoOrphanStamp
PROPERTIES DirtyEventuallyWritten FlushEnds
CHECK_DEADLOCK FALSE
