---------------------------- MODULE WalOrderLive ----------------------------
(* Progress of the write-ordering discipline: NO FORCE must not mean NEVER.  *)
(* Under the fairness the implementation provides - the flusher's ticker     *)
(* keeps asking for the exclusive lock and sync.RWMutex prefers a waiting    *)
(* writer (strong fairness of ExclusiveLock), every step of a flush and of a *)
(* statement is eventually taken, a page write does not fail forever - every *)
(* dirty page is eventually written to the data file, and every flush ends.  *)
EXTENDS WalOrderMC

vars == <<woVars, crashes>>
WriteDirty(p) == \E n \in Lsns : WritePage(p, n) /\ p \in DOMAIN stamp
WriteHdr == \E n \in 1..(MaxLsn + 1), x \in 1..(Cardinality(Pages) + 1) : WriteHeader(n, x)
StmtStep == \/ \E n \in Lsns : LogAppend(n)
            \/ SharedUnlock
            \/ \E ok \in BOOLEAN : Result(ok)
            \/ Recovered
\* statements whose dirty set fits the page cache (precondition of C16): none is abandoned half-way
\* (the only way the discipline lets a statement release the lock with unlogged stamps)
LoggedAtUnlock == SharedUnlock => (kind \in DML => stamped \subseteq logged)
LiveSpec == /\ MCInit /\ [][MCNext /\ UNCHANGED crashes /\ ~Aborted /\ LoggedAtUnlock]_vars
            /\ SF_vars(ExclusiveLock /\ UNCHANGED crashes)
            /\ \A p \in Pages : SF_vars(WriteDirty(p) /\ UNCHANGED crashes)      \* no page's write fails for ever
            /\ WF_vars(WriteHdr /\ UNCHANGED crashes)
            /\ WF_vars(ExclusiveUnlock /\ UNCHANGED crashes)
            /\ WF_vars(StmtStep /\ UNCHANGED crashes)

DirtyEventuallyWritten == \A p \in Pages : (p \in DOMAIN stamp) ~> (p \notin DOMAIN stamp)
FlushEnds == (lock = "X") ~> (lock # "X")
=============================================================================
