INIT TInit
NEXT TNext
INVARIANTS Excl NoWriteInsideStmt
POSTCONDITION Accepted
CHECK_DEADLOCK FALSE
