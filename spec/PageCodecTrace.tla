--------------------------- MODULE PageCodecTrace ---------------------------
(* Trace validation for C12: a random workload recorded from a real        *)
(* fileStore (trace.ndjson, written by harness/cmd/codec in "random" mode) *)
(* must be a behaviour of PageCodec.  Nodes are identified by a digest of  *)
(* their logical content (header fields and cells in key order), computed  *)
(* by the harness from the in-memory node before the store and from the    *)
(* node fetch returned.  Each update event also carries the length of      *)
(* encode() and the digest of decode(encode(node)).                        *)
EXTENDS PageCodec, Json

VARIABLE l   \* position in the trace
Trace == ndJsonDeserialize("trace.ndjson")
trVars == <<file, cached, flen, ret, got, l>>

Ev == Trace[l]
IsEvent(a) == l <= Len(Trace) /\ Ev.a = a /\ l' = l + 1 /\ TLCSet(1, l + 1)

TraceInit == PageInit /\ l = 1 /\ TLCSet(1, 1)

\* the store wrote exactly one page, the codec round-trips the node in
\* memory, and the file has the length the specification computes
TraceUpdate == /\ IsEvent("update")
               /\ Ev.err = ""
               /\ Ev.enc = PageSize
               /\ Ev.rt = Ev.node
               /\ Update(Ev.p, Ev.node)
               /\ flen' = Ev.flen
TraceDrop == IsEvent("drop") /\ DropCache
\* a new run on a new file
TraceReset == /\ IsEvent("reset")
              /\ file' = <<>> /\ cached' = {} /\ flen' = 0
              /\ ret' = [op |-> "init", p |-> 0, hit |-> FALSE] /\ got' = <<>>
\* the node that came back is the register content
TraceFetch == /\ IsEvent("fetch")
              /\ Ev.err = ""
              /\ Fetch(Ev.p)
              /\ got'[1] = Ev.node
              /\ flen' = Ev.flen
TraceNext == TraceReset \/ TraceUpdate \/ TraceDrop \/ TraceFetch
TraceSpec == TraceInit /\ [][TraceNext]_trVars

TraceAccepted ==
  LET r == TLCGet(1) IN
  /\ PrintT(<<"OUT", ToJson([reached |-> r, len |-> Len(Trace)])>>)
  /\ r = Len(Trace) + 1
=============================================================================
