------------------------------ MODULE Console ------------------------------
(* The line assembler of the mkdb console (cmd/console/go_terminal.go,     *)
(* handleKey / readLine) as a state machine, and the meaning of C20.       *)
(*                                                                        *)
(* The user types characters and line breaks.  The console collects them  *)
(* in an edit buffer; on Enter it either keeps collecting (the line break *)
(* becomes one space) or hands the buffered statements to the engine.     *)
(*                                                                        *)
(* Characters are byte values (TLC cannot index strings).  A literal is   *)
(* opened by ' or " and closed by the same character.  (mkdb's scanner    *)
(* also knows backslash escapes, backquoted strings and comments; they    *)
(* are outside the alphabet C20 quantifies over and are not modelled.)    *)
(*                                                                        *)
(* Two things are defined here, on purpose independently:                 *)
(*   - the machine (buf, inQuote, out; Key(c), Enter): what a correct     *)
(*     console does step by step, in the grain of handleKey;              *)
(*   - the reference meaning (StmtsOf, Norm, Accept): a function of the   *)
(*     whole typed input that says which statements the engine must get.  *)
(* TLC checks that the machine satisfies the reference meaning; the       *)
(* replay harness checks that the real Terminal.ReadLine does.            *)
EXTENDS Integers, Sequences, FiniteSets, TLC

CONSTANTS Letters          \* byte values of ordinary characters, e.g. {97}

SP   == 32                 \* space
SEMI == 59                 \* ;
SQ   == 39                 \* '
DQ   == 34                 \* "
CR   == 13                 \* the Enter key (line break)
Quotes == {SQ, DQ}
Chars  == Letters \cup {SP, SEMI, SQ, DQ}
IsWS(c) == c \in {SP, CR}

VARIABLES buf,             \* edit buffer: characters collected since the last hand-over
          inQuote,         \* 0, or the quote character of the literal the buffer end is inside of
          out,             \* statements handed to the engine so far, in order
          typed            \* ghost: every key pressed so far (CR for Enter)

conVars == <<buf, inQuote, out, typed>>

-----------------------------------------------------------------------------
(* Quote tracking and the reference meaning                                *)

QNext(q, c) == IF q = 0 THEN (IF c \in Quotes THEN c ELSE 0)
               ELSE (IF c = q THEN 0 ELSE q)

RECURSIVE QAt(_, _)        \* quote state after the first i characters of s
QAt(s, i) == IF i = 0 THEN 0 ELSE QNext(QAt(s, i - 1), s[i])

\* positions of the semicolons that end a statement: those outside literals
Terminators(s) == {i \in 1..Len(s) : s[i] = SEMI /\ QAt(s, i - 1) = 0}

\* s cut after each position in T (ascending), every piece up to and including its cut
StmtsAt(s, T) ==
  LET Nth(k) == CHOOSE i \in T : Cardinality({j \in T : j < i}) = k - 1
  IN  [k \in 1..Cardinality(T) |-> SubSeq(s, IF k = 1 THEN 1 ELSE Nth(k - 1) + 1, Nth(k))]

\* the complete statements contained in s, each up to and including its terminator
StmtsOf(s) == StmtsAt(s, Terminators(s))

\* what follows the last terminator
TailOf(s) == LET T == Terminators(s)
                 last == IF T = {} THEN 0 ELSE CHOOSE i \in T : \A j \in T : j <= i
             IN  SubSeq(s, last + 1, Len(s))

\* "equal up to whitespace between tokens": runs of blanks and line breaks outside
\* literals count as one blank, at either end as none; inside a literal every byte counts
RECURSIVE NormFrom(_, _, _, _, _)
NormFrom(s, i, q, acc, pend) ==
  IF i > Len(s) THEN acc
  ELSE LET c == s[i] IN
       IF q = 0 /\ IsWS(c) THEN NormFrom(s, i + 1, 0, acc, acc # <<>>)
       ELSE NormFrom(s, i + 1, QNext(q, c), IF pend THEN acc \o <<SP, c>> ELSE Append(acc, c), FALSE)
Norm(s) == NormFrom(s, 1, 0, <<>>, FALSE)

\* the literals of s, each from its opening to its closing quote (for the explicit clause)
RECURSIVE LitsFrom(_, _, _, _, _)
LitsFrom(s, i, q, cur, acc) ==
  IF i > Len(s) THEN (IF q = 0 THEN acc ELSE Append(acc, cur))
  ELSE LET c == s[i]  q2 == QNext(q, c) IN
       IF q = 0 /\ q2 = 0 THEN LitsFrom(s, i + 1, 0, <<>>, acc)
       ELSE IF q2 = 0 THEN LitsFrom(s, i + 1, 0, <<>>, Append(acc, Append(cur, c)))
       ELSE LitsFrom(s, i + 1, q2, Append(cur, c), acc)
Literals(s) == LitsFrom(s, 1, 0, <<>>, <<>>)

\* C20: the engine got exactly the typed statements, once each, in order
Accept(want, got) == /\ Len(got) = Len(want)
                     /\ \A i \in 1..Len(want) : Norm(got[i]) = Norm(want[i])
LiteralsIntact(want, got) == /\ Len(got) = Len(want)
                             /\ \A i \in 1..Len(want) : Literals(got[i]) = Literals(want[i])

-----------------------------------------------------------------------------
(* The machine                                                             *)

RECURSIVE TrimL(_)
TrimL(s) == IF s # <<>> /\ IsWS(Head(s)) THEN TrimL(Tail(s)) ELSE s
RECURSIVE TrimR(_)
TrimR(s) == IF s # <<>> /\ IsWS(s[Len(s)]) THEN TrimR(SubSeq(s, 1, Len(s) - 1)) ELSE s
Trim(s) == TrimR(TrimL(s))

\* the trimmed line ends with a terminator (a semicolon that is not inside a literal)
Terminated(s) == LET t == TrimR(s) IN t # <<>> /\ Len(t) \in Terminators(s)

ConInit == buf = <<>> /\ inQuote = 0 /\ out = <<>> /\ typed = <<>>

Key(c) == /\ buf' = Append(buf, c)
          /\ inQuote' = QNext(inQuote, c)
          /\ typed' = Append(typed, c)
          /\ UNCHANGED out

Enter == /\ typed' = Append(typed, CR)
         /\ IF Trim(buf) = <<>> THEN               \* empty line: nothing to hand over
                 buf' = <<>> /\ inQuote' = 0 /\ UNCHANGED out
            ELSE IF Terminated(buf) THEN           \* hand over every complete statement
                 /\ out' = out \o [k \in 1..Len(StmtsOf(buf)) |-> Trim(StmtsOf(buf)[k])]
                 /\ buf' = <<>> /\ inQuote' = 0
            ELSE                                   \* keep collecting; the line break is one blank
                 /\ buf' = Append(buf, SP)
                 /\ inQuote' = QNext(inQuote, SP)
                 /\ UNCHANGED out

\* Environment assumption of C20: line breaks are placed outside literals
\* (a line break inside a literal is not expressible in mkdb's SQL).
ConNext == (\E c \in Chars : Key(c)) \/ (inQuote = 0 /\ Enter)

-----------------------------------------------------------------------------
(* Properties of the machine                                               *)

TypeOK == /\ inQuote \in {0, SQ, DQ}
          /\ inQuote = QAt(buf, Len(buf))

\* what was handed over so far are the first typed statements, nothing else, nothing twice
OutIsPrefix == /\ Len(out) <= Len(StmtsOf(typed))
               /\ \A i \in 1..Len(out) : /\ Norm(out[i]) = Norm(StmtsOf(typed)[i])
                                         /\ Literals(out[i]) = Literals(StmtsOf(typed)[i])

\* after a hand-over nothing typed is left behind
Faithful == (buf = <<>>) => (Accept(StmtsOf(typed), out) /\ LiteralsIntact(StmtsOf(typed), out))

\* the buffer holds exactly what was typed since the last hand-over (up to blanks):
\* nothing typed is dropped, nothing is kept after it was handed over
AfterNth(s, n) == IF n = 0 THEN s
                  ELSE LET T == Terminators(s)
                           t == CHOOSE i \in T : Cardinality({j \in T : j < i}) = n - 1
                       IN  SubSeq(s, t + 1, Len(s))
BufIsRest == Norm(buf) = Norm(AfterNth(typed, Len(out)))
=============================================================================
