------------------------------ MODULE Console ------------------------------
(* The line assembler of the mkdb console (cmd/console/go_terminal.go,     *)
(* handleKey / readLine) as a state machine, and the meaning of C20.       *)
(*                                                                        *)
(* The user types characters and line breaks.  The console collects them  *)
(* in an edit buffer; on Enter it either keeps collecting (the line break *)
(* becomes one space) or hands the buffered statements to the engine.     *)
(*                                                                        *)
(* Characters are byte values (TLC cannot index strings; multi-byte       *)
(* characters are simply several bytes >= 128).  A literal is opened by ' *)
(* or " and closed by the same character.  Inside a literal a backslash   *)
(* has the meaning mkdb's SQL scanner gives it: the next character is     *)
(* taken literally, so \' does not close the literal and \\ is one escaped *)
(* backslash after which a quote does close it.  Outside literals the     *)
(* backslash is an ordinary character.  (Backquoted strings and comments  *)
(* are outside what C20 quantifies over and are not modelled.)            *)
(*                                                                        *)
(* Two things are defined here, on purpose independently:                 *)
(*   - the machine (buf, inQuote, out; Key(c), Enter): what a correct     *)
(*     console does step by step, in the grain of handleKey;              *)
(*   - the reference meaning (StmtsOf, Norm, Accept): a function of the   *)
(*     whole typed input that says which statements the engine must get.  *)
(* TLC checks that the machine satisfies the reference meaning; the       *)
(* replay harness checks that the real Terminal.ReadLine does.            *)
EXTENDS Integers, Sequences, SequencesExt, FiniteSets, TLC

CONSTANTS Letters,         \* byte values of ordinary characters, e.g. {97}
          Extra,           \* further characters the bounded generator types: {} or {BS}
          BreakInLiterals  \* TRUE: the user may also press Enter inside a literal

SP   == 32                 \* space
SEMI == 59                 \* ;
SQ   == 39                 \* '
DQ   == 34                 \* "
BS   == 92                 \* backslash
CR   == 13                 \* the Enter key (line break)
Quotes == {SQ, DQ}
Chars  == Letters \cup {SP, SEMI, SQ, DQ} \cup Extra
IsWS(c) == c \in {SP, CR}

VARIABLES buf,             \* edit buffer: characters collected since the last hand-over
          inQuote,         \* lexical state at the buffer end: 0 outside literals, q inside a literal
                           \* opened by q, -q inside it right after a backslash (next char is literal)
          out,             \* statements handed to the engine so far, in order
          typed            \* ghost: every key pressed so far (CR for Enter)

conVars == <<buf, inQuote, out, typed>>

-----------------------------------------------------------------------------
(* Quote tracking and the reference meaning                                *)

\* lexical state: 0 = outside literals; q \in Quotes = inside a literal opened by q;
\* -q = inside that literal, the previous character was an escaping backslash
QNext(q, c) == IF q = 0 THEN (IF c \in Quotes THEN c ELSE 0)
               ELSE IF q < 0 THEN -q                      \* escaped character: taken literally
               ELSE IF c = BS THEN -q
               ELSE IF c = q THEN 0 ELSE q

\* lexical states after each character of s (one left-to-right pass; FoldLeft is iterative in TLC)
QStates(s) == FoldLeft(LAMBDA acc, c : Append(acc, QNext(IF acc = <<>> THEN 0 ELSE acc[Len(acc)], c)), <<>>, s)
QAt(s, i) == IF i = 0 THEN 0 ELSE QStates(s)[i]   \* state after the first i characters of s

\* what a typed line break amounts to: between tokens it is white space; inside a literal the console enters it as one
\* blank (mkdb's SQL cannot spell a line break inside a literal), and that blank is part of the literal from then on
Entered(s) == LET qs == QStates(s)
              IN  [i \in 1..Len(s) |-> IF s[i] = CR /\ (IF i = 1 THEN 0 ELSE qs[i - 1]) # 0 THEN SP ELSE s[i]]

\* positions of the semicolons that end a statement: those outside literals (ascending)
TermSeq(s) == LET qs == QStates(s)
              IN  SelectSeq([i \in 1..Len(s) |-> i],
                            LAMBDA i : s[i] = SEMI /\ (IF i = 1 THEN 0 ELSE qs[i - 1]) = 0)
Terminators(s) == {TermSeq(s)[k] : k \in 1..Len(TermSeq(s))}

\* s cut after each position in ts (ascending), every piece up to and including its cut
StmtsAt(s, ts) == [k \in 1..Len(ts) |-> SubSeq(s, IF k = 1 THEN 1 ELSE ts[k - 1] + 1, ts[k])]

\* the complete statements contained in s, each up to and including its terminator
StmtsOf(s) == StmtsAt(s, TermSeq(s))

\* "equal up to whitespace between tokens": runs of blanks and line breaks outside
\* literals count as one blank, at either end as none; inside a literal every byte counts
Norm(s) ==
  FoldLeft(LAMBDA st, c :
             IF st.q = 0 /\ IsWS(c) THEN [q |-> 0, acc |-> st.acc, pend |-> st.acc # <<>>]
             ELSE [q |-> QNext(st.q, c),
                   acc |-> IF st.pend THEN st.acc \o <<SP, c>> ELSE Append(st.acc, c),
                   pend |-> FALSE],
           [q |-> 0, acc |-> <<>>, pend |-> FALSE], s).acc

\* the literals of s, each from its opening to its closing quote, byte for byte
\* (an unclosed literal at the end counts with what there is of it)
Literals(s) ==
  LET r == FoldLeft(LAMBDA st, c :
                      LET q2 == QNext(st.q, c) IN
                      IF st.q = 0 /\ q2 = 0 THEN st
                      ELSE IF q2 = 0 THEN [q |-> 0, cur |-> <<>>, acc |-> Append(st.acc, Append(st.cur, c))]
                      ELSE [q |-> q2, cur |-> Append(st.cur, c), acc |-> st.acc],
                    [q |-> 0, cur |-> <<>>, acc |-> <<>>], s)
  IN  IF r.q = 0 THEN r.acc ELSE Append(r.acc, r.cur)

\* C20: the engine got exactly the typed statements, once each, in order
Accept(want, got) == /\ Len(got) = Len(want)
                     /\ \A i \in 1..Len(want) : Norm(got[i]) = Norm(want[i])
LiteralsIntact(want, got) == /\ Len(got) = Len(want)
                             /\ \A i \in 1..Len(want) : Literals(got[i]) = Literals(want[i])

-----------------------------------------------------------------------------
(* The machine                                                             *)

RECURSIVE TrimL(_)
TrimL(s) == IF s # <<>> /\ IsWS(Head(s)) THEN TrimL(Tail(s)) ELSE s
RECURSIVE TrimR(_)
TrimR(s) == IF s # <<>> /\ IsWS(s[Len(s)]) THEN TrimR(SubSeq(s, 1, Len(s) - 1)) ELSE s
Trim(s) == TrimR(TrimL(s))

\* the trimmed line ends with a terminator (a semicolon that is not inside a literal)
Terminated(s) == LET t == TrimR(s) IN t # <<>> /\ Len(t) \in Terminators(s)

ConInit == buf = <<>> /\ inQuote = 0 /\ out = <<>> /\ typed = <<>>

Key(c) == /\ buf' = Append(buf, c)
          /\ inQuote' = QNext(inQuote, c)
          /\ typed' = Append(typed, c)
          /\ UNCHANGED out

Enter == /\ typed' = Append(typed, CR)
         /\ IF Trim(buf) = <<>> THEN               \* empty line: nothing to hand over
                 buf' = <<>> /\ inQuote' = 0 /\ UNCHANGED out
            ELSE IF Terminated(buf) THEN           \* hand over every complete statement
                 /\ out' = out \o [k \in 1..Len(StmtsOf(buf)) |-> Trim(StmtsOf(buf)[k])]
                 /\ buf' = <<>> /\ inQuote' = 0
            ELSE                                   \* keep collecting; the line break is one blank
                 /\ buf' = Append(buf, SP)
                 /\ inQuote' = QNext(inQuote, SP)
                 /\ UNCHANGED out

\* Line breaks are placed between tokens; with BreakInLiterals also inside literals (where they are entered as blanks).
ConNext == (\E c \in Chars : Key(c)) \/ ((inQuote = 0 \/ BreakInLiterals) /\ Enter)

-----------------------------------------------------------------------------
(* Properties of the machine                                               *)

TypeOK == /\ inQuote \in {0, SQ, DQ, -SQ, -DQ}
          /\ inQuote = QAt(buf, Len(buf))

\* what was handed over so far are the first typed statements, nothing else, nothing twice
OutIsPrefix == /\ Len(out) <= Len(StmtsOf(Entered(typed)))
               /\ \A i \in 1..Len(out) : /\ Norm(out[i]) = Norm(StmtsOf(Entered(typed))[i])
                                         /\ Literals(out[i]) = Literals(StmtsOf(Entered(typed))[i])

\* after a hand-over nothing typed is left behind
Faithful == (buf = <<>>) => (Accept(StmtsOf(Entered(typed)), out) /\ LiteralsIntact(StmtsOf(Entered(typed)), out))

\* the buffer holds exactly what was typed since the last hand-over (up to blanks):
\* nothing typed is dropped, nothing is kept after it was handed over
AfterNth(s, n) == IF n = 0 THEN s ELSE SubSeq(s, TermSeq(s)[n] + 1, Len(s))
BufIsRest == Norm(buf) = Norm(AfterNth(Entered(typed), Len(out)))
=============================================================================
