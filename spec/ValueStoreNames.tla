-------------------------- MODULE ValueStoreNames --------------------------
(* The column lists CREATE TABLE may be given, with the verdict of           *)
(* Values!CreateOK: every list of one to three names over {c1, c2, C1}.      *)
(* Printed once (a constant-level enumeration, like SqlSemGen); the C08      *)
(* harness creates each table on both input paths, stores one distinct       *)
(* value per column where the table was created, and reads them back.        *)
EXTENDS Values, TLC, Json, FiniteSets, SequencesExt

VARIABLE x
Names == {"c1", "c2", "C1"}
Lists == UNION {[1..k -> Names] : k \in 1..3}
ASSUME PrintT(<<"SCN", ToJson([elems |-> SetToSeq({[names |-> l, ok |-> CreateOK(l)] : l \in Lists})])>>)
Init == x = 0
Next == x' = x
=============================================================================
