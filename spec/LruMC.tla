------------------------------ MODULE LruMC ------------------------------
(* Bounded instance of Lru with a history variable: every transition TLC  *)
(* explores is printed as one scenario (action path + expected results)   *)
(* and replayed against storage.LRUCache.                                 *)
EXTENDS Lru, Json

CONSTANTS MaxOps, EmitOn
VARIABLES nops, hist

mcVars == <<order, val, dirty, clock, lastUse, ret, nops, hist>>

Obs == [ret |-> ret, order |-> order, dirty |-> dirty]

MCInit == LruInit /\ nops = 0 /\ hist = <<>>
MCNext == /\ nops < MaxOps
          /\ \E k \in Keys :
               \/ \E v \in PVals, d \in BOOLEAN :
                     Set(k, v, d) /\ hist' = Append(hist, [a |-> "set", k |-> k, v |-> v, d |-> d, exp |-> Obs'])
               \/ Get(k) /\ hist' = Append(hist, [a |-> "get", k |-> k, exp |-> Obs'])
               \/ MarkDirty(k) /\ hist' = Append(hist, [a |-> "dirty", k |-> k, exp |-> Obs'])
               \/ MarkClean(k) /\ hist' = Append(hist, [a |-> "clean", k |-> k, exp |-> Obs'])
          /\ nops' = nops + 1
MCSpec == MCInit /\ [][MCNext]_mcVars

\* the ghost clock and the history stay out of the fingerprint: recency is fully
\* determined by `order`, so states that differ only in absolute times are merged
View == <<order, val, dirty, nops>>
Emit == EmitOn => PrintT(<<"SCN", ToJson([cap |-> Cap, steps |-> hist'])>>)

\* lastUse agrees with the list: more recently used = closer to the front
ClockMatchesOrder == \A i, j \in 1..Len(order) : i < j => lastUse[order[i]] > lastUse[order[j]]
=============================================================================
