----------------------------- MODULE PageCodec -----------------------------
(* The page store of mkdb (storage/page.go: encode*/decode*,               *)
(* fileStore.update / fileStore.fetch) as a register map.                  *)
(*                                                                         *)
(* A node is stored at a page number p (file offset p * 4096).  The store  *)
(* keeps a cache of nodes; a fetch is served from the cache when the page  *)
(* is resident and decoded from the file otherwise.  The property (C12)    *)
(* is that both ways give the node that was last stored at that page:      *)
(*   - stores at other pages do not disturb it,                            *)
(*   - dropping the cache (eviction / restart) does not change it,         *)
(*   - every node occupies exactly one page, so the file length is always  *)
(*     a multiple of the page size.                                        *)
(* Nodes are opaque values here (abstract descriptors in PageCodecMC,      *)
(* content digests in PageCodecTrace); the byte layout is not modelled -   *)
(* it is exercised through the real codec by the replay harness.           *)
EXTENDS Integers, Sequences, FiniteSets, TLC

PageSize == 4096

VARIABLES file,     \* page number -> node last stored there (domain: pages written)
          cached,   \* set of page numbers resident in the cache
          flen,     \* length of the file in bytes
          ret,      \* the last call: [op, p, hit]
          got       \* <<node>> returned by the last call if it was a fetch, else <<>>

pcVars == <<file, cached, flen, ret, got>>

Upd(f, k, v) == [x \in (DOMAIN f) \cup {k} |-> IF x = k THEN v ELSE f[x]]
Max2(a, b) == IF a > b THEN a ELSE b

PageInit == /\ file = <<>> /\ cached = {} /\ flen = 0
            /\ ret = [op |-> "init", p |-> 0, hit |-> FALSE] /\ got = <<>>

\* fileStore.update: encode, WriteAt(offset), put into the cache
Update(p, n) == /\ file' = Upd(file, p, n)
                /\ cached' = cached \cup {p}
                /\ flen' = Max2(flen, (p + 1) * PageSize)
                /\ ret' = [op |-> "update", p |-> p, hit |-> p \in cached]
                /\ got' = <<>>

\* a fresh fileStore on the same file (restart), or eviction of every page
DropCache == /\ cached' = {}
             /\ ret' = [op |-> "drop", p |-> 0, hit |-> FALSE]
             /\ got' = <<>>
             /\ UNCHANGED <<file, flen>>

\* fileStore.fetch of a page that has been stored
Fetch(p) == /\ p \in DOMAIN file
            /\ got' = <<file[p]>>
            /\ ret' = [op |-> "fetch", p |-> p, hit |-> p \in cached]
            /\ cached' = cached \cup {p}
            /\ UNCHANGED <<file, flen>>

-----------------------------------------------------------------------------
(* C12 at this level.                                                      *)

\* the bytes of page p
Lo(p) == p * PageSize
Hi(p) == (p + 1) * PageSize

\* every stored node occupies exactly one page: the byte ranges of distinct
\* pages are disjoint, lie inside the file, and the file is a whole number
\* of pages ending with the highest page ever written
OnePageEach == /\ flen % PageSize = 0
               /\ \A p \in DOMAIN file : Hi(p) <= flen
               /\ \A p, q \in DOMAIN file : p # q => (Hi(p) <= Lo(q) \/ Hi(q) <= Lo(p))
               /\ (DOMAIN file # {}) => \E p \in DOMAIN file : Hi(p) = flen
               /\ (DOMAIN file = {}) => flen = 0

CacheOK == cached \subseteq DOMAIN file

\* what a page means only ever changes by a store to that very page
OthersUndisturbed ==
  [][ \A q \in DOMAIN file : file'[q] # file[q] => (ret'.op = "update" /\ ret'.p = q) ]_pcVars

\* dropping the cache and fetching change no page
ReadsChangeNothing ==
  [][ ret'.op \in {"drop", "fetch"} => (file' = file /\ flen' = flen) ]_pcVars

\* a fetch returns the register content, whether or not the page was resident
FetchReturnsRegister == (ret.op = "fetch") => (Len(got) = 1 /\ got[1] = file[ret.p])
=============================================================================
