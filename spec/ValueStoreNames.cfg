INIT Init
NEXT Next
CHECK_DEADLOCK FALSE
