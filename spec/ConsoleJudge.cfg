CONSTANTS
  Letters = {97}
  Extra = {}
INIT JInit
NEXT JNext
CHECK_DEADLOCK FALSE
