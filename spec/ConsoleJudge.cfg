CONSTANTS
  Letters = {97}
  Extra = {}
  BreakInLiterals = TRUE
INIT JInit
NEXT JNext
CHECK_DEADLOCK FALSE
