CONSTANTS
  Letters = {97}
INIT JInit
NEXT JNext
CHECK_DEADLOCK FALSE
