\* the machine's own invariants on the S universe, no junk, nothing printed
\* (written from tools/sqlfe_lib.py cfg(); the checks generate the same text per tier at run time)
CONSTANTS
  Tables <- MC_Tables
  Cols <- MC_Cols
  VarcharLens <- MC_VarcharLens
  BaseTable = "t1"
  Aliases <- MC_Aliases_S
  BigInts <- MC_BigInts_S
  ColPool <- MC_ColPool_S
  CondPool <- MC_CondPool_S
  Dbs <- MC_Dbs_S
  IntLits <- MC_IntLits
  ItemPool <- MC_ItemPool_S
  JoinTblPool <- MC_JoinTblPool_S
  LeafPool <- MC_LeafPool_S
  LeafSet <- MC_LeafSet_S
  LimVals <- MC_LimVals_S
  LitPool <- MC_LitPool
  QuotedIdents <- MC_QuotedIdents
  StrLits <- MC_StrLits
  TrickyStrs <- MC_TrickyStrs_S
  UniIdents <- MC_UniIdents_S
  UniStrs <- MC_UniStrs_S
  MaxDefs = 2
  MaxGroup = 2
  MaxItems = 2
  MaxJoins = 1
  MaxLeaves = 2
  MaxOrder = 2
  MaxRows = 2
  MaxSet = 2
  MaxVals = 2
  Slices = {"big", "create_database", "create_table", "del_all", "del_leaf", "del_tree", "given", "ins_cols", "ins_row", "ins_rows", "qid", "sel_combo", "sel_from", "sel_group_alias", "sel_group_cols", "sel_group_count", "sel_item_expr", "sel_item_leaf", "sel_item_tree", "sel_items", "sel_limit", "sel_nofrom", "sel_on", "sel_order", "sel_star", "sel_where_leaf", "sel_where_tree", "show", "str_cond", "str_insert", "str_item", "str_update", "uni", "upd_list", "upd_one", "upd_where_leaf", "upd_where_tree", "use"}
  Stmts <- MC_Cover
  Vocab <- MC_None
  Vocab2 <- MC_None
  MaxJunk = 0
  MaxTail = 99
  JunkAtEndOnly = FALSE
  EmitMode = "off"
INIT GenPick
NEXT GenNext
VIEW View
ACTION_CONSTRAINT Emit
INVARIANTS TypeOK TruncationInv ConditionsExpressible GrammarUsesOnly
CHECK_DEADLOCK FALSE
