----------------------------- MODULE LruTrace -----------------------------
(* Trace validation for C15: a run recorded from storage.LRUCache          *)
(* (trace.ndjson, one event per call, written by harness/cmd/lru) must be  *)
(* a behaviour of Lru.  Each event carries the call, its result and the    *)
(* resident / dirty key sets observed after it; the actions are Lru's.     *)
EXTENDS Lru, Json

VARIABLE l   \* position in the trace
Trace == ndJsonDeserialize("trace.ndjson")
trVars == <<order, val, dirty, clock, lastUse, ret, l>>

SetOf(s) == {s[i] : i \in 1..Len(s)}
Ev == Trace[l]
IsEvent(a) == l <= Len(Trace) /\ Ev.a = a /\ l' = l + 1

\* what the code reported must be what the specification's action produces
Matches == /\ ret'.r = Ev.r
           /\ SetOf(order') = SetOf(Ev.order)
           /\ dirty' = SetOf(Ev.dirty)

TraceInit == LruInit /\ l = 1 /\ TLCSet(1, 1)
TraceReset == /\ IsEvent("reset")
              /\ order' = <<>> /\ val' = <<>> /\ dirty' = {} /\ clock' = 0 /\ lastUse' = <<>>
              /\ ret' = [op |-> "init", k |-> NoKey, r |-> TRUE, hit |-> FALSE, ev |-> NoKey, v |-> 0]
TraceSet == IsEvent("set") /\ Set(Ev.k, Ev.v, Ev.d) /\ Matches /\ ret'.ev = Ev.ev
TraceGet == IsEvent("get") /\ Get(Ev.k) /\ Matches /\ ret'.hit = Ev.hit /\ (Ev.hit => ret'.v = Ev.rv)
TraceDirty == IsEvent("dirty") /\ MarkDirty(Ev.k) /\ Matches
TraceClean == IsEvent("clean") /\ MarkClean(Ev.k) /\ Matches
\* the high-water mark is advanced only after the event was matched by an action
TraceNext == (TraceReset \/ TraceSet \/ TraceGet \/ TraceDirty \/ TraceClean) /\ TLCSet(1, l')
TraceSpec == TraceInit /\ [][TraceNext]_trVars

TraceAccepted ==
  LET r == TLCGet(1) IN
  /\ PrintT(<<"OUT", ToJson([reached |-> r, len |-> Len(Trace)])>>)
  /\ r = Len(Trace) + 1
=============================================================================
