INIT TraceInit
NEXT TraceNext
INVARIANTS OnePageEach CacheOK FetchReturnsRegister
POSTCONDITION TraceAccepted
CHECK_DEADLOCK FALSE
