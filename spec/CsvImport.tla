----------------------------- MODULE CsvImport -----------------------------
(* The CSV importer of mkdb (cmd/csvimport/main.go: colDataTypes, csvToSql, *)
(* doBatchInsert) as a state machine over a stream of records, and the      *)
(* meaning of C19.                                                          *)
(*                                                                          *)
(* A destination table t has columns c1..cn of the types in Schema.  The    *)
(* tool is told which CSV field goes to which column (Src[i] -> Dst[i]).    *)
(* Records arrive one at a time; each is either reported as an error (the   *)
(* table is unchanged by it) or stored as exactly one new row: mapped       *)
(* columns hold the field converted to the column type, \N becomes NULL,    *)
(* unmapped columns are NULL.  Accepted records appear in input order; a    *)
(* bad record never prevents, alters or duplicates the others.              *)
(*                                                                          *)
(* The oracle (Stored, RowOf) is a function of a record's field texts and   *)
(* of whether its text obeys CSV quoting - not of the class it was built    *)
(* from.  Classes only say how the generator builds field texts.            *)
(*                                                                          *)
(* Numbers are decimal strings (TLC integers are 32 bit).  Which texts      *)
(* denote a 32-bit / 64-bit integer or a boolean is given by finite tables: *)
(* the specification states the conversion rule on the values it uses.      *)
EXTENDS Integers, Sequences, FiniteSets, TLC

CONSTANTS Schema,    \* e.g. <<"int", "bigint", "varchar", "boolean">>: column ck has type Schema[k]
          Src,       \* -src-cols: 0-based CSV field indexes
          Dst,       \* -dest-cols, as positions in Schema: CSV field Src[i] goes to column Dst[i]
          NFields,   \* number of fields of an ordinary record of this file
          Wide,      \* TRUE: every class at every mapped position; FALSE: one representative each
          Only       \* class names the generator may use (to go deep with a small alphabet)

ASSUME /\ Len(Src) = Len(Dst) /\ Len(Src) >= 1
       /\ \A i, j \in 1..Len(Src) : i # j => Dst[i] # Dst[j]      \* (one CSV field may feed several columns)
       /\ \A i \in 1..Len(Src) : Src[i] \in 0..(NFields - 1) /\ Dst[i] \in 1..Len(Schema)

M == 1..Len(Src)
TypeAt(i) == Schema[Dst[i]]
MaxSrc == CHOOSE k \in {Src[i] : i \in M} : \A i \in M : Src[i] <= k
InSeq(x, s) == \E k \in 1..Len(s) : s[k] = x
Pick(s, n) == s[(n % Len(s)) + 1]

-----------------------------------------------------------------------------
(* Values and the conversion rule                                          *)

Null   == [t |-> "n", v |-> ""]
Reject == [t |-> "x", v |-> ""]
NullText == "\\N"

IntOk    == <<"0", "-1", "2147483647", "-2147483648", "42", "007", "+5">>             \* 32-bit integers (decimal; zero padding and a sign are fine)
IntRange == <<"2147483648", "-2147483649", "5000000000", "99999999999999999999">>   \* integers outside 32 bits
NumBad   == <<"12x", "abc", "\\n", "1.5", "0x1F", "1_000", "0b11">>                          \* not decimal integers at all
BigOk    == <<"5000000000", "-9223372036854775808", "9223372036854775807", "0", "-7", "2147483648", "0000010", "00000777">>
BigBad   == <<"12x", "9223372036854775808", "abc", "0x1F", "1_000">>                 \* not 64-bit decimal integers
\* the number a decimal text denotes, as canonical decimal text
Canon(txt) == CASE txt = "007" -> "7" [] txt = "+5" -> "5" [] txt = "0000010" -> "10" [] txt = "00000777" -> "777" [] OTHER -> txt
BoolOk   == <<"true", "false", "1", "0">>
BoolBad  == <<"maybe", "\\n", "2">>
StrOk    == <<"abc", "a b", "#tag", "\\n", "x,y", "q\"t", "s;t", "p|q", "tab\tx", "two\nlines", "it's", " lead">>
StrPlain == <<"abc", "def", "#tag", "xyz">>                                                  \* need no quoting under any separator

\* texts that differ in the case of their letters only: three different values
CaseTwins == <<"McDonald", "MCDONALD", "Mcdonald", "mcdonald">>
\* a text of 401 characters (written by the harness as 401 times x): no row can hold it, the engine refuses the record's
\* INSERT (rows are limited to 400 bytes) - an error of that one record like any other
BigText == "@x401"

Is32(txt) == InSeq(txt, IntOk)
Is64(txt) == InSeq(txt, IntOk) \/ InSeq(txt, BigOk) \/ txt \in {"-2147483649"}
BoolOf(txt) == IF txt \in {"true", "1"} THEN "true" ELSE "false"

Conv(ty, txt) ==
  IF txt = NullText THEN Null
  ELSE CASE ty = "int"     -> IF Is32(txt) THEN [t |-> "i", v |-> Canon(txt)] ELSE Reject
         [] ty = "bigint"  -> IF Is64(txt) THEN [t |-> "I", v |-> Canon(txt)] ELSE Reject
         [] ty = "boolean" -> IF InSeq(txt, BoolOk) THEN [t |-> "b", v |-> BoolOf(txt)] ELSE Reject
         [] ty = "varchar" -> IF txt = BigText THEN Reject ELSE [t |-> "s", v |-> txt]

-----------------------------------------------------------------------------
(* The meaning of one record: rec = [flds |-> field texts, malformed |-> BOOLEAN]  *)
(* (malformed: the record's text breaks CSV quoting - a bare quote in an unquoted  *)
(* field, or text after a closing quote - so it has no field structure at all)     *)

Stored(rec) == /\ ~rec.malformed
               /\ \A i \in M : Src[i] + 1 <= Len(rec.flds)
               /\ \A i \in M : Conv(TypeAt(i), rec.flds[Src[i] + 1]) # Reject

RowOf(rec) == [c \in 1..Len(Schema) |->
                 IF \E i \in M : Dst[i] = c
                 THEN LET i == CHOOSE i \in M : Dst[i] = c IN Conv(Schema[c], rec.flds[Src[i] + 1])
                 ELSE Null]

-----------------------------------------------------------------------------
(* The machine                                                             *)

VARIABLES table,      \* rows of t in scan order; a row is a tuple of tagged values, one per column
          outcomes,   \* per record, in input order: "ok" (stored) or "err" (reported as an error)
          pos,        \* records consumed
          stream      \* ghost: the records consumed so far

csvVars == <<table, outcomes, pos, stream>>

CsvInit == table = <<>> /\ outcomes = <<>> /\ pos = 0 /\ stream = <<>>

Record(rec) == /\ pos' = pos + 1
               /\ stream' = Append(stream, rec)
               /\ IF Stored(rec)
                  THEN table' = Append(table, RowOf(rec)) /\ outcomes' = Append(outcomes, "ok")
                  ELSE table' = table /\ outcomes' = Append(outcomes, "err")

-----------------------------------------------------------------------------
(* C19 as properties of the machine, stated over the whole stream          *)

RECURSIVE RowsOf(_)
RowsOf(s) == IF s = <<>> THEN <<>>
             ELSE LET h == RowsOf(SubSeq(s, 1, Len(s) - 1))  r == s[Len(s)]
                  IN  IF Stored(r) THEN Append(h, RowOf(r)) ELSE h

\* one outcome per record; the table is exactly the accepted records' rows, in input order, once each
Meaning == /\ Len(outcomes) = pos /\ Len(stream) = pos
           /\ \A k \in 1..pos : outcomes[k] = (IF Stored(stream[k]) THEN "ok" ELSE "err")
           /\ table = RowsOf(stream)
\* a record reported as an error leaves the table as it was; a stored one adds exactly one row at the end
ErrChangesNothing == [][outcomes'[Len(outcomes')] = "err" => table' = table]_csvVars
OkAddsOneRow == [][outcomes'[Len(outcomes')] = "ok" =>
                     (Len(table') = Len(table) + 1 /\ SubSeq(table', 1, Len(table)) = table)]_csvVars
\* NULL only where the marker was, or where no field is mapped
NullOnlyFromMarker ==
  \A k \in 1..pos : Stored(stream[k]) =>
     \A c \in 1..Len(Schema) :
        RowOf(stream[k])[c] = Null <=>
           (\A i \in M : Dst[i] = c => stream[k].flds[Src[i] + 1] = NullText)

-----------------------------------------------------------------------------
(* The generator: record classes -> field texts.  p is the position of the *)
(* record in the stream; values rotate with p so that every row differs.   *)

ValidText(ty, n) == CASE ty = "int" -> Pick(IntOk, n) [] ty = "bigint" -> Pick(BigOk, n)
                      [] ty = "boolean" -> Pick(BoolOk, n) [] ty = "varchar" -> Pick(StrOk, n)
PlainText(ty, n) == IF ty = "varchar" THEN Pick(StrPlain, n) ELSE ValidText(ty, n)
BadText(ty, n)   == CASE ty = "int" -> Pick(NumBad, n) [] ty = "bigint" -> Pick(BigBad, n)
                      [] ty = "boolean" -> Pick(BoolBad, n) [] ty = "varchar" -> "never"

MapOf(k) == CHOOSE i \in M : Src[i] = k            \* the mapping that reads CSV field k (if any)
Mapped(k) == \E i \in M : Src[i] = k
Base(p, plain) == [k \in 1..NFields |->
                     IF Mapped(k - 1)
                     THEN (IF plain THEN PlainText(TypeAt(MapOf(k - 1)), p + MapOf(k - 1))
                                    ELSE ValidText(TypeAt(MapOf(k - 1)), p + MapOf(k - 1)))
                     ELSE "zz"]
SetFld(f, i, txt) == [f EXCEPT ![Src[i] + 1] = txt]

Build(r, p) ==
  CASE r.cls = "valid"     -> [flds |-> Base(p + r.var, FALSE), malformed |-> FALSE]
    [] r.cls = "null"      -> [flds |-> SetFld(Base(p, FALSE), r.at, NullText), malformed |-> FALSE]
    [] r.cls = "allnull"   -> [flds |-> [k \in 1..NFields |-> IF Mapped(k - 1) THEN NullText ELSE "zz"], malformed |-> FALSE]
    [] r.cls = "malformed" -> [flds |-> SetFld(Base(p, TRUE), r.at, IF r.var = 0 THEN "ab\"c" ELSE "\"ab\"c"), malformed |-> TRUE]
    [] r.cls = "short"     -> [flds |-> SubSeq(Base(p, FALSE), 1, IF r.var = 0 THEN MaxSrc ELSE 1), malformed |-> FALSE]
    [] r.cls = "badnum"    -> [flds |-> SetFld(Base(p, FALSE), r.at, BadText(TypeAt(r.at), p + r.var)), malformed |-> FALSE]
    [] r.cls = "range"     -> [flds |-> SetFld(Base(p, FALSE), r.at, Pick(IntRange, p + r.var)), malformed |-> FALSE]
    [] r.cls = "extra"     -> [flds |-> Base(p, FALSE) \o [k \in 1..r.var |-> "more"], malformed |-> FALSE]
    [] r.cls = "empty"     -> [flds |-> SetFld(Base(p, FALSE), r.at, ""), malformed |-> FALSE]
    [] r.cls = "casetwin"  -> [flds |-> SetFld(Base(p, FALSE), r.at, Pick(CaseTwins, p + r.var)), malformed |-> FALSE]
    [] r.cls = "toobig"    -> [flds |-> SetFld(Base(p, FALSE), r.at, BigText), malformed |-> FALSE]

\* positions a class is instantiated at: all of them (Wide) or the first one per column type
FirstOfType(i) == \A j \in M : (j < i) => TypeAt(j) # TypeAt(i)
At(P) == IF Wide THEN P ELSE {i \in P : FirstOfType(i)}
Rec(c, a, v) == [cls |-> c, at |-> a, var |-> v]

AllClasses ==
  {Rec("valid", 0, v) : v \in (IF Wide THEN 0..2 ELSE {0})}
  \cup {Rec("null", i, 0) : i \in At(M)}
  \cup {Rec("allnull", 0, 0)}
  \cup {Rec("malformed", i, v) : i \in (IF Wide THEN M ELSE {1}), v \in 0..1}
  \cup {Rec("short", 0, v) : v \in {v \in 0..1 : (v = 0 /\ MaxSrc >= 1) \/ (v = 1 /\ MaxSrc >= 2)}}
  \cup {Rec("badnum", i, v) : i \in At({i \in M : TypeAt(i) # "varchar"}), v \in (IF Wide THEN 0..2 ELSE {0})}
  \cup {Rec("range", i, v) : i \in At({i \in M : TypeAt(i) = "int"}), v \in (IF Wide THEN 0..3 ELSE {0, 3})}
  \cup {Rec("extra", 0, v) : v \in (IF Wide THEN 1..2 ELSE {1})}
  \cup {Rec("empty", i, 0) : i \in At(M)}
  \cup {Rec("casetwin", i, 0) : i \in At({i \in M : TypeAt(i) = "varchar"})}
  \cup {Rec("toobig", i, 0) : i \in At({i \in M : TypeAt(i) = "varchar"})}

Classes == {r \in AllClasses : r.cls \in Only}
ClassNames == {"valid", "null", "allnull", "malformed", "short", "badnum", "range", "extra", "empty", "casetwin", "toobig"}

CsvNext == \E r \in Classes : Record(Build(r, pos + 1))
=============================================================================
