CONSTANTS
  MinCols = 2
  MaxCols = 2
  Types = {"INT", "BIGINT", "BOOLEAN", "VARCHAR"}
  IntCls = {"min32", "m1", "0", "1", "max32", "max32p1", "min32m1"}
  BigCls = {"min64", "max64", "0", "2p32"}
  StrCls = {"l0", "l1", "f399", "f400", "f401"}
  WithNull = TRUE
  WithWrong = TRUE
  MaxBad = 2
  WithUnknown = FALSE
  WithGuard = FALSE
  WithUpd = TRUE
  MaxMut = 1
  MaxLife = 2
  LifeFrom = 0
  EmitSel = "all"
  MixedUpd = FALSE
  EmitOn = TRUE
INIT MCInit
NEXT MCNext
VIEW View
ACTION_CONSTRAINT Emit
INVARIANTS GetReturnsAbs OnlyAcceptedStored MechanismOK
PROPERTIES RefusedChangesNothing LifecycleChangesNothing
CHECK_DEADLOCK FALSE
