---------------------------- MODULE SqlDmlJudge ----------------------------
(* Statement histories judged by TLC (C01): cases.ndjson holds one line per *)
(* history executed on the real engine - the table it began with, the       *)
(* INSERT / UPDATE / DELETE statements, and after each of them what it      *)
(* returned and what SELECT * returned.  TLC prints the lines HistoryOK      *)
(* (SqlSem.tla) rejects, with the first statement answered wrongly.         *)
EXTENDS SqlSem, Json
VARIABLE x
Cases == ndJsonDeserialize("cases.ndjson")
Bad == {i \in 1..Len(Cases) : ~HistoryOK(Cases[i].db, Cases[i].ds, Cases[i].res)}
At(i) == IF Len(Cases[i].res) # Len(Cases[i].ds) THEN 0 ELSE HistoryBadAt(Cases[i].db, Cases[i].ds, Cases[i].res, 1)
BadSeq == SetToSeq(Bad)
ASSUME PrintT(<<"SCN", ToJson([n |-> Len(Cases), bad |-> BadSeq, at |-> [j \in 1..Len(BadSeq) |-> At(BadSeq[j])]])>>)
Init == x = 0
Next == x' = x
=============================================================================
