CONSTANTS
  Schema <- cSchema
  Src <- cSrc
  Dst <- cDst
  Sep <- cSep
  Only <- cOnly
  NFields = 4
  Wide = FALSE
  MaxRecs = 2
  EmitFrom = 1
INIT MCInit
NEXT MCNext
ACTION_CONSTRAINT Emit
INVARIANTS Meaning NullOnlyFromMarker TaintExact
PROPERTIES ErrChangesNothing OkAddsOneRow
CHECK_DEADLOCK FALSE
