------------------------------ MODULE AbsTrace ------------------------------
(* Code -> specification for C01 / C02 / C03 / C16: long seeded runs of the   *)
(* real engine at production page capacities (hundreds of statements, up to   *)
(* thousands of rows, random flushes, crashes between statements and inside   *)
(* log appends, recoveries, small page caches) are recorded as one event per  *)
(* completed operation and must be behaviours of MkdbAbs.  Where the log     *)
(* leaves a choice - which prefix of an interrupted statement survived - TLC  *)
(* searches; the next observation prunes.                                     *)
EXTENDS MkdbAbs, Json, TLC

VARIABLE l
Trace == ndJsonDeserialize("trace.ndjson")
trVars == <<tables, l>>
Ev == Trace[l]
Is(e) == l <= Len(Trace) /\ Ev.e = e /\ l' = l + 1

TInit == AInit /\ l = 1 /\ TLCSet(1, 1)
TStep == \/ Is("reset") /\ tables' = <<>>
         \/ Is("create") /\ Create(Ev.t, Ev.ok)
         \/ Is("insert") /\ Insert(Ev.t, Ev.rows, Ev.ok)
         \/ Is("update") /\ Update(Ev.t, Ev.w, Ev.v, Ev.ok)
         \/ Is("delete") /\ Delete(Ev.t, Ev.w, Ev.ok)
         \/ Is("pause") /\ Pause
         \/ Is("cut-insert") /\ \E k \in 0..Len(Ev.rows) : CrashInInsert(Ev.t, Ev.rows, k)
         \/ Is("cut-update") /\ \E k \in 0..Len(MatchPos(Ev.t, Ev.w)) : CrashInUpdate(Ev.t, Ev.w, Ev.v, k)
         \/ Is("cut-delete") /\ \E k \in 0..Len(MatchPos(Ev.t, Ev.w)) : CrashInDelete(Ev.t, Ev.w, k)
         \/ Is("select") /\ Select(Ev.t, Ev.rows, Ev.exists)
\* high-water mark of matched events (several branches may be alive after a cut)
TNext == TStep /\ (IF l' > TLCGet(1) THEN TLCSet(1, l') ELSE TRUE)
Accepted == LET r == TLCGet(1) IN PrintT(<<"OUT", ToJson([reached |-> r, len |-> Len(Trace)])>>) /\ r = Len(Trace) + 1
=============================================================================
