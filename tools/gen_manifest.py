#!/usr/bin/env python3
"""Regenerates MANIFEST.json from the table below (one entry per claimed property)."""
import json
import os
import subprocess

VERIF = os.path.dirname(os.path.dirname(os.path.abspath(__file__)))

CHECKS = {
    "C15": dict(
        category="model_checking",
        text="Lru.tla states the cache as a state machine with the five clauses of the property as invariants/action "
             "properties over a ghost clock; TLC checks them exhaustively in small scopes and every transition of those "
             "state graphs is executed on storage.LRUCache (return values, resident and dirty sets compared); random long "
             "runs at capacities up to 64 are recorded from the real cache and validated by TLC against LruTrace.tla.",
        design_ref="DESIGN.md 6 (C15)",
        note="Trusted: TLC, the Json module, the in-package accessor that forwards to LRUCache.set/get and reads its list. "
             "Bounded: 2-5 keys, capacity 1-4, depth 5-8 exhaustively; capacities 2-64 randomly.",
        technique="TLA+ spec (Lru.tla) model-checked with TLC; per-transition behaviour replay on LRUCache; trace validation (LruTrace.tla)",
    ),
}

NOT_YET = "check not built yet (build in progress; see DESIGN.md section 6)"


def main():
    props = [json.loads(l) for l in open(os.path.join(VERIF, "properties.jsonl"))]
    hooks_commits = subprocess.run(["git", "-C", "/repo", "log", "--format=%H %s"], capture_output=True, text=True).stdout.splitlines()
    hook_shas = [l.split()[0] for l in hooks_commits if l.split(" ", 1)[1].startswith("verif:")]
    m = {
        "version": 1,
        "setup_cmd": "./setup.sh",
        "hooks": {
            "guard": "verif",
            "enable": "go build/test -tags verif -overlay <json mapping /verif/harness/overlay/** into /repo/**> (done by ./check; see tools/vlib.py)",
            "baseline_off_cmd": "cd /repo && GOFLAGS=-mod=mod GOPROXY=off GOSUMDB=off GOTOOLCHAIN=local go test -vet=off -count=1 ./...",
            "source_commits": hook_shas,
            "add_only": True,
        },
        "engines": [
            {"name": "tlc", "path": "/opt/veriftools/tla/tla2tools.jar", "serves_properties": sorted(CHECKS), "kind_free_text": "explicit-state model checker for the TLA+ specifications in /verif/spec; also evaluates trace specifications"},
            {"name": "harness", "path": "/verif/harness", "serves_properties": sorted(CHECKS), "kind_free_text": "Go replay/trace drivers built against /repo's working tree with -tags verif"},
        ],
        "checks": [],
        "not_applicable": [],
        "notes": "All checks: ./check <id> --tier quick|thorough. Exit 2 = machinery could not decide (never a VIOLATION). See DESIGN.md.",
    }
    for p in props:
        pid = p["id"]
        if pid in CHECKS:
            c = CHECKS[pid]
            m["checks"].append({
                "property_id": pid,
                "quick_cmd": "./check %s --tier quick" % pid,
                "thorough_cmd": "./check %s --tier thorough" % pid,
                "evidence_file": "/verif/evidence/%s.json" % pid,
                "replay_cmd_template": "./check %s --replay {path}" % pid,
                "engine": "tlc",
                "level_claimed": {"category": c["category"], "text": c["text"], "design_ref": c["design_ref"]},
                "level_note": c["note"],
                "technique": c["technique"],
            })
        else:
            m["not_applicable"].append({"property_id": pid, "reason": NOT_YET})
    json.dump(m, open(os.path.join(VERIF, "MANIFEST.json"), "w"), indent=1)
    print("MANIFEST.json: %d checks, %d not_applicable" % (len(m["checks"]), len(m["not_applicable"])))


if __name__ == "__main__":
    main()
