#!/usr/bin/env python3
"""Regenerates MANIFEST.json from the table below (one entry per claimed property)."""
import json
import os
import subprocess

VERIF = os.path.dirname(os.path.dirname(os.path.abspath(__file__)))

CHECKS = {
    "C15": dict(
        category="model_checking",
        text="Lru.tla states the cache as a state machine with the five clauses of the property as invariants/action "
             "properties over a ghost clock; TLC checks them exhaustively in small scopes and every transition of those "
             "state graphs is executed on storage.LRUCache (return values, resident and dirty sets compared); random long "
             "runs at capacities up to 64 are recorded from the real cache and validated by TLC against LruTrace.tla. Store level: seeded runs of real statements in which a page write of a flush fails (injected I/O error): the flush must report it, the page must stay dirty and resident, and after every clean page is evicted all tables still read as the history implies (order of events validated against WalOrder.tla, WritePageFails). Directed tail workload at capacities 600 / 1100: the only clean page at depth 1, 2, 2^k-1, 2^k, 2^k+1, ..., cap from the cold end of a cache otherwise full of unsaved pages (LruTrace.tla).",
        design_ref="DESIGN.md 6 (C15)",
        note="Trusted: TLC, the Json module, the in-package accessor that forwards to LRUCache.set/get and reads its list. "
             "Bounded: 2-5 keys, capacity 1-4, depth 5-8 exhaustively; capacities 2-64 randomly.",
        technique="TLA+ spec (Lru.tla) model-checked with TLC; per-transition behaviour replay on LRUCache; trace validation (LruTrace.tla)",
    ),
    "C01": dict(
        category="model_checking",
        text="Store.tla models the engine at page level (B+ tree inserts with splits, catalog trees, page cache, header, log) next to "
             "the abstract promise (tables = sequences of rows); TLC checks ScanEqAbs/CatalogOK/IdsOK/TreesOK exhaustively in bounded "
             "configurations (capacities 3/3, 1-2 tables, up to 4-7 statements) and prints one scenario per observable transition; "
             "every scenario (quick) or a seeded sample (thorough) is executed on the real engine through SQL text at capacities 3/3 "
             "and SELECT * / sys_schema / row ids are compared with the promise, followed by flush+cache-drop and restart probes. Code -> spec: seeded runs of 250-700 statements at production capacities (flushes, some with a failing page write) are validated by TLC against AbsTrace.tla (contents) and WalOrderTrace.tla (order of stamps, log and data-file writes). "
             "Statement histories over the whole WHERE language (1-3 INSERT / UPDATE / DELETE statements assembled from the sets TLC enumerates from SqlSemGen.tla: "
             "every assignment list, every condition; NULLs, keyword-like strings, tables with deleted rows, capacities 3/3, flush + cache drop between statements) "
             "are executed through SQL text and judged by TLC against SqlSem!HistoryOK (the meaning of UPDATE / DELETE = the WHERE of a SELECT; a refused statement changes nothing).",
        design_ref="DESIGN.md 6 (C01), 11.6 (round 10)",
        note="Trusted: TLC; the SQL rendering of abstract statements; hook verifIsFull (capacity override runs the same code). "
             "Bounded small-scope exhaustive, not a proof; page-level disagreement with the model is reported as drift, never as a violation.",
        technique="TLA+ spec (Store.tla/BTree.tla) model-checked with TLC; per-transition behaviour replay on the real engine",
    ),
    "C02": dict(
        category="model_checking",
        text="Store.tla with Crash enabled between statements and Recover (log replay keyed on page LSNs, LSN counter, flush); "
             "TLC explores all histories x flush placements x crash points x up to 2-3 crash/recover cycles within the bounds and checks "
             "NothingLost/StartsUp/ScanEqAbs/IdsOK; every crash-containing scenario is replayed: the real process state is abandoned, "
             "real storage.InitStorage recovers the files, real SELECTs are compared with the acknowledged state, then a clean "
             "restart and a second recovery must change nothing. Code -> spec: seeded long runs with crashes between statements and recoveries are validated by TLC against AbsTrace.tla and WalOrderTrace.tla (write-ahead rule: no LSN in the data file that is not in the log; replay only stamps pages with records newer than the page).",
        design_ref="DESIGN.md 6 (C02)",
        note="Trusted: TLC; crash between statements = files as the process left them (every log write is fsynced before a statement returns). "
             "Found and repaired with it: delete-shares-lsn, replay-update-decode, replay-lsn-regression (the last one found by TLC first).",
        technique="TLA+ spec (Store.tla) model-checked with TLC; crash/recovery scenario replay on the real engine",
    ),
    "C03": dict(
        category="model_checking",
        text="Store.tla with the log append split into its write calls (length, body, fsync per record) and Crash enabled before each, "
             "unsynced tail kept or dropped; the promise is the set of row-prefix states of the interrupted statement; TLC enumerates "
             "every crash point of every statement in the bound; each is replayed by running the real statement under I/O recording "
             "and composing the log file a crash at that point would leave, then real recovery, SELECT, and further statements. Code -> spec: seeded long runs with crashes inside log appends are validated against AbsTrace.tla (TLC searches which row prefix survived) and WalOrderTrace.tla.",
        design_ref="DESIGN.md 6 (C03)",
        note="Crash model: cut at the last fsync, at the last write, or inside the write under way. Known finding rootmove-record-cut "
             "(open) is identified by the specification's taint; torn-wal-tail was found and repaired.",
        technique="TLA+ spec (Store.tla, WalSteps) model-checked with TLC; crash images composed from recorded log writes; replay on the real engine",
    ),
    "C04": dict(
        category="model_checking",
        text="Store.tla with flushes as FlushPage(p)* . FlushHdr and Crash enabled between any two steps, for flushes started by the "
             "timer action, by CREATE TABLE and by recovery itself; TLC enumerates every subset of written pages; each is replayed by "
             "composing the data file from the page images the real flush wrote; real recovery must start and hold an allowed state. A failure on a path through a torn structural flush is excused by the known finding only where the model itself predicts the damage (pvok, StoreMC!Healthy). Code -> spec: seeded runs validated against WalOrderTrace.tla (every dirty page written before the header, header promises beyond everything on disk and in the log). The discipline itself (WalOrder.tla) is model-checked on a bounded instance (WalOrderMC) and its guarantees WriteAhead / HeaderCovers / NoOrphanStamp are proved for unbounded pages, LSNs and steps with TLAPS (WalOrderProof.tla, re-checked on every run).",
        design_ref="DESIGN.md 6 (C04)",
        note="Crash model as in the property: page writes atomic, any order, header last. Most torn flushes at capacities 3/3 are structural "
             "(known finding torn-structural-flush, open, identified by the specification's taint); the untainted ones and "
             "all-pages-but-header are the part that can still alarm. Later statements after a torn flush are out of scope (DESIGN 5.2).",
        technique="TLA+ spec (Store.tla, FlushSteps) model-checked with TLC; crash images composed from recorded page writes; replay on the real engine",
    ),
    "C11": dict(
        category="model_checking",
        text="BTree!TreeOK (ascending keys, separator bounds, uniform depth, no page twice, no node at capacity, leaf chain both ways, "
             "lookup of every key) is an invariant of every Store.tla configuration; for the code, insert-heavy TLC-generated histories "
             "are executed at capacities 3/3 (up to 5 tree levels), the raw page graph of every tree is recorded after each path and TLC "
             "evaluates the same TreeOK on it (TreeTrace.tla); the engine's own findCell and scanLeft are run over every key.",
        design_ref="DESIGN.md 6 (C11)",
        note="Trusted: TLC, the page projection (serialises fields only). Small capacities via hook verifIsFull; production capacities are "
             "covered by the random driver of the thorough tier.",
        technique="TLA+ invariant (BTree.tla TreeOK) checked by TLC on the model and evaluated by TLC on page graphs recorded from the real store",
    ),
    "C14": dict(
        category="model_checking",
        text="Store.tla with invalid rows at every position k of multi-row INSERTs, failing UPDATEs, unknown tables and duplicate CREATE "
             "TABLE; the promise after an error is the unchanged abstract state; TLC enumerates histories x failing statements x k; each "
             "path ending in a failing statement is replayed on the real engine and SELECT * / catalog compared before/after, after "
             "flush+cache drop, after restart and after crash+recovery. Multi-row UPDATEs with mixed outcomes (a later or the first matching row refused) come from ValueStore.tla with MixedUpd: the refused statement must leave every row as it was, immediately and after flush / evict / restart, on the direct and the SQL-text path. ValueStore!PutTwo (configuration guarded-put): every refused row also as the SECOND row of a two-row INSERT behind a row the table accepts - nothing of the statement may be stored.",
        design_ref="DESIGN.md 6 (C14)",
        note="Known finding partial-stmt-error (open): rows before the failing one stay applied; identified by the specification's taint "
             "(error after n > 0 applied row operations). Failing-first-row statements, duplicate tables, unknown tables must pass.",
        technique="TLA+ spec (Store.tla, BadMode) model-checked with TLC; failing-statement scenario replay on the real engine",
    ),
    "C16": dict(
        category="model_checking",
        text="Design: Store.tla does not model clean cached pages (a clean page equals its disk image) and Lru.tla shows only clean pages "
             "are evicted, so all C01/C02 invariants hold for every capacity. Code: the TLC-generated histories are replayed with the "
             "page cache replaced by NewLRU(K), K from 9 to 32 (the database has 16-30 pages), flushing after each statement, and must "
             "give the promised outcomes and contents; runs where a statement's dirty set does not fit (ErrLRUCacheFull) are discarded and counted. Code -> spec: long runs at production capacities under caches of 6-64 pages (values from a growing domain so that a statement's dirty set fits; a statement that still fills the cache is followed by abandon + restart) validated against AbsTrace.tla / WalOrderTrace.tla.",
        design_ref="DESIGN.md 6 (C16)",
        note="At capacities 3/3 CREATE TABLE alone dirties up to 9 pages, so K < 9 violates the property's precondition. "
             "Evictions inside one operation are exercised by the replay, not modelled.",
        technique="TLA+ spec (Store.tla + Lru.tla) model-checked with TLC; differential scenario replay with a small page cache",
    ),
    "C13": dict(
        category="model_checking",
        text="Locks.tla states the shared/exclusive lock protocol between statements and flushes (ticker goroutine and CREATE TABLE's own "
             "flush) with the invariants Excl and NoWriteInsideStmt; TLC checks it exhaustively. For the code, the real goroutines are "
             "traced at their linearization points (lock acquire/release, first page change, data-file writes, log writes) with the real "
             "100 ms ticker, each statement parked inside its critical section until the flusher has tried the lock; TLC validates the "
             "traces against LocksTrace.tla (a write inside a statement's window, a change outside the lock, a statement that never "
             "took the lock are unmatched events). The same driver runs under the Go race detector as an extra observer. Order traces of seeded sequential runs under page caches of 6-24 pages are validated against WalOrderTrace.tla: no page or header write while a statement holds the shared lock. WalOrder.tla itself is model-checked on a bounded instance (WalOrderMC), proved for unbounded sizes with TLAPS (WalOrderProof.tla) and, in the thorough tier, checked for progress under fairness (WalOrderLive.tla: every dirty page is eventually written, every flush ends).",
        design_ref="DESIGN.md 6 (C13)",
        note="Verdicts depend on event order under the lock, never on timing; the parking only makes the overlap happen on every run. "
             "Races outside the five listed statement kinds (USE / CREATE DATABASE vs the fresh ticker) are reported as notes.",
        technique="TLA+ specs (Locks.tla, WalOrder.tla) model-checked with TLC, WalOrder's guarantees proved with TLAPS; trace validation of real goroutine schedules (LocksTrace.tla) and of recorded write orders (WalOrderTrace.tla); race detector as observer",
    ),
    "C17": dict(
        category="model_checking",
        text="(Names that are a path - \"x/y\", \"..\", \".\" - are Session!BadNames: CREATE DATABASE / USE of one is an error that changes nothing.) "
             "Session.tla states the multi-database promise (isolation, failing CREATE DATABASE/USE change nothing, SHOW lists created "
             "names, ticks and restarts change no content) with a ghost `unsaved` set that makes TLC generate the paths on which a leaked "
             "or re-opened store would lose data; every transition of the bounded graph (3 name variants incl. case, 2 values, 8-9 steps) "
             "is replayed through engine.Session with timers replaced by ticks delivered to every store still open; after each step the "
             "selected database is read back, at the end every database is selected in turn, compared, and must accept a new row with a fresh id. Databases declare equally named tables with different column lists, so that schema information of one database can never serve another. Every fourth path is replayed again in a database that holds eight more tables (Session!OtherTable), and every path with a tick followed by CREATE DATABASE once more with the two happening at the same time (the database created from inside the I/O hook of the tick's first page write: stores have a lock each). One scenario runs with the real flush timers while the process is held up for 260 ms inside USE / CREATE DATABASE (hook H2); one restarts on every prefix of the writes a real CREATE DATABASE issues on its data file (the process died inside the statement). The promises of Session.tla are also proved without bounds (any number of databases, rows, steps) with TLAPS (SessionProof.tla, re-checked on every run).",
        design_ref="DESIGN.md 6 (C17)",
        note="Found and repaired with it: use-abandons-store, failed-use-nil-service, flusher-before-header, half-created-db-blocks-startup, half-created-db-panics. Trusted: TLC, hooks H1/H2 (timer off, store registry).",
        technique="TLA+ spec (Session.tla) model-checked with TLC and proved with TLAPS; per-transition behaviour replay through engine.Session",
    ),
    "C19": dict(
        category="exploration",
        text="CsvImport.tla states the importer as a state machine over a record stream with the oracle (Stored/RowOf/Conv: "
             "per-type conversion, \\N -> NULL, unmapped columns NULL) as a function of field texts; TLC checks the clauses of the "
             "property on the machine and enumerates every stream of up to 3-4 records (10-12 for a two-class alphabet) over nine "
             "record classes for 8-13 schema/mapping/separator configurations; every stream is rendered as CSV (three line-end "
             "renderings), imported by the real colDataTypes+doBatchInsert into a fresh database behind the real RelationService, "
             "and the numbers of ok / err reports and SELECT * are compared with what TLC printed (the arrival order of reports of different records is not part of the property). A panic in the import's own goroutine (which kills the process) is attributed to the running scenario and reported as a violation.",
        design_ref="DESIGN.md 6 (C19)",
        note="Trusted: TLC, Json module, the in-package harness (CSV rendering by the usual quoting rule, event/row copying). "
             "Value tables are finite (which decimal texts are 32/64-bit, booleans true/false/1/0); malformed quoting limited to "
             "one-line forms; bounded stream length; oversized rows and unterminated quotes probed by hand only.",
        technique="TLA+ spec (CsvImport.tla) model-checked with TLC; bounded-exhaustive behaviour replay on doBatchInsert + storage",
    ),
    "C20": dict(
        category="model_checking",
        text="Console.tla states the line assembler (Key, Enter over buf/inQuote/out) and, independently, the reference meaning "
             "(statements = input cut at semicolons outside literals, equal up to whitespace between tokens, literals intact); TLC "
             "checks the machine against the meaning and enumerates every key sequence up to 8-10 keys with line breaks anywhere "
             "outside literals; every complete behaviour is fed to the real Terminal.ReadLine under six read schedules (typed, per "
             "line, pasted, bracketed paste in three forms); outputs that differ from the machine's are judged by TLC itself "
             "(ConsoleJudge.tla): whitespace drift is a NOTE, anything else a violation. Code -> spec: seeded statement lists of 200..1200 bytes with "
             "multi-byte characters placed to straddle the console's 256-byte read boundary in every way are pasted under nine read "
             "schedules (readers returning at most 256/100/7 bytes) and every output is judged by TLC against the reference meaning (among them statements of 4 200 and 9 000 characters and a session of 150 statements). Beyond the property's quantifier: ConsoleEdit.tla (the line editor: cursor, erasing keys, history ring; refines Console.tla) - every transition TLC explores is pressed on the real Terminal in two key spellings; a difference there is reported as a NOTE, not as a verdict.",
        design_ref="DESIGN.md 6 (C20)",
        note="Trusted: TLC, Json module, the in-package harness (feeds bytes, copies ReadLine results). Alphabet {1-2 letters, "
             "space, ;, ', \", optionally backslash} + Enter(13); a line break typed inside a literal is entered as a blank (Console!Entered); backquotes and comments are outside "
             "the property and not modelled; bounded length.",
        technique="TLA+ spec (Console.tla) model-checked with TLC; every complete behaviour replayed on Terminal.ReadLine; oracle evaluated by TLC on real outputs (ConsoleJudge.tla)",
    ),
    "C05": dict(
        category="exploration",
        text="SqlSem.tla defines the reference meaning of SELECT (filter by a disjunction of conjunctions of comparisons, projection with "
             "expressions and aliases, ORDER BY with ASC/DESC, OFFSET/LIMIT) and the acceptance predicate ResultOK, which admits exactly the "
             "results some sorted arrangement of the candidates yields (ties free, window counts per key fixed). SqlSemGen.tla enumerates the "
             "component sets (137 tables of 0-3 rows over INT/VARCHAR/BOOLEAN/BIGINT, 765 WHERE shapes incl. `x AND y OR z` and `x OR y AND z`, "
             "17 list/order combinations, 25 LIMIT/OFFSET pairs); every element is used at least once plus a seeded sample of the product; each "
             "case is rendered as SQL text in 8 styles, run through the real parser and EvaluateSelect on a real database, and TLC "
             "(SqlSemJudge.tla) evaluates ResultOK on what came back. Also: the largest LIMIT / OFFSET with small ones (SqlSemGen!LimOffs5), strings that spell keywords and operators as data and literals (KwStrs5), tables with a past (rows deleted again before the query).",
        design_ref="DESIGN.md 6 (C05)",
        note="Bounded-exhaustive over components, sampled over their product (counts in the evidence). Trusted: TLC as evaluator, the SQL "
             "renderer and result serialiser in harness/cmd/sem. NULL operands are outside the property and not generated.",
        technique="TLA+ reference semantics (SqlSem.tla) with inputs enumerated by TLC (SqlSemGen.tla) and the oracle evaluated by TLC on real results (SqlSemJudge.tla)",
    ),
    "C06": dict(
        category="exploration",
        text="SqlSem.tla JoinStep/FromFold define INNER/LEFT/RIGHT joins as bags (matching pairs plus NULL-padded unmatched outer rows), "
             "left-deep chains, alias-or-name qualifiers, and MustFail for unqualified names found on both sides; SqlSemGen.tla enumerates 5547 "
             "databases of three tables (empty tables, duplicate and missing keys), all 30 two/three-table join chains over the join kinds and 4 ON "
             "shapes, self-joins under two aliases, select lists incl. ambiguous ones; cases run as SQL text on the real engine and TLC evaluates "
             "ResultOK (bag equality, or a required error) on the results.",
        design_ref="DESIGN.md 6 (C06)",
        note="WHERE over columns an outer join may pad with NULL, and `<`-family ON comparisons on NULLs, are outside the property and not generated. "
             "Sampled product of exhaustively enumerated components.",
        technique="TLA+ reference semantics (SqlSem.tla) with inputs enumerated by TLC and the oracle evaluated by TLC on real results",
    ),
    "C07": dict(
        category="exploration",
        text="SqlSem.tla Groups/AggRowOK: one result row per distinct tuple of grouping values, COUNT(*) = members, COUNT(col) = non-NULL members, "
             "AVG within 1/2 of sum/count (both neighbours on exact ties), all zeros for an empty input without GROUP BY; SqlSemGen.tla enumerates "
             "702 tables whose grouping values collide when printed and concatenated ((1,23) vs (12,3)), NULL-bearing counted columns, 11 "
             "list/group shapes (grouping column by name, qualifier, alias, any position, two columns comma separated) on top of 3 WHEREs; every "
             "third case is re-run with the rows inserted in reverse order; TLC evaluates ResultOK on the real results. "
             "Text grouping values that are confused side by side (NULL / empty string, separator characters); every third database has a past "
             "(rows inserted among the others and deleted again before the query: tombstones are not rows); many groups: a table of 100 000 rows "
             "(400 000 thorough) with pairwise distinct random grouping values - one row = one group - judged by SqlSem!DistinctGroupsOK, "
             "ResultOK specialised to that shape (TLC decides it on 10^5 rows; DistinctGroupsAgree is evaluated on small tables every run).",
        design_ref="DESIGN.md 6 (C07)",
        note="Known finding avg-running-rounding (open; cannot be repaired because existing tests pin contradictory roundings) is recognised by a "
             "signature evaluated on the case: groups and counts right and every AVG cell equal to the code's running rounded mean.",
        technique="TLA+ reference semantics (SqlSem.tla) with inputs enumerated by TLC and the oracle evaluated by TLC on real results",
    ),
    "C12": dict(
        category="exploration",
        text="PageCodec.tla states the page store as a register map (Update/DropCache/Fetch; a fetch returns the node last stored at that "
             "offset, stores elsewhere do not disturb it, every node is exactly one 4096-byte page). TLC enumerates node shapes from abstract "
             "parameters (kind, 0..cap cells, value sizes 0/1/399/400, tombstone masks, insertion orders, cells left by a real split, sibling "
             "flags, LSN up to 2^64-1, key magnitude) and store sequences over adjacent pages; every explored Fetch transition is executed "
             "on a real fileStore (fresh fileStore = cold cache) and the decoded node's logical content and the file length are compared with the "
             "register content; len(encode())==4096 and decode(encode(n))==n for every stored node; seeded random workloads over nodes of any "
             "admissible size are recorded and validated by TLC against PageCodecTrace.tla. Store level: in seeded runs of real statements every page the store holds is compared, after each flush, with what the data file alone decodes to (header included). Several stores in one process: one session with the real flush timers creates databases while the selected one is being flushed, under the Go race detector - a data race with both accesses inside the page codec (stores sharing serialisation state) is a violation.",
        design_ref="DESIGN.md 6 (C12)",
        note="Trusted: TLC, Json module, accessor zz_verif_codec.go (forwards to insertLeafCell/appendInternalCell/insertInternalCell/split/"
             "encode/decode/update/fetch). Byte layout is not modelled, only exercised. Large values / cell lists compared by SHA-256. Scope: any "
             "insertion order with all slots referenced, or ascending order + split (what ascending row ids can produce); a non-ascending node "
             "that was split cannot be decoded (reported as NOTE).",
        technique="TLA+ register-map spec model-checked with TLC; per-transition behaviour replay on fileStore; trace validation of random workloads",
    ),
    "C08": dict(
        category="exploration",
        text="Values.tla gives the accept/refuse rule (FieldDef.Validate) and the row-size arithmetic (Tuple.Encode, limit 400); ValueStore.tla "
             "is the table as a value store (Put/UpdateAll -> ok|refused, Flush, EvictAll, Restart, Get) with the promise that every Get returns "
             "the rows the history implies. TLC enumerates schemas of 1-3 (quick) / 1-4 (thorough) columns over the four types, rows from value "
             "classes (32/64-bit boundaries, NULL, booleans, wrong types, strings sizing the row to 399/400/401 bytes, empty string) and "
             "interleavings with the lifecycle steps; every explored Get transition is executed on the real engine with direct statement values "
             "(EvaluateInsert/EvaluateUpdate) and, where expressible, as SQL text (Session.ExecQuery); accept/refuse and the rows read back "
             "(EvaluateSelect) are compared bit for bit with what was supplied. Configuration two-rows-upd: two rows, then an UPDATE of some columns (a NULL in a column the statement does not assign stays NULL).",
        design_ref="DESIGN.md 6 (C08)",
        note="Trusted: TLC, Json module, accessor zz_verif_valstore.go (flusher off via hook H1, flushPages, cache replacement). Restart = Close + "
             "InitStorage + USE in-process (crashes: C02-C04). UPDATE only without WHERE and only with uniform outcome over rows (partial failure: "
             "C14). SQL text cannot express NULL literals, negative numbers, bare quote/newline/lone backslash in strings: those scenarios run on "
             "the direct path only (counted in evidence.text_skipped).",
        technique="TLA+ value-store spec model-checked with TLC; per-transition behaviour replay through the engine on two input paths",
    ),
    "C18": dict(
        category="exploration",
        text="(One scenario runs the real flush timers with a data file that takes no writes any more: after the failed periodic flush SELECT, INSERT, USE and the shutdown must each return.) "
             "StmtGen.tla enumerates the components of statements that parse but may be ill-typed (every select-item kind over every column "
             "type and over missing/qualified/duplicated names, comparisons across all type pairs incl. NULL-bearing columns, ORDER BY / GROUP BY "
             "on every column and on unknown names, joins with unknown tables, INSERT/UPDATE/DELETE/CREATE TABLE with confused values and "
             "names) and the session states {no USE, after a failed USE, empty tables, NULL-bearing rows}; every element is used at least once "
             "plus a seeded sample of the product; each statement goes through Session.ExecQuery under recover() and a watchdog; the "
             "specification's postcondition is `result or error value`. The driver delivers the flusher's tick after every statement (under the hang watchdog), so a statement that leaves the store locked shows as a hang. Every ordered pair of columns as sort keys (Orders8Pairs) and every window holding the largest LIMIT / OFFSET run against every table.",
        design_ref="DESIGN.md 6 (C18)",
        note="The oracle is deliberately trivial (no panic, no hang); the specification supplies the structure of the input space and the "
             "session states. Found and repaired with it: avg-orderby-type-assert; failed-use-nil-service (with C17).",
        technique="TLA+-enumerated statement space (StmtGen.tla over SqlSem/SqlSemGen vocabulary) executed through engine.Session with a crash/hang postcondition",
    ),
    "C09": dict(
        category="exploration",
        text="SqlGrammar.tla gives the input space as a grammar machine (Pick / EmitNext / Skip / Finish / JunkInsert / JunkSubst): every "
             "reachable state is a truncation of a valid statement, junk steps insert or substitute any token of the full scanner vocabulary "
             "(75 token kinds, 22 lexical classes: integers beyond 64 bits, hex/underscore/float literals, lone and unterminated quotes of each "
             "kind, NUL, invalid UTF-8, comment openers); plus all token sequences up to length 2 (quick) / 3 (thorough) and seeded random byte "
             "strings. Each input goes through NewTokenScanner+Parser.Parse exactly as engine.parseSQL does, under recover(), a 2 s watchdog and "
             "an allocation meter. Postcondition from the specification: a statement or an error value. Phase deep: conditions of millions of operands, and millions of nested opening parentheses / prefix operators at every place an expression may begin.",
        design_ref="DESIGN.md 6 (C09)",
        note="Trusted: TLC, Json, the token renderer. Bounded: 16 cover statements, <=1 junk token over the full vocabulary (quick), <=2 over a "
             "32-token vocabulary (thorough), sequences <=2/3. Memory is measured, not modelled.",
        technique="TLA+ grammar machine (SqlGrammar.tla) enumerated by TLC; behaviour replay on the real scanner+parser with a crash/hang/memory postcondition",
    ),
    "C10": dict(
        category="exploration",
        text="SqlGrammar.tla defines the abstract statement syntax and Toks(ast, form), the grammar read left to right; TLC enumerates every "
             "statement of a bounded universe (31 slices: select items, joins, boolean trees of up to 3 leaves in every shape text can express, "
             "GROUP BY/ORDER BY lists, LIMIT/OFFSET, INSERT rows x values, SET lists, column definitions, CREATE/USE/SHOW) with its token "
             "sequence; the harness spells each in up to 38 renderings (optional INNER/AS/ASC, terminator, keyword case, white space, both "
             "GROUP BY list forms), parses as engine.parseSQL does and maps the Go AST field by field to the specification's shape; equality "
             "is required, list lengths included. Statements followed by a token that can never continue one must not parse. One spelling in three writes integers with leading zeros.",
        design_ref="DESIGN.md 6 (C10)",
        note="Trusted: TLC, Json, renderer, AST converter. Bounded-exhaustive per clause, not the full product; statements the parser refuses by "
             "design (validateGroupByFields) are excluded by SqlGrammar!GroupOK.",
        technique="TLA+ grammar (SqlGrammar.tla Toks) plus bounded statement universe enumerated by TLC; replay on the real parser with structural AST comparison",
    ),
}

NOT_YET = "check not built yet (build in progress; see DESIGN.md section 6)"


def main():
    props = [json.loads(l) for l in open(os.path.join(VERIF, "properties.jsonl"))]
    hooks_commits = subprocess.run(["git", "-C", "/repo", "log", "--format=%H %s"], capture_output=True, text=True).stdout.splitlines()
    hook_shas = [l.split()[0] for l in hooks_commits if l.split(" ", 1)[1].startswith("verif:")]
    m = {
        "version": 1,
        "setup_cmd": "./setup.sh",
        "hooks": {
            "guard": "verif",
            "enable": "go build/test -tags verif -overlay <json mapping /verif/harness/overlay/** into /repo/**> (done by ./check; see tools/vlib.py)",
            "baseline_off_cmd": "cd /repo && GOFLAGS=-mod=mod GOPROXY=off GOSUMDB=off GOTOOLCHAIN=local go test -vet=off -count=1 ./...",
            "source_commits": hook_shas,
            "add_only": True,
        },
        "engines": [
            {"name": "tlc", "path": "/opt/veriftools/tla/tla2tools.jar", "serves_properties": sorted(CHECKS), "kind_free_text": "explicit-state model checker for the TLA+ specifications in /verif/spec; also evaluates trace specifications"},
            {"name": "harness", "path": "/verif/harness", "serves_properties": sorted(CHECKS), "kind_free_text": "Go replay/trace drivers built against /repo's working tree with -tags verif"},
        ],
        "checks": [],
        "not_applicable": [],
        "notes": "All checks: ./check <id> --tier quick|thorough. Exit 2 = machinery could not decide (never a VIOLATION). See DESIGN.md.",
    }
    for p in props:
        pid = p["id"]
        if pid in CHECKS:
            c = CHECKS[pid]
            m["checks"].append({
                "property_id": pid,
                "quick_cmd": "./check %s --tier quick" % pid,
                "thorough_cmd": "./check %s --tier thorough" % pid,
                "evidence_file": "/verif/evidence/%s.json" % pid,
                "replay_cmd_template": "./check %s --replay {path}" % pid,
                "engine": "tlc",
                "level_claimed": {"category": c["category"], "text": c["text"], "design_ref": c["design_ref"]},
                "level_note": c["note"],
                "technique": c["technique"],
            })
        else:
            m["not_applicable"].append({"property_id": pid, "reason": NOT_YET})
    json.dump(m, open(os.path.join(VERIF, "MANIFEST.json"), "w"), indent=1)
    print("MANIFEST.json: %d checks, %d not_applicable" % (len(m["checks"]), len(m["not_applicable"])))


if __name__ == "__main__":
    main()
