"""C04 - a crash while the page cache is being flushed loses nothing."""
import vlib
import storelib

FL = '{"flush"}'
CFGS = {
    "quick": [("c04-a", dict(FlushSteps="TRUE", CrashAt=FL, MaxStmts=3, MaxRows=3, MaxFlush=1, MaxCrash=1, Tables='{"t1"}', Vals="{1}"), None),
              ("c04-b", dict(FlushSteps="TRUE", CrashAt=FL, MaxStmts=3, MaxRows=2, MaxFlush=1, MaxCrash=2, Tables='{"t1"}', Vals="{1}", Ops='{"create", "insert", "delete"}'), 15000),
              # two tables, changes interleaved over their pages, flushes of existing pages torn anywhere, statements continue afterwards
              ("c04-d", dict(FlushSteps="TRUE", CrashAt=FL, NoCrashIn='{"create"}', MaxStmts=4, MaxRows=1, MaxFlush=1, MaxCrash=1, Vals="{1}", Ops='{"create", "insert", "update"}'), 15000),
              # leaves that do not split on every insert (capacity 4): a flush of existing pages of a multi-level tree
              ("c04-f", dict(LeafCap=4, FlushSteps="TRUE", CrashAt=FL, NoCrashIn='{"create"}', MaxStmts=4, MaxRows=2, MaxFlush=2, MaxCrash=1, Tables='{"t1"}', Vals="{1}", Ops='{"create", "insert", "update"}'), 15000),
              # a scripted corridor: a table grown to two leaves and flushed, then in ONE flush interval a row inserted, every
              # row updated and an insert that splits the right-most leaf and carries that row to the new page;
              # the flush after it torn in every way (the redo then re-inserts into the written half and must still redo
              # the later records of that page)
              ("c04-u", dict(FlushSteps="TRUE", CrashAt=FL, NoCrashIn='{"create"}', MaxStmts=6, MaxRows=3, MaxFlush=2, MaxCrash=1, Tables='{"t1"}', Vals="{1}",
                             Wheres="{0}", Ops='{"create", "insert", "update"}', Script="<- ScriptInsUpdSplit", ScriptRows="<- RowsInsUpdSplit"), None),
              # the same corridor with four-cell leaves (the second split then moves only rows of this flush interval: a flush torn
              # after the split leaf loses nothing by itself) and an UPDATE that changes the values (inserted 1, updated to 2)
              ("c04-s", dict(LeafCap=4, IntCap=5, FlushSteps="TRUE", CrashAt=FL, NoCrashIn='{"create"}', MaxStmts=6, MaxRows=3, MaxFlush=2, MaxCrash=1, Tables='{"t1"}',
                             Vals="{1, 2}", Wheres="{0}", Ops='{"create", "insert", "update"}', Script="<- ScriptInsUpdSplit", ScriptRows="<- RowsInsUpdSplit",
                             ScriptSeqs="<- SeqsInsUpdSplit"), None),
              # a table whose root split is in the log (a record that names the catalog leaf), then the flush of a second
              # CREATE TABLE torn in every way
              ("c04-t", dict(LeafCap=4, IntCap=5, FlushSteps="TRUE", CrashAt=FL, MaxStmts=5, MaxRows=3, MaxFlush=1, MaxCrash=1, Tables='{"t1", "t2"}', DmlTables='{"t1"}',
                             Vals="{1}", Ops='{"create", "insert"}', Script="<- ScriptSplitThenCreate", ScriptRows="<- RowsSplitThenCreate"), None),
              # a torn flush of existing pages, recovery, more statements, a clean restart
              ("c04-e", dict(FlushSteps="TRUE", CrashAt='{"flush", "idle"}', NoCrashIn='{"create"}', MaxStmts=5, MaxRows=1, MaxFlush=2, MaxCrash=2, Tables='{"t1"}', Vals="{1}", Ops='{"create", "insert", "update"}'), 15000)],
    "thorough": [("c04-u", dict(FlushSteps="TRUE", CrashAt=FL, NoCrashIn='{"create"}', MaxStmts=6, MaxRows=3, MaxFlush=2, MaxCrash=1, Tables='{"t1"}', Vals="{1}",
                                Wheres="{0}", Ops='{"create", "insert", "update"}', Script="<- ScriptInsUpdSplit", ScriptRows="<- RowsInsUpdSplit"), None),
                 ("c04-s", dict(LeafCap=4, IntCap=5, FlushSteps="TRUE", CrashAt=FL, NoCrashIn='{"create"}', MaxStmts=6, MaxRows=3, MaxFlush=2, MaxCrash=1, Tables='{"t1"}',
                             Vals="{1, 2}", Wheres="{0}", Ops='{"create", "insert", "update"}', Script="<- ScriptInsUpdSplit", ScriptRows="<- RowsInsUpdSplit",
                             ScriptSeqs="<- SeqsInsUpdSplit"), None),
                 ("c04-t", dict(LeafCap=4, IntCap=5, FlushSteps="TRUE", CrashAt=FL, MaxStmts=5, MaxRows=3, MaxFlush=1, MaxCrash=1, Tables='{"t1", "t2"}', DmlTables='{"t1"}',
                             Vals="{1}", Ops='{"create", "insert"}', Script="<- ScriptSplitThenCreate", ScriptRows="<- RowsSplitThenCreate"), None),
                 ("c04-a", dict(EmitMod=12, FlushSteps="TRUE", CrashAt=FL, MaxStmts=3, MaxRows=3, MaxFlush=1, MaxCrash=1, Tables='{"t1"}'), 60000),
                 ("c04-b", dict(FlushSteps="TRUE", CrashAt=FL, MaxStmts=4, MaxRows=2, MaxFlush=2, MaxCrash=2, Tables='{"t1"}', Vals="{1}"), 40000),
                 ("c04-c", dict(EmitMod=3, FlushSteps="TRUE", CrashAt=FL, MaxStmts=3, MaxRows=2, MaxFlush=1, MaxCrash=1), 60000),
                 ("c04-d", dict(FlushSteps="TRUE", CrashAt=FL, NoCrashIn='{"create"}', MaxStmts=6, MaxRows=1, MaxFlush=1, MaxCrash=1, Vals="{1}", Ops='{"create", "insert", "update"}'), 60000),
                 ("c04-f", dict(LeafCap=4, FlushSteps="TRUE", CrashAt=FL, NoCrashIn='{"create"}', MaxStmts=5, MaxRows=2, MaxFlush=2, MaxCrash=1, Tables='{"t1"}', Vals="{1}", Ops='{"create", "insert", "update"}'), 40000),
                 ("c04-e", dict(FlushSteps="TRUE", CrashAt='{"flush", "idle"}', NoCrashIn='{"create"}', MaxStmts=6, MaxRows=1, MaxFlush=2, MaxCrash=2, Tables='{"t1"}', Vals="{1}", Ops='{"create", "insert", "update"}'), 40000)],
}


def run(ctx):
    binary = vlib.build_harness(ctx, "store")
    if ctx.replay:
        return storelib.replay_file(ctx, binary, ctx.replay)
    cov = storelib.new_cov()
    pool = vlib.WorkerPool(ctx, binary)
    feats = {}
    try:
        for name, over, sample in CFGS[ctx.tier]:
            st = storelib.StoreRun(ctx, name, dict(over, EmitSel='"crash-flush"'),  sample=sample, probes=True,
                                   select=lambda sc: any(s["a"] == "crash" and s["at"] == "flush" for s in sc["steps"]),
                                   timeout=2400).run(pool, storelib.default_violation(ctx), cov)
            for k, v in st["feats"].items():
                feats[k] = feats.get(k, 0) + v
        # code -> spec: the order in which real flushes, statements and recoveries touch pages, header and log (WalOrder.tla):
        # every dirty page before the header, the header promising LSNs and pages beyond everything written, nothing unlogged on disk
        storelib.walorder_design(ctx, cov)
        seeds = [ctx.seed * 1000 + 400 + i for i in range(3 if ctx.quick() else 12)]
        storelib.random_runs(ctx, pool, cov, [dict(seed=sd, n=(200 if ctx.quick() else 500), caps=([3, 3] if i % 2 == 0 else []), cache=0, pcrash=0.05,
                                                   pflush=0.3, pfail=0.25, wal=False, maxrows=(5 if i % 2 == 0 else 20)) for i, sd in enumerate(seeds)])
        if not ctx.quick():
            storelib.design_only(ctx, "big", dict(FlushSteps="TRUE", CrashAt='{"flush", "idle"}', MaxStmts=5, MaxRows=2, MaxFlush=2, MaxCrash=2, Tables='{"t1"}', Vals="{1}"), cov, timeout=300)
    finally:
        pool.close()
    for f in ("crash-flush-idle", "crash-flush-create", "crash-flush-rec", "recover"):
        if not feats.get(f):
            raise vlib.Undecided("vacuous: crash point kind '%s' never replayed" % f)
    drift = sum(c["drift"] for c in cov["configs"])
    if drift:
        ctx.note("%d replayed scenarios differ from the specification at the page level only" % drift)
    vlib.write_evidence(ctx, "model_checking", cov, assumptions=[
        "TLC, SANY, CommunityModules", "capacity override 3/3 (hook verifIsFull)",
        "crash model of the property: whole-page writes are atomic, pages of one flush may reach the disk in any order, the header is written last",
        "crash images are composed from the page images the real flush wrote (hook before WriteAt), selected by the scenario"])
