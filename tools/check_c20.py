"""C20 - the console submits exactly the statements that were typed.

Spec -> code: ConsoleMC.tla enumerates every key sequence (characters and
line breaks outside literals) up to a bound; each complete behaviour is
printed with the statements the specification's machine hands over.  The
in-package harness feeds the keys to the real Terminal.ReadLine under six
read schedules (typed, line by line, pasted, bracketed paste ...) and reports
what came back.  Literal agreement with the machine's output is the fast path;
whatever differs is judged by TLC itself with the reference meaning of
Console.tla (ConsoleJudge.tla: same statements, once each, in order, equal up
to whitespace between tokens, literals intact) - accepted differences are
drift (NOTE), rejected ones are violations.

Code -> spec (long inputs): seeded random statement lists over the same
vocabulary (words, blanks, both quotes, backslash escapes, semicolons and line
breaks) plus multi-byte characters inside literals, 200..1200 bytes long and
built so that multi-byte characters straddle the console's 256-byte read
boundaries in every possible way, are fed as one paste under nine read
schedules (among them readers returning at most 256 / 100 / 7 bytes per Read).
There is no machine prediction for them: every output is judged by TLC
(ConsoleJudge.tla) against the reference meaning, byte for byte in literals.
"""
import json
import os
import random

import vlib

# tier -> list of (Letters, Extra, MaxKeys, MaxEnters[, BreakInLiterals]); Extra = {92} puts the backslash into the alphabet;
# BreakInLiterals lets Enter be pressed inside a literal too (the console enters it as a blank)
MC = {
    "quick": [("{97}", "{92}", 8, 3), ("{97, 98}", "{}", 7, 2), ("{97}", "{}", 8, 3, True), ("{47}", "{}", 8, 3, True)],   # 47 = '/': "//" is text
    "thorough": [("{97}", "{92}", 9, 4), ("{97}", "{}", 10, 4), ("{97, 98}", "{}", 9, 3), ("{97}", "{}", 9, 3, True), ("{47}", "{}", 9, 3, True)],
}
MODES = ["typed", "lines", "paste", "bracketed", "bracketed_enter", "bracketed4", "crlf_typed"]
# long random inputs (code -> spec): number of inputs per tier and their read schedules
LONG = {"quick": 96, "thorough": 720}
LONG_MODES = MODES + ["max256", "max100", "max7", "crlf_max256", "crlf_max7", "crlf_paste"]
LONG_LEN = (200, 1200)
READ_BUF = 256            # Terminal.inBuf
MULTIBYTE = ["é", "ß", "東", "€", "😀", "𝄞",    # 2, 2, 3, 3, 4, 4 bytes in UTF-8
             "\u00ad", "\u200d", "\u200c",
             "\u0127", "\u5927", "\u2022", "\u0122"]  # code points whose low byte is a quote character (0x27, 0x22): still one character           # soft hyphen (2), zero-width joiner / non-joiner (3): format characters are text too
STRADDLES = [(2, 1), (3, 1), (3, 2), (4, 1), (4, 2), (4, 3)]   # (bytes of the character, bytes before the boundary)
FINDING = "semicolon-in-quotes"
PER_SIGNATURE = 3        # replay files written per failure signature (shortest inputs first)
JUDGE_SAMPLE = 2000      # outputs equal to the named deviation that are put before the judge again, per configuration

def text(bs):
    """Byte values -> readable text (Enter shown as ⏎); display only."""
    return bytes(bs).decode("utf-8", "replace").replace("\r", "⏎")


def mc_cfg(letters, extra, maxkeys, maxenters, inlit=False):
    return """CONSTANTS
  Letters = %s
  Extra = %s
  BreakInLiterals = %s
  MaxKeys = %d
  MaxEnters = %d
  EmitOn = TRUE
INIT MCInit
NEXT MCNext
ACTION_CONSTRAINT Emit
INVARIANTS TypeOK OutIsPrefix Faithful BufIsRest TaintExact TaintViolates
CHECK_DEADLOCK FALSE
""" % (letters, extra, "TRUE" if inlit else "FALSE", maxkeys, maxenters)


JUDGE_CFG = """CONSTANTS
  Letters = {97}
  Extra = {}
  BreakInLiterals = TRUE
INIT JInit
NEXT JNext
CHECK_DEADLOCK FALSE
"""


def kinds_of(keys):
    """Coverage classification of one input (vacuity measurement only, never a verdict)."""
    ks = set()
    q = 0
    esc = False
    last_esc_bs = False
    line_terms = 0
    stmt_has_cr = False
    for c in keys:
        if q:
            if esc:
                esc = False
                ks.add("escaped_quote" if c == q else "escaped_backslash" if c == 92 else
                       "escaped_semicolon" if c == 59 else "escaped_other")
                last_esc_bs = c == 92
                continue
            if c == 92:
                esc = True
                ks.add("backslash_in_literal")
                last_esc_bs = False
                continue
            if c == 59:
                ks.add("semicolon_in_literal")
            elif c == 32:
                ks.add("space_in_literal")
            elif c in (39, 34) and c != q:
                ks.add("other_quote_in_literal")
            elif c >= 128:
                ks.add("multibyte_in_literal")
            if c == q:
                q = 0
                ks.add("literal")
                if last_esc_bs:
                    ks.add("literal_ends_in_escaped_backslash")
            last_esc_bs = False
            continue
        if c in (39, 34):
            q = c
            ks.add("quote_%d" % c)
        elif c == 59:
            ks.add("terminator")
            line_terms += 1
            if line_terms >= 2:
                ks.add("several_statements_on_one_line")
            if stmt_has_cr:
                ks.add("statement_across_lines")
            stmt_has_cr = False
        elif c == 13:
            ks.add("enter")
            if line_terms == 0:
                ks.add("enter_without_terminator")
            line_terms = 0
            stmt_has_cr = True
        elif c == 32:
            ks.add("space")
        elif c == 92:
            ks.add("backslash_outside_literal")
        else:
            ks.add("letter")
    return ks


NEED_KINDS = ["letter", "space", "terminator", "enter", "quote_39", "quote_34", "literal", "semicolon_in_literal",
              "space_in_literal", "other_quote_in_literal", "several_statements_on_one_line",
              "statement_across_lines", "enter_without_terminator", "backslash_in_literal", "escaped_quote",
              "escaped_backslash", "escaped_semicolon", "literal_ends_in_escaped_backslash", "backslash_outside_literal"]
NEED_KINDS_LONG = NEED_KINDS + ["multibyte_in_literal"]


def scn_line(s):
    d = dict(id=s["id"], keys=s["keys"])
    if s.get("modes"):
        d["modes"] = s["modes"]
    return d


def run_harness(ctx, scn_path, out_path, n):
    r = vlib.go_test_inpkg(ctx, "cmd/console", "zz_verif_console_test.go", run="TestVerifConsole",
                           env_extra={"VERIF_C20_SCN": scn_path, "VERIF_C20_OUT": out_path,
                                      "VERIF_C20_MODES": ",".join(MODES)}, timeout=1500)
    if r.returncode != 0:
        raise vlib.Undecided("console harness failed (rc=%s):\n%s" % (r.returncode, (r.stdout + r.stderr)[-4000:]))
    if not os.path.exists(out_path):
        raise vlib.Undecided("console harness wrote no result file:\n%s" % (r.stdout + r.stderr)[-2000:])
    res = {}
    with open(out_path) as f:
        for line in f:
            o = json.loads(line)
            res[o["id"]] = o["r"]
    if len(res) != n:
        raise vlib.Undecided("console harness answered %d of %d scenarios" % (len(res), n))
    return res


def judge(ctx, entries, tag):
    """entries: list of dict(id, keys, obs). Returns {id: verdict} as decided by TLC (ConsoleJudge.tla)."""
    if not entries:
        return {}
    out = {}
    for start in range(0, len(entries), 20000):
        part = entries[start:start + 20000]
        blob = "".join(json.dumps(e) + "\n" for e in part)
        got = []
        res = vlib.run_tlc(ctx, "ConsoleJudge", "ConsoleJudge_run.cfg", cfg_text=JUDGE_CFG, workers=1, timeout=900,
                           tag="%s-%d" % (tag, start), files={"judge.ndjson": blob}, on_scn=lambda k, o: got.append(o))
        vlib.tlc_must_ok(ctx, res, "ConsoleJudge %s" % tag)
        if len(got) != len(part):
            raise vlib.Undecided("ConsoleJudge answered %d of %d entries" % (len(got), len(part)))
        for v in got:
            out[v["id"]] = v
    return out


def evaluate(ctx, scns, results, cov, tag):
    """Compare real output with the specification. Returns list of confirmed-by-TLC rejections:
    dict(scn, modes, obs, err, left, verdict)."""
    mism = []     # (scenario, run)
    for s in scns:
        for r in results[s["id"]]:
            cov["executions"] += len(r["m"])
            for m in r["m"]:
                cov["modes"][m] = cov["modes"].get(m, 0) + 1
            cov["paste_indicator_returns"] += r.get("paste", 0)
            if r.get("err") or r["obs"] != s["exp"]:
                mism.append((s, r))
    cov["mismatch_groups"] += len(mism)
    if not mism:
        return []
    # Mismatches that are literally the output of the named deviation (ConsoleMC.NaiveSplit) on a
    # tainted input are rejected by the invariant TaintViolates, which TLC checked in this very run
    # for every emitted behaviour; only a sample of them is put before the judge again (cross-check).
    # Every other mismatch is judged individually.
    naive = sorted([(s, r) for (s, r) in mism if s["taint"] and not r.get("err") and r["obs"] == s.get("naive")],
                   key=lambda x: (len(x[0]["keys"]), x[0]["keys"]))
    other = [(s, r) for (s, r) in mism if not (s["taint"] and not r.get("err") and r["obs"] == s.get("naive"))]
    sample = naive[:JUDGE_SAMPLE]
    todo = other + sample
    entries = [dict(id=i + 1, keys=s["keys"], obs=r["obs"]) for i, (s, r) in enumerate(todo)]
    verdicts = judge(ctx, entries, tag)
    rejected = []
    for i, (s, r) in enumerate(todo):
        v = verdicts[i + 1]
        # a harness-level error (panic, error other than EOF, runaway) is never an orderly hand-over
        ok = v["accept"] and v["literals"] and not r.get("err")
        if ok and i >= len(other):
            raise vlib.Undecided("ConsoleJudge accepted an output that the invariant TaintViolates rejects: %r" % (s,))
        if ok:
            cov["drift"] += 1
            if len(cov["drift_samples"]) < 3:
                cov["drift_samples"].append(dict(keys=text(s["keys"]), modes=r["m"], machine=[text(x) for x in s["exp"]],
                                                 observed=[text(x) for x in r["obs"]]))
        else:
            rejected.append(dict(scn=s, run=r, verdict=v))
    for (s, r) in naive[JUDGE_SAMPLE:]:
        rejected.append(dict(scn=s, run=r, verdict=dict(accept=False, literals=False, count=False,
                                                        by="invariant TaintViolates of ConsoleMC (checked by TLC in this run)")))
    cov["judged_by_tlc"] += len(todo)
    cov["rejected_by_model_invariant"] += max(0, len(naive) - JUDGE_SAMPLE)
    return rejected


def report(ctx, rejected, results2=None):
    """Write replay files / verdicts for rejections (grouped by signature, shortest first)."""
    groups = {}
    for x in rejected:
        s, r = x["scn"], x["run"]
        known = bool(s.get("taint")) and s.get("naive") is not None and r["obs"] == s["naive"] and not r.get("err")
        if known:
            sig = FINDING
        elif r.get("err"):
            sig = "error:" + r["err"][:40]
        else:
            sig = ("long-input/" if s.get("long") else "") + "wrong-statements" + \
                  ("/count" if not x["verdict"]["count"] else "") + ("/literal" if not x["verdict"]["literals"] else "")
        groups.setdefault(sig, []).append(x)
    for sig, xs in sorted(groups.items()):
        xs.sort(key=lambda x: (len(x["scn"]["keys"]), x["scn"]["keys"]))
        for x in xs[:PER_SIGNATURE]:
            s, r = x["scn"], x["run"]
            payload = dict(kind="console-replay", signature=sig, failures_with_this_signature=len(xs),
                           detail=["%s: input %r (%d bytes) under %s: observed %r%s" % (
                               sig, text(s["keys"])[:120], len(s["keys"]), ",".join(r["m"]), [text(o) for o in r["obs"]][:6],
                               (", expected %r" % [text(e) for e in s["exp"]]) if "exp" in s else
                               (", differs near %r vs %r" % (x["diff"]["input_there"], x["diff"]["observed_there"])) if x.get("diff") else "")],
                           keys=s["keys"], input=text(s["keys"]), input_bytes=len(s["keys"]), read_schedules=r["m"],
                           modes=s.get("modes") or MODES,
                           expected=[text(e) for e in s["exp"]] if "exp" in s else
                           "the %s statements of the input, cut at semicolons outside literals (StmtsOf in Console.tla)" % x["verdict"].get("stmts"),
                           observed=[text(o) for o in r["obs"]],
                           expected_bytes=s.get("exp"), observed_bytes=r["obs"], harness_error=r.get("err", ""),
                           buffer_left=text(r.get("left") or []), taint=s.get("taint", []), tlc_verdict=x["verdict"],
                           first_difference=x.get("diff"),
                           how="keys are byte values fed to Terminal.ReadLine (13 = Enter, shown as ⏎); expected = statements "
                               "Console.tla hands over; the rejection was decided by TLC (ConsoleJudge.tla)")
            vlib.report_violation(ctx, payload, signature=sig, finding_ids=[FINDING] if sig == FINDING else [])
    return {k: len(v) for k, v in groups.items()}


def confirm(ctx, rejected, tag):
    """DESIGN 5.1: repeat the failing scenarios once from scratch; keep those that fail identically."""
    if not rejected:
        return []
    uniq = {}
    for x in rejected:
        uniq.setdefault(x["scn"]["id"], x["scn"])
    scns = list(uniq.values())
    d = ctx.sub("confirm-" + tag)
    scn_path, out_path = os.path.join(d, "scn.ndjson"), os.path.join(d, "out.ndjson")
    with open(scn_path, "w") as f:
        for s in scns:
            f.write(json.dumps(scn_line(s)) + "\n")
    again = run_harness(ctx, scn_path, out_path, len(scns))
    kept = []
    for x in rejected:
        r = x["run"]
        same = [r2 for r2 in again[x["scn"]["id"]] if r2["obs"] == r["obs"] and r2.get("err", "") == r.get("err", "")
                and set(r["m"]) <= set(r2["m"])]
        if same:
            kept.append(x)
    if len(kept) != len(rejected):
        raise vlib.Undecided("%d of %d failing console scenarios did not fail again when repeated" %
                             (len(rejected) - len(kept), len(rejected)))
    return kept


# ---------------------------------------------------------------- long inputs (code -> spec)

def gen_long(rng, target, cycle):
    """One input of about `target` bytes: statements over the specification's vocabulary, multi-byte
    characters only inside literals, line breaks only outside.  Around every read boundary of a
    plain paste (the console reads into a 256-byte buffer, after whatever partial character it kept)
    a literal full of multi-byte characters is placed so that one of them straddles the boundary in
    the way `cycle` asks for next.  Returns (bytes, planned straddles)."""
    out = bytearray()
    nb = READ_BUF          # next read boundary of a plain paste
    planned = []

    def word():
        w = bytes(rng.choice(b"abcdefgh") for _ in range(rng.randint(1, 6)))
        if rng.random() < 0.06:
            w += b"\\"      # a backslash outside literals is an ordinary character
        return w

    def literal(boundary=None):
        nonlocal nb
        q = rng.choice(b"'\"")
        other = 34 if q == 39 else 39
        out.append(q)
        if boundary is not None:
            ordinal = len(planned)
            ln, before = cycle[ordinal][0]
            cycle[ordinal].append(cycle[ordinal].pop(0))
            while len(out) + 4 <= boundary - before and rng.random() < 0.7:
                out.extend(rng.choice(MULTIBYTE).encode())
            out.extend(b"x" * (boundary - before - len(out)))
            out.extend(rng.choice([m for m in MULTIBYTE if len(m.encode()) == ln]).encode())
            while len(out) < boundary + 8:
                out.extend(rng.choice(MULTIBYTE).encode())
            planned.append((boundary, ln, before))
            nb = boundary + READ_BUF - before
        else:
            for _ in range(rng.randint(0, 9)):
                k = rng.random()
                if k < 0.32:
                    out.extend(bytes(rng.choice(b"abcdefgh") for _ in range(rng.randint(1, 5))))
                elif k < 0.46:
                    out.append(32)
                elif k < 0.56:
                    out.append(59)
                elif k < 0.64:
                    out.append(other)
                elif k < 0.72:
                    out.extend(bytes([92, q]))
                elif k < 0.80:
                    out.extend(b"\\\\")
                elif k < 0.85:
                    out.extend(b"\\;")
                else:
                    out.extend(rng.choice(MULTIBYTE).encode())
            if rng.random() < 0.3:
                out.extend(b"\\\\")       # the literal ends in an escaped backslash
        out.append(q)

    while len(out) < target:
        for _ in range(rng.randint(1, 5)):
            if nb - 16 <= len(out) < nb - 5:
                literal(nb)
            elif nb - 90 <= len(out) < nb - 16:
                out.extend(word()[:6])
            elif rng.random() < 0.45:
                literal()
            else:
                out.extend(word())
            k = rng.random()
            out.extend(b"\r" if k < 0.10 else b" ")
        out.append(59)
        k = rng.random()
        if k < 0.35:
            out.append(13)
        elif k < 0.75:
            out.append(32)
    out.append(13)
    return bytes(out), planned


def paste_straddles(data):
    """Which multi-byte characters straddle the read boundaries of a plain paste of `data`
    (coverage measurement by simulating the console's read sizes; never a verdict)."""
    starts = {}
    i = 0
    while i < len(data):
        b = data[i]
        ln = 1 if b < 0x80 else 2 if b < 0xE0 else 3 if b < 0xF0 else 4
        for k in range(1, ln):
            starts[i + k] = (ln, k)        # a boundary at offset i+k cuts this character after k bytes
        i += ln
    found = []
    pos, rem, ordinal = 0, 0, 0
    while pos < len(data):
        pos += READ_BUF - rem
        ordinal += 1
        if pos >= len(data):
            break
        if pos in starts:
            ln, k = starts[pos]
            found.append((ordinal, ln, k))
            rem = k
        else:
            rem = 0
    return found


def first_diff(want_text, got):
    """Where the observed statements start to differ from the input, blanks and line breaks ignored
    (display aid for the replay file only)."""
    a = want_text.replace("⏎", "").replace(" ", "")
    joined = "".join(got).replace(" ", "")
    n = 0
    while n < len(a) and n < len(joined) and a[n] == joined[n]:
        n += 1
    return dict(ignoring="blanks and line breaks", common_prefix_chars=n, input_there=a[max(0, n - 25):n + 25],
                observed_there=joined[max(0, n - 25):n + 25])


def run_long(ctx, cov):
    rng = random.Random(ctx.seed * 7919 + 20)
    n = LONG[ctx.tier]
    cycle = [list(STRADDLES[i % len(STRADDLES):] + STRADDLES[:i % len(STRADDLES)]) for i in range(8)]
    lc = cov["long"]
    scns = []
    for i in range(n):
        target = LONG_LEN[0] + (i * 389) % (LONG_LEN[1] - LONG_LEN[0] - 60)
        if i % 4 == 3:
            target = LONG_LEN[1] - 70 - (i % 40)       # enough inputs that reach the fourth boundary
        data, planned = gen_long(rng, target, cycle)
        scns.append(dict(id=i + 1, keys=list(data), modes=LONG_MODES, long=True))
        for st in paste_straddles(data):
            key = "boundary%d:char%d:cut%d" % st
            lc["straddles"][key] = lc["straddles"].get(key, 0) + 1
            lc["multibyte_straddling_a_read_boundary"] += 1
        for k in kinds_of(data):
            lc["kinds"][k] = lc["kinds"].get(k, 0) + 1
    lens = [len(s["keys"]) for s in scns]
    lc.update(inputs=n, bytes_min=min(lens), bytes_max=max(lens))
    if lc["bytes_min"] > 300 or lc["bytes_max"] < 1100 or lc["bytes_max"] > 1300:   # (the generated inputs; the fixed very long ones come below)
        raise vlib.Undecided("long inputs: lengths %d..%d do not span 200..1200" % (lc["bytes_min"], lc["bytes_max"]))
    for b in range(1, 5):
        for (ln, k) in STRADDLES:
            if lc["straddles"].get("boundary%d:char%d:cut%d" % (b, ln, k), 0) == 0:
                raise vlib.Undecided("vacuous: no long input cuts a %d-byte character after %d bytes at read boundary %d" % (ln, k, b))
    for k in NEED_KINDS_LONG:
        if lc["kinds"].get(k, 0) == 0:
            raise vlib.Undecided("vacuous: no long input exercised '%s'" % k)

    # sessions of many statements (the console keeps a history ring of 100): 150 short statements one per line, two per
    # line and one across two lines, all in one input
    many = []
    for k in range(150):
        stmt = "a%s ;" % ("b" * (k % 3))
        many.append(stmt + "\r" if k % 3 == 0 else stmt + (" " if k % 3 == 1 else "\r"))
        if k % 7 == 6:
            many[-1] = many[-1].replace(" ;", "\r;")
    data = "".join(many).encode()
    if not data.endswith(b"\r"):
        data += b"\r"
    scns.append(dict(id=len(scns) + 1, keys=list(data), modes=LONG_MODES, long=True))
    lc["many_statement_inputs"] = 1
    # statements longer than any line buffer an implementation may have: a literal of 4 200 and one of 9 000 characters,
    # each followed by further statements (a statement cut short would swallow them)
    for big in (4200, 9000):
        data = ("a '" + "x" * big + " ;e' ;\ra ;\r'" + "y" * (big // 2) + "' a ;a ;\r").encode()
        scns.append(dict(id=len(scns) + 1, keys=list(data), modes=LONG_MODES, long=True))
    lc["very_long_statement_inputs"] = 2
    n = len(scns)

    d = ctx.sub("c20-long")
    scn_path, out_path = os.path.join(d, "scn.ndjson"), os.path.join(d, "out.ndjson")
    with open(scn_path, "w") as f:
        for s in scns:
            f.write(json.dumps(scn_line(s)) + "\n")
    results = run_harness(ctx, scn_path, out_path, len(scns))
    todo = []
    for s in scns:
        for r in results[s["id"]]:
            lc["executions"] += len(r["m"])
            for m in r["m"]:
                lc["modes"][m] = lc["modes"].get(m, 0) + 1
            todo.append((s, r))
    for m in LONG_MODES:
        if lc["modes"].get(m, 0) != n:
            raise vlib.Undecided("long inputs: read schedule '%s' ran %d of %d inputs" % (m, lc["modes"].get(m, 0), n))
    verdicts = judge(ctx, [dict(id=i + 1, keys=s["keys"], obs=r["obs"]) for i, (s, r) in enumerate(todo)], "long")
    lc["judged_by_tlc"] = len(todo)
    rejected = []
    for i, (s, r) in enumerate(todo):
        v = verdicts[i + 1]
        if not v["wellformed"]:
            raise vlib.Undecided("long input %d is not a well-formed input according to ConsoleJudge.WellFormed (generator bug)" % s["id"])
        if v["accept"] and v["literals"] and not r.get("err"):
            lc["accepted"] += len(r["m"])
            if s["id"] == 1:
                lc["statements"] = v["stmts"]
        else:
            rejected.append(dict(scn=s, run=r, verdict=v, diff=first_diff(text(s["keys"]), [text(o) for o in r["obs"]])))
    lc["rejected"] = sum(len(x["run"]["m"]) for x in rejected)
    s0 = scns[0]
    cov["samples"].append(dict(long_input=text(s0["keys"]), bytes=len(s0["keys"]), schedules=LONG_MODES,
                               observed=[dict(schedules=x["m"], statements=[text(o) for o in x["obs"]]) for x in results[1]]))
    return confirm(ctx, rejected, "long")


# ---------------------------------------------------------------- the line editor (ConsoleEdit.tla), beyond what C20 quantifies over

EDIT = {"quick": (5, 8, 2), "thorough": (5, 9, 3)}      # MaxLen, MaxKeys, MaxOut


def edit_cfg(maxlen, maxkeys, maxout):
    return """CONSTANTS
  Letters = {97}
  Extra = {}
  BreakInLiterals = TRUE
  EChars = {97, 32, 59, 39}
  HistMax = 100
  MaxLen = %d
  MaxKeys = %d
  MaxOut = %d
  EmitOn = TRUE
INIT EdInit
NEXT MCNext
VIEW View
ACTION_CONSTRAINT Emit
INVARIANTS EdTypeOK HandedAreStatements HistIsTailOfOut ShownIsHistory
PROPERTIES OnlyEnterHandsOver EnterLosesNothing RefinesConsole
CHECK_DEADLOCK FALSE
""" % (maxlen, maxkeys, maxout)


EDIT_KEYS = {1: "Home", 2: "Left", 4: "DelChar", 5: "End", 6: "Right", 11: "KillEnd", 14: "Down", 16: "Up", 21: "KillStart",
             23: "DelWord", 127: "Backspace", 1001: "WordLeft", 1002: "WordRight", 13: "Enter"}


def keys_text(keys):
    return " ".join("<%s>" % EDIT_KEYS[k] if k in EDIT_KEYS else chr(k) if k != 32 else "<Space>" for k in keys)


def run_editor(ctx, cov):
    """Spec -> code for ConsoleEdit.tla: every transition TLC explores in the bounded editor (characters typed at the cursor,
    the cursor and erasing keys, the history ring, Enter anywhere) is pressed on the real Terminal, one key per read, with the
    control-byte and the escape-sequence spelling of the keys; line, cursor, history position and the statements handed over
    must be those of the specification.  Inputs with editing keys are outside what C20 quantifies over (statements and line
    breaks), so a difference here is reported as a NOTE and recorded in the evidence - it is never a verdict on C20."""
    maxlen, maxkeys, maxout = EDIT[ctx.tier]
    ec = cov["editor"]
    d = ctx.sub("c20-edit")
    scn_path, out_path = os.path.join(d, "scn.ndjson"), os.path.join(d, "out.ndjson")
    n = 0
    kinds = {}
    with open(scn_path, "w") as f:
        def on_scn(kind, o):
            nonlocal n
            n += 1
            o["id"] = n
            k = o["keys"][-1]
            name = EDIT_KEYS.get(k, "Ins")
            if name == "Enter":
                name = "Enter/hands-over" if len(o["out"]) and o["buf"] == [] and o["nh"] else "Enter"
            kinds[name] = kinds.get(name, 0) + 1
            if o["hidx"] >= 0:
                kinds["history-shown"] = kinds.get("history-shown", 0) + 1
            if o["pos"] < len(o["buf"]):
                kinds["cursor-inside-line"] = kinds.get("cursor-inside-line", 0) + 1
            f.write(json.dumps(o) + "\n")
        res = vlib.run_tlc(ctx, "ConsoleEditMC", "ConsoleEditMC_gen.cfg", cfg_text=edit_cfg(maxlen, maxkeys, maxout),
                           tag="edit", timeout=1500, on_scn=on_scn)
    vlib.tlc_must_ok(ctx, res, "ConsoleEditMC")
    ec.update(max_len=maxlen, max_keys=maxkeys, max_out=maxout, distinct=res.distinct, transitions=res.generated, scenarios=n,
              last_key=kinds, tlc_wall_s=round(res.wall, 1),
              invariants=["EdTypeOK", "HandedAreStatements", "HistIsTailOfOut", "ShownIsHistory"],
              action_properties=["OnlyEnterHandsOver", "EnterLosesNothing", "RefinesConsole"])
    for k in list(EDIT_KEYS.values()) + ["Ins", "Enter/hands-over", "history-shown", "cursor-inside-line"]:
        if k != "Enter" and kinds.get(k, 0) == 0:
            raise vlib.Undecided("vacuous: ConsoleEditMC explored no transition of kind '%s'" % k)
    r = vlib.go_test_inpkg(ctx, "cmd/console", "zz_verif_consoleedit_test.go", run="TestVerifConsoleEdit",
                           env_extra={"VERIF_CE_SCN": scn_path, "VERIF_CE_OUT": out_path}, timeout=1500)
    if r.returncode != 0 or not os.path.exists(out_path):
        raise vlib.Undecided("console editor harness failed (rc=%s):\n%s" % (r.returncode, (r.stdout + r.stderr)[-3000:]))
    diffs, summary = [], None
    with open(out_path) as f:
        for line in f:
            o = json.loads(line)
            if o.get("summary"):
                summary = o
            else:
                diffs.append(o)
    if not summary or summary["scenarios"] != n:
        raise vlib.Undecided("console editor harness answered %s of %d scenarios" % (summary and summary["scenarios"], n))
    ec.update(executions=summary["executions"], differing=summary["differing"])
    cov["states"] += res.distinct
    cov["transitions"] += res.generated
    if diffs:
        diffs.sort(key=lambda o: (len(o["keys"]), o["keys"]))
        for o in diffs[:3]:
            last = o["snaps"][-1] if o.get("snaps") else {}
            ec["differences"].append(dict(keys=keys_text(o["keys"]), spelling=o["mode"], error=o.get("err", ""),
                                          line_expected=text(o["want"]["line"]), line_observed=text(last.get("line", [])),
                                          cursor_expected=o["want"]["pos"], cursor_observed=last.get("pos"),
                                          handed_expected=[text(x) for x in o["want_out"]], handed_observed=[text(x) for x in o["obs"]]))
        x = ec["differences"][0]
        ctx.note("the console's line editor differs from ConsoleEdit.tla on %d of %d executions (editing keys are outside what C20 "
                 "quantifies over: reported, not a verdict); shortest: keys %s -> line %r cursor %s handed %r, specification: line %r "
                 "cursor %s handed %r%s" % (summary["differing"], summary["executions"], x["keys"], x["line_observed"], x["cursor_observed"],
                                            x["handed_observed"], x["line_expected"], x["cursor_expected"], x["handed_expected"],
                                            (" (%s)" % x["error"]) if x["error"] else ""))


def new_cov():
    return dict(states=0, transitions=0, traces_validated_against_impl=0, samples=[], exhaustive=True, scenarios=0,
                executions=0, modes={}, kinds={}, paste_indicator_returns=0, mismatch_groups=0, judged_by_tlc=0,
                rejected_by_model_invariant=0, drift=0, drift_samples=[], rejected=0, rejected_by_signature={}, configs=[],
                editor=dict(differences=[]),
                long=dict(inputs=0, executions=0, bytes_min=0, bytes_max=0, statements=0, judged_by_tlc=0, accepted=0,
                          rejected=0, modes={}, kinds={}, straddles={}, multibyte_straddling_a_read_boundary=0))


def run_replay(ctx):
    """./check C20 --replay <file>: feed the recorded keys again, let TLC judge every schedule's output."""
    p = json.load(open(ctx.replay))
    keys = p["keys"]
    d = ctx.sub("replay")
    scn_path, out_path = os.path.join(d, "scn.ndjson"), os.path.join(d, "out.ndjson")
    with open(scn_path, "w") as f:
        f.write(json.dumps(scn_line(dict(id=1, keys=keys, modes=p.get("modes")))) + "\n")
    runs = run_harness(ctx, scn_path, out_path, 1)[1]
    verdicts = judge(ctx, [dict(id=i + 1, keys=keys, obs=r["obs"]) for i, r in enumerate(runs)], "replay")
    bad = 0
    for i, r in enumerate(runs):
        v = verdicts[i + 1]
        ok = v["accept"] and v["literals"] and not r.get("err")
        print("replay input=%r schedules=%s observed=%r %s" % (text(keys)[:300], ",".join(r["m"]), [text(o)[:80] for o in r["obs"]][:12],
                                                              "accepted" if ok else "REJECTED by Console.tla"), flush=True)
        if not ok:
            bad += 1
            naive = p.get("observed_bytes") if p.get("signature") == FINDING else None
            known = naive is not None and r["obs"] == naive
            vlib.report_violation(ctx, dict(kind="console-replay", signature=p.get("signature", "replay"), keys=keys,
                                            modes=p.get("modes") or MODES,
                                            input=text(keys), read_schedules=r["m"], expected=p.get("expected"),
                                            observed=[text(o) for o in r["obs"]], observed_bytes=r["obs"],
                                            expected_bytes=p.get("expected_bytes"), tlc_verdict=v, replay_of=ctx.replay),
                                  signature=p.get("signature", "replay"), finding_ids=[FINDING] if known else [])
    # a replay does not rewrite the tier's evidence file


ASSUMPTIONS = [
    "TLC/SANY and the CommunityModules Json module are correct",
    "the in-package harness zz_verif_console_test.go only feeds bytes to Terminal.ReadLine and copies what it returns",
    "Enter is byte 13; a line break inside a literal is outside the property (not expressible in mkdb's SQL)",
    "ErrPasteIndicator returned together with a line is not an error (the line is still handed over)",
    "bounded: all key sequences up to MaxKeys over {letters, space, ;, ', \", backslash} plus Enter; beyond that only "
    "seeded random inputs of 200..1200 bytes; unbounded lengths are not proved",
    "inside a literal a backslash makes the next character literal (mkdb's SQL scanner); outside it is ordinary",
    "long inputs: the generator only composes bytes; that an input obeys the environment assumption (WellFormed) and "
    "what its statements are is evaluated by TLC",
]


def run(ctx):
    if getattr(ctx, "replay", None):
        return run_replay(ctx)
    cov = new_cov()
    all_rejected = []
    for idx, mc in enumerate(MC[ctx.tier]):
        letters, extra, maxkeys, maxenters = mc[:4]
        inlit = len(mc) > 4 and mc[4]
        scns = []
        d = ctx.sub("c20-%d" % idx)
        scn_path, out_path = os.path.join(d, "scn.ndjson"), os.path.join(d, "out.ndjson")
        with open(scn_path, "w") as f:
            def on_scn(kind, o):
                o["id"] = len(scns) + 1
                scns.append(o)
                f.write('{"id":%d,"keys":%s}\n' % (o["id"], json.dumps(o["keys"])))
            res = vlib.run_tlc(ctx, "ConsoleMC", "ConsoleMC_gen.cfg", cfg_text=mc_cfg(letters, extra, maxkeys, maxenters, inlit),
                               tag=str(idx), timeout=1500, on_scn=on_scn)
        vlib.tlc_must_ok(ctx, res, "ConsoleMC %d" % idx)
        if not scns:
            raise vlib.Undecided("ConsoleMC emitted no scenarios")
        cov["states"] += res.distinct
        cov["transitions"] += res.generated
        cov["scenarios"] += len(scns)
        cov["configs"].append(dict(letters=letters, extra=extra, max_keys=maxkeys, max_enters=maxenters, distinct=res.distinct,
                                   generated=res.generated, scenarios=len(scns), tlc_wall_s=round(res.wall, 1),
                                   tainted=sum(1 for s in scns if s["taint"])))
        for s in scns:
            for k in kinds_of(s["keys"]):
                cov["kinds"][k] = cov["kinds"].get(k, 0) + 1
        results = run_harness(ctx, scn_path, out_path, len(scns))
        rejected = evaluate(ctx, scns, results, cov, str(idx))
        rejected = confirm(ctx, rejected, str(idx))
        all_rejected += rejected
        # samples: the longest few inputs that mention a literal with a semicolon / several lines
        for s in scns:
            if len(cov["samples"]) >= 2 * (idx + 1):
                break
            ks = kinds_of(s["keys"])
            if len(s["keys"]) == maxkeys and "statement_across_lines" in ks and ("literal" in ks):
                r = results[s["id"]]
                cov["samples"].append(dict(input=text(s["keys"]), keys=s["keys"], expected=[text(e) for e in s["exp"]],
                                           observed=[dict(schedules=x["m"], statements=[text(o) for o in x["obs"]]) for x in r],
                                           taint=s["taint"]))
    for k in NEED_KINDS:
        if cov["kinds"].get(k, 0) == 0:
            raise vlib.Undecided("vacuous: no scenario exercised '%s'" % k)
    for m in MODES:
        if cov["modes"].get(m, 0) != cov["scenarios"]:
            raise vlib.Undecided("read schedule '%s' ran %d of %d scenarios" % (m, cov["modes"].get(m, 0), cov["scenarios"]))
    if cov["paste_indicator_returns"] == 0:
        raise vlib.Undecided("vacuous: bracketed paste never produced ErrPasteIndicator")
    if not cov["samples"]:
        raise vlib.Undecided("no sample scenario found for the evidence file")
    all_rejected += run_long(ctx, cov)
    run_editor(ctx, cov)
    cov["rejected"] = len(all_rejected)
    cov["rejected_by_signature"] = report(ctx, all_rejected)
    if cov["drift"]:
        ctx.note("%d executions differed from the machine's output only in whitespace between tokens (accepted by TLC)" % cov["drift"])
    cov["traces_validated_against_impl"] = cov["executions"] + cov["long"]["executions"]
    vlib.write_evidence(ctx, "model_checking", cov, assumptions=ASSUMPTIONS)
