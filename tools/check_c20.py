"""C20 - the console submits exactly the statements that were typed.

Spec -> code: ConsoleMC.tla enumerates every key sequence (characters and
line breaks outside literals) up to a bound; each complete behaviour is
printed with the statements the specification's machine hands over.  The
in-package harness feeds the keys to the real Terminal.ReadLine under six
read schedules (typed, line by line, pasted, bracketed paste ...) and reports
what came back.  Literal agreement with the machine's output is the fast path;
whatever differs is judged by TLC itself with the reference meaning of
Console.tla (ConsoleJudge.tla: same statements, once each, in order, equal up
to whitespace between tokens, literals intact) - accepted differences are
drift (NOTE), rejected ones are violations.
"""
import json
import os

import vlib

# tier -> list of (Letters, MaxKeys, MaxEnters)
MC = {
    "quick": [("{97}", 8, 3), ("{97, 98}", 7, 2)],
    "thorough": [("{97}", 10, 4), ("{97, 98}", 9, 3)],
}
MODES = ["typed", "lines", "paste", "bracketed", "bracketed_enter", "bracketed4"]
FINDING = "semicolon-in-quotes"
PER_SIGNATURE = 3        # replay files written per failure signature (shortest inputs first)
JUDGE_SAMPLE = 2000      # outputs equal to the named deviation that are put before the judge again, per configuration

NAMES = {13: "⏎", 32: " ", 59: ";", 39: "'", 34: '"'}


def text(bs):
    return "".join(NAMES.get(b, chr(b)) for b in bs)


def mc_cfg(letters, maxkeys, maxenters):
    return """CONSTANTS
  Letters = %s
  MaxKeys = %d
  MaxEnters = %d
  EmitOn = TRUE
INIT MCInit
NEXT MCNext
ACTION_CONSTRAINT Emit
INVARIANTS TypeOK OutIsPrefix Faithful BufIsRest TaintExact TaintViolates
CHECK_DEADLOCK FALSE
""" % (letters, maxkeys, maxenters)


JUDGE_CFG = """CONSTANTS
  Letters = {97}
INIT JInit
NEXT JNext
CHECK_DEADLOCK FALSE
"""


def kinds_of(keys):
    """Coverage classification of one input (vacuity measurement only, never a verdict)."""
    ks = set()
    q = 0
    line_terms = 0
    stmt_has_cr = False
    for c in keys:
        if q:
            if c == 59:
                ks.add("semicolon_in_literal")
            elif c == 32:
                ks.add("space_in_literal")
            elif c in (39, 34) and c != q:
                ks.add("other_quote_in_literal")
            if c == q:
                q = 0
                ks.add("literal")
            continue
        if c in (39, 34):
            q = c
            ks.add("quote_%d" % c)
        elif c == 59:
            ks.add("terminator")
            line_terms += 1
            if line_terms >= 2:
                ks.add("several_statements_on_one_line")
            if stmt_has_cr:
                ks.add("statement_across_lines")
            stmt_has_cr = False
        elif c == 13:
            ks.add("enter")
            if line_terms == 0:
                ks.add("enter_without_terminator")
            line_terms = 0
            stmt_has_cr = True
        elif c == 32:
            ks.add("space")
        else:
            ks.add("letter")
    return ks


NEED_KINDS = ["letter", "space", "terminator", "enter", "quote_39", "quote_34", "literal", "semicolon_in_literal",
              "space_in_literal", "other_quote_in_literal", "several_statements_on_one_line",
              "statement_across_lines", "enter_without_terminator"]


def run_harness(ctx, scn_path, out_path, n):
    r = vlib.go_test_inpkg(ctx, "cmd/console", "zz_verif_console_test.go", run="TestVerifConsole",
                           env_extra={"VERIF_C20_SCN": scn_path, "VERIF_C20_OUT": out_path,
                                      "VERIF_C20_MODES": ",".join(MODES)}, timeout=1500)
    if r.returncode != 0:
        raise vlib.Undecided("console harness failed (rc=%s):\n%s" % (r.returncode, (r.stdout + r.stderr)[-4000:]))
    if not os.path.exists(out_path):
        raise vlib.Undecided("console harness wrote no result file:\n%s" % (r.stdout + r.stderr)[-2000:])
    res = {}
    with open(out_path) as f:
        for line in f:
            o = json.loads(line)
            res[o["id"]] = o["r"]
    if len(res) != n:
        raise vlib.Undecided("console harness answered %d of %d scenarios" % (len(res), n))
    return res


def judge(ctx, entries, tag):
    """entries: list of dict(id, keys, obs). Returns {id: verdict} as decided by TLC (ConsoleJudge.tla)."""
    if not entries:
        return {}
    out = {}
    for start in range(0, len(entries), 20000):
        part = entries[start:start + 20000]
        blob = "".join(json.dumps(e) + "\n" for e in part)
        got = []
        res = vlib.run_tlc(ctx, "ConsoleJudge", "ConsoleJudge_run.cfg", cfg_text=JUDGE_CFG, workers=1, timeout=900,
                           tag="%s-%d" % (tag, start), files={"judge.ndjson": blob}, on_scn=lambda k, o: got.append(o))
        vlib.tlc_must_ok(ctx, res, "ConsoleJudge %s" % tag)
        if len(got) != len(part):
            raise vlib.Undecided("ConsoleJudge answered %d of %d entries" % (len(got), len(part)))
        for v in got:
            out[v["id"]] = v
    return out


def evaluate(ctx, scns, results, cov, tag):
    """Compare real output with the specification. Returns list of confirmed-by-TLC rejections:
    dict(scn, modes, obs, err, left, verdict)."""
    mism = []     # (scenario, run)
    for s in scns:
        for r in results[s["id"]]:
            cov["executions"] += len(r["m"])
            for m in r["m"]:
                cov["modes"][m] = cov["modes"].get(m, 0) + 1
            cov["paste_indicator_returns"] += r.get("paste", 0)
            if r.get("err") or r["obs"] != s["exp"]:
                mism.append((s, r))
    cov["mismatch_groups"] += len(mism)
    if not mism:
        return []
    # Mismatches that are literally the output of the named deviation (ConsoleMC.NaiveSplit) on a
    # tainted input are rejected by the invariant TaintViolates, which TLC checked in this very run
    # for every emitted behaviour; only a sample of them is put before the judge again (cross-check).
    # Every other mismatch is judged individually.
    naive = sorted([(s, r) for (s, r) in mism if s["taint"] and not r.get("err") and r["obs"] == s.get("naive")],
                   key=lambda x: (len(x[0]["keys"]), x[0]["keys"]))
    other = [(s, r) for (s, r) in mism if not (s["taint"] and not r.get("err") and r["obs"] == s.get("naive"))]
    sample = naive[:JUDGE_SAMPLE]
    todo = other + sample
    entries = [dict(id=i + 1, keys=s["keys"], obs=r["obs"]) for i, (s, r) in enumerate(todo)]
    verdicts = judge(ctx, entries, tag)
    rejected = []
    for i, (s, r) in enumerate(todo):
        v = verdicts[i + 1]
        # a harness-level error (panic, error other than EOF, runaway) is never an orderly hand-over
        ok = v["accept"] and v["literals"] and not r.get("err")
        if ok and i >= len(other):
            raise vlib.Undecided("ConsoleJudge accepted an output that the invariant TaintViolates rejects: %r" % (s,))
        if ok:
            cov["drift"] += 1
            if len(cov["drift_samples"]) < 3:
                cov["drift_samples"].append(dict(keys=text(s["keys"]), modes=r["m"], machine=[text(x) for x in s["exp"]],
                                                 observed=[text(x) for x in r["obs"]]))
        else:
            rejected.append(dict(scn=s, run=r, verdict=v))
    for (s, r) in naive[JUDGE_SAMPLE:]:
        rejected.append(dict(scn=s, run=r, verdict=dict(accept=False, literals=False, count=False,
                                                        by="invariant TaintViolates of ConsoleMC (checked by TLC in this run)")))
    cov["judged_by_tlc"] += len(todo)
    cov["rejected_by_model_invariant"] += max(0, len(naive) - JUDGE_SAMPLE)
    return rejected


def report(ctx, rejected, results2=None):
    """Write replay files / verdicts for rejections (grouped by signature, shortest first)."""
    groups = {}
    for x in rejected:
        s, r = x["scn"], x["run"]
        known = bool(s["taint"]) and s.get("naive") is not None and r["obs"] == s["naive"] and not r.get("err")
        if known:
            sig = FINDING
        elif r.get("err"):
            sig = "error:" + r["err"][:40]
        else:
            sig = "wrong-statements" + ("/count" if not x["verdict"]["count"] else "") + \
                  ("/literal" if not x["verdict"]["literals"] else "")
        groups.setdefault(sig, []).append(x)
    for sig, xs in sorted(groups.items()):
        xs.sort(key=lambda x: (len(x["scn"]["keys"]), x["scn"]["keys"]))
        for x in xs[:PER_SIGNATURE]:
            s, r = x["scn"], x["run"]
            payload = dict(kind="console-replay", signature=sig, failures_with_this_signature=len(xs),
                           keys=s["keys"], input=text(s["keys"]), read_schedules=r["m"],
                           expected=[text(e) for e in s["exp"]], observed=[text(o) for o in r["obs"]],
                           expected_bytes=s["exp"], observed_bytes=r["obs"], harness_error=r.get("err", ""),
                           buffer_left=text(r.get("left") or []), taint=s["taint"], tlc_verdict=x["verdict"],
                           how="keys are byte values fed to Terminal.ReadLine (13 = Enter, shown as ⏎); expected = statements "
                               "Console.tla hands over; the rejection was decided by TLC (ConsoleJudge.tla)")
            vlib.report_violation(ctx, payload, signature=sig, finding_ids=[FINDING] if sig == FINDING else [])
    return {k: len(v) for k, v in groups.items()}


def confirm(ctx, rejected, tag):
    """DESIGN 5.1: repeat the failing scenarios once from scratch; keep those that fail identically."""
    if not rejected:
        return []
    uniq = {}
    for x in rejected:
        uniq.setdefault(x["scn"]["id"], x["scn"])
    scns = list(uniq.values())
    d = ctx.sub("confirm-" + tag)
    scn_path, out_path = os.path.join(d, "scn.ndjson"), os.path.join(d, "out.ndjson")
    with open(scn_path, "w") as f:
        for s in scns:
            f.write(json.dumps(dict(id=s["id"], keys=s["keys"])) + "\n")
    again = run_harness(ctx, scn_path, out_path, len(scns))
    kept = []
    for x in rejected:
        r = x["run"]
        same = [r2 for r2 in again[x["scn"]["id"]] if r2["obs"] == r["obs"] and r2.get("err", "") == r.get("err", "")
                and set(r["m"]) <= set(r2["m"])]
        if same:
            kept.append(x)
    if len(kept) != len(rejected):
        raise vlib.Undecided("%d of %d failing console scenarios did not fail again when repeated" %
                             (len(rejected) - len(kept), len(rejected)))
    return kept


def new_cov():
    return dict(states=0, transitions=0, traces_validated_against_impl=0, samples=[], exhaustive=True, scenarios=0,
                executions=0, modes={}, kinds={}, paste_indicator_returns=0, mismatch_groups=0, judged_by_tlc=0,
                rejected_by_model_invariant=0, drift=0, drift_samples=[], rejected=0, rejected_by_signature={}, configs=[])


def run_replay(ctx):
    """./check C20 --replay <file>: feed the recorded keys again, let TLC judge every schedule's output."""
    p = json.load(open(ctx.replay))
    keys = p["keys"]
    d = ctx.sub("replay")
    scn_path, out_path = os.path.join(d, "scn.ndjson"), os.path.join(d, "out.ndjson")
    with open(scn_path, "w") as f:
        f.write(json.dumps(dict(id=1, keys=keys)) + "\n")
    runs = run_harness(ctx, scn_path, out_path, 1)[1]
    verdicts = judge(ctx, [dict(id=i + 1, keys=keys, obs=r["obs"]) for i, r in enumerate(runs)], "replay")
    bad = 0
    for i, r in enumerate(runs):
        v = verdicts[i + 1]
        ok = v["accept"] and v["literals"] and not r.get("err")
        print("replay input=%r schedules=%s observed=%r %s" % (text(keys), ",".join(r["m"]), [text(o) for o in r["obs"]],
                                                              "accepted" if ok else "REJECTED by Console.tla"), flush=True)
        if not ok:
            bad += 1
            naive = p.get("observed_bytes") if p.get("signature") == FINDING else None
            known = naive is not None and r["obs"] == naive
            vlib.report_violation(ctx, dict(kind="console-replay", signature=p.get("signature", "replay"), keys=keys,
                                            input=text(keys), read_schedules=r["m"], expected=p.get("expected"),
                                            observed=[text(o) for o in r["obs"]], observed_bytes=r["obs"],
                                            expected_bytes=p.get("expected_bytes"), tlc_verdict=v, replay_of=ctx.replay),
                                  signature=p.get("signature", "replay"), finding_ids=[FINDING] if known else [])
    # a replay does not rewrite the tier's evidence file


ASSUMPTIONS = [
    "TLC/SANY and the CommunityModules Json module are correct",
    "the in-package harness zz_verif_console_test.go only feeds bytes to Terminal.ReadLine and copies what it returns",
    "Enter is byte 13; a line break inside a literal is outside the property (not expressible in mkdb's SQL)",
    "ErrPasteIndicator returned together with a line is not an error (the line is still handed over)",
    "bounded: all key sequences up to MaxKeys over {letters, space, ;, ', \"} plus Enter; unbounded lengths are not proved",
]


def run(ctx):
    if getattr(ctx, "replay", None):
        return run_replay(ctx)
    cov = new_cov()
    all_rejected = []
    for idx, (letters, maxkeys, maxenters) in enumerate(MC[ctx.tier]):
        scns = []
        d = ctx.sub("c20-%d" % idx)
        scn_path, out_path = os.path.join(d, "scn.ndjson"), os.path.join(d, "out.ndjson")
        with open(scn_path, "w") as f:
            def on_scn(kind, o):
                o["id"] = len(scns) + 1
                scns.append(o)
                f.write('{"id":%d,"keys":%s}\n' % (o["id"], json.dumps(o["keys"])))
            res = vlib.run_tlc(ctx, "ConsoleMC", "ConsoleMC_gen.cfg", cfg_text=mc_cfg(letters, maxkeys, maxenters),
                               tag=str(idx), timeout=1500, on_scn=on_scn)
        vlib.tlc_must_ok(ctx, res, "ConsoleMC %d" % idx)
        if not scns:
            raise vlib.Undecided("ConsoleMC emitted no scenarios")
        cov["states"] += res.distinct
        cov["transitions"] += res.generated
        cov["scenarios"] += len(scns)
        cov["configs"].append(dict(letters=letters, max_keys=maxkeys, max_enters=maxenters, distinct=res.distinct,
                                   generated=res.generated, scenarios=len(scns), tlc_wall_s=round(res.wall, 1),
                                   tainted=sum(1 for s in scns if s["taint"])))
        for s in scns:
            for k in kinds_of(s["keys"]):
                cov["kinds"][k] = cov["kinds"].get(k, 0) + 1
        results = run_harness(ctx, scn_path, out_path, len(scns))
        rejected = evaluate(ctx, scns, results, cov, str(idx))
        rejected = confirm(ctx, rejected, str(idx))
        all_rejected += rejected
        # samples: the longest few inputs that mention a literal with a semicolon / several lines
        for s in scns:
            if len(cov["samples"]) >= 2 * (idx + 1):
                break
            ks = kinds_of(s["keys"])
            if len(s["keys"]) == maxkeys and "statement_across_lines" in ks and ("literal" in ks):
                r = results[s["id"]]
                cov["samples"].append(dict(input=text(s["keys"]), keys=s["keys"], expected=[text(e) for e in s["exp"]],
                                           observed=[dict(schedules=x["m"], statements=[text(o) for o in x["obs"]]) for x in r],
                                           taint=s["taint"]))
    for k in NEED_KINDS:
        if cov["kinds"].get(k, 0) == 0:
            raise vlib.Undecided("vacuous: no scenario exercised '%s'" % k)
    for m in MODES:
        if cov["modes"].get(m, 0) != cov["scenarios"]:
            raise vlib.Undecided("read schedule '%s' ran %d of %d scenarios" % (m, cov["modes"].get(m, 0), cov["scenarios"]))
    if cov["paste_indicator_returns"] == 0:
        raise vlib.Undecided("vacuous: bracketed paste never produced ErrPasteIndicator")
    if not cov["samples"]:
        raise vlib.Undecided("no sample scenario found for the evidence file")
    cov["rejected"] = len(all_rejected)
    cov["rejected_by_signature"] = report(ctx, all_rejected)
    if cov["drift"]:
        ctx.note("%d executions differed from the machine's output only in whitespace between tokens (accepted by TLC)" % cov["drift"])
    cov["traces_validated_against_impl"] = cov["executions"]
    vlib.write_evidence(ctx, "model_checking", cov, assumptions=ASSUMPTIONS)
