"""C11 - the on-disk B+ tree keeps its shape invariants.

Design level: TreesOK (BTree!TreeOK for every tree of the file) is an invariant of every Store.tla
configuration that C01-C04/C14/C16 run.  Code level (the verdict): insert-heavy TLC-generated
histories (two tables sharing one file, deletes, updates, flushes, crash+recovery in between) are
executed on the real engine at capacities 3/3 (three tree levels within a handful of statements);
after every path the raw page graph of every tree is recorded and TLC evaluates TreeOK on it
(TreeTrace.tla); the engine's own point lookup and backward scan are run on every stored key.
"""
import json
import os

import vlib
import storelib

CFGS = {
    "quick": [("c11-a", dict(MaxStmts=7, MaxRows=3, MaxFlush=1, MaxEvict=1, Tables='{"t1"}', Vals="{1}", Ops='{"create", "insert", "delete"}'), 12000),
              ("c11-b", dict(MaxStmts=5, MaxRows=3, MaxFlush=0, Vals="{1}", Ops='{"create", "insert"}'), 8000),
              ("c11-c", dict(CrashAt='{"idle"}', MaxCrash=1, MaxStmts=4, MaxRows=3, MaxFlush=1, Tables='{"t1"}', Vals="{1}"), 6000),
              # two tables whose names differ by case only: root moves of one must never touch the other's catalog row
              ("c11-case", dict(MaxStmts=5, MaxRows=3, MaxFlush=0, Tables='{"t1", "T1"}', Vals="{1}", Ops='{"create", "insert"}'), 6000)],
    "thorough": [("c11-a", dict(EmitMod=8, MaxStmts=9, MaxRows=3, MaxFlush=2, MaxEvict=1, Tables='{"t1"}', Vals="{1}", Ops='{"create", "insert", "delete"}'), 40000),
                 ("c11-b", dict(MaxStmts=7, MaxRows=3, MaxFlush=0, Vals="{1}", Ops='{"create", "insert"}'), 40000),
                 ("c11-c", dict(EmitMod=6, CrashAt='{"idle"}', MaxCrash=2, MaxStmts=6, MaxRows=3, MaxFlush=1, Tables='{"t1"}', Vals="{1}"), 40000),
                 ("c11-d", dict(EmitMod=16, MaxStmts=6, MaxRows=2, MaxFlush=1, Tables='{"t1"}', Vals="{1, 2}"), 40000),
                 ("c11-case", dict(MaxStmts=6, MaxRows=3, MaxFlush=1, Tables='{"t1", "T1"}', Vals="{1}", Ops='{"create", "insert", "delete"}'), 40000)],
}

TT_CFG = """CONSTANTS
  LeafCap = %d
  IntCap = %d
  FixSplitTomb = TRUE
INIT Init
NEXT Next
INVARIANT AllOK
POSTCONDITION Done
CHECK_DEADLOCK FALSE
"""


def _judge_chunk(ctx, graphs, idxs, caps, tag):
    """One TLC process walks the graphs idxs in order; after a failing graph it is restarted behind it."""
    bad = []
    todo = list(idxs)
    rounds = 0
    while todo and rounds < 6:
        rounds += 1
        nd = "".join(graphs[i] + "\n" for i in todo)
        res = vlib.run_tlc(ctx, "TreeTrace", "TreeTrace.cfg", cfg_text=TT_CFG % tuple(caps), workers=1, timeout=1800,
                           tag="%s-%d" % (tag, rounds), files={"graphs.ndjson": nd}, xss="512m", heap="3g")
        if res.status == "ok":
            break
        if res.violated != "AllOK":
            raise vlib.Undecided("TreeTrace: TLC failed\n" + "\n".join(res.out[-30:]))
        pos = None
        for line in res.out:
            line = line.strip()
            if line.startswith("i = ") or line.startswith("/\\ i = "):
                pos = int(line.split("=")[1])
        if pos is None:
            raise vlib.Undecided("TreeTrace: violated but no position\n" + "\n".join(res.out[-30:]))
        bad.append(todo[pos - 1])
        todo = todo[pos:]
    return bad


def judge_graphs(ctx, graphs, caps, tag, cov):
    """graphs: list of (graph, origin, levels). TLC evaluates TreeOK on each distinct graph (many paths end in the same
    pages), several TLC processes side by side; returns the indices (into graphs) of those that fail."""
    from concurrent.futures import ThreadPoolExecutor
    texts, first, members = [], {}, {}
    for i, g in enumerate(graphs):
        t = json.dumps(g[0], sort_keys=True)
        if t not in first:
            first[t] = len(texts)
            texts.append(t)
        members.setdefault(first[t], []).append(i)
    k = max(1, min(8, vlib.NCPU // 2, (len(texts) + 1999) // 2000))
    size = (len(texts) + k - 1) // k
    chunks = [list(range(j, min(len(texts), j + size))) for j in range(0, len(texts), size)]
    with ThreadPoolExecutor(max_workers=k) as ex:
        res = list(ex.map(lambda a: _judge_chunk(ctx, texts, a[1], caps, "%s-%d" % (tag, a[0])), list(enumerate(chunks))))
    bad = [i for r in res for d in r for i in members[d]]
    cov["graphs_judged_by_tlc"] = cov.get("graphs_judged_by_tlc", 0) + len(graphs)
    cov["distinct_graphs_judged_by_tlc"] = cov.get("distinct_graphs_judged_by_tlc", 0) + len(texts)
    return sorted(bad)


def run(ctx):
    binary = vlib.build_harness(ctx, "store")
    if ctx.replay:
        return storelib.replay_file(ctx, binary, ctx.replay)
    cov = storelib.new_cov()
    pool = vlib.WorkerPool(ctx, binary)
    graphs = []
    depth3 = [0]

    try:
        for name, over, sample in CFGS[ctx.tier]:
            run_ = storelib.StoreRun(ctx, name, over, sample=sample, probes=False)
            def on_violation(r_, req, r):
                storelib.default_violation(ctx)(r_, req, r)
            # collect graphs through a wrapper around on_result: StoreRun passes results to cov only, so ask for dumps
            run_.dump = True
            st = run_with_dump(run_, pool, on_violation, cov, graphs)
        # production capacities 9/290: enough rows for an internal node to split (a third level), graphs every 40 statements
        seeds = [ctx.seed * 1000 + i for i in range(2 if ctx.quick() else 12)]
        agg = storelib.random_runs(ctx, pool, cov, [dict(seed=sd, n=(300 if ctx.quick() or i % 3 == 1 else 900), caps=([] if i % 3 != 1 else [5, 4]), cache=0, pcrash=(0.03 if i % 2 else 0), pflush=0.05,
                                                         wal=False, maxrows=30, bias="grow", graphevery=(100 if ctx.quick() else 40)) for i, sd in enumerate(seeds)])
        cov["random_max_levels"] = agg["max_tree_levels"]
    finally:
        pool.close()
    if not graphs:
        raise vlib.Undecided("no page graphs recorded")
    levels = max(g[2] for g in graphs)
    cov["max_tree_levels_seen"] = levels
    if levels < 3:
        raise vlib.Undecided("vacuous: no tree with internal nodes below the root was produced (max levels %d)" % levels)
    bad = judge_graphs(ctx, graphs, [3, 3], "mc", cov)
    for i in bad:
        g, origin, _ = graphs[i]
        vlib.report_violation(ctx, dict(kind="tree-shape", steps=origin["steps"], graph=g, scenario=storelib.strip(origin),
                                        detail=["TreeOK (BTree.tla) is false for the recorded page graph"]),
                              signature="treeok", finding_ids=list(origin.get("taint") or []))
    vlib.write_evidence(ctx, "model_checking", cov, assumptions=[
        "TLC, SANY, CommunityModules (Json)", "capacity override 3/3 (hook verifIsFull)",
        "the projection harness/overlay/storage/zz_verif_store.go (VerifDumpView) serialises pages without judging them"])


def levels_of(g):
    byid = {p["id"]: p for p in g["pages"]}
    best = 0
    for r in g["roots"]:
        d, cur = 1, byid.get(r)
        while cur is not None and cur["kind"] == "I" and cur["kids"] and d < 10:
            cur = byid.get(cur["kids"][0])
            d += 1
        best = max(best, d)
    return best


def run_with_dump(run_, pool, on_violation, cov, graphs):
    """StoreRun.run with dump=True on every scenario and collection of the returned graphs."""
    orig_run_all = pool.run_all

    def run_all(reqs, on_result, chunk=64):
        reqs = list(reqs)
        for r in reqs:
            r["dump"] = True

        def wrapped(req, res):
            g = res.pop("graph", None)
            if g and not req.get("taint"):
                graphs.append((g, dict(steps=req["steps"], taint=req.get("taint"), abs=req.get("abs"), allowed=req.get("allowed"), out=req.get("out")), levels_of(g)))
            on_result(req, res)
        return orig_run_all(reqs, wrapped, chunk)
    pool.run_all = run_all
    try:
        return run_.run(pool, on_violation, cov)
    finally:
        pool.run_all = orig_run_all
