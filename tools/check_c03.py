"""C03 - a crash while a statement is being logged leaves a row-prefix state."""
import vlib
import storelib

WAL = '{"wal"}'
# a crash in a log append also inside a write call: one byte, half, all but one byte of it reached the file
PARTS = "{0, 1, 2, 3}"
CFGS = {
    "quick": [("c03-a", dict(WalSteps="TRUE", WalParts=PARTS, CrashAt=WAL, MaxStmts=3, MaxRows=3, MaxFlush=1, MaxCrash=1, Tables='{"t1"}'), None),
              ("c03-big", dict(WalSteps="TRUE", WalParts=PARTS, CrashAt=WAL, MaxStmts=3, MaxRows=2, MaxFlush=1, MaxCrash=1, Tables='{"t1"}', Vals="{1, 8}", Wheres="{0, 8}"), None),
              ("c03-b", dict(WalSteps="TRUE", WalParts=PARTS, CrashAt=WAL, MaxStmts=4, MaxRows=2, MaxFlush=0, MaxCrash=1, Tables='{"t1"}', Vals="{1}"), None),
              # a flush between statements, then a statement cut in its log append (page LSNs on disk vs record LSNs)
              ("c03-d", dict(WalSteps="TRUE", WalParts=PARTS, CrashAt=WAL, MaxStmts=4, MaxRows=2, MaxFlush=1, MaxCrash=1, Tables='{"t1"}', Vals="{1}"), None),
              # a table grown until its INTERNAL root splits (the tree gets its third level), every log write of those statements cut
              ("c03-deep", dict(WalSteps="TRUE", WalParts=PARTS, CrashAt=WAL, MaxStmts=5, MaxRows=3, MaxFlush=1, MaxCrash=1, Tables='{"t1"}', Vals="{1}",
                                Ops='{"create", "insert"}', Script="<- ScriptGrowDeep", ScriptRows="<- RowsGrowDeep"), None)],
    "thorough": [("c03-a", dict(EmitMod=2, WalSteps="TRUE", WalParts=PARTS, CrashAt=WAL, MaxStmts=4, MaxRows=3, MaxFlush=1, MaxCrash=1, Tables='{"t1"}'), 80000),
                 ("c03-b", dict(EmitMod=2, WalSteps="TRUE", WalParts=PARTS, CrashAt=WAL, MaxStmts=5, MaxRows=4, MaxFlush=1, MaxCrash=2, Tables='{"t1"}', Vals="{1}"), 80000),
                 ("c03-c", dict(WalSteps="TRUE", WalParts=PARTS, CrashAt='{"wal", "idle"}', MaxStmts=4, MaxRows=2, MaxFlush=1, MaxCrash=2, Tables='{"t1"}', Vals="{1}"), 60000),
                 ("c03-deep", dict(WalSteps="TRUE", WalParts=PARTS, CrashAt='{"wal", "idle"}', MaxStmts=5, MaxRows=3, MaxFlush=2, MaxCrash=2, Tables='{"t1"}', Vals="{1}",
                                   Ops='{"create", "insert"}', Script="<- ScriptGrowDeep", ScriptRows="<- RowsGrowDeep"), 60000)],
}


def run(ctx):
    binary = vlib.build_harness(ctx, "store")
    if ctx.replay:
        return storelib.replay_file(ctx, binary, ctx.replay)
    cov = storelib.new_cov()
    pool = vlib.WorkerPool(ctx, binary)
    feats = {}
    try:
        for name, over, sample in CFGS[ctx.tier]:
            st = storelib.StoreRun(ctx, name, dict(over, EmitSel='"crash-wal"'),  sample=sample,
                                   select=lambda sc: any(s["a"] == "crash" and s["at"] == "wal" for s in sc["steps"])).run(pool, storelib.default_violation(ctx), cov)
            for k, v in st["feats"].items():
                feats[k] = feats.get(k, 0) + v
        seeds = [ctx.seed * 1000 + i for i in range(4 if ctx.quick() else 32)]
        agg = storelib.random_runs(ctx, pool, cov, [dict(seed=sd, n=(250 if ctx.quick() else 600), caps=([] if i % 4 else [4, 4]), cache=0, pcrash=0.15, pflush=0.1,
                                                         wal=True, maxrows=(10 if i % 2 else 30), bias=("grow" if i % 2 == 0 else ""))
                                                    for i, sd in enumerate(seeds)])
        if agg["crash_in_log"] == 0:
            raise vlib.Undecided("vacuous: no crash inside a log append in the random runs")
        if not ctx.quick():
            storelib.design_only(ctx, "big", dict(WalSteps="TRUE", WalParts=PARTS, CrashAt='{"wal", "idle"}', MaxStmts=5, MaxRows=3, MaxFlush=1, MaxCrash=2, Tables='{"t1"}', Vals="{1, 2}"), cov, timeout=300)
    finally:
        pool.close()
    cov["random_runs_crash_in_log"] = dict(at_call_boundary_or_inside=agg["crash_in_log"], inside_a_write_call=agg.get("crash_inside_log_write", 0))
    for f in ("crash-wal-len", "crash-wal-body", "crash-wal-sync", "torn-tail", "recover", "crash-wal-inside-len-write", "crash-wal-inside-body-write"):
        if not feats.get(f):
            raise vlib.Undecided("vacuous: crash point kind '%s' never replayed" % f)
    drift = sum(c["drift"] for c in cov["configs"])
    if drift:
        ctx.note("%d replayed scenarios differ from the specification at the page level only" % drift)
    vlib.write_evidence(ctx, "model_checking", cov, assumptions=[
        "TLC, SANY, CommunityModules", "capacity override 3/3 (hook verifIsFull)",
        "crash model: the log is cut at the last fsync(), at the last write(), or inside the write() under way (its first byte, half of it, all but its last byte reached the file: Store!WalParts)",
        "crash images are composed from the bytes the real code wrote (hooks before Write/Sync in wal.flush)"])
