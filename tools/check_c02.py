"""C02 - acknowledged statements survive a crash between statements."""
import vlib
import storelib

IDLE = '{"idle"}'
CFGS = {
    "quick": [("c02-a", dict(CrashAt=IDLE, MaxStmts=4, MaxRows=2, MaxFlush=1, MaxCrash=1, Tables='{"t1"}'), None),
              ("c02-b", dict(CrashAt=IDLE, MaxStmts=4, MaxRows=3, MaxFlush=1, MaxCrash=2, Tables='{"t1"}', Vals="{1}"), None),
              # several CREATE TABLEs between logged statements and a restart (LSN counter vs page LSNs), then root splits
              ("c02-lsn", dict(CrashAt=IDLE, MaxStmts=6, MaxRows=2, MaxFlush=0, MaxCrash=2, Tables='{"t1", "t2", "t3"}', Vals="{1}",
                               DmlTables='{"t1"}', Ops='{"create", "insert"}'), 12000),
              # a multi-level table, a logged insert, then row ids taken by unlogged CREATE TABLEs, a crash, more ids taken
              ("c02-ddl", dict(CrashAt=IDLE, MaxStmts=7, MaxRows=2, MaxFlush=1, MaxCrash=2, Tables='{"t1", "t2", "t3"}', Vals="{1}",
                               DmlTables='{"t1"}', Ops='{"create", "insert"}', Script="<- ScriptGrowThenDdl", ScriptRows="<- RowsGrowThenDdl"), None),
              # refused statements (CREATE TABLE with a column the catalog cannot hold, INSERT with a bad row) between the
              # acknowledged ones: whatever a refused statement leaves behind in memory must not shift what recovery rebuilds
              # rows of exactly 400 bytes (value 8), the empty string (7) and NULL (9): the largest log records there are, and the smallest
              ("c02-big", dict(CrashAt=IDLE, MaxStmts=4, MaxRows=2, MaxFlush=1, MaxCrash=1, Tables='{"t1"}', Vals="{7, 8, 9}", Wheres="{0, 8}"), None),
              ("c02-bad", dict(CrashAt=IDLE, BadMode='"type-size"', MaxStmts=5, MaxRows=3, MaxFlush=0, MaxCrash=1, Tables='{"t1", "t2"}',
                               DmlTables='{"t1"}', Vals="{1}", Ops='{"create", "insert"}'), None)],
    "thorough": [("c02-a", dict(EmitMod=40, CrashAt=IDLE, MaxStmts=5, MaxRows=2, MaxFlush=2, MaxCrash=2, Tables='{"t1"}'), 60000),
                 ("c02-b", dict(EmitMod=30, CrashAt=IDLE, MaxStmts=6, MaxRows=3, MaxFlush=2, MaxCrash=3, Tables='{"t1"}', Vals="{1}"), 60000),
                 ("c02-c", dict(EmitMod=3, CrashAt=IDLE, MaxStmts=5, MaxRows=2, MaxFlush=1, MaxCrash=2, Vals="{1}"), 60000),
                 ("c02-ddl", dict(CrashAt=IDLE, MaxStmts=7, MaxRows=2, MaxFlush=2, MaxCrash=2, Tables='{"t1", "t2", "t3"}', Vals="{1}",
                                  DmlTables='{"t1"}', Ops='{"create", "insert"}', Script="<- ScriptGrowThenDdl", ScriptRows="<- RowsGrowThenDdl"), 60000),
                 ("c02-bad", dict(CrashAt=IDLE, BadMode='"type-size"', MaxStmts=6, MaxRows=3, MaxFlush=1, MaxCrash=1, Tables='{"t1", "t2"}',
                                  DmlTables='{"t1"}', Vals="{1}", Ops='{"create", "insert"}'), 60000),
                 ("c02-lsn", dict(EmitMod=5, CrashAt=IDLE, MaxStmts=7, MaxRows=2, MaxFlush=1, MaxCrash=2, Tables='{"t1", "t2", "t3"}', Vals="{1}",
                                  DmlTables='{"t1"}', Ops='{"create", "insert"}'), 60000)],
}


def run(ctx):
    binary = vlib.build_harness(ctx, "store")
    if ctx.replay:
        return storelib.replay_file(ctx, binary, ctx.replay)
    cov = storelib.new_cov()
    pool = vlib.WorkerPool(ctx, binary)
    try:
        for name, over, sample in CFGS[ctx.tier]:
            # only paths that contain a crash belong to this property (the others are C01's)
            st = storelib.StoreRun(ctx, name, dict(over, EmitSel='"crash"'),  sample=sample,
                                   select=lambda sc: any(s["a"] == "crash" for s in sc["steps"])).run(pool, storelib.default_violation(ctx), cov)
            if st["feats"].get("recover", 0) == 0:
                raise vlib.Undecided("vacuous: no recovery was replayed")
        seeds = [ctx.seed * 1000 + i for i in range(4 if ctx.quick() else 32)]
        agg = storelib.random_runs(ctx, pool, cov, [dict(seed=sd, n=(250 if ctx.quick() else 600), caps=([] if i % 4 else [4, 4]), cache=0, pcrash=0.1, pflush=0.12,
                                                         wal=False, maxrows=(10 if i % 2 else 30), bias=("grow" if i % 2 == 0 else ""))
                                                    for i, sd in enumerate(seeds)])
        if agg["recoveries"] == 0:
            raise vlib.Undecided("vacuous: no recovery in the random runs")
        if not ctx.quick():
            storelib.design_only(ctx, "big", dict(CrashAt='{"idle"}', MaxStmts=6, MaxRows=3, MaxFlush=2, MaxCrash=3, Tables='{"t1"}', Vals="{1, 2}"), cov, timeout=300)
    finally:
        pool.close()
    drift = sum(c["drift"] for c in cov["configs"])
    if drift:
        ctx.note("%d replayed scenarios differ from the specification at the page level only" % drift)
    vlib.write_evidence(ctx, "model_checking", cov, assumptions=[
        "TLC, SANY, CommunityModules", "capacity override 3/3 (hook verifIsFull)",
        "a crash between statements leaves exactly the bytes the process had written (all log writes are fsynced before a statement returns)"])
