#!/usr/bin/env python3
"""usage: benigntest.py <dir-with-changeK/patch.diff> <out.json> <Cxx,Cyy,...>
Behaviour-preserving changes (produced by sub-agents told to perturb internals while keeping all twenty properties):
every listed check must stay quiet on them (exit 0; exit 2 is reported separately, exit 1 is a false alarm to be looked into)."""
import json
import os
import shutil
import sys
import time

import seedtest as st

src, outp, checks = sys.argv[1], sys.argv[2], sys.argv[3].split(",")
res = {}
for k in sorted(os.listdir(src)):
    pf = os.path.join(src, k, "patch.diff")
    if not os.path.exists(pf):
        continue
    name = os.path.basename(src.rstrip("/")) + "-" + k
    wt = "/tmp/seedchk/b-" + name
    st.sh("git -C /repo worktree remove --force %s" % wt)
    shutil.rmtree(wt, ignore_errors=True)
    os.makedirs("/tmp/seedchk", exist_ok=True)
    st.sh("git -C /repo worktree add -q --detach %s HEAD" % wt)
    try:
        rc, out = st.sh("git apply %s" % pf, cwd=wt)
        if rc:
            print(name, "patch does not apply", out[-200:], flush=True)
            continue
        rc, out = st.sh("go build ./... && go test -vet=off -count=1 ./...", cwd=wt, timeout=900)
        if rc:
            print(name, "suite fails", out[-300:], flush=True)
            continue
        r = {}
        for chk in checks:
            t0 = time.time()
            rc, o = st.sh("./check %s --tier quick" % chk, cwd=st.CHK, timeout=3000, env=dict(st.ENV, VERIF_REPO=wt))
            lines = [l[:500] for l in o.splitlines() if l.startswith(("VIOLATION", "UNDECIDED", "KNOWN-FINDING"))]
            first = None
            if rc == 1:
                import re
                for l in lines:
                    m = re.match(r"VIOLATION property=\S+ replay=(\S+)", l)
                    if m and os.path.exists(m.group(1)):
                        try:
                            first = (json.load(open(m.group(1))).get("detail") or [""])[0][:600]
                        except Exception:
                            pass
                        break
                # keep the replay files of a false alarm for inspection
                dst = "/tmp/seedchk/fa-%s-%s" % (name, chk)
                shutil.rmtree(dst, ignore_errors=True)
                if os.path.exists(os.path.join(st.CHK, "replays", chk)):
                    shutil.copytree(os.path.join(st.CHK, "replays", chk), dst)
            shutil.rmtree(os.path.join(st.CHK, "replays", chk), ignore_errors=True)
            r[chk] = dict(exit=rc, wall_s=round(time.time() - t0, 1), lines=lines[:4], first=first)
            print(name, chk, rc, round(time.time() - t0, 1), (first or (lines[:1] if rc else "")), flush=True)
        res[name] = r
        json.dump(res, open(outp, "w"), indent=1)
    finally:
        st.sh("git -C /repo worktree remove --force %s" % wt)
        shutil.rmtree(wt, ignore_errors=True)
