#!/usr/bin/env python3
"""Self-test of the binding (run by setup.sh): a recorded trace with one corrupted field, and one with an event removed,
must be REJECTED by the trace specifications; the untouched traces must be accepted. Exit 0 iff all four behave."""
import json
import os
import sys

sys.path.insert(0, os.path.dirname(os.path.abspath(__file__)))
import vlib  # noqa: E402

LRU = [{"a": "reset", "cap": 2},
       {"a": "set", "k": 1, "v": 10, "d": False, "r": True, "hit": False, "rv": 10, "ev": 0, "order": [1], "dirty": []},
       {"a": "set", "k": 2, "v": 11, "d": False, "r": True, "hit": False, "rv": 11, "ev": 0, "order": [2, 1], "dirty": []},
       {"a": "get", "k": 1, "v": 0, "d": False, "r": True, "hit": True, "rv": 10, "ev": 0, "order": [1, 2], "dirty": []},
       {"a": "set", "k": 3, "v": 12, "d": True, "r": True, "hit": False, "rv": 12, "ev": 2, "order": [3, 1], "dirty": [3]}]
ABS = [{"e": "reset"}, {"e": "create", "t": "t1", "ok": True}, {"e": "insert", "t": "t1", "rows": [1, 2, 3], "ok": True},
       {"e": "cut-insert", "t": "t1", "rows": [4, 5]}, {"e": "pause", "what": "recovered"},
       {"e": "select", "t": "t1", "rows": [1, 2, 3, 4], "exists": True}, {"e": "delete", "t": "t1", "w": 2, "ok": True},
       {"e": "select", "t": "t1", "rows": [1, 3, 4], "exists": True}]

def _o(e, **kw):
    return dict(dict(e=e, id=0, lsn=0, next=0, nx=0), **kw)


ORD = [{"e": "reset"}, {"e": "begin", "k": "create"}, _o("S+"), _o("dirty", id=1, lsn=1), _o("S-"), _o("X+"), _o("page", id=1, lsn=1),
       _o("hdr", next=2, nx=2), _o("X-"), {"e": "result", "ok": True}, {"e": "begin", "k": "insert"}, _o("S+"), _o("dirty", id=1, lsn=2),
       _o("wal", id=1, lsn=2), _o("sync"), _o("S-"), {"e": "result", "ok": True}, _o("X+"), _o("page", id=1, lsn=2), _o("hdr", next=3, nx=2),
       _o("X-"), {"e": "crash", "maxlsn": 2}, _o("X+"), _o("hdr", next=3, nx=2), _o("X-"), {"e": "recovered"}]


def nd(evs):
    return "".join(json.dumps(e) + "\n" for e in evs)


def accepted(ctx, module, cfg, trace, tag, cfg_text=None, fname="trace.ndjson"):
    outs = []
    r = vlib.run_tlc(ctx, module, cfg, workers=1, timeout=120, tag=tag, files={fname: nd(trace)}, on_scn=lambda k, o: outs.append(o), cfg_text=cfg_text)
    if r.status == "ok":
        return True
    if outs and "reached" in outs[-1]:
        return False
    if r.status == "invariant":
        return False
    raise SystemExit("selftest: TLC failed on %s\n%s" % (tag, "\n".join(r.out[-20:])))


def main():
    ctx = vlib.Ctx("SELFTEST", "quick", 1)
    try:
        lcfg = open(os.path.join(vlib.SPEC, "LruTrace.cfg")).read().replace("Cap = 8", "Cap = 2")
        bad_lru = [dict(e) for e in LRU]
        bad_lru[4]["ev"] = 1            # the code "reports" that the more recently used page 1 was evicted
        bad_lru[4]["order"] = [3, 2]
        cut_lru = LRU[:3] + LRU[4:]     # the get that made page 1 recent is missing: the eviction of 2 is then unexplained
        bad_abs = [dict(e) for e in ABS]
        bad_abs[5]["rows"] = [1, 2, 3, 5]   # row 5 without row 4: not a prefix of the interrupted statement
        cut_abs = ABS[:6] + ABS[7:]         # the delete is missing: the last select is unexplained
        bad_ord = [dict(e) for e in ORD]
        bad_ord[13]["lsn"] = 3              # the log record carries an LSN no page was stamped with
        cut_ord = ORD[:13] + ORD[14:]       # the hook on the log append is missing: the statement returns with an unlogged stamp
        early_ord = ORD[:13] + [_o("X+"), _o("page", id=1, lsn=2)] + ORD[13:]   # a flush inside the statement, before its log record
        def o(t, tag):
            return accepted(ctx, "WalOrderTrace", "WalOrderTrace.cfg", t, tag, fname="order.ndjson")
        results = {
            "order-intact": o(ORD, "o0"), "order-corrupted": o(bad_ord, "o1"), "order-event-removed": o(cut_ord, "o2"),
            "order-flush-inside-statement": o(early_ord, "o3"),
            "lru-intact": accepted(ctx, "LruTrace", "LruTrace.cfg", LRU, "l0", lcfg),
            "lru-corrupted": accepted(ctx, "LruTrace", "LruTrace.cfg", bad_lru, "l1", lcfg),
            "lru-event-removed": accepted(ctx, "LruTrace", "LruTrace.cfg", cut_lru, "l2", lcfg),
            "abs-intact": accepted(ctx, "AbsTrace", "AbsTrace.cfg", ABS, "a0"),
            "abs-corrupted": accepted(ctx, "AbsTrace", "AbsTrace.cfg", bad_abs, "a1"),
            "abs-event-removed": accepted(ctx, "AbsTrace", "AbsTrace.cfg", cut_abs, "a2"),
        }
        want = {"order-intact": True, "order-corrupted": False, "order-event-removed": False, "order-flush-inside-statement": False,
                "lru-intact": True, "lru-corrupted": False, "lru-event-removed": False, "abs-intact": True, "abs-corrupted": False, "abs-event-removed": False}
        print("selftest:", results)
        if results != want:
            raise SystemExit("selftest FAILED: expected %s" % want)
    finally:
        ctx.cleanup()


if __name__ == "__main__":
    main()
