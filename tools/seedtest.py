#!/usr/bin/env python3
"""Confirm and evaluate seeded changes produced by independent sub-agents.

usage: seedtest.py <Cxx> [<Cxx> ...]     reads /tmp/seed/out/<Cxx>/change{1,2}/{patch.diff,demo_test.go,meta.json}
For each change, in a scratch git worktree of /repo's HEAD (outside /repo and /verif, removed afterwards):
  (a) demo on the unchanged tree passes, (b) the existing suite passes with the change, (c) the demo fails with the change;
then the property's check (and optionally others) is run against the changed tree with VERIF_REPO.
Kept (only when a, b, c are confirmed) as /verif/seeded/<Cxx>-<k>/ with meta.json recording what was run and seen.
"""
import json
import os
import re
import shutil
import subprocess
import sys
import time

ENV = dict(os.environ, GOFLAGS="-mod=mod", GOPROXY="off", GOSUMDB="off", GOTOOLCHAIN="local")
VERIF = "/verif"
# the checks are run from here: a snapshot of /verif (SEEDTEST_CHECKS) lets the live tree be edited while a long recheck runs
CHK = os.environ.get("SEEDTEST_CHECKS", VERIF)


def sh(cmd, cwd=None, timeout=1800, env=None):
    p = subprocess.run(cmd, shell=True, cwd=cwd, capture_output=True, text=True, timeout=timeout, env=env or ENV)
    return p.returncode, (p.stdout + p.stderr)


def demo_target(demo_src):
    first = open(demo_src).read().splitlines()[:6]
    for l in first:
        m = re.search(r"((?:storage|engine|sql|cmd/\w+)/\w+_test\.go)", l)
        if m:
            return m.group(1)
    return None


def go_test_demo(wt, target, tags):
    pkg = "./" + os.path.dirname(target)
    src = open(os.path.join(wt, target)).read()
    names = re.findall(r"^func (Test\w+)\(", src, re.M)
    run = "^(" + "|".join(names) + ")$"
    env = dict(ENV, CGO_ENABLED="1") if "-race" in tags else ENV
    rc, out = sh("go test %s -vet=off -count=1 -run '%s' %s" % (tags, run, pkg), cwd=wt, timeout=900, env=env)
    return rc, out


def main():
    props = sys.argv[1:]
    extra_checks = {}
    for a in list(props):
        if "=" in a:   # C01=C11,C16 : also run these checks
            k, v = a.split("=")
            extra_checks[k] = v.split(",")
            props[props.index(a)] = k
    summary = []
    if props and props[0] == "--index":
        return write_index()
    if props and props[0] == "--recheck":
        return recheck(props[1:])
    for arg in props:
        # <Cxx><round letter>: round a gives changes 1-2, b 3-4, ... (two changes per round)
        prop, off = arg[:3], (2 * (ord(arg[3]) - ord("a")) if len(arg) > 3 and arg[3].isalpha() else 0)
        if arg in extra_checks:
            extra_checks[prop] = extra_checks[arg]
        for k in (1, 2):
            src = "/tmp/seed/out/%s/change%d" % (arg, k)
            if not os.path.exists(os.path.join(src, "patch.diff")):
                continue
            name = "%s-%d" % (prop, k + off)
            wt = "/tmp/seedchk/" + name
            sh("git -C /repo worktree remove --force %s" % wt)
            shutil.rmtree(wt, ignore_errors=True)
            os.makedirs("/tmp/seedchk", exist_ok=True)
            rc, out = sh("git -C /repo worktree add -q --detach %s HEAD" % wt)
            if rc:
                print(name, "worktree failed", out)
                continue
            rec = dict(name=name, property=prop, ran=[])
            try:
                meta = json.load(open(os.path.join(src, "meta.json")))
                rec["agent_meta"] = meta
                demo_src = os.path.join(src, "demo_test.go")
                target = demo_target(demo_src)
                dsrc = open(demo_src).read()
                tags = "-tags verif" if "go:build verif" in dsrc else ""
                if "go:build race" in dsrc:
                    tags += " -race"
                if not target:
                    rec["status"] = "demo target path not found"
                    continue
                # (a) unchanged + demo
                shutil.copy(demo_src, os.path.join(wt, target))
                rc_a, out_a = go_test_demo(wt, target, tags)
                rec["a_unchanged_demo"] = "PASS" if rc_a == 0 else "FAIL"
                rec["ran"].append("go test %s -run <demo> (unchanged tree): rc=%d" % (tags, rc_a))
                os.remove(os.path.join(wt, target))
                sh("rm -rf %s/*/data %s/data %s/cmd/*/data" % (wt, wt, wt))
                # apply
                rc, out = sh("git apply %s" % os.path.join(src, "patch.diff"), cwd=wt)
                if rc:      # made against an older HEAD (fix: commits since): three-way merge
                    rc, out = sh("git apply --3way %s" % os.path.join(src, "patch.diff"), cwd=wt)
                if rc:
                    rec["status"] = "patch does not apply: " + out[-300:]
                    continue
                # (b) changed + suite
                rc_b, out_b = sh("go build ./... && go test -vet=off -count=1 ./...", cwd=wt, timeout=900)
                rec["b_changed_suite"] = "PASS" if rc_b == 0 else "FAIL"
                rec["ran"].append("go build ./... && go test -vet=off -count=1 ./... (changed tree): rc=%d" % rc_b)
                # (c) changed + demo
                shutil.copy(demo_src, os.path.join(wt, target))
                rc_c, out_c = go_test_demo(wt, target, tags)
                rec["c_changed_demo"] = "FAIL" if rc_c != 0 else "PASS"
                rec["c_output_tail"] = out_c[-600:]
                rec["ran"].append("go test %s -run <demo> (changed tree): rc=%d" % (tags, rc_c))
                os.remove(os.path.join(wt, target))
                sh("rm -rf %s/*/data %s/data %s/cmd/*/data" % (wt, wt, wt))
                confirmed = rc_a == 0 and rc_b == 0 and rc_c != 0
                rec["confirmed"] = confirmed
                # checks
                rec["checks"] = {}
                for chk in [prop] + extra_checks.get(prop, []):
                    t0 = time.time()
                    rc, out = sh("./check %s --tier quick" % chk, cwd=CHK, timeout=2400, env=dict(ENV, VERIF_REPO=wt))
                    lines = [l for l in out.splitlines() if l.startswith(("VIOLATION", "OK ", "UNDECIDED", "KNOWN-FINDING"))]
                    first_v = None
                    for l in lines:
                        m = re.match(r"VIOLATION property=\S+ replay=(\S+)", l)
                        if m and os.path.exists(m.group(1)):
                            try:
                                d = json.load(open(m.group(1)))
                                first_v = (d.get("detail") or [""])[0][:300]
                            except Exception:
                                pass
                            break
                    rec["checks"][chk] = dict(exit=rc, wall_s=round(time.time() - t0, 1), violations=sum(1 for l in lines if l.startswith("VIOLATION")),
                                              first_violation=first_v, undecided=[l[:300] for l in lines if l.startswith("UNDECIDED")])
                    rec["ran"].append("VERIF_REPO=<changed tree> ./check %s --tier quick: exit %d" % (chk, rc))
                    shutil.rmtree(os.path.join(CHK, "replays", chk), ignore_errors=True)
                rec["detected_by"] = [c for c, v in rec["checks"].items() if v["exit"] == 1]
                if confirmed:
                    dst = os.path.join(VERIF, "seeded", name)
                    os.makedirs(dst, exist_ok=True)
                    shutil.copy(os.path.join(src, "patch.diff"), dst)
                    shutil.copy(demo_src, os.path.join(dst, "demo_test.go"))
                    json.dump(dict(property=prop, breaks=meta.get("how_it_breaks"), summary=meta.get("summary"), needs=meta.get("needs"),
                                   files=meta.get("files"), demo_path=target, demo_tags=tags,
                                   confirmed=dict(unchanged_tree_demo=rec["a_unchanged_demo"], changed_tree_existing_suite=rec["b_changed_suite"],
                                                  changed_tree_demo=rec["c_changed_demo"]),
                                   what_was_run=rec["ran"], checks=rec["checks"], detected_by=rec["detected_by"]),
                              open(os.path.join(dst, "meta.json"), "w"), indent=1)
            finally:
                sh("git -C /repo worktree remove --force %s" % wt)
                shutil.rmtree(wt, ignore_errors=True)
                summary.append(rec)
                print(json.dumps({k2: rec.get(k2) for k2 in ("name", "a_unchanged_demo", "b_changed_suite", "c_changed_demo", "confirmed", "detected_by", "status")}), flush=True)
                for c, v in (rec.get("checks") or {}).items():
                    print("    ", c, v["exit"], v["wall_s"], v["first_violation"] or v["undecided"], flush=True)
    json.dump(summary, open("/tmp/seedchk/summary-%d.json" % int(time.time()), "w"), indent=1)


def run_checks(wt, checks):
    out = {}
    for chk in checks:
        t0 = time.time()
        rc, o = sh("./check %s --tier quick" % chk, cwd=CHK, timeout=3000, env=dict(ENV, VERIF_REPO=wt))
        lines = [l for l in o.splitlines() if l.startswith(("VIOLATION", "OK ", "UNDECIDED", "KNOWN-FINDING"))]
        first_v = None
        for l in lines:
            m = re.match(r"VIOLATION property=\S+ replay=(\S+)", l)
            if m and os.path.exists(m.group(1)):
                try:
                    first_v = (json.load(open(m.group(1))).get("detail") or [""])[0][:300]
                except Exception:
                    pass
                break
        out[chk] = dict(exit=rc, wall_s=round(time.time() - t0, 1), violations=sum(1 for l in lines if l.startswith("VIOLATION")),
                        first_violation=first_v, undecided=[l[:300] for l in lines if l.startswith("UNDECIDED")])
        shutil.rmtree(os.path.join(CHK, "replays", chk), ignore_errors=True)
    return out


def recheck(names):
    """Re-run the checks on kept seeded changes against the CURRENT /repo HEAD (patches are re-applied with 3-way merge;
    a hand-rebased patch-rebased-*.diff is preferred when present) and update meta.json."""
    names = names or sorted(os.listdir(os.path.join(VERIF, "seeded")))
    for name in names:
        d = os.path.join(VERIF, "seeded", name)
        if not os.path.exists(os.path.join(d, "meta.json")):
            continue
        meta = json.load(open(os.path.join(d, "meta.json")))
        # SEEDTEST_SINCE=<epoch>: changes rechecked after that moment are skipped (a recheck that was interrupted goes on)
        if os.environ.get("SEEDTEST_SINCE") and meta.get("rechecked_ts", 0) > float(os.environ["SEEDTEST_SINCE"]):
            continue
        wt = "/tmp/seedchk/rc-" + name
        sh("git -C /repo worktree remove --force %s" % wt)
        shutil.rmtree(wt, ignore_errors=True)
        os.makedirs("/tmp/seedchk", exist_ok=True)
        sh("git -C /repo worktree add -q --detach %s HEAD" % wt)
        try:
            patches = sorted(f for f in os.listdir(d) if f.startswith("patch-rebased")) + ["patch.diff"]
            applied = None
            for pf in patches:
                rc, out = sh("git apply %s" % os.path.join(d, pf), cwd=wt)
                if rc:
                    rc, out = sh("git apply --3way %s" % os.path.join(d, pf), cwd=wt)
                if rc == 0:
                    applied = pf
                    break
                sh("git checkout -- . && git clean -fdq", cwd=wt)
            if not applied:
                print(name, "PATCH DOES NOT APPLY TO HEAD (needs a hand rebase)", flush=True)
                meta["recheck"] = "patch does not apply to the current HEAD"
                json.dump(meta, open(os.path.join(d, "meta.json"), "w"), indent=1)
                continue
            rc_b, _ = sh("go build ./... && go test -vet=off -count=1 ./...", cwd=wt, timeout=900)
            target, tags = meta.get("demo_path"), meta.get("demo_tags", "")
            shutil.copy(os.path.join(d, "demo_test.go"), os.path.join(wt, target))
            rc_c, _ = go_test_demo(wt, target, tags)
            os.remove(os.path.join(wt, target))
            sh("rm -rf %s/*/data %s/data %s/cmd/*/data" % (wt, wt, wt))
            # the check of the change's own property first; the other checks that were run against it before are only
            # run again when that one does not see the change (SEEDTEST_ALL=1: always)
            res = run_checks(wt, [meta["property"]])
            others = sorted(set((meta.get("checks") or {}).keys()) - {meta["property"]})
            if others and (res[meta["property"]]["exit"] != 1 or os.environ.get("SEEDTEST_ALL")):
                res.update(run_checks(wt, others))
            else:
                for c in others:
                    res[c] = dict(meta["checks"][c], not_rerun=True)
            meta["checks"] = res
            meta["rechecked_ts"] = time.time()
            meta["detected_by"] = [c for c, v in res.items() if v["exit"] == 1]
            meta["rechecked_at_repo"] = sh("git -C /repo rev-parse --short HEAD")[1].strip()
            meta["recheck"] = dict(patch=applied, changed_tree_existing_suite="PASS" if rc_b == 0 else "FAIL", changed_tree_demo="FAIL" if rc_c else "PASS")
            json.dump(meta, open(os.path.join(d, "meta.json"), "w"), indent=1)
            print(name, meta["recheck"], "detected_by", meta["detected_by"], flush=True)
        finally:
            sh("git -C /repo worktree remove --force %s" % wt)
            shutil.rmtree(wt, ignore_errors=True)
    write_index()


def write_index():
    rows = []
    for name in sorted(os.listdir(os.path.join(VERIF, "seeded"))):
        f = os.path.join(VERIF, "seeded", name, "meta.json")
        if not os.path.exists(f):
            continue
        m = json.load(open(f))
        det = ", ".join(m.get("detected_by") or []) or "**none**"
        rc = m.get("recheck")
        if isinstance(rc, dict) and rc.get("changed_tree_demo") == "PASS":
            det = "not a breaking change any more: on the repaired tree (%s) its own demonstration passes (a later `fix:` commit made the property robust against it)" % m.get("rechecked_at_repo", "HEAD")
        others = ", ".join("%s:%s" % (c, {0: "quiet", 1: "VIOLATION", 2: "undecided"}.get(v["exit"], v["exit"])) for c, v in (m.get("checks") or {}).items())
        rows.append("| %s | %s | %s | %s | %s |" % (name, m["property"], (m.get("summary") or "").replace("|", "/")[:160], (m.get("needs") or "").replace("|", "/").replace("\n", " ")[:200], det + " (" + others + ")"))
    txt = "# Seeded changes and the checks that catch them\n\nEach change was produced by a sub-agent that saw only the property text and a scratch worktree; " \
          "confirmed here (demo passes on the unchanged tree, pinned suite passes with the change, demo fails with the change); quick tier, VERIF_SEED=1.\n\n" \
          "| id | property | change | needs | caught by (all checks run) |\n|---|---|---|---|---|\n" + "\n".join(rows) + "\n"
    open(os.path.join(VERIF, "seeded", "INDEX.md"), "w").write(txt)
    print("seeded/INDEX.md: %d changes" % len(rows))


if __name__ == "__main__":
    main()
