"""Shared machinery for the /verif checks.

Every check is `./check <Cxx> --tier quick|thorough`; a check module in tools/
implements `run(ctx)` and uses this library for: scratch directories, running
TLC (always under `timeout`, with its own -metadir), building the Go harness
against /repo's *current working tree* with the `verif` tag and the overlay
files, streaming TLC-generated scenarios to harness workers, evidence files,
known findings and verdict lines.

Exit codes (DESIGN.md 5.1): 0 held / only known findings; 1 VIOLATION;
2 the machinery could not decide (never a VIOLATION line).
"""
import hashlib
import json
import os
import re
import shutil
import subprocess
import sys
import tempfile
import time

VERIF = os.path.dirname(os.path.dirname(os.path.abspath(__file__)))
REPO = os.environ.get("VERIF_REPO", "/repo")
SPEC = os.path.join(VERIF, "spec")
HARNESS = os.path.join(VERIF, "harness")
NCPU = min(16, os.cpu_count() or 4)


class Undecided(Exception):
    """The machinery could not decide (exit 2)."""


def goenv():
    e = dict(os.environ)
    e.update(GOFLAGS="-mod=mod", GOPROXY="off", GOSUMDB="off", GOTOOLCHAIN="local", CGO_ENABLED=e.get("CGO_ENABLED", "0"))
    return e


class Ctx:
    def __init__(self, prop, tier, seed):
        self.prop = prop
        self.tier = tier
        self.seed = seed
        self.t0 = time.time()
        base = "/dev/shm" if os.path.isdir("/dev/shm") and os.access("/dev/shm", os.W_OK) else None
        _sweep_stale(base)
        self.scratch = tempfile.mkdtemp(prefix="verif-%s-" % prop, dir=base)
        # TLC's metadir (state queue and fingerprints spilled to disk) can reach tens of GB in a
        # design-only run: it lives on the real disk, never in /dev/shm (= RAM)
        self.bigscratch = tempfile.mkdtemp(prefix="verif-meta-%s-" % prop)
        for d in (self.scratch, self.bigscratch):
            with open(os.path.join(d, ".pid"), "w") as fh:
                fh.write(str(os.getpid()))
        self.notes = []
        self.known = []       # known findings reproduced in this run
        self.violations = []  # (signature, replay path)
        self.cov = {}
        self.assumptions = []

    def quick(self):
        return self.tier == "quick"

    def sub(self, name):
        p = os.path.join(self.scratch, name)
        os.makedirs(p, exist_ok=True)
        return p

    def note(self, msg):
        self.notes.append(msg)
        print("NOTE: " + msg, flush=True)

    def cleanup(self):
        shutil.rmtree(self.scratch, ignore_errors=True)
        shutil.rmtree(self.bigscratch, ignore_errors=True)


def _sweep_stale(base):
    """Remove scratch directories left behind by checks that were killed (their .pid is dead)."""
    for root in {base, tempfile.gettempdir()}:
        if not root:
            continue
        try:
            names = os.listdir(root)
        except OSError:
            continue
        for n in names:
            if not n.startswith("verif-"):
                continue
            d = os.path.join(root, n)
            try:
                pid = int(open(os.path.join(d, ".pid")).read().strip())
            except (OSError, ValueError):
                continue
            if not os.path.exists("/proc/%d" % pid):
                shutil.rmtree(d, ignore_errors=True)


# ---------------------------------------------------------------- TLC

TLC_JAR = "/opt/veriftools/tla/tla2tools.jar"
COMMUNITY = "/opt/veriftools/tla/CommunityModules-deps.jar"


def _tlc_cmd():
    return shutil.which("tlc") or "tlc"


class TlcResult:
    def __init__(self):
        self.rc = None
        self.out = []          # non-SCN lines
        self.generated = 0
        self.distinct = 0
        self.depth = 0
        self.status = "error"  # ok | invariant | error | timeout
        self.violated = None
        self.coverage = {}
        self.wall = 0.0


_SCN = re.compile(r'^<<"(SCN|TRC|OUT)", "(.*)">>\s*$')


def unescape_tla(s):
    # TLC prints strings with \" and \\ escapes
    return s.replace('\\"', '"').replace("\\\\", "\\")


def run_tlc(ctx, module, cfg, workers=None, timeout=600, on_scn=None, extra=None, dfs=False, xss=None, simulate=None, heap=None, files=None, cfg_text=None, tag=None):
    """Run TLC on spec/<module>.tla with spec/<cfg> in a scratch copy of spec/.

    on_scn(kind, obj) is called for every `<<"SCN", json>>` line TLC prints.
    Returns a TlcResult; never raises for invariant violations (caller decides).
    """
    work = ctx.sub("tlc-%s-%s%s" % (module, os.path.splitext(os.path.basename(cfg))[0], ("-" + tag) if tag else ""))
    for f in os.listdir(SPEC):
        if f.endswith(".tla") or f.endswith(".cfg"):
            shutil.copy(os.path.join(SPEC, f), work)
    if cfg_text is not None:
        with open(os.path.join(work, os.path.basename(cfg)), "w") as fh:
            fh.write(cfg_text)
    for name, src in (files or {}).items():
        if os.path.exists(src):
            shutil.copy(src, os.path.join(work, name))
        else:
            with open(os.path.join(work, name), "w") as fh:
                fh.write(src)
    meta = os.path.join(ctx.bigscratch, os.path.basename(work) + "-md")
    cmd = ["timeout", "-k", "10", str(timeout), _tlc_cmd(), "-workers", str(workers or NCPU), "-metadir", meta,
           "-config", os.path.basename(cfg), "-noGenerateSpecTE"]
    if simulate:
        cmd += ["-simulate", simulate]
    if extra:
        cmd += extra
    cmd.append(module + ".tla")
    env = dict(os.environ)
    jto = []
    if dfs:
        jto.append("-Dtlc2.tool.queue.IStateQueue=StateDeque")
    if xss:
        jto.append("-Xss" + xss)
    if heap:
        jto.append("-Xmx" + heap)
    if jto:
        env["JAVA_TOOL_OPTIONS"] = (env.get("JAVA_TOOL_OPTIONS", "") + " " + " ".join(jto)).strip()
    res = TlcResult()
    t0 = time.time()
    p = subprocess.Popen(cmd, cwd=work, stdout=subprocess.PIPE, stderr=subprocess.STDOUT, env=env, text=True, bufsize=1 << 20)
    for line in p.stdout:
        m = _SCN.match(line)
        if m:
            if on_scn:
                try:
                    on_scn(m.group(1), json.loads(unescape_tla(m.group(2))))
                except json.JSONDecodeError:
                    res.out.append("BAD-SCN " + line[:200])
            continue
        line = line.rstrip("\n")
        res.out.append(line)
        m = re.search(r"(\d+) states generated, (\d+) distinct states found", line)
        if m:
            res.generated, res.distinct = int(m.group(1)), int(m.group(2))
        m = re.search(r"depth of the complete state graph search is (\d+)", line)
        if m:
            res.depth = int(m.group(1))
        m = re.search(r"Invariant (\S+) is violated", line)
        if m:
            res.violated = m.group(1)
        m = re.search(r"Action property (\S+) is violated", line)
        if m:
            res.violated = m.group(1)
    p.wait()
    res.rc = p.returncode
    res.wall = time.time() - t0
    txt = "\n".join(res.out)
    if p.returncode == 124 or p.returncode == 137:
        res.status = "timeout"
    elif "Model checking completed. No error has been found." in txt or (simulate and p.returncode == 0):
        res.status = "ok"
    elif res.violated or "is violated" in txt:
        res.status = "invariant"
    else:
        res.status = "error"
    ctx.last_tlc_log = os.path.join(work, "tlc.out")
    with open(ctx.last_tlc_log, "w") as f:
        f.write(txt)
    return res


def run_tlapm(ctx, module, timeout=600):
    """Check the proofs of spec/<module>.tla with the TLA+ proof system in a scratch copy of spec/.
    Returns (ok, number of obligations proved, tail of the output)."""
    work = ctx.sub("tlapm-" + module)
    for f in os.listdir(SPEC):
        if f.endswith(".tla"):
            shutil.copy(os.path.join(SPEC, f), work)
    p = subprocess.run(["timeout", "-k", "10", str(timeout), "tlapm", "--threads", str(min(NCPU, 12)), module + ".tla"], cwd=work,
                       capture_output=True, text=True)
    out = (p.stdout + p.stderr).splitlines()
    m = re.search(r"All (\d+) obligations? proved", "\n".join(out))
    return (p.returncode == 0 and m is not None), (int(m.group(1)) if m else 0), out[-25:]


def tlc_must_ok(ctx, res, what):
    if res.status != "ok":
        tail = "\n".join(res.out[-40:])
        raise Undecided("%s: TLC status=%s rc=%s\n%s" % (what, res.status, res.rc, tail))


def parse_coverage(res):
    """Per-action counts from -coverage output: '<Action line ...>: distinct:generated'."""
    cov = {}
    for line in res.out:
        m = re.match(r"^<(\w+) line \d+, col \d+ to line \d+, col \d+ of module (\w+)>: (\d+):(\d+)", line.strip())
        if m:
            cov[m.group(1)] = cov.get(m.group(1), 0) + int(m.group(4))
    return cov


# ---------------------------------------------------------------- Go harness

def repo_rev():
    try:
        h = subprocess.run(["git", "-C", REPO, "rev-parse", "HEAD"], capture_output=True, text=True).stdout.strip()
        d = subprocess.run(["git", "-C", REPO, "status", "--porcelain"], capture_output=True, text=True).stdout.strip()
        return h + ("+dirty" if d else "")
    except Exception:
        return "unknown"


def overlay_file(ctx):
    """Overlay JSON adding /verif/harness/overlay/<pkgdir>/<file> into /repo/<pkgdir>/."""
    repl = {}
    root = os.path.join(HARNESS, "overlay")
    for dp, _, files in os.walk(root):
        for f in files:
            if f.endswith(".go"):
                rel = os.path.relpath(os.path.join(dp, f), root)
                repl[os.path.join(REPO, rel)] = os.path.join(dp, f)
    path = os.path.join(ctx.scratch, "overlay.json")
    with open(path, "w") as fh:
        json.dump({"Replace": repl}, fh)
    return path


def _harness_module(ctx):
    """A scratch copy of the harness module whose go.mod points at REPO (so the
    checks always build from /repo's current working tree)."""
    dst = os.path.join(ctx.scratch, "harness")
    if os.path.isdir(dst):
        return dst
    shutil.copytree(HARNESS, dst, ignore=shutil.ignore_patterns("overlay"))
    gm = open(os.path.join(dst, "go.mod")).read()
    gm = re.sub(r"=> /repo\b", "=> " + REPO, gm)
    open(os.path.join(dst, "go.mod"), "w").write(gm)
    shutil.copy(os.path.join(REPO, "go.sum"), os.path.join(dst, "go.sum"))
    return dst


def build_harness(ctx, name, race=False):
    """Build harness/cmd/<name> against REPO with -tags verif and the overlay."""
    mod = _harness_module(ctx)
    out = os.path.join(ctx.scratch, "bin-" + name + ("-race" if race else ""))
    cmd = ["go", "build", "-tags", "verif", "-overlay", overlay_file(ctx), "-o", out]
    env = goenv()
    if race:
        cmd.insert(2, "-race")
        env["CGO_ENABLED"] = "1"
    cmd.append("./cmd/" + name)
    r = subprocess.run(cmd, cwd=mod, env=env, capture_output=True, text=True)
    if r.returncode != 0:
        raise Undecided("harness build failed (%s):\n%s" % (name, (r.stdout + r.stderr)[-4000:]))
    return out


def go_test_inpkg(ctx, pkgdir, testfile, run, env_extra=None, timeout=1200, race=False):
    """Run an in-package test file kept in /verif/harness/inpkg/<pkgdir>/<testfile>
    inside /repo/<pkgdir> via -overlay. Returns CompletedProcess."""
    ov = json.load(open(overlay_file(ctx)))
    src = os.path.join(HARNESS, "inpkg", pkgdir, testfile)
    ov["Replace"][os.path.join(REPO, pkgdir, testfile)] = src
    path = os.path.join(ctx.scratch, "overlay-%s.json" % testfile)
    json.dump(ov, open(path, "w"))
    env = goenv()
    if race:
        env["CGO_ENABLED"] = "1"
    if env_extra:
        env.update(env_extra)
    cmd = ["go", "test", "-tags", "verif", "-overlay", path, "-vet=off", "-count=1", "-timeout", "%ds" % timeout, "-run", run]
    if race:
        cmd.insert(2, "-race")
    cmd.append("./" + pkgdir)
    return subprocess.run(cmd, cwd=REPO, env=env, capture_output=True, text=True)


class WorkerPool:
    """N harness processes, each reading JSON lines on stdin and answering one
    JSON line per request on stdout (same order)."""

    def __init__(self, ctx, binary, n=None, args=None, env_extra=None, request_timeout=60):
        self.request_timeout = request_timeout   # seconds one request may take before the worker is declared hung
        self.waiting = {}                         # worker index -> time it started waiting for the current answer
        self.hung = set()
        self.ctx = ctx
        self.n = n or NCPU
        self.binary = binary
        self.args = args or []
        self.deaths = 0
        self.env = dict(os.environ)
        if env_extra:
            self.env.update(env_extra)
        self.procs = [self._spawn(i) for i in range(self.n)]

    def _spawn(self, i):
        wd = self.ctx.sub("w%d-%s" % (i, os.path.basename(self.binary)))
        errf = open(os.path.join(wd, "stderr.log"), "a")
        return subprocess.Popen([self.binary] + self.args, cwd=wd, stdin=subprocess.PIPE, stdout=subprocess.PIPE,
                                stderr=errf, env=self.env, text=True, bufsize=1 << 20)

    def _died_in_harness(self, i):
        """True if the last crash recorded in the worker's stderr has its innermost non-runtime frame in the
        harness (package main) rather than in the code under test."""
        f = os.path.join(self.ctx.scratch, "w%d-%s" % (i, os.path.basename(self.binary)), "stderr.log")
        try:
            txt = open(f, errors="replace").read()
        except Exception:
            return False
        k = max(txt.rfind("\npanic:"), txt.rfind("fatal error:"))
        if k < 0:
            return False
        tail = txt[k:]
        g = tail.find("goroutine ")
        frames = [l.strip() for l in tail[g:].splitlines()[1:] if l and not l.startswith("\t") and "(" in l]
        for fr in frames:
            if fr.startswith(("runtime.", "panic(", "strings.", "fmt.", "encoding/", "reflect.", "sync.", "os.", "syscall.", "sort.", "bytes.", "bufio.", "io.", "math")):
                continue
            return fr.startswith("main.")
        return False

    def _stderr_tail(self, i, n=6):
        f = os.path.join(self.ctx.scratch, "w%d-%s" % (i, os.path.basename(self.binary)), "stderr.log")
        try:
            lines = open(f, errors="replace").read().strip().splitlines()
            head = [l for l in lines if l.startswith("fatal error") or l.startswith("panic:") or l.startswith("runtime:")][-3:]
            return " | ".join(head + lines[-n:][:2])[:600]
        except Exception:
            return ""

    def run_all(self, requests, on_result, chunk=64):
        """Feed all requests (iterable of dict) and call on_result(req, res).
        A worker that dies while executing a request (a fatal error inside the code under test, e.g.
        a stack overflow, cannot be recovered in-process) yields the synthetic result
        {"ok": False, "fatal": True, "viol": [...]} for that request; the worker is restarted."""
        import threading
        import queue
        q = queue.Queue(maxsize=self.n * 8)
        errors = []
        lock = threading.Lock()

        def worker(i):
            while True:
                batch = q.get()
                if batch is None:
                    return
                try:
                    todo = list(batch)
                    deaths = 0
                    while todo:
                        p = self.procs[i]
                        try:
                            for r in todo:
                                p.stdin.write(json.dumps(r) + "\n")
                            p.stdin.flush()
                        except (BrokenPipeError, OSError):
                            pass
                        done = 0
                        died = False
                        for r in todo:
                            self.waiting[i] = time.time()
                            line = p.stdout.readline()
                            self.waiting[i] = None
                            if not line:
                                died = True
                                break
                            with lock:
                                on_result(r, json.loads(line))
                            done += 1
                        if not died:
                            break
                        deaths += 1
                        self.deaths += 1
                        if self.deaths > 20000:
                            raise Undecided("harness workers keep dying: %s" % self._stderr_tail(i))
                        if self.deaths > 200 and getattr(self.ctx, "violations", None):
                            # the code under test kills the worker again and again and violations are already confirmed:
                            # every further death costs a process start; what was confirmed so far stands
                            raise Undecided("the code under test killed %d workers; stopping early" % self.deaths)
                        try:
                            p.kill()
                            p.wait(timeout=10)
                        except Exception:
                            pass
                        culprit = todo[done]
                        if i in self.hung:
                            self.hung.discard(i)
                            self.hangs = getattr(self, "hangs", 0) + 1
                            synth = {"ok": False, "fatal": True, "hang": True, "step": -1,
                                     "viol": ["the code under test did not return within %d s while executing this scenario (endless loop)" % self.request_timeout]}
                            try:
                                side = os.path.join(self.ctx.scratch, "w%d-%s" % (i, os.path.basename(self.binary)), "sidecar.json")
                                if os.path.exists(side):
                                    synth.update(json.load(open(side)))
                                    os.remove(side)
                            except Exception:
                                pass
                            with lock:
                                on_result(culprit, synth)
                            todo = todo[done + 1:]
                            self.procs[i] = self._spawn(i)
                            if self.hangs >= 6:
                                # enough: every further hang costs a full timeout; what was confirmed so far stands
                                raise Undecided("the code under test hung on %d scenarios; stopping early" % self.hangs)
                            continue
                        if self._died_in_harness(i):
                            raise Undecided("the harness itself crashed (not the code under test): %s" % self._stderr_tail(i))
                        synth = {"ok": False, "fatal": True, "step": -1,
                                 "viol": ["the process died with a fatal runtime error while executing this scenario: " + self._stderr_tail(i)]}
                        try:
                            side = os.path.join(self.ctx.scratch, "w%d-%s" % (i, os.path.basename(self.binary)), "sidecar.json")
                            if os.path.exists(side):
                                synth.update(json.load(open(side)))
                                os.remove(side)
                        except Exception:
                            pass
                        with lock:
                            on_result(culprit, synth)
                        todo = todo[done + 1:]
                        self.procs[i] = self._spawn(i)
                except Exception as e:  # noqa
                    errors.append(e)
                    return

        ths = [threading.Thread(target=worker, args=(i,), daemon=True) for i in range(self.n)]
        for t in ths:
            t.start()
        stop_watch = threading.Event()

        def watchdog():
            # a request that does not come back (endless loop in the code under test) must not hang the check
            while not stop_watch.wait(1.0):
                now = time.time()
                for i, t0 in list(self.waiting.items()):
                    if t0 and now - t0 > self.request_timeout:
                        self.hung.add(i)
                        self.waiting[i] = None
                        try:
                            self.procs[i].kill()
                        except Exception:
                            pass
        wd = threading.Thread(target=watchdog, daemon=True)
        wd.start()

        def put(item):
            while True:
                if errors and all(not t.is_alive() for t in ths):
                    return False
                try:
                    q.put(item, timeout=0.5)
                    return True
                except queue.Full:
                    if errors:
                        return False

        batch = []
        for r in requests:
            batch.append(r)
            if len(batch) >= chunk:
                if not put(batch):
                    break
                batch = []
        if batch and not errors:
            put(batch)
        for _ in ths:
            put(None)
        for t in ths:
            t.join(timeout=7200)
        stop_watch.set()
        if errors:
            raise errors[0] if isinstance(errors[0], Undecided) else Undecided("harness failure: %r" % (errors[0],))

    def close(self):
        for p in self.procs:
            try:
                p.stdin.close()
            except Exception:
                pass
        for p in self.procs:
            try:
                p.wait(timeout=30)
            except Exception:
                p.kill()

    def stderr_tail(self, n=20):
        out = []
        for i in range(self.n):
            for d in os.listdir(self.ctx.scratch):
                if d.startswith("w%d-" % i):
                    f = os.path.join(self.ctx.scratch, d, "stderr.log")
                    if os.path.exists(f):
                        t = open(f, errors="replace").read().strip().splitlines()[-n:]
                        if t:
                            out.append("worker %d: %s" % (i, "\n".join(t)))
        return "\n".join(out)


# ---------------------------------------------------------------- findings / verdicts

def load_findings():
    p = os.path.join(VERIF, "known_findings.json")
    if not os.path.exists(p):
        return []
    return json.load(open(p)).get("findings", [])


def open_findings(prop):
    return [f for f in load_findings() if f.get("property") == prop and f.get("status") == "open"]


def write_replay(ctx, payload):
    d = os.path.join(VERIF, "replays", ctx.prop)
    os.makedirs(d, exist_ok=True)
    blob = json.dumps(payload, sort_keys=True, indent=1)
    h = hashlib.sha1(blob.encode()).hexdigest()[:12]
    path = os.path.join(d, h + ".json")
    payload = dict(payload)
    payload.update(property=ctx.prop, tier=ctx.tier, seed=ctx.seed, repo=repo_rev(),
                   rerun="./check %s --replay %s" % (ctx.prop, path))
    with open(path, "w") as f:
        json.dump(payload, f, indent=1, sort_keys=True)
    return path


def report_violation(ctx, payload, signature=None, finding_ids=None):
    """Record a confirmed violation of ctx.prop. If it matches an open known
    finding (by id in finding_ids) it is printed as KNOWN-FINDING instead."""
    openf = {f["id"]: f for f in open_findings(ctx.prop)}
    for fid in (finding_ids or []):
        if fid in openf:
            if fid not in [k[0] for k in ctx.known]:
                ctx.known.append((fid, openf[fid].get("description", "")))
            return False
    if len(ctx.violations) < 25:
        path = write_replay(ctx, payload)
        ctx.violations.append((signature or "", path))
    else:
        ctx.violations.append((signature or "", ctx.violations[0][1]))
    return True


def write_evidence(ctx, level, coverage, assumptions=None):
    # evidence describes /repo; a run against a scratch tree (VERIF_REPO, used when evaluating seeded changes)
    # must not overwrite it
    evdir = os.path.join(VERIF, "evidence") if os.path.realpath(REPO) == "/repo" else os.path.join(tempfile.gettempdir(), "verif-evidence-scratch")
    os.makedirs(evdir, exist_ok=True)
    cov = dict(coverage)
    cov.setdefault("notes", ctx.notes[:50])
    cov.setdefault("known_findings_reproduced", [k[0] for k in ctx.known])
    ev = {
        "property_id": ctx.prop,
        "tier": ctx.tier,
        "seed": ctx.seed,
        "level": level,
        "coverage": cov,
        "assumptions": (assumptions or []) + ctx.assumptions,
        "wall_s": round(time.time() - ctx.t0, 2),
        "violations": len(ctx.violations),
        "repo": repo_rev(),
    }
    with open(os.path.join(evdir, ctx.prop + ".json"), "w") as f:
        json.dump(ev, f, indent=1)


def finish(ctx):
    for fid, desc in ctx.known:
        print("KNOWN-FINDING: property=%s %s: %s" % (ctx.prop, fid, desc), flush=True)
    if ctx.violations:
        seen = set()
        for sig, path in ctx.violations:
            if path in seen:
                continue
            seen.add(path)
            print("VIOLATION property=%s replay=%s" % (ctx.prop, path), flush=True)
        return 1
    print("OK property=%s tier=%s seed=%d wall=%.1fs" % (ctx.prop, ctx.tier, ctx.seed, time.time() - ctx.t0), flush=True)
    return 0


def sample(lst, k):
    return lst[:k]
