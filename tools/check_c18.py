"""C18 - no statement can crash the engine."""
import json
import random
import re

import vlib
import semlib

N = {"quick": 40000, "thorough": 400000}


def lit(v):
    if v["t"] in ("i", "I"):
        return str(v["v"])
    if v["t"] == "s":
        return "'" + bytes(v["s"]).decode() + "'"
    if v["t"] == "b":
        return "TRUE" if v["v"] else "FALSE"
    return "NULL"


def operand(o):
    if o["k"] == "col":
        return (o["q"] + "." if o["q"] else "") + o["c"]
    return lit(o["val"])


def cond(dnf):
    return " OR ".join(" AND ".join("%s %s %s" % (operand(c["l"]), c["op"], operand(c["r"])) for c in conj) for conj in dnf)


def render_dml(d):
    if d["k"] == "insert":
        cols = (" (" + ", ".join(d["cols"]) + ")") if d["cols"] else ""
        return "INSERT INTO %s%s VALUES (%s)" % (d["t"], cols, ", ".join(lit(v) for v in d["vals"]))
    if d["k"] == "update":
        q = "UPDATE %s SET %s = %s" % (d["t"], d["cols"][0], lit(d["vals"][0]))
        return q + (" WHERE " + cond(d["where"]) if d["where"] else "")
    if d["k"] == "delete":
        return "DELETE FROM %s" % d["t"] + (" WHERE " + cond(d["where"]) if d["where"] else "")
    types = {"a": "INT", "b": "VARCHAR(8)", "c": "VARCHAR(2147483648)"}
    return "CREATE TABLE %s (%s)" % (d["t"], ", ".join("%s %s" % (c, types[c]) for c in d["cols"]))


def run(ctx):
    binary = vlib.build_harness(ctx, "sem")
    sets = {}
    res = vlib.run_tlc(ctx, "StmtGen", "SqlSemGen.cfg", workers=2, timeout=600, on_scn=lambda k, o: sets.__setitem__(o["set"], o["elems"]))
    vlib.tlc_must_ok(ctx, res, "StmtGen")
    rng = random.Random(ctx.seed)
    tables = sets["tables8"]
    HUGE = 9223372036854775807
    big = lambda x: HUGE if x == -2 else x
    comps = [sets["froms8"], sets["lists8"], sets["wheres8"], sets["groups8"], sets["orders8"], sets["limoffs8"]]
    tuples = semlib.cover_product(rng, comps, N[ctx.tier])
    states = ["nulls", "nulls", "nulls", "empty", "nodb", "badu"]
    reqs = {}
    n_stmt = 0
    for n, (f, l, w, g, o, lm) in enumerate(tuples):
        q = dict(**{"from": comps[0][f]}, list=comps[1][l], where=comps[2][w], group=comps[3][g], order=comps[4][o],
                 limit=big(comps[5][lm]["limit"]), offset=big(comps[5][lm]["offset"]), style=n % 8, raw="")
        st = states[n % len(states)]
        t = rng.randrange(1, len(tables)) if st in ("nulls", "badu") else 0
        key = (st, t, n // 1200)
        reqs.setdefault(key, []).append(q)
        n_stmt += 1
    # late stages reached: statements whose WHERE and GROUP BY are absent, so that every FROM x select list x ORDER BY
    # combination gets as far as projecting and sorting (ambiguous / missing / duplicated sort keys over joins and self-joins)
    few_lists = [l for l in comps[1] if l[0]["k"] == "star" or (len(l) == 2 and l[0]["k"] == "col" and l[1]["k"] == "col")][:14]
    m = 0
    for f in comps[0]:
        for l in few_lists:
            for o in comps[4]:
                for st in ("nulls", "empty"):
                    q = dict(**{"from": f}, list=l, where=[], group=[], order=o, limit=-1, offset=-1, style=m % 8, raw="")
                    t = rng.randrange(1, len(tables)) if st == "nulls" else 0
                    reqs.setdefault((st, t, "late%d" % (m // 1500)), []).append(q)
                    m += 1
                    n_stmt += 1
    # two sort keys (every pair of columns) and the largest LIMIT / OFFSET with small ones, against every table: no WHERE, no
    # GROUP BY, so that each of them reaches the sort and the window with all rows of the table
    star = [l for l in comps[1] if l[0]["k"] == "star"][:1]
    windows = [dict(limit=big(x["limit"]), offset=big(x["offset"])) for x in comps[5] if -2 in (x["limit"], x["offset"])] + [dict(limit=-1, offset=-1)]
    for t in range(1, len(tables)):
        m2 = 0
        for f in comps[0][:2]:
            for o in sorted(sets["orders8pairs"], key=json.dumps) + [[]]:
                for wdw in (windows if (not o or m2 % 5 == 0) else windows[-1:]):
                    q = dict(**{"from": f}, list=star[0], where=[], group=[], order=o, limit=wdw["limit"], offset=wdw["offset"], style=m2 % 8, raw="")
                    reqs.setdefault(("nulls", t, "pairs"), []).append(q)
                    m2 += 1
                    n_stmt += 1
    # texts just outside the grammar StmtGen describes: "any statement that parses" is decided by the parser under test, not
    # by the specification, so what the parser happens to accept of these is executed too (it must answer, not crash)
    near = ["SELECT avg(*) FROM t8", "SELECT count() FROM t8", "SELECT avg() FROM t8", "SELECT count(*), avg(*) FROM t8 GROUP BY a",
            "SELECT count(a, s) FROM t8", "SELECT avg(count(a)) FROM t8", "SELECT * FROM t8 ORDER BY", "SELECT * FROM t8 GROUP BY",
            "SELECT * FROM t8 LIMIT", "SELECT * FROM t8 LIMIT 1 OFFSET", "SELECT FROM t8", "SELECT * FROM", "SELECT a, FROM t8",
            "SELECT * FROM t8 WHERE", "SELECT * FROM t8 WHERE a", "SELECT * FROM t8 WHERE a =", "SELECT * FROM t8 WHERE = 1",
            "SELECT * FROM t8 JOIN t8", "SELECT * FROM t8 JOIN t8 u ON", "SELECT * FROM t8 t8 JOIN t8 t8 ON t8.a = t8.a",
            "SELECT a a a FROM t8", "SELECT * FROM t8 ORDER BY a a", "SELECT * FROM t8 ORDER BY 1", "SELECT 1 FROM t8", "SELECT 1",
            "SELECT 'x' FROM t8", "SELECT TRUE FROM t8 WHERE TRUE", "SELECT * FROM t8 WHERE TRUE", "SELECT * FROM t8 WHERE 1",
            "SELECT a = s FROM t8", "SELECT a < TRUE, s >= 1 FROM t8", "SELECT * FROM t8 LIMIT 0 OFFSET 0", "SELECT * FROM t8 LIMIT 1 LIMIT 2",
            "SELECT count(*) FROM t8 WHERE zz = 1", "SELECT avg(s) FROM t8", "SELECT avg(c) FROM t8 GROUP BY c", "SELECT a FROM t8 GROUP BY a, a",
            "SELECT a, count(*) FROM t8 GROUP BY s", "SELECT * FROM t8 GROUP BY a", "INSERT INTO t8 VALUES ()", "INSERT INTO t8 () VALUES ()",
            "INSERT INTO t8 (a) VALUES (1), ()", "INSERT INTO t8 VALUES (1, 'a', TRUE, 2), (1)", "UPDATE t8 SET", "UPDATE t8 SET a", "UPDATE t8 SET a = ",
            "UPDATE t8 SET a = a", "UPDATE t8 SET a = s", "UPDATE t8 SET a = 1, a = 2", "DELETE FROM", "DELETE FROM t8 WHERE", "DELETE t8",
            "CREATE TABLE t9 ()", "CREATE TABLE t9 (a)", "CREATE TABLE t9 (a INT, a INT)", "CREATE TABLE t9 (a VARCHAR)", "CREATE TABLE t9 (a VARCHAR())",
            "CREATE TABLE t9 (a VARCHAR(0))", "CREATE TABLE (a INT)", "CREATE DATABASE", "CREATE", "USE", "SHOW", "SHOW DATABASE", "SHOW DATABASES x",
            # names no file system takes: longer than a file name may be, running through a file, empty
            "CREATE DATABASE " + "d" * 300, "USE " + "d" * 300, 'CREATE DATABASE "a/tbl/x"', 'USE "a/tbl/x"', 'CREATE DATABASE ""', 'USE ""',
            "CREATE TABLE " + "t" * 300 + " (a INT)", "SELECT * FROM " + "t" * 300, 'CREATE DATABASE "."', 'CREATE DATABASE ".."', 'USE ".."']
    fsnames, near = [x for x in near if x.startswith(("CREATE DATABASE", "USE"))], [x for x in near if not x.startswith(("CREATE DATABASE", "USE"))]
    # operators other SQL dialects have and this grammar (today) has not, with operands that are awkward for the usual ways
    # of implementing them (pattern metacharacters, empty lists, NULLs, mixed types, division by zero)
    for pat in ("%(draft", "c++%", "[%", "%)", "a_b\\", "%", "", "*", "a{2", "\\", "(?i)a", "%%%", "_"):
        for col in ("s", "a", "c"):
            near += ["SELECT * FROM t8 WHERE %s LIKE '%s'" % (col, pat), "SELECT %s LIKE '%s' FROM t8" % (col, pat),
                     "UPDATE t8 SET a = 1 WHERE %s LIKE '%s'" % (col, pat), "DELETE FROM t8 WHERE %s NOT LIKE '%s'" % (col, pat)]
    near += ["SELECT * FROM t8 WHERE a IN ()", "SELECT * FROM t8 WHERE a IN (1, 'x', TRUE)", "SELECT * FROM t8 WHERE s IN (1)", "SELECT * FROM t8 WHERE a NOT IN (1)",
             "SELECT * FROM t8 WHERE a BETWEEN 1 AND 'x'", "SELECT * FROM t8 WHERE s BETWEEN 2 AND 1", "SELECT * FROM t8 WHERE a IS NULL", "SELECT * FROM t8 WHERE s IS NOT NULL",
             "SELECT * FROM t8 WHERE NOT a = 1", "SELECT * FROM t8 WHERE NOT s", "SELECT a + 1 FROM t8", "SELECT a / 0 FROM t8", "SELECT s + 1 FROM t8", "SELECT a % 0 FROM t8",
             "SELECT -a FROM t8", "SELECT * FROM t8 WHERE a = -1", "SELECT * FROM t8 WHERE a = NULL", "SELECT NULL FROM t8", "SELECT * FROM t8 WHERE (a = 1)",
             "SELECT * FROM t8 WHERE ((a = 1) OR (s = 'x'))", "SELECT DISTINCT a FROM t8", "SELECT sum(a), min(s), max(c) FROM t8", "SELECT * FROM t8 ORDER BY 0", "SELECT * FROM t8 ORDER BY 99",
             "SELECT * FROM t8 ORDER BY -1", "SELECT a FROM t8 GROUP BY 1", "SELECT * FROM t8 HAVING a = 1", "SELECT a, count(*) FROM t8 GROUP BY a HAVING count(*) > 1",
             "SELECT * FROM t8 CROSS JOIN t8 u", "SELECT * FROM t8, t8 u", "SELECT * FROM t8 u JOIN t8 v USING (a)", "SELECT * FROM t8 NATURAL JOIN t8 u", "SELECT * FROM t8 FULL JOIN t8 u ON u.a = t8.a",
             "DROP TABLE t8", "DROP DATABASE d8", "ALTER TABLE t8 ADD b INT", "TRUNCATE TABLE t8", "INSERT INTO t8 SELECT * FROM t8", "UPDATE t8 SET a = a + 1", "DELETE FROM t8 LIMIT 1",
             "SELECT * FROM t8 WHERE a = 1.5", "SELECT * FROM t8 WHERE a = .5", "SELECT * FROM t8 WHERE a = 1e3", "SELECT * FROM t8 WHERE s = `x`", "SELECT * FROM t8 LIMIT 1.5", "SELECT * FROM t8 -- c", "SELECT * FROM t8 /* c */ WHERE a = 1"]
    near += fsnames      # statements that may leave the session without its database come last
    for st in ("nulls", "empty", "nodb"):
        t = rng.randrange(1, len(tables)) if st == "nulls" else 0
        reqs.setdefault((st, t, "near"), []).extend(dict(raw=x, **{"from": [], "list": [], "where": [], "group": [], "order": [], "limit": -1, "offset": -1, "style": 0}) for x in near)
        n_stmt += len(near)
    # data-changing statements: each batch on a fresh copy of the database
    dmls = list(sets["dmls8"])
    rng.shuffle(dmls)
    for i in range(0, len(dmls), 40):
        for st in ("nulls", "empty", "nodb", "badu"):
            t = rng.randrange(1, len(tables)) if st in ("nulls", "badu") else 0
            reqs.setdefault((st, t, "dml%d" % i), []).extend(dict(raw=render_dml(d), **{"from": [], "list": [], "where": [], "group": [], "order": [], "limit": -1, "offset": -1, "style": 0}) for d in dmls[i:i + 40])
            n_stmt += len(dmls[i:i + 40])
    # statements that write to the catalog tables, one session each: the statement, then statements that go through the catalog
    blank = {"from": [], "list": [], "where": [], "group": [], "order": [], "limit": -1, "offset": -1, "style": 0}
    probes = list(sets["catprobes8"][0])
    for i, c in enumerate(sorted(sets["catdmls8"])):
        for st in ("nulls", "empty"):
            t = rng.randrange(1, len(tables)) if st == "nulls" else 0
            reqs.setdefault((st, t, "cat%d" % i), []).extend(dict(raw=x, **blank) for x in [c] + probes)
            n_stmt += 1 + len(probes)
    for st in ("nulls", "empty"):
        for t in ([rng.randrange(1, len(tables)) for _ in range(3)] if st == "nulls" else [0]):
            reqs.setdefault((st, t, "degenerate"), []).extend(dict(raw=x, **blank) for x in sets["degenerate8"][0])
            n_stmt += len(sets["degenerate8"][0])
    empty = [t for t in tables if not t["rows"]][0]
    requests = []
    for (st, t, _), qs in reqs.items():
        tbl = tables[t] if st in ("nulls", "badu") else empty
        requests.append(dict(db={"t8": tbl}, qs=qs, stmt=True, nodb=(st == "nodb"), badu=(st == "badu"), _st=st))
    stats = dict(ok=0, error=0, panic=0, hang=0)
    by_state = {}
    sigs = {}
    samples = []
    pool = vlib.WorkerPool(ctx, binary)

    def on_result(req, resp):
        if resp.get("fatal"):
            stats["panic"] += 1
            vlib.report_violation(ctx, dict(kind="engine-fatal", state=req["_st"], statements=[q.get("raw") for q in req["qs"]][:5], detail=resp.get("viol")),
                                  signature="fatal")
            return
        if resp.get("setup") and resp.get("setup") != "PANIC":
            raise vlib.Undecided("sem harness setup: %s" % resp["setup"])
        for r in resp.get("res") or []:
            k = "panic" if r.get("panic") else "hang" if r.get("hang") else "error" if r.get("err") else "ok"
            stats[k] += 1
            by_state[req["_st"] + ":" + k] = by_state.get(req["_st"] + ":" + k, 0) + 1
            if k in ("panic", "hang"):
                first = (r.get("panic") or "hang").splitlines()
                fn = [x for x in first if "github.com/mk6i/mkdb" in x and "(" in x]
                sig = first[0][:120] + " @ " + (fn[0].strip().split("(")[0] if fn else "?")
                if sig not in sigs:
                    sigs[sig] = r["sql"]
                    vlib.report_violation(ctx, dict(kind="engine-panic", sql=r["sql"], state=req["_st"], db=req["db"], detail=[sig], stack=r.get("panic")), signature=sig)
            elif len(samples) < 6 and k == "error":
                samples.append(dict(sql=r["sql"], state=req["_st"], outcome=r.get("msg")))
    try:
        pool.run_all(requests, on_result, chunk=1)
    finally:
        pool.close()
    # ---- statements after a background flush has failed (real timers; the data file of the selected database takes no
    # writes any more): whatever they answer, they answer
    sbin = vlib.build_harness(ctx, "session")
    spool = vlib.WorkerPool(ctx, sbin)
    spool.request_timeout = 120
    fault = []
    try:
        spool.run_all([dict(steps=[], fault=True)], lambda q, r: fault.append(r), chunk=1)
    finally:
        spool.close()
    if not fault or fault[0].get("kind") == "infra" or fault[0].get("fatal"):
        raise vlib.Undecided("failed-flush scenario: %s" % (fault and (fault[0].get("notes") or fault[0].get("viol"))))
    if not fault[0]["ok"]:
        vlib.report_violation(ctx, dict(kind="session-fault", detail=fault[0].get("viol"),
                                        how="real flush timers; the data file's descriptor is closed under the store (every periodic flush fails); then SELECT, INSERT, USE b, USE a, USE no_such_db, Session.Close under an 8 s watchdog"),
                              signature="failed-flush:" + (fault[0].get("viol") or [""])[0][:100])
    stats["failed_flush_scenarios"] = 1
    for need in ("nodb:error", "badu:ok", "badu:error", "empty:ok", "nulls:ok", "nulls:error"):
        if not by_state.get(need):
            raise vlib.Undecided("vacuous: no statement with outcome %s" % need)
    cov = dict(evaluations=sum(stats.values()), distinct_nontrivial=stats["error"],
               rule="statements assembled from the component sets TLC enumerates from StmtGen.tla (every element at least once + seeded sample of "
                    "the product) run through Session.ExecQuery in the session states {no USE, after a failed USE, empty tables, NULL-bearing rows}; "
                    "non-trivial = statements the engine refused with an error value (ill-typed, unknown/ambiguous names, no database) - each "
                    "statement text is distinct by construction of the sample",
               samples=samples, outcomes=stats, by_state=by_state)
    vlib.write_evidence(ctx, "exploration", cov, assumptions=["panics are caught by recover() inside the harness, hangs by a 5 s watchdog",
                                                            "SQL rendering in harness/cmd/sem and tools/check_c18.py"])
