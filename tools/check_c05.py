"""C05 - single-table SELECT returns what its clauses mean."""
import json
import random

import vlib
import semlib

N = {"quick": 6000, "thorough": 120000}
FROM5 = [dict(tbl="t5", alias="", jt="", on=[])]


def run(ctx):
    binary = vlib.build_harness(ctx, "sem")
    sets = semlib.gen_sets(ctx)
    rng = random.Random(ctx.seed)
    tables, wheres, los, lims = sets["tables5"], sets["wheres5"], sets["listorders5"], sets["limoffs5"]
    tuples = semlib.cover_product(rng, [tables, wheres, los, lims], N[ctx.tier])
    cases = []
    for n, (t, w, lo, lm) in enumerate(tuples):
        q = dict(**{"from": FROM5}, where=wheres[w], list=los[lo]["list"], group=[], order=los[lo]["order"],
                 limit=lims[lm]["limit"], offset=lims[lm]["offset"], style=n % 8)
        cases.append(dict(db={"t5": tables[t]}, q=q, _t=t))
    # tables with NULLs behind rows without (conditions with = and != on the nullable columns, ordering only on the column
    # that is never NULL): a NULL must come back as NULL and must not satisfy `col = value`
    tn, wn, ln = sets["tablesnull5"], sets["wheresnull5"], sets["listordersnull5"]
    for n, (t, w, lo) in enumerate(semlib.cover_product(rng, [tn, wn, ln], N[ctx.tier] // 6)):
        q = dict(**{"from": FROM5}, where=wn[w], list=ln[lo]["list"], group=[], order=ln[lo]["order"], limit=-1, offset=-1, style=n % 8)
        cases.append(dict(db={"t5": tn[t]}, q=q, _t=("null", t)))
    # strings that spell keywords, operators and punctuation marks, as data and as literals
    tk, wk, lk = sets["tableskw5"], sets["whereskw5"], sets["listorderskw5"]
    for n, (t, w, lo) in enumerate(semlib.cover_product(rng, [tk, wk, lk], N[ctx.tier] // 8)):
        q = dict(**{"from": FROM5}, where=wk[w], list=lk[lo]["list"], group=[], order=lk[lo]["order"], limit=-1, offset=-1, style=n % 8)
        cases.append(dict(db={"t5": tk[t]}, q=q, _t=("kw", t)))
    # larger tables (12-60 rows drawn from the rows TLC enumerated), stored at page capacities 3/3 so that the table's
    # tree has three or more levels: "any number of rows" must not depend on how rows are laid out over pages
    pool_rows = []
    for t in tables:
        for r in t["rows"]:
            if r not in pool_rows:
                pool_rows.append(r)
    nbig = 12 if ctx.quick() else 60
    for b in range(nbig):
        big = dict(cols=tables[0]["cols"], rows=[rng.choice(pool_rows) for _ in range(rng.randrange(12, 61))])
        for n in range(40 if ctx.quick() else 150):
            w, lo, lm = rng.randrange(len(wheres)), rng.randrange(len(los)), rng.randrange(len(lims))
            q = dict(**{"from": FROM5}, where=wheres[w], list=los[lo]["list"], group=[], order=los[lo]["order"],
                     limit=lims[lm]["limit"], offset=lims[lm]["offset"], style=n % 8)
            cases.append(dict(db={"t5": big}, q=q, _t=("big", b), caps=[3, 3]))
    pool = vlib.WorkerPool(ctx, binary)
    try:
        semlib.execute(ctx, pool, cases, lambda c: c["_t"], history=random.Random(ctx.seed + 5))
    finally:
        pool.close()
    report(ctx, cases, "C05", "c05")


def report(ctx, cases, prop, tag, finding_of=None, extra_cov=None):
    bad = semlib.judge(ctx, cases, tag)
    crashed = [i for i, c in enumerate(cases) if c["res"].get("panic") or c["res"].get("hang")]
    sigs = {}
    for i in crashed + bad:
        c = cases[i]
        r = c["res"]
        if r.get("panic"):
            what = "the engine panicked: " + r["panic"].splitlines()[0]
        elif r.get("hang"):
            what = "the engine hung"
        else:
            what = "result rejected by ResultOK (SqlSem.tla)" + ((": engine error `%s`" % r.get("msg")) if r.get("err") else "")
        key = what[:80] + "|" + shape(c["q"])
        if key in sigs:
            continue
        sigs[key] = i
        fids = finding_of(c, r) if finding_of else []
        if i in semlib.judge.known:
            fids = list(fids) + ["avg-running-rounding"]
        vlib.report_violation(ctx, dict(kind="sem", sql=r.get("sql"), db=c["db"], query=c["q"], result=r, detail=[what]), signature=key, finding_ids=fids)
    nontriv = set()
    for c in cases:
        rows = c["res"].get("rows") or []
        total = sum(len(t["rows"]) for t in c["db"].values())
        if not c["res"].get("err") and 0 < len(rows) and (len(rows) < total or len(c["q"].get("order") or []) or len(c["q"]["from"]) > 1 or c["q"].get("group")):
            nontriv.add(json.dumps([c["db"], c["q"]], sort_keys=True))
    cov = dict(evaluations=len(cases), distinct_nontrivial=len(nontriv),
               rule="cases = (database, query) assembled from the component sets enumerated by TLC from SqlSemGen.tla: every element of every component "
                    "at least once plus a seeded sample of the product; non-trivial = distinct cases whose result is non-empty and either drops rows, "
                    "sorts, joins or groups",
               samples=[dict(sql=c["res"].get("sql"), db=c["db"], result_rows=c["res"].get("rows")) for c in cases[:3]],
               rejected_by_tlc=len(bad), engine_errors=sum(1 for c in cases if c["res"].get("err")), panics=len(crashed))
    if extra_cov:
        cov.update(extra_cov)
    vlib.write_evidence(ctx, "exploration", cov, assumptions=[
        "TLC evaluates the oracle (SqlSem.tla ResultOK); the Go side only renders SQL text and serialises results",
        "SQL rendering in harness/cmd/sem (8 styles: keyword case, optional AS/ASC/INNER, spacing, LIMIT/OFFSET order)"])


def shape(q):
    return "w%s-l%s-o%s-g%s-f%d-lim%s" % (
        "x".join(str(len(c)) for c in (q.get("where") or [])), "".join(i["k"][0] for i in q["list"]),
        len(q.get("order") or []), len(q.get("group") or []), len(q["from"]), "y" if q["limit"] >= 0 or q["offset"] >= 0 else "n")
