"""Generic runner for the Store.tla family (C01-C04, C11, C14, C16):
TLC explores a bounded StoreMC configuration, printing one scenario per
observable transition; every scenario (or a seeded sample) is replayed on the
real engine by harness/cmd/store; verdicts come from the replays only."""
import hashlib
import json
import random

import vlib

BASE = dict(LeafCap=3, IntCap=3, FixSplitTomb="TRUE", FixDeleteLSN="TRUE", FixReplayLSN="TRUE", FixReplayRoot="TRUE", FixReplayKey="TRUE", FixStmtAtomic="TRUE",
            Tables='{"t1", "t2"}', Vals="{1, 2}", BadMode='"none"', WalSteps="FALSE", WalParts="{0}", FlushSteps="FALSE",
            CrashAt="{}", NoCrashIn="{}", Wheres=None, DmlTables=None, Ops='{"create", "insert", "update", "delete"}', MaxStmts=4, MaxRows=2, MaxFlush=1, MaxCrash=0, MaxEvict=0, EmitOn="TRUE", EmitSel='"all"', EmitMod=1, Script="<- ScriptNone", ScriptRows="<- RowsNone", ScriptSeqs="<- SeqsNone")
INVS = "ScanEqAbs CatalogOK TreesOK IdsOK StartsUp NothingLost"


def cfg_text(over, invariants=INVS):
    c = dict(BASE)
    c.update(over)
    if c["DmlTables"] is None:
        c["DmlTables"] = c["Tables"]
    if c.get("Wheres") is None:
        vals = [x.strip() for x in c["Vals"].strip("{}").split(",") if x.strip() and x.strip() != "9"]
        c["Wheres"] = "{" + ", ".join(["0"] + vals) + "}"
    lines = ["CONSTANTS"] + [("  %s <- %s" % (k, v[2:].strip()) if isinstance(v, str) and v.startswith("<-") else "  %s = %s" % (k, v)) for k, v in c.items()]
    lines += ["INIT MCInit", "NEXT MCNext", "VIEW View", "ACTION_CONSTRAINT Emit", "INVARIANTS " + invariants, "CHECK_DEADLOCK FALSE"]
    return "\n".join(lines) + "\n", c


def key_of(steps):
    return hashlib.sha1(json.dumps(steps, sort_keys=True).encode()).hexdigest()


def strip(sc):
    return {k: v for k, v in sc.items() if k not in ("mid", "post", "_key")}


class StoreRun:
    """One bounded configuration: TLC + replay of its scenarios."""

    def __init__(self, ctx, name, over, select=None, sample=None, probes=True, cache=0, timeout=1500, workers=None):
        self.ctx, self.name, self.over = ctx, name, over
        self.select = select          # predicate(scenario) -> replay it? (None: all)
        self.sample = sample          # max number of scenarios to replay (seeded sample), None = all
        self.probes, self.cache = probes, cache
        self.timeout, self.workers = timeout, workers
        self.stats = {}

    def run(self, pool, on_violation, cov):
        ctx = self.ctx
        text, consts = cfg_text(self.over)
        scns = []
        seen = [0]
        cap = 150000            # scenarios kept in memory; beyond that a seeded reservoir sample is kept
        rsv = random.Random(ctx.seed * 104729 + 7)

        def keep(k, o):
            if self.select is not None and not self.select(o):
                # not selected for replay: only its promise is needed (for the prefixes of selected paths)
                o = dict(steps=o["steps"], out=o["out"], allowed=o["allowed"], abs=o["abs"], pvok=o.get("pvok", True), _unselected=True)
            seen[0] += 1
            if len(scns) < cap:
                scns.append(o)
            else:
                j = rsv.randrange(seen[0])
                if j < cap:
                    scns[j] = o
        res = vlib.run_tlc(ctx, "StoreMC", "StoreMC_gen.cfg", cfg_text=text, tag=self.name, timeout=self.timeout,
                           workers=self.workers, on_scn=keep)
        if res.status != "ok":
            tail = "\n".join(res.out[-60:])
            raise vlib.Undecided("StoreMC[%s]: TLC status=%s (model-level problem, not a verdict about the code)\n%s" % (self.name, res.status, tail))
        if not scns:
            raise vlib.Undecided("StoreMC[%s] emitted no scenarios" % self.name)
        # promise after every emitted prefix
        mids = {}
        byk = {}
        for sc in scns:
            byk[(len(sc["steps"]), key_of(sc["steps"]))] = sc
            mids[(len(sc["steps"]), key_of(sc["steps"]))] = dict(out=sc["out"], allowed=sc["allowed"], abs=sc["abs"], pvok=sc.get("pvok", True))
        todo = [sc for sc in scns if not sc.get("_unselected")]
        total = len(todo)
        if seen[0] > len(scns) or int(consts.get("EmitMod", 1)) > 1:
            cov["exhaustive"] = False
        if self.sample is not None and len(todo) > self.sample:
            rng = random.Random(ctx.seed * 7919 + len(todo))
            todo = rng.sample(todo, self.sample)
        caps = [consts["LeafCap"], consts["IntCap"]]
        for sc in todo:
            steps = sc["steps"]
            mid = {}
            for n in range(1, len(steps)):
                m = mids.get((n, key_of(steps[:n])))
                if m:
                    mid[str(n)] = m
            sc["mid"] = mid
            sc["caps"] = caps
            sc["probes"] = self.probes
            sc["cache"] = self.cache
        st = dict(name=self.name, constants={k: consts[k] for k in consts if k != "EmitOn"}, distinct=res.distinct, generated=res.generated,
                  depth=res.depth, scenarios=seen[0], selected=total, replayed=0, diverged=0, drift=0, cachefull=0,
                  tlc_s=round(res.wall, 1), outs={}, feats={}, tainted=0)
        self.stats = st

        def on_result(req, r):
            st["replayed"] += 1
            st["outs"][req["out"]] = st["outs"].get(req["out"], 0) + 1
            for f in r.get("feat") or []:
                st["feats"][f] = st["feats"].get(f, 0) + 1
            if req.get("taint"):
                st["tainted"] += 1
            if r.get("cachefull"):
                st["cachefull"] += 1
            if r.get("diverged"):
                st["diverged"] += 1
                if len(cov.setdefault("diverged_samples", [])) < 5:
                    cov["diverged_samples"].append(dict(cfg=self.name, why=r["diverged"], steps=req["steps"]))
            if r.get("drift"):
                st["drift"] += 1
                if len(cov.setdefault("drift_samples", [])) < 5:
                    cov["drift_samples"].append(dict(cfg=self.name, drift=r["drift"], steps=req["steps"]))
            if not r["ok"]:
                on_violation(self, req, r)
            elif not r.get("diverged"):
                smp = dict(cfg=self.name, steps=req["steps"], out=req["out"], promised=req["allowed"], observed=r.get("observed"), taint=req.get("taint"))
                if len(cov["samples"]) < 4:
                    cov["samples"].append(smp)
                else:
                    # keep the longest paths seen
                    j = min(range(len(cov["samples"])), key=lambda x: len(cov["samples"][x]["steps"]))
                    if len(cov["samples"][j]["steps"]) < len(smp["steps"]):
                        cov["samples"][j] = smp

        variants = []
        chosen = set(id(sc) for sc in todo)

        def on_result_collect(req, r):
            on_result(req, r)
            # a sampled path whose PREFIX already disagrees with the promise cannot be judged; the scenario that ends at
            # that prefix is the one to judge: make sure it is replayed even if the sample left it out
            if (r.get("diverged") or "").startswith("prefix already failed") and not req.get("_variant"):
                for n in range(1, len(req["steps"])):
                    psc = byk.get((n, key_of(req["steps"][:n])))
                    if psc is not None and id(psc) not in chosen and not psc.get("_unselected"):
                        chosen.add(id(psc))
                        steps = psc["steps"]
                        psc["mid"] = {str(k): mids[(k, key_of(steps[:k]))] for k in range(1, len(steps)) if (k, key_of(steps[:k])) in mids}
                        psc["caps"], psc["probes"], psc["cache"], psc["_variant"] = caps, self.probes, self.cache, True
                        variants.append(psc)
                        st["prefixes_added_after_divergence"] = st.get("prefixes_added_after_divergence", 0) + 1
            # the real flush wrote pages the specification's flush did not (drift): the property quantifies over every
            # subset of the pages the REAL flush writes, so those subsets are explored too (same promise)
            for idx, extra in (r.get("extra") or {}).items():
                if r.get("diverged") or not r["ok"] or req.get("_variant"):
                    continue
                i = int(idx)
                combos = [extra] + ([[e] for e in extra[:3]] if len(extra) > 1 else [])
                for add in combos:
                    v = json.loads(json.dumps({k: val for k, val in req.items() if k != "_variant"}))
                    v["steps"][i]["written"] = sorted(set(v["steps"][i]["written"]) | set(add))
                    v["_variant"] = True
                    variants.append(v)
        pool.run_all(todo, on_result_collect, chunk=16)
        if variants:
            st["flush_subset_variants_from_real_writes"] = len(variants)
            pool.run_all(variants, on_result, chunk=16)
        cov["states"] += res.distinct
        cov["transitions"] += res.generated
        cov["traces_validated_against_impl"] += st["replayed"] - st["diverged"]
        cov["configs"].append(st)
        if st["selected"] > st["replayed"]:
            cov["exhaustive"] = False
        return st


def new_cov():
    return dict(states=0, transitions=0, traces_validated_against_impl=0, samples=[], exhaustive=True, configs=[])


def model_predicts_damage(sc):
    """A scenario whose path went through a known-defective situation (taint) is excused by the known finding only when the
    specification's own page-level model predicts the damage on this very history: somewhere on the path (or at its end) the
    model's pages no longer hold an allowed state (pvok FALSE: recovery `lost`/`dead`, or a later scan of the model's pages
    differing from the promise).  Where the model recovers cleanly, the code must too.  A prefix whose verdict TLC did not
    print (sampling) counts as damage: never an alarm on incomplete information."""
    if sc.get("pvok") is False:
        return True
    steps = sc["steps"]
    mid = sc.get("mid") or {}
    seen_crash = False
    for n in range(1, len(steps)):
        if steps[n - 1].get("a") == "crash":
            seen_crash = True
        if not seen_crash:
            continue
        m = mid.get(str(n))
        if m is None:
            # nothing is printed while a recovery's flush is in flight (out = none): only completed steps count
            if steps[n - 1].get("a") in ("recover", "insert", "update", "delete", "create", "flush") and not _inflight_after(steps, n):
                return True
            continue
        if m.get("pvok") is False:
            return True
    return False


def starts_in_model(sc, r):
    """Does the specification's recovery complete at the step where the real one failed?"""
    steps = sc["steps"]
    k = r.get("step")
    if k is None or not (0 <= k < len(steps)) or steps[k].get("a") != "recover":
        return False
    if k == len(steps) - 1:
        return sc.get("out") == "recovered"
    m = (sc.get("mid") or {}).get(str(k + 1))
    return bool(m) and m.get("out") == "recovered"


def _inflight_after(steps, n):
    """Is there no completed observable point after step n (1-based count of steps taken)?  A `recover` whose final flush is
    crashed again, and steps between FlushBegin and FlushHdr, emit nothing."""
    a = steps[n - 1].get("a")
    nxt = steps[n].get("a") if n < len(steps) else None
    return nxt == "crash" and a in ("recover", "flush")


def default_violation(ctx, finding_of=None):
    """finding_of(req, r) -> list of known-finding ids this failing scenario matches."""
    def on_violation(run, req, r):
        # a known-finding signature counts when the specification's path has it or the recorded I/O of the real run has it
        if req.get("taint"):
            # the specification's path is in a known-defective class: excused only where the model predicts the damage
            fids = list(req["taint"]) if model_predicts_damage(req) else []
            # ... and only the damage it predicts: where the model's own recovery (Store!Replay over the torn image, as the
            # code was found) runs to its end, a real recovery that refuses to start is something else
            if fids and starts_in_model(req, r) and any(v.startswith("the database does not start") for v in (r.get("viol") or [])):
                fids = []
        else:
            # the specification's path is clean but the real run's recorded I/O has the signature (the real flush wrote
            # other pages than the model's): the model says nothing about this history
            fids = list(r.get("real_taint") or [])
        if finding_of:
            fids += finding_of(req, r)
        vlib.report_violation(ctx, dict(kind="store-replay", cfg=run.name, constants=run.stats.get("constants"), steps=req["steps"],
                                        promised=req["allowed"], observed=r.get("observed"), detail=r.get("viol"),
                                        failing_step=r.get("step"), taint=req.get("taint"), cache=run.cache,
                                        scenario=strip(req)),
                              signature=";".join(r.get("viol") or [])[:200], finding_ids=fids)
    return on_violation


def replay_file(ctx, pool_binary, path):
    """./check Cxx --replay <file>: re-run one recorded scenario."""
    d = json.load(open(path))
    sc = d.get("scenario")
    if not sc:
        raise vlib.Undecided("replay file has no scenario")
    pool = vlib.WorkerPool(ctx, pool_binary, n=1)
    out = []
    try:
        sc = dict(sc)
        sc.setdefault("caps", [3, 3])
        sc["probes"] = True
        sc["cache"] = d.get("cache", 0)
        pool.run_all([sc], lambda q, r: out.append(r))
    finally:
        pool.close()
    r = out[0]
    print(json.dumps(r, indent=1))
    if not r["ok"]:
        vlib.report_violation(ctx, dict(kind="store-replay", steps=sc["steps"], detail=r.get("viol"), scenario=strip(sc)),
                              finding_ids=list(sc.get("taint") or []))


# ---------------------------------------------------------------- code -> specification: random long runs

TT_CFG = """CONSTANTS
  LeafCap = %d
  IntCap = %d
  FixSplitTomb = TRUE
INIT Init
NEXT Next
INVARIANT AllOK
POSTCONDITION Done
CHECK_DEADLOCK FALSE
"""


def random_runs(ctx, pool, cov, runs, judge_graphs=False):
    """runs: list of dicts for harness/cmd/store mode=random (seed, n, caps, cache, pcrash, pflush, wal, maxrows, bias,
    graphevery). Each run is recorded as an NDJSON trace and validated by TLC against AbsTrace.tla (MkdbAbs); page graphs
    (if requested) are judged by TreeTrace.tla at the run's capacities."""
    import os
    from concurrent.futures import ThreadPoolExecutor
    tdir = ctx.sub("random")
    reqs = []
    for i, r in enumerate(runs):
        rr = dict(r)
        rr["out"] = os.path.join(tdir, "trace-%d.ndjson" % i)
        if judge_graphs or rr.get("graphevery"):
            rr["graphout"] = os.path.join(tdir, "graphs-%d.ndjson" % i)
        rr["orderout"] = os.path.join(tdir, "order-%d.ndjson" % i)
        reqs.append(dict(mode="random", rand=rr, _i=i))
    results = {}
    old_to = pool.request_timeout
    pool.request_timeout = 900      # a long run is one request
    try:
        pool.run_all(reqs, lambda q, r: results.__setitem__(q["_i"], r), chunk=1)
    finally:
        pool.request_timeout = old_to
    agg = cov.setdefault("random_runs", dict(runs=0, statements=0, events=0, recoveries=0, crash_in_log=0, crash_idle=0, flushes=0,
                                             max_rows_in_a_table=0, max_tree_levels=0, graphs_judged_by_tlc=0, cache_full_discarded=0,
                                             traces_accepted_by_tlc=0, tlc_states=0, order_events_accepted_by_walorder=0))

    def validate(i):
        r = results[i]
        rq = reqs[i]["rand"]
        if r.get("cachefull"):
            return ("cachefull", i, None)
        if not r["ok"]:
            return ("viol", i, dict(detail=r.get("viol"), run=rq))
        if r.get("diverged"):
            return ("undecided", i, r["diverged"])
        trace = open(rq["out"]).read()
        outs = []
        t = vlib.run_tlc(ctx, "AbsTrace", "AbsTrace.cfg", workers=1, timeout=1800, tag="r%d" % i, files={"trace.ndjson": trace},
                         on_scn=lambda k, o: outs.append(o), xss="256m", heap="3g")
        if t.status != "ok" and not outs:
            t = vlib.run_tlc(ctx, "AbsTrace", "AbsTrace.cfg", workers=1, timeout=3000, tag="r%d-again" % i, files={"trace.ndjson": trace},
                             on_scn=lambda k, o: outs.append(o), xss="1g", heap="8g")
        if t.status != "ok":
            reached = outs[-1]["reached"] if outs else None
            if reached is None:
                return ("undecided", i, "AbsTrace: TLC failed\n" + "\n".join(t.out[-20:]))
            lines = trace.splitlines()
            evs = [json.loads(x) for x in lines[max(0, reached - 6):reached]]
            for e in evs:
                if isinstance(e.get("rows"), list) and len(e["rows"]) > 60:
                    e["rows"] = e["rows"][:30] + ["...(%d)" % len(e["rows"])] + e["rows"][-30:]
            return ("viol", i, dict(detail=["event %d of the recorded run is not a step MkdbAbs allows: %s" % (reached, json.dumps(evs[-1])[:300])],
                                    events_before_and_at=evs, run=rq))
        # the same run's order trace (locks, stamps, data-file and log writes) must be a behaviour of WalOrder.tla
        nord = 0
        if rq.get("orderout") and os.path.exists(rq["orderout"]):
            otxt = open(rq["orderout"]).read()
            nord = otxt.count("\n")
            oouts = []
            o = vlib.run_tlc(ctx, "WalOrderTrace", "WalOrderTrace.cfg", workers=1, timeout=1800, tag="o%d" % i,
                             files={"order.ndjson": otxt}, on_scn=lambda k, x: oouts.append(x), xss="256m", heap="3g")
            if o.status != "ok" and not oouts and not o.violated:
                # the JVM died or ran out of stack / memory (many validations run side by side): once more, alone-sized
                o = vlib.run_tlc(ctx, "WalOrderTrace", "WalOrderTrace.cfg", workers=1, timeout=3000, tag="o%d-again" % i,
                                 files={"order.ndjson": otxt}, on_scn=lambda k, x: oouts.append(x), xss="1g", heap="8g")
            if o.status != "ok":
                reached = oouts[-1]["reached"] if oouts else None
                olines = otxt.splitlines()
                if o.violated and o.violated != "Accepted":
                    # an invariant of WalOrder failed in a state the trace reached
                    return ("viol", i, dict(detail=["the recorded order of page stamps, log and data-file writes breaks %s (WalOrder.tla)" % o.violated],
                                            tlc=o.out[-40:], run=rq))
                if reached is None:
                    return ("undecided", i, "WalOrderTrace: TLC failed\n" + "\n".join(o.out[-20:]))
                evs = [json.loads(x) for x in olines[max(0, reached - 12):reached]]
                return ("viol", i, dict(detail=["order event %d of the recorded run is not a step WalOrder allows: %s" % (reached, json.dumps(evs[-1]))],
                                        events_before_and_at=evs, run=rq))
        bad = None
        ng = 0
        if rq.get("graphout") and os.path.exists(rq["graphout"]):
            gtxt = open(rq["graphout"]).read()
            ng = gtxt.count("\n")
            caps = rq.get("caps") or [9, 290]
            g = vlib.run_tlc(ctx, "TreeTrace", "TreeTrace.cfg", cfg_text=TT_CFG % tuple(caps), workers=1, timeout=3000, tag="g%d" % i,
                             files={"graphs.ndjson": gtxt}, xss="1g", heap="4g")
            if g.status != "ok":
                if g.violated != "AllOK":
                    return ("undecided", i, "TreeTrace: TLC failed\n" + "\n".join(g.out[-20:]))
                bad = "TreeOK (BTree.tla) is false for a page graph recorded during the run"
        st = r.get("stats", {})
        return ("ok" if not bad else "viol", i, dict(stats=st, states=t.distinct, graphs=ng, order=nord, detail=[bad] if bad else None, run=rq))

    # one JVM per trace: at most half the cores at a time, each with a bounded heap (16 unbounded JVMs next to other jobs
    # were seen to lose one to memory pressure, which made the whole check Undecided)
    with ThreadPoolExecutor(max_workers=min(len(reqs), max(2, vlib.NCPU // 2))) as ex:
        outs = list(ex.map(validate, range(len(reqs))))
    for kind, i, info in outs:
        if kind == "undecided":
            raise vlib.Undecided("random run %d: %s" % (i, info))
        if kind == "cachefull":
            agg["cache_full_discarded"] += 1
            continue
        if kind == "viol" and not (info.get("stats")):
            vlib.report_violation(ctx, dict(kind="random-run", **info), signature="random:" + (info["detail"] or [""])[0][:120])
            continue
        st = info["stats"]
        agg["runs"] += 1
        agg["statements"] += st.get("stmts", 0)
        agg["events"] += st.get("events", 0)
        agg["recoveries"] += st.get("recoveries", 0)
        agg["crash_in_log"] += st.get("crash-in-log", 0)
        agg["crash_inside_log_write"] = agg.get("crash_inside_log_write", 0) + st.get("crash-inside-log-write", 0)
        agg["crash_idle"] += st.get("crash-idle", 0)
        agg["flushes"] += st.get("flushes", 0)
        agg["max_rows_in_a_table"] = max(agg["max_rows_in_a_table"], st.get("maxrows", 0))
        agg["max_tree_levels"] = max(agg["max_tree_levels"], st.get("levels", 0))
        agg["graphs_judged_by_tlc"] += info.get("graphs", 0)
        agg["tlc_states"] += info.get("states", 0)
        agg["flushes_failed"] = agg.get("flushes_failed", 0) + st.get("flushes-failed", 0)
        agg["evicted_after_failed_flush"] = agg.get("evicted_after_failed_flush", 0) + st.get("evicted-after-failed-flush", 0)
        agg["read_fault_rounds"] = agg.get("read_fault_rounds", 0) + st.get("read-fault-rounds", 0)
        agg["prefix_named_tables"] = agg.get("prefix_named_tables", 0) + st.get("prefix-named-tables", 0)
        agg["pages_round_tripped"] = agg.get("pages_round_tripped", 0) + st.get("pages-round-tripped", 0)
        agg["cachefull_statements_restarted"] = agg.get("cachefull_statements_restarted", 0) + st.get("cachefull-stmts", 0)
        agg["mixed_refused_updates"] = agg.get("mixed_refused_updates", 0) + st.get("mixed-updates", 0)
        agg["wide_updates_refused_by_a_full_cache"] = agg.get("wide_updates_refused_by_a_full_cache", 0) + st.get("wide-updates-refused-by-a-full-cache", 0)
        agg["wide_updates_under_a_small_cache"] = agg.get("wide_updates_under_a_small_cache", 0) + st.get("wide-updates-under-a-small-cache", 0)
        agg["crash_in_shutdown_flush"] = agg.get("crash_in_shutdown_flush", 0) + st.get("crash-in-shutdown-flush", 0)
        agg["order_events_accepted_by_walorder"] = agg.get("order_events_accepted_by_walorder", 0) + info.get("order", 0)
        if kind == "viol":
            vlib.report_violation(ctx, dict(kind="random-run-graph", detail=info["detail"], run=info["run"]), signature="random-graph")
        else:
            agg["traces_accepted_by_tlc"] += 1
            cov["traces_validated_against_impl"] += 1
    return agg


def design_only(ctx, name, over, cov, timeout=900):
    """A large bounded configuration explored by TLC alone (no scenario emission, nothing replayed): checks the
    invariants of the page-level design against the abstract promise far beyond what can be replayed. A violation
    here is a statement about the model, so it is never a verdict: it is reported as Undecided (it must first be
    reproduced on the code by a replayable configuration)."""
    text, consts = cfg_text(dict(over, EmitOn="FALSE"))
    res = vlib.run_tlc(ctx, "StoreMC", "StoreMC_design.cfg", cfg_text=text, tag="design-" + name, timeout=timeout)
    st = dict(name=name, design_only=True, constants={k: consts[k] for k in consts if k not in ("EmitOn", "EmitSel")},
              distinct=res.distinct, generated=res.generated, depth=res.depth, tlc_s=round(res.wall, 1), status=res.status)
    if res.status == "timeout":
        # bounded by time, not by the state space: report what was covered
        for line in reversed(res.out):
            import re
            m = re.search(r"([\d,]+) states generated.*?([\d,]+) distinct states found", line)
            if m:
                st["generated"], st["distinct"] = int(m.group(1).replace(",", "")), int(m.group(2).replace(",", ""))
                break
        st["status"] = "time-bounded"
    elif res.status != "ok":
        raise vlib.Undecided("StoreMC[design %s]: TLC status=%s (a design-level counterexample is not a verdict about the code)\n%s"
                             % (name, res.status, "\n".join(res.out[-60:])))
    cov.setdefault("design_only_configs", []).append(st)
    cov["states"] += st["distinct"]
    cov["transitions"] += st["generated"]
    return st

WALORDER_CFG = """CONSTANTS
  Pages = {1, 2}
  MaxLsn = %d
  MaxCrash = 1
INIT MCInit
NEXT MCNext
INVARIANTS WriteAhead HeaderCovers NoOrphanStamp
PROPERTIES LogMonotoneOutsideCrash
CHECK_DEADLOCK FALSE
"""


def walorder_design(ctx, cov, live=False):
    """The write-ordering discipline itself (WalOrder.tla), checked by TLC on a bounded instance: every interleaving of
    statements, flushes, failing page writes, a crash and the recovery implies write-ahead logging and a header that covers
    the file; in the thorough tier also its progress (WalOrderLive: every dirty page is eventually written, every flush
    ends). The order traces of the real runs are then validated against the same module (random_runs)."""
    max_lsn = 2 if ctx.quick() else 3
    r = vlib.run_tlc(ctx, "WalOrderMC", "WalOrderMC.cfg", cfg_text=WALORDER_CFG % max_lsn, timeout=(300 if ctx.quick() else 1500), tag="design")
    vlib.tlc_must_ok(ctx, r, "WalOrderMC")
    d = dict(module="WalOrderMC", constants=dict(Pages="{1, 2}", MaxLsn=max_lsn, MaxCrash=1), distinct=r.distinct, generated=r.generated, depth=r.depth,
             invariants=["WriteAhead", "HeaderCovers", "NoOrphanStamp"], properties=["LogMonotoneOutsideCrash"])
    cov.setdefault("design_models", []).append(d)
    cov["states"] = cov.get("states", 0) + (r.distinct or 0)
    cov["transitions"] = cov.get("transitions", 0) + (r.generated or 0)
    # ... and for any number of pages, LSNs and steps: the three guarantees are consequences of an inductive invariant of the
    # unbounded next-state relation (TLAPS proof in WalOrderProof.tla, re-checked here)
    ok, n, tail = vlib.run_tlapm(ctx, "WalOrderProof")
    if not ok:
        raise vlib.Undecided("WalOrderProof: the proof system did not prove every obligation (model-level problem)\n" + "\n".join(tail))
    cov["design_models"].append(dict(module="WalOrderProof", tool="tlapm", obligations_proved=n, theorem="Spec => [](WriteAhead /\\ HeaderCovers /\\ NoOrphanStamp)"))
    if live:
        r = vlib.run_tlc(ctx, "WalOrderLive", "WalOrderLive.cfg", workers=8, timeout=1500, tag="live")
        vlib.tlc_must_ok(ctx, r, "WalOrderLive")
        cov["design_models"].append(dict(module="WalOrderLive", constants=dict(Pages="{1, 2}", MaxLsn=2, MaxCrash=0), distinct=r.distinct, generated=r.generated,
                                         fairness="SF ExclusiveLock, SF WritePage per dirty page, WF header / unlock / statement steps",
                                         properties=["DirtyEventuallyWritten", "FlushEnds"]))
