"""Generic runner for the Store.tla family (C01-C04, C11, C14, C16):
TLC explores a bounded StoreMC configuration, printing one scenario per
observable transition; every scenario (or a seeded sample) is replayed on the
real engine by harness/cmd/store; verdicts come from the replays only."""
import hashlib
import json
import random

import vlib

BASE = dict(LeafCap=3, IntCap=3, FixSplitTomb="TRUE", FixDeleteLSN="TRUE", FixReplayLSN="TRUE",
            Tables='{"t1", "t2"}', Vals="{1, 2}", BadMode='"none"', WalSteps="FALSE", FlushSteps="FALSE",
            CrashAt="{}", DmlTables=None, Ops='{"create", "insert", "update", "delete"}', MaxStmts=4, MaxRows=2, MaxFlush=1, MaxCrash=0, EmitOn="TRUE")
INVS = "ScanEqAbs CatalogOK TreesOK IdsOK StartsUp NothingLost"


def cfg_text(over, invariants=INVS):
    c = dict(BASE)
    c.update(over)
    if c["DmlTables"] is None:
        c["DmlTables"] = c["Tables"]
    lines = ["CONSTANTS"] + ["  %s = %s" % (k, v) for k, v in c.items()]
    lines += ["INIT MCInit", "NEXT MCNext", "VIEW View", "ACTION_CONSTRAINT Emit", "INVARIANTS " + invariants, "CHECK_DEADLOCK FALSE"]
    return "\n".join(lines) + "\n", c


def key_of(steps):
    return hashlib.sha1(json.dumps(steps, sort_keys=True).encode()).hexdigest()


def strip(sc):
    return {k: v for k, v in sc.items() if k not in ("mid", "post", "_key")}


class StoreRun:
    """One bounded configuration: TLC + replay of its scenarios."""

    def __init__(self, ctx, name, over, select=None, sample=None, probes=True, cache=0, timeout=1500, workers=None):
        self.ctx, self.name, self.over = ctx, name, over
        self.select = select          # predicate(scenario) -> replay it? (None: all)
        self.sample = sample          # max number of scenarios to replay (seeded sample), None = all
        self.probes, self.cache = probes, cache
        self.timeout, self.workers = timeout, workers
        self.stats = {}

    def run(self, pool, on_violation, cov):
        ctx = self.ctx
        text, consts = cfg_text(self.over)
        scns = []
        res = vlib.run_tlc(ctx, "StoreMC", "StoreMC_gen.cfg", cfg_text=text, tag=self.name, timeout=self.timeout,
                           workers=self.workers, on_scn=lambda k, o: scns.append(o))
        if res.status != "ok":
            tail = "\n".join(res.out[-60:])
            raise vlib.Undecided("StoreMC[%s]: TLC status=%s (model-level problem, not a verdict about the code)\n%s" % (self.name, res.status, tail))
        if not scns:
            raise vlib.Undecided("StoreMC[%s] emitted no scenarios" % self.name)
        # promise after every emitted prefix
        mids = {}
        for sc in scns:
            mids[(len(sc["steps"]), key_of(sc["steps"]))] = dict(out=sc["out"], allowed=sc["allowed"], abs=sc["abs"])
        todo = [sc for sc in scns if (self.select is None or self.select(sc))]
        total = len(todo)
        if self.sample is not None and len(todo) > self.sample:
            rng = random.Random(ctx.seed * 7919 + len(todo))
            todo = rng.sample(todo, self.sample)
        caps = [consts["LeafCap"], consts["IntCap"]]
        for sc in todo:
            steps = sc["steps"]
            mid = {}
            for n in range(1, len(steps)):
                m = mids.get((n, key_of(steps[:n])))
                if m:
                    mid[str(n)] = m
            sc["mid"] = mid
            sc["caps"] = caps
            sc["probes"] = self.probes
            sc["cache"] = self.cache
        st = dict(name=self.name, constants={k: consts[k] for k in consts if k != "EmitOn"}, distinct=res.distinct, generated=res.generated,
                  depth=res.depth, scenarios=len(scns), selected=total, replayed=0, diverged=0, drift=0, cachefull=0,
                  tlc_s=round(res.wall, 1), outs={}, feats={}, tainted=0)
        self.stats = st

        def on_result(req, r):
            st["replayed"] += 1
            st["outs"][req["out"]] = st["outs"].get(req["out"], 0) + 1
            for f in r.get("feat") or []:
                st["feats"][f] = st["feats"].get(f, 0) + 1
            if req.get("taint"):
                st["tainted"] += 1
            if r.get("cachefull"):
                st["cachefull"] += 1
            if r.get("diverged"):
                st["diverged"] += 1
                if len(cov.setdefault("diverged_samples", [])) < 5:
                    cov["diverged_samples"].append(dict(cfg=self.name, why=r["diverged"], steps=req["steps"]))
            if r.get("drift"):
                st["drift"] += 1
                if len(cov.setdefault("drift_samples", [])) < 5:
                    cov["drift_samples"].append(dict(cfg=self.name, drift=r["drift"], steps=req["steps"]))
            if not r["ok"]:
                on_violation(self, req, r)
            elif not r.get("diverged"):
                smp = dict(cfg=self.name, steps=req["steps"], out=req["out"], promised=req["allowed"], observed=r.get("observed"), taint=req.get("taint"))
                if len(cov["samples"]) < 4:
                    cov["samples"].append(smp)
                else:
                    # keep the longest paths seen
                    j = min(range(len(cov["samples"])), key=lambda x: len(cov["samples"][x]["steps"]))
                    if len(cov["samples"][j]["steps"]) < len(smp["steps"]):
                        cov["samples"][j] = smp

        pool.run_all(todo, on_result, chunk=16)
        cov["states"] += res.distinct
        cov["transitions"] += res.generated
        cov["traces_validated_against_impl"] += st["replayed"] - st["diverged"]
        cov["configs"].append(st)
        if st["selected"] > st["replayed"]:
            cov["exhaustive"] = False
        return st


def new_cov():
    return dict(states=0, transitions=0, traces_validated_against_impl=0, samples=[], exhaustive=True, configs=[])


def default_violation(ctx, finding_of=None):
    """finding_of(req, r) -> list of known-finding ids this failing scenario matches."""
    def on_violation(run, req, r):
        fids = list(req.get("taint") or [])
        if finding_of:
            fids += finding_of(req, r)
        vlib.report_violation(ctx, dict(kind="store-replay", cfg=run.name, constants=run.stats.get("constants"), steps=req["steps"],
                                        promised=req["allowed"], observed=r.get("observed"), detail=r.get("viol"),
                                        failing_step=r.get("step"), taint=req.get("taint"), cache=run.cache,
                                        scenario=strip(req)),
                              signature=";".join(r.get("viol") or [])[:200], finding_ids=fids)
    return on_violation


def replay_file(ctx, pool_binary, path):
    """./check Cxx --replay <file>: re-run one recorded scenario."""
    d = json.load(open(path))
    sc = d.get("scenario")
    if not sc:
        raise vlib.Undecided("replay file has no scenario")
    pool = vlib.WorkerPool(ctx, pool_binary, n=1)
    out = []
    try:
        sc = dict(sc)
        sc.setdefault("caps", [3, 3])
        sc["probes"] = True
        sc["cache"] = d.get("cache", 0)
        pool.run_all([sc], lambda q, r: out.append(r))
    finally:
        pool.close()
    r = out[0]
    print(json.dumps(r, indent=1))
    if not r["ok"]:
        vlib.report_violation(ctx, dict(kind="store-replay", steps=sc["steps"], detail=r.get("viol"), scenario=strip(sc)),
                              finding_ids=list(sc.get("taint") or []))
