#!/usr/bin/env python3
"""Prints the numbers of DESIGN.md 11.2 from the evidence files of the last run of every check."""
import json
import os

V = os.path.dirname(os.path.dirname(os.path.abspath(__file__)))
for i in range(1, 21):
    p = "C%02d" % i
    f = os.path.join(V, "evidence", p + ".json")
    if not os.path.exists(f):
        continue
    e = json.load(open(f))
    c = e["coverage"]
    rr = c.get("random_runs") or {}
    cfgs = c.get("configs") or []
    replayed = sum(x.get("replayed", 0) for x in cfgs if isinstance(x, dict))
    scen = sum(x.get("scenarios", 0) for x in cfgs if isinstance(x, dict))
    print("%s tier=%s seed=%s wall=%ss states=%s transitions=%s scenarios=%s replayed=%s evaluations=%s traces=%s | random: runs=%s stmts=%s recov=%s order_events=%s | viol=%s known=%s" % (
        p, e["tier"], e["seed"], e["wall_s"], c.get("states"), c.get("transitions"), scen or c.get("scenarios"), replayed or None,
        c.get("evaluations"), c.get("traces_validated_against_impl"), rr.get("runs"), rr.get("statements"), rr.get("recoveries"),
        rr.get("order_events_accepted_by_walorder"), e["violations"], c.get("known_findings_reproduced")))
