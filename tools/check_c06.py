"""C06 - JOIN results equal the relational definition."""
import random

import vlib
import semlib
from check_c05 import report

N = {"quick": 5000, "thorough": 80000}


def run(ctx):
    binary = vlib.build_harness(ctx, "sem")
    sets = semlib.gen_sets(ctx)
    rng = random.Random(ctx.seed)
    dbs = sets["dbs6"]
    cases = []
    n1 = int(N[ctx.tier] * 0.7)
    for n, (d, f, l, w) in enumerate(semlib.cover_product(rng, [dbs, sets["froms6"], sets["lists6"], sets["wheres6"]], n1)):
        fr = sets["froms6"][f]
        # WHERE over a column that an outer join may have padded with NULL is outside the property (non-NULL operands)
        wh = sets["wheres6"][w] if all(x["jt"] in ("", "inner") for x in fr) else []
        q = dict(**{"from": fr}, where=wh, list=sets["lists6"][l], group=[], order=[], limit=-1, offset=-1, style=n % 8)
        cases.append(dict(db=dbs[d], q=q, _t=d))
    for n, (d, f, l) in enumerate(semlib.cover_product(rng, [dbs, sets["fromsalias6"], sets["listsalias6"]], N[ctx.tier] - n1)):
        q = dict(**{"from": sets["fromsalias6"][f]}, where=[], list=sets["listsalias6"][l], group=[], order=[], limit=-1, offset=-1, style=n % 8)
        cases.append(dict(db=dbs[d], q=q, _t=d))
    for n, (d, f, l) in enumerate(semlib.cover_product(rng, [dbs, sets["fromssame6"], sets["listssame6"]], max(200, N[ctx.tier] // 20))):
        q = dict(**{"from": sets["fromssame6"][f]}, where=[], list=sets["listssame6"][l], group=[], order=[], limit=-1, offset=-1, style=n % 8)
        cases.append(dict(db=dbs[d], q=q, _t=d))
    # an ambiguous name behind an operand that decides ON for every pair (l.id = r.y never holds, l.id < r.y always does:
    # r.y is 11..43). Without any pair to evaluate ON on (an empty side) the engine has nothing to resolve: not generated.
    for n, (d, f) in enumerate(semlib.cover_product(rng, [dbs, sets["fromsambon6"]], max(300, N[ctx.tier] // 15))):
        if not dbs[d]["l"]["rows"] or not dbs[d]["r"]["rows"]:
            continue
        fr = sets["fromsambon6"][f]
        if len(fr) == 3:
            # a chain: the second ON is only looked at when the first join produced a row and z has one
            pairs = any(lr[1]["v"] == rr[0]["v"] for lr in dbs[d]["l"]["rows"] for rr in dbs[d]["r"]["rows"])
            if not dbs[d]["z"]["rows"] or (fr[1]["jt"] == "inner" and not pairs):
                continue
        star = next(x for x in sets["lists6"] if x[0]["k"] == "star")
        q = dict(**{"from": sets["fromsambon6"][f]}, where=[], list=star, group=[], order=[], limit=-1, offset=-1, style=n % 8)
        cases.append(dict(db=dbs[d], q=q, _t=d))
    # large joins (thousands of row pairs, where an engine may switch to another join method): keys repeated round-robin,
    # so that equal keys are never neighbours in storage order; some parents without children, some children without parent
    def cell(t, v=0, s=()):
        return dict(t=t, v=v, s=list(s))
    cols = {k: dbs[0][k]["cols"] for k in ("l", "r", "o", "z")}
    two = [f for f in sets["froms6"] if len(f) == 2 and f[1]["tbl"] == "r" and len(f[1]["on"]) == 1 and len(f[1]["on"][0]) == 1]
    for b in range(3 if ctx.quick() else 12):
        nl, nr, mod = rng.randrange(60, 75), rng.randrange(64, 80), rng.choice([8, 9, 13])
        big = dict(l=dict(cols=cols["l"], rows=[[cell("i", i + 1), cell("i", i % (mod + 2)), cell("b", i % 2)] for i in range(nl)]),
                   r=dict(cols=cols["r"], rows=[[cell("i", j % mod), cell("s", 0, [97 + j % 3]), cell("i", 11 + j)] for j in range(nr)]),
                   o=dict(cols=cols["o"], rows=[]), z=dict(cols=cols["z"], rows=[]))
        for f in two:
            star = next(x for x in sets["lists6"] if x[0]["k"] == "star")
            cases.append(dict(db=big, q=dict(**{"from": f}, where=[], list=star, group=[], order=[], limit=-1, offset=-1, style=b % 8), _t=("big", b)))
    pool = vlib.WorkerPool(ctx, binary)
    try:
        semlib.execute(ctx, pool, cases, lambda c: c["_t"], history=random.Random(ctx.seed + 6))
    finally:
        pool.close()
    kinds = {}
    for c in cases:
        for f in c["q"]["from"][1:]:
            kinds[f["jt"]] = kinds.get(f["jt"], 0) + 1
        if c["res"].get("err"):
            kinds["refused"] = kinds.get("refused", 0) + 1
    for k in ("inner", "left", "right", "refused"):
        if not kinds.get(k):
            raise vlib.Undecided("vacuous: no case of kind %s" % k)
    report(ctx, cases, "C06", "c06")
