"""Shared by check_c09.py and check_c10.py: configurations of SqlGrammarMC.tla,
streaming of TLC-generated scenarios to the sqlfe harness, panic signatures."""
import hashlib
import json
import queue
import re
import threading

import vlib

# ---------------------------------------------------------------- TLC configurations

POOLS = {
    # size -> constant -> definition in SqlGrammarMC.tla
    "S": dict(BigInts="MC_BigInts_S", UniStrs="MC_UniStrs_S", UniIdents="MC_UniIdents_S", TrickyStrs="MC_TrickyStrs_S", QuotedIdents="MC_QuotedIdents", Aliases="MC_Aliases_S", Dbs="MC_Dbs_S", IntLits="MC_IntLits", StrLits="MC_StrLits", LimVals="MC_LimVals_S",
              LeafSet="MC_LeafSet_S", LeafPool="MC_LeafPool_S", ItemPool="MC_ItemPool_S", CondPool="MC_CondPool_S",
              ColPool="MC_ColPool_S", LitPool="MC_LitPool", JoinTblPool="MC_JoinTblPool_S"),
    "Q": dict(BigInts="MC_BigInts", UniStrs="MC_UniStrs", UniIdents="MC_UniIdents", TrickyStrs="MC_TrickyStrs", QuotedIdents="MC_QuotedIdents", Aliases="MC_Aliases", Dbs="MC_Dbs", IntLits="MC_IntLits", StrLits="MC_StrLits", LimVals="MC_LimVals",
              LeafSet="MC_LeafSet_Q", LeafPool="MC_LeafPool_Q", ItemPool="MC_ItemPool_Q", CondPool="MC_CondPool_Q",
              ColPool="MC_ColPool_Q", LitPool="MC_LitPool", JoinTblPool="MC_JoinTblPool"),
    "T": dict(BigInts="MC_BigInts", UniStrs="MC_UniStrs", UniIdents="MC_UniIdents", TrickyStrs="MC_TrickyStrs", QuotedIdents="MC_QuotedIdents", Aliases="MC_Aliases", Dbs="MC_Dbs", IntLits="MC_IntLits_T", StrLits="MC_StrLits_T", LimVals="MC_LimVals",
              LeafSet="MC_LeafSet_T", LeafPool="MC_LeafPool_T", ItemPool="MC_ItemPool_T", CondPool="MC_CondPool_T",
              ColPool="MC_ColPool_T", LitPool="MC_LitPool_T", JoinTblPool="MC_JoinTblPool"),
}
BOUNDS = {
    "S": dict(MaxItems=2, MaxJoins=1, MaxLeaves=2, MaxGroup=2, MaxOrder=2, MaxRows=2, MaxVals=2, MaxSet=2, MaxDefs=2),
    "Q": dict(MaxItems=3, MaxJoins=2, MaxLeaves=3, MaxGroup=3, MaxOrder=3, MaxRows=3, MaxVals=3, MaxSet=3, MaxDefs=4),
    "T": dict(MaxItems=4, MaxJoins=2, MaxLeaves=4, MaxGroup=4, MaxOrder=4, MaxRows=3, MaxVals=3, MaxSet=3, MaxDefs=4),
}


SLICE_NAMES = ["sel_item_expr", "sel_item_leaf", "sel_item_tree", "sel_items", "sel_nofrom", "sel_star", "sel_from", "sel_on",
               "sel_where_leaf", "sel_where_tree", "sel_group_count", "sel_group_cols", "sel_group_alias", "sel_order", "sel_limit",
               "sel_combo", "ins_cols", "ins_row", "ins_rows", "upd_one", "upd_list", "upd_where_leaf", "upd_where_tree", "del_all",
               "del_leaf", "del_tree", "create_table", "create_database", "use", "show", "given",
               "str_insert", "str_update", "str_cond", "str_item", "qid", "uni", "big"]


def cfg(size, slices, stmts="MC_None", vocab="MC_None", vocab2="MC_None", max_junk=0, max_tail=99, at_end=False,
        emit="full", init="GenPick", next_="GenNext", invariants=(), view=True, bounds=None):
    """Text of a configuration of SqlGrammarMC. slices: a definition name or a list of slice names."""
    b = dict(BOUNDS[size])
    b.update(bounds or {})
    lines = ["CONSTANTS", "  Tables <- MC_Tables", "  Cols <- MC_Cols", "  VarcharLens <- MC_VarcharLens", '  BaseTable = "t1"']
    for k, v in sorted(POOLS[size].items()):
        lines.append("  %s <- %s" % (k, v))
    for k, v in sorted(b.items()):
        lines.append("  %s = %d" % (k, v))
    if isinstance(slices, (list, tuple, set)):
        lines.append("  Slices = {%s}" % ", ".join('"%s"' % s for s in sorted(slices)))
    else:
        lines.append("  Slices <- %s" % slices)
    lines += ["  Stmts <- %s" % stmts, "  Vocab <- %s" % vocab, "  Vocab2 <- %s" % vocab2, "  MaxJunk = %d" % max_junk,
              "  MaxTail = %d" % max_tail, "  JunkAtEndOnly = %s" % ("TRUE" if at_end else "FALSE"), '  EmitMode = "%s"' % emit,
              "INIT %s" % init, "NEXT %s" % next_]
    if view:
        lines.append("VIEW View")
    lines.append("ACTION_CONSTRAINT Emit")
    if invariants:
        lines.append("INVARIANTS " + " ".join(invariants))
    lines.append("CHECK_DEADLOCK FALSE")
    return "\n".join(lines) + "\n"


# ---------------------------------------------------------------- streaming TLC -> harness

_END = object()


_UESC = re.compile(r"<U\+([0-9A-Fa-f]{4,6})>")


def unescape(o):
    """SqlGrammar writes a character outside ASCII as <U+hhhh>; put the character in its place (strings in
    tokens and in the expected statement alike)."""
    if isinstance(o, str):
        return _UESC.sub(lambda m: chr(int(m.group(1), 16)), o) if "<U+" in o else o
    if isinstance(o, list):
        return [unescape(x) for x in o]
    if isinstance(o, dict):
        return {k: unescape(v) for k, v in o.items()}
    return o


def bigints(o):
    """SqlGrammar carries an integer literal beyond 32 bits as its decimal text, {"k": "big", "d": "..."}; it denotes
    the integer literal of that value, which is how the parser's result is reported: {"k": "int", "i": value}."""
    if isinstance(o, dict):
        if o.get("k") == "big" and set(o) == {"k", "d"}:
            return {"k": "int", "i": int(o["d"])}
        return {k: bigints(v) for k, v in o.items()}
    if isinstance(o, list):
        return [bigints(x) for x in o]
    return o


def has_escape(toks):
    for t in toks:
        if "<U+" in t[1]:
            return True
    return False


def stream_tlc(ctx, pool, tag, cfg_text, make_request, on_result, timeout=1500, workers=None, heap=None, chunk=64, stop=None):
    """Run TLC on SqlGrammarMC with cfg_text; every SCN line becomes a harness request
    (make_request(obj) -> dict or None) that is executed while TLC is still running.
    Returns the TlcResult; raises Undecided if TLC did not complete."""
    q = queue.Queue(maxsize=20000)
    box = {}

    def producer():
        try:
            box["res"] = vlib.run_tlc(ctx, "SqlGrammarMC", "SqlGrammarMC_%s.cfg" % tag, cfg_text=cfg_text, tag=tag,
                                      timeout=timeout, workers=workers, heap=heap,
                                      on_scn=lambda kind, obj: q.put(obj))
        except Exception as e:  # noqa
            box["err"] = e
        finally:
            q.put(_END)

    th = threading.Thread(target=producer, daemon=True)
    th.start()
    count = {"scn": 0}

    def requests():
        while True:
            o = q.get()
            if o is _END:
                return
            count["scn"] += 1
            if stop is not None and stop():
                return          # enough seen (hangs): the rest of TLC's output is drained unread
            r = make_request(o)
            if r is not None:
                yield r

    try:
        pool.run_all(requests(), on_result, chunk=chunk)
    finally:
        # drain so that the producer can finish
        while th.is_alive():
            try:
                o = q.get(timeout=0.2)
                if o is _END:
                    break
            except queue.Empty:
                pass
        th.join(timeout=60)
    if "err" in box:
        raise box["err"]
    res = box.get("res")
    if res is None:
        raise vlib.Undecided("TLC run %s did not return" % tag)
    vlib.tlc_must_ok(ctx, res, "SqlGrammarMC %s" % tag)
    if res.out and any(l.startswith("BAD-SCN") for l in res.out):
        raise vlib.Undecided("TLC run %s: undecodable scenario line" % tag)
    res.scenarios = count["scn"]
    return res


# ---------------------------------------------------------------- panic signatures

KNOWN_PANICS = [
    # (finding id, innermost function in package sql, message pattern)
    ("parser-or-lhs-assert", r"sql\.\(\*Parser\)\.OrCondition$", r"interface conversion"),
    ("parser-and-lhs-assert", r"sql\.\(\*Parser\)\.AndCondition$", r"interface conversion"),
    ("scanner-lone-quote", r"sql\.\(\*tokenScanner\)\.Cur$", r"slice bounds out of range"),
    ("parser-requireint-assert", r"sql\.\(\*Parser\)\.requireInt$", r"interface conversion"),
]


def panic_class(msg):
    for pat in ("interface conversion", "slice bounds out of range", "index out of range", "nil pointer dereference",
                "integer divide by zero", "makeslice", "out of memory"):
        if pat in msg:
            return pat
    return re.sub(r"[0-9]+", "N", msg)[:60]


def panic_id(func, msg):
    for fid, fpat, mpat in KNOWN_PANICS:
        if re.search(fpat, func or "") and re.search(mpat, msg or ""):
            return fid
    key = (func or "?") + "|" + panic_class(msg or "")
    name = re.sub(r"[^A-Za-z0-9]+", "-", (func or "unknown").replace("sql.", "")).strip("-").lower()
    return "panic-%s-%s" % (name[:40], hashlib.sha1(key.encode()).hexdigest()[:6])


def one_request(pool, req):
    """Run a single request on the pool (used for re-confirmation and replay)."""
    got = []
    pool.run_all([req], lambda rq, rs: got.append(rs))
    if not got:
        raise vlib.Undecided("harness gave no answer")
    return got[0]


def dumps(o):
    return json.dumps(o, sort_keys=True)
