"""C19 - CSV import stores every accepted record faithfully.

Spec -> code: CsvImportMC.tla enumerates every stream of up to MaxRecs records
over the record classes (valid, \\N marker, malformed quoting, too few fields,
unparsable INT/BIGINT/BOOLEAN text, INT outside 32 bits, extra fields, empty
text) for several destination schemas, column mappings and separators, and
prints for each stream the field texts, the expected per-record outcomes and
the expected final table.  The in-package harness renders the records as CSV
text (three line-end renderings), runs the real colDataTypes + doBatchInsert on
a fresh database behind the real RelationService, records the order of ok/err
events and reads the table back with the real parser + EvaluateSelect.  The
verdict is equality between what the real code did and what TLC printed.
"""
import concurrent.futures
import json
import os

import vlib

ALL = "ClassNames"
FULL = '<<"int", "bigint", "varchar", "boolean">>'

# name, Schema, Src, Dst, NFields, Sep, Wide, Only, MaxRecs, EmitFrom
CONFIGS = {
    "quick": [
        ("full-identity", FULL, "<<0, 1, 2, 3>>", "<<1, 2, 3, 4>>", 4, ",", False, ALL, 3, 1),
        ("full-wide", FULL, "<<0, 1, 2, 3>>", "<<1, 2, 3, 4>>", 4, ";", True, ALL, 2, 1),
        ("permuted-subset", FULL, "<<3, 1, 0>>", "<<2, 4, 1>>", 5, "\\t", False, ALL, 2, 1),
        ("no-bigint", '<<"varchar", "int", "boolean">>', "<<0, 1, 2>>", "<<1, 2, 3>>", 3, ",", False, ALL, 3, 1),
        ("no-bigint-wide", '<<"varchar", "int", "boolean">>', "<<2, 0, 1>>", "<<2, 3, 1>>", 3, "|", True, ALL, 2, 1),
        ("single-column", '<<"varchar", "int">>', "<<0>>", "<<1>>", 1, ",", True, ALL, 3, 1),
        ("one-of-many", '<<"int", "varchar", "boolean">>', "<<2>>", "<<3>>", 4, ";", True, ALL, 2, 1),
        ("long", '<<"int", "varchar">>', "<<0, 1>>", "<<1, 2>>", 2, ",", False, '{"valid", "badnum"}', 10, 10),
        # one CSV field feeding two columns
        ("fan-out", '<<"varchar", "int", "varchar">>', "<<0, 1, 0>>", "<<1, 2, 3>>", 2, ";", True, ALL, 2, 1),
        ("bulk", '<<"varchar", "int", "boolean">>', "<<0, 1, 2>>", "<<1, 2, 3>>", 3, ",", False, ALL, 1500, 1500),
        # a separator outside ASCII (broken bar, two bytes in UTF-8), given on the command line like any other
        ("wide-separator", '<<"varchar", "int", "boolean">>', "<<0, 1, 2>>", "<<1, 2, 3>>", 3, "U+00A6", False, ALL, 2, 1),
    ],
    "thorough": [
        ("full-identity", FULL, "<<0, 1, 2, 3>>", "<<1, 2, 3, 4>>", 4, ",", False, ALL, 4, 1),
        ("full-wide", FULL, "<<0, 1, 2, 3>>", "<<1, 2, 3, 4>>", 4, ";", True, ALL, 2, 1),
        ("full-reversed", FULL, "<<3, 2, 1, 0>>", "<<1, 2, 3, 4>>", 4, "|", False, ALL, 3, 1),
        ("permuted-subset", FULL, "<<3, 1, 0>>", "<<2, 4, 1>>", 5, "\\t", False, ALL, 3, 1),
        ("permuted-subset-wide", FULL, "<<4, 0>>", "<<2, 3>>", 5, ",", True, ALL, 3, 1),
        ("no-bigint", '<<"varchar", "int", "boolean">>', "<<0, 1, 2>>", "<<1, 2, 3>>", 3, ",", False, ALL, 4, 1),
        ("no-bigint-wide", '<<"varchar", "int", "boolean">>', "<<2, 0, 1>>", "<<2, 3, 1>>", 3, "|", True, ALL, 3, 1),
        ("single-column", '<<"varchar", "int">>', "<<0>>", "<<1>>", 1, ",", True, ALL, 4, 1),
        ("single-bigint", '<<"bigint">>', "<<1>>", "<<1>>", 2, "\\t", True, ALL, 3, 1),
        ("one-of-many", '<<"int", "varchar", "boolean">>', "<<2>>", "<<3>>", 4, ";", True, ALL, 3, 1),
        ("two-bigints", '<<"bigint", "boolean", "bigint">>', "<<0, 2, 1>>", "<<3, 1, 2>>", 3, ";", False, ALL, 3, 1),
        ("long", '<<"int", "varchar">>', "<<0, 1>>", "<<1, 2>>", 2, ",", False, '{"valid", "badnum"}', 12, 1),
        ("fan-out", '<<"varchar", "int", "varchar">>', "<<0, 1, 0>>", "<<1, 2, 3>>", 2, ";", True, ALL, 3, 1),
        ("long-mixed", '<<"varchar", "boolean">>', "<<1, 0>>", "<<1, 2>>", 2, "|", False,
         '{"valid", "malformed", "short"}', 7, 1),
        ("bulk", '<<"varchar", "int", "boolean">>', "<<0, 1, 2>>", "<<1, 2, 3>>", 3, ",", False, ALL, 3000, 3000),
        ("wide-separator", '<<"varchar", "int", "boolean">>', "<<2, 0>>", "<<2, 3>>", 3, "U+20AC", True, ALL, 3, 1),
        ("bulk-wide", '<<"int", "varchar">>', "<<1, 0>>", "<<1, 2>>", 2, ";", True, '{"valid", "null", "badnum", "short"}', 2000, 2000),
    ],
}
RENDERS = ["lf", "crlf", "nofinal"]
BULK_RUNS = 2
FINDING = "csv-bigint-null"
PER_SIGNATURE = 3
CLASSES = ["valid", "null", "allnull", "malformed", "short", "badnum", "range", "extra", "empty", "casetwin", "toobig"]
RULE = ("scenarios are all record streams of EmitFrom..MaxRecs records over the record classes of CsvImport.tla, enumerated by TLC "
        "per configuration (schema x mapping x separator); each is executed under %d line-end renderings (= evaluations). "
        "A scenario is non-trivial when the specification expects at least one record stored and at least one rejected; "
        "distinct = distinct (configuration, CSV text) pairs among those" % len(RENDERS))


def run_module(name, schema, src, dst, sep, only):
    return """---- MODULE %s ----
EXTENDS CsvImportMC
cSchema == %s
cSrc == %s
cDst == %s
cSep == "%s"
cOnly == %s
====
""" % (name, schema, src, dst, sep, only)


def run_cfg(nfields, wide, maxrecs, emitfrom):
    return """CONSTANTS
  Schema <- cSchema
  Src <- cSrc
  Dst <- cDst
  Sep <- cSep
  Only <- cOnly
  NFields = %d
  Wide = %s
  MaxRecs = %d
  EmitFrom = %d
INIT MCInit
NEXT MCNext
ACTION_CONSTRAINT Emit
INVARIANTS Meaning NullOnlyFromMarker TaintExact
PROPERTIES ErrChangesNothing OkAddsOneRow
CHECK_DEADLOCK FALSE
""" % (nfields, "TRUE" if wide else "FALSE", maxrecs, emitfrom)


def tlc_config(ctx, idx, c):
    name, schema, src, dst, nfields, sep, wide, only, maxrecs, emitfrom = c
    mod = "CsvRun%d" % idx
    scns = []
    if name.startswith("bulk"):
        # streams far longer than TLC can enumerate: random behaviours of the same specification (simulation mode), printed
        # once, at full length - an import of a file of that many lines, good and bad records in any order
        # (a generator only: the invariants, which re-derive the whole table from the stream in every state, are checked in
        # the enumerated configurations)
        res = vlib.run_tlc(ctx, mod, mod + ".cfg", cfg_text=run_cfg(nfields, wide, maxrecs, emitfrom).replace(
                               "PROPERTIES ErrChangesNothing OkAddsOneRow\n", "").replace(
                               "INVARIANTS Meaning NullOnlyFromMarker TaintExact\n", ""), workers=1, timeout=600,
                           files={mod + ".tla": run_module(mod, schema, src, dst, sep, only)},
                           simulate="num=%d" % BULK_RUNS, extra=["-depth", str(maxrecs + 1), "-seed", str(ctx.seed)], xss="512m",
                           on_scn=lambda k, o: scns.append(o))
        return name, res, scns
    res = vlib.run_tlc(ctx, mod, mod + ".cfg", cfg_text=run_cfg(nfields, wide, maxrecs, emitfrom), workers=4, timeout=1500,
                       files={mod + ".tla": run_module(mod, schema, src, dst, sep, only)},
                       on_scn=lambda k, o: scns.append(o))
    return name, res, scns


class _Shard:
    """go_test_inpkg only needs ctx.scratch (it writes its overlay file there); one per parallel call."""

    def __init__(self, scratch):
        self.scratch = scratch


MAX_DEATHS = 5


def _run_shard(ctx, scns, tag):
    """One `go test` process for the scenarios. A panic in the import's own goroutine cannot be recovered by the harness
    and kills the process: the scenario that was running (progress file) is given that outcome and the rest is run in a
    new process; after MAX_DEATHS deaths the remaining scenarios of the shard are left out (counted)."""
    d = ctx.sub("c19-" + tag)
    res = {}
    remaining = list(scns)
    deaths = 0
    rnd = 0
    while remaining:
        rnd += 1
        scn_path, out_path = os.path.join(d, "scn-%d.ndjson" % rnd), os.path.join(d, "out-%d.ndjson" % rnd)
        with open(scn_path, "w") as f:
            for s in remaining:
                f.write(json.dumps({k: s[k] for k in ("id", "schema", "src", "dst", "sep", "recs")}) + "\n")
        r = vlib.go_test_inpkg(_Shard(d), "cmd/csvimport", "zz_verif_csv_test.go", run="TestVerifCsv",
                               env_extra={"VERIF_C19_SCN": scn_path, "VERIF_C19_OUT": out_path,
                                          "VERIF_C19_DIR": os.path.join(d, "work-%d" % rnd), "VERIF_C19_RENDERS": ",".join(RENDERS)},
                               timeout=1500)
        if os.path.exists(out_path):
            with open(out_path) as f:
                for line in f:
                    try:
                        o = json.loads(line)
                    except ValueError:
                        continue        # a line cut by the death of the process
                    res[o["id"]] = o["r"]
        if r.returncode == 0:
            break
        txt = r.stdout + r.stderr
        cur = None
        if os.path.exists(out_path + ".cur"):
            try:
                cur = int(open(out_path + ".cur").read().strip())
            except ValueError:
                cur = None
        died = [l for l in txt.splitlines() if l.startswith("panic:") or l.startswith("fatal error:")]
        in_code = any(x in txt for x in ("cmd/csvimport.doBatchInsert", "cmd/csvimport.csvToSql", "mkdb/engine.", "mkdb/storage."))
        if cur is None or cur in res or not died or not in_code:
            raise vlib.Undecided("csvimport harness failed (rc=%s):\n%s" % (r.returncode, txt[-6000:]))
        where = [l.strip() for l in txt.splitlines() if "mkdb/" in l and ".go:" in l][:3]
        res[cur] = [dict(fail="panic: the import killed the process: %s @ %s" % (died[0][:200], " | ".join(where)[:300]),
                         outcomes=[], table=[], m=list(RENDERS), csv="")]
        deaths += 1
        remaining = [s for s in remaining if s["id"] not in res]
        if deaths >= MAX_DEATHS:
            _SKIPPED.append(len(remaining))
            break
    if len(res) != len(scns) and deaths < MAX_DEATHS:
        raise vlib.Undecided("csvimport harness answered %d of %d scenarios" % (len(res), len(scns)))
    return res


_SKIPPED = []


def run_harness(ctx, scns, tag):
    """Execute the scenarios on the real code: one `go test` process per shard, each with its own
    working directory (the engine's data/ directory is relative to the process's cwd)."""
    n = 1 if len(scns) < 4000 else max(1, min(6, vlib.NCPU // 2))
    if n == 1:
        return _run_shard(ctx, scns, tag)
    _run_shard(ctx, scns[:1], tag + "-warm")          # compile once before the parallel calls
    shards = [scns[i::n] for i in range(n)]
    res = {}
    with concurrent.futures.ThreadPoolExecutor(max_workers=n) as ex:
        for part in ex.map(lambda a: _run_shard(ctx, a[1], "%s-%d" % (tag, a[0])), list(enumerate(shards))):
            res.update(part)
    return res


def history_confirms(ctx, scns, s, keep=400):
    """Run s again in one process behind (at most `keep` of) the scenarios that preceded it in its shard of the main run."""
    n = 1 if len(scns) < 4000 else max(1, min(6, vlib.NCPU // 2))
    pos = next(i for i, x in enumerate(scns) if x["id"] == s["id"])
    shard = scns[pos % n::n]
    k = next(i for i, x in enumerate(shard) if x["id"] == s["id"])
    part = shard[max(0, k - keep):k + 1]
    again = _run_shard(ctx, part, "confirm-history-%d" % s["id"])
    for r in again.get(s["id"]) or []:
        sig = compare(s, r)
        if sig and sig != FINDING:
            return True
    return False


def is_violation_fail(fail):
    # behaviour of the real code under observation (not of the harness set-up)
    return fail.startswith("panic:") or fail.startswith("doBatchInsert did not finish") or fail.startswith("select")


def compare(s, r):
    """None if the run agrees with the specification, else a signature string."""
    if r.get("fail"):
        if not is_violation_fail(r["fail"]):
            raise vlib.Undecided("csvimport harness could not run scenario %s: %s" % (s["id"], r["fail"]))
        return "fail:" + r["fail"][:50]
    exp = s["exp"]
    # what is compared: how many records were reported stored and how many refused, and the table (which rows, in which order).
    # The order in which "stored" and "refused" reports of DIFFERENT records arrive is not part of the property: the importer
    # reports them on two channels, and an implementation that converts records ahead of storing them reports a later refusal
    # before an earlier success (found with a behaviour-preserving change; the comparison used to demand the record order)
    if same_reports(r["outcomes"], exp["outcomes"]) and r["table"] == exp["table"]:
        return None
    nv = s.get("naive")
    if s["taint"] and nv and same_reports(r["outcomes"], nv["outcomes"]) and r["table"] == nv["table"]:
        return FINDING
    if not same_reports(r["outcomes"], exp["outcomes"]):
        if len(r["outcomes"]) != len(exp["outcomes"]):
            return "outcome-count"
        return "outcomes"
    return "table"


def same_reports(a, b):
    return sorted(a) == sorted(b)


def show(s):
    return dict(config=s["config"], schema=s["schema"], src_cols=s["src"], dest_cols=["c%d" % d for d in s["dst"]],
                separator=s["sep"], records=[dict(cls=r["cls"], at=r["at"], var=r["var"], fields=r["flds"],
                                                  malformed=r["malformed"]) for r in s["recs"]])


def report(ctx, bad):
    groups = {}
    for s, r, sig in bad:
        groups.setdefault(sig, []).append((s, r))
    for sig, xs in sorted(groups.items()):
        xs.sort(key=lambda x: (len(x[0]["recs"]), 0 if all(r["cls"] == "valid" for r in x[0]["recs"]) else 1, len(x[1].get("csv", ""))))
        for s, r in xs[:PER_SIGNATURE]:
            payload = dict(kind="csvimport-replay", signature=sig, failures_with_this_signature=len(xs), scenario=show(s),
                           detail=["%s: csv %r (%s, src-cols %s -> %s of %s): expected %s %s, observed %s %s" % (
                               sig, r.get("csv"), s["config"], s["src"], ["c%d" % d for d in s["dst"]], s["schema"],
                               s["exp"]["outcomes"], [[v["v"] if v["t"] != "n" else None for v in row] for row in s["exp"]["table"]],
                               r["outcomes"], [[v["v"] if v["t"] != "n" else None for v in row] for row in r["table"]])],
                           scenario_raw={k: s[k] for k in ("schema", "src", "dst", "sep", "recs", "exp", "taint", "config")},
                           naive=s.get("naive"), csv_text=r.get("csv"), renderings=r["m"], expected=s["exp"],
                           observed=dict(outcomes=r["outcomes"], table=r["table"], errors=r.get("errors"),
                                         coltypes=r.get("coltypes"), fail=r.get("fail", "")),
                           how="table t(c1..cn) of the schema's types is created in a fresh database; csv_text is fed to "
                               "doBatchInsert with -src-cols/-dest-cols as given; outcomes = the ok/err events received (compared as counts); "
                               "table = SELECT * FROM t; expected = what CsvImport.tla prescribes (printed by TLC)")
            vlib.report_violation(ctx, payload, signature=sig, finding_ids=[FINDING] if sig == FINDING else [])
    return {k: len(v) for k, v in groups.items()}


ASSUMPTIONS = [
    "TLC/SANY and the CommunityModules Json module are correct",
    "the in-package harness zz_verif_csv_test.go only renders field texts as CSV (usual quoting rule; records the "
    "specification marks malformed are written verbatim), calls colDataTypes/doBatchInsert and copies events and rows",
    "which decimal texts are 32-bit / 64-bit integers and which texts are booleans (true, false, 1, 0) is given by the "
    "finite tables of CsvImport.tla; other spellings are not exercised",
    "malformed quoting is limited to forms that keep the record on one line (bare quote, text after a closing quote); an "
    "unterminated quote legitimately continues the field over the following lines in CSV",
    "bounded: streams of up to MaxRecs records per configuration; a fresh database per scenario on tmpfs",
]


def run_replay(ctx):
    p = json.load(open(ctx.replay))
    s = dict(p["scenario_raw"])
    s["id"] = 1
    s["naive"] = p.get("naive")
    res = run_harness(ctx, [s], "replay")[1]
    bad = []
    for r in res:
        sig = compare(s, r)
        print("replay csv=%r renderings=%s outcomes=%s table=%s -> %s" % (r.get("csv"), ",".join(r["m"]), r["outcomes"],
                                                                        json.dumps(r["table"]), sig or "as specified"), flush=True)
        if sig:
            bad.append((s, r, sig))
    report(ctx, bad)
    # a replay does not rewrite the tier's evidence file


def run(ctx):
    if getattr(ctx, "replay", None):
        return run_replay(ctx)
    cov = dict(evaluations=0, distinct_nontrivial=0, rule=RULE, samples=[], exhaustive=True, scenarios=0, states=0,
               configs=[], classes={}, outcomes={"ok": 0, "err": 0}, types_mapped={}, separators={}, patterns={},
               renderings={}, mismatches=0, mismatches_by_signature={})
    configs = CONFIGS[ctx.tier]
    scns = []
    with concurrent.futures.ThreadPoolExecutor(max_workers=max(1, min(4, vlib.NCPU // 4))) as ex:
        futs = [ex.submit(tlc_config, ctx, i, c) for i, c in enumerate(configs)]
        for (i, c), fut in zip(enumerate(configs), futs):
            name, res, got = fut.result()
            vlib.tlc_must_ok(ctx, res, "CsvImportMC %s" % name)
            if not got:
                raise vlib.Undecided("CsvImportMC %s emitted no scenarios" % name)
            for o in got:
                o["id"] = len(scns) + 1
                o["config"] = name
                scns.append(o)
            cov["states"] += res.distinct
            cov["configs"].append(dict(name=name, schema=c[1], src=c[2], dst=c[3], nfields=c[4], sep=c[5], wide=c[6],
                                       only=c[7], max_recs=c[8], emit_from=c[9], states=res.distinct, scenarios=len(got),
                                       tainted=sum(1 for o in got if o["taint"]), tlc_wall_s=round(res.wall, 1)))
    cov["scenarios"] = len(scns)

    results = run_harness(ctx, scns, "main")

    nontrivial = set()
    bad = []
    for s in scns:
        exp = s["exp"]["outcomes"]
        for rec, oc in zip(s["recs"], exp):
            cov["classes"][rec["cls"]] = cov["classes"].get(rec["cls"], 0) + 1
            cov["outcomes"][oc] += 1
        for d in s["dst"]:
            ty = s["schema"][d - 1]
            cov["types_mapped"][ty] = cov["types_mapped"].get(ty, 0) + 1
        cov["separators"][s["sep"]] = cov["separators"].get(s["sep"], 0) + 1
        pat = "".join("o" if o == "ok" else "e" for o in exp)
        for name, sub in (("ok_after_err", "eo"), ("ok_err_ok", "oeo"), ("err_after_ok", "oe")):
            if sub in pat:
                cov["patterns"][name] = cov["patterns"].get(name, 0) + 1
        runs = results.get(s["id"])
        if runs is None:        # left out after MAX_DEATHS deaths of the import process in its shard
            cov["not_run_after_process_deaths"] = cov.get("not_run_after_process_deaths", 0) + 1
            cov["exhaustive"] = False
            continue
        if "ok" in exp and "err" in exp:
            nontrivial.add((s["config"], runs[0].get("csv", "")))
        for r in runs:
            cov["evaluations"] += len(r["m"])
            for m in r["m"]:
                cov["renderings"][m] = cov["renderings"].get(m, 0) + 1
            sig = compare(s, r)
            if sig:
                bad.append((s, r, sig))
        if len(cov["samples"]) < 4 and "oeo" in pat and len(s["recs"]) >= 3 and s["config"] in ("full-identity", "no-bigint"):
            if not any(x["scenario"]["config"] == s["config"] for x in cov["samples"]):
                cov["samples"].append(dict(scenario=show(s), csv_text=runs[0].get("csv"), expected=s["exp"],
                                           observed=[dict(renderings=r["m"], outcomes=r["outcomes"], table=r["table"]) for r in runs]))
    cov["distinct_nontrivial"] = len(nontrivial)
    cov["mismatches"] = len(bad)

    # vacuity (of a complete run)
    for c in ([] if bad else CLASSES):
        if cov["classes"].get(c, 0) == 0:
            raise vlib.Undecided("vacuous: record class '%s' never exercised" % c)
    for ty in ([] if bad else ("int", "bigint", "varchar", "boolean")):
        if cov["types_mapped"].get(ty, 0) == 0:
            raise vlib.Undecided("vacuous: no scenario maps a %s column" % ty)
    for sep in ([] if bad else (",", ";", "\t", "|")):
        if cov["separators"].get(sep, 0) == 0:
            raise vlib.Undecided("vacuous: separator %r never used" % sep)
    for p in ([] if bad else ("ok_after_err", "ok_err_ok", "err_after_ok")):
        if cov["patterns"].get(p, 0) == 0:
            raise vlib.Undecided("vacuous: no stream with pattern %s" % p)
    for m in ([] if bad else RENDERS):
        if cov["renderings"].get(m, 0) != len(scns):
            raise vlib.Undecided("rendering %s ran %d of %d scenarios" % (m, cov["renderings"].get(m, 0), len(scns)))
    if bad:
        pass
    elif cov["outcomes"]["ok"] == 0 or cov["outcomes"]["err"] == 0 or cov["distinct_nontrivial"] < 2 or not cov["samples"]:
        raise vlib.Undecided("vacuous: outcomes %r, %d non-trivial scenarios" % (cov["outcomes"], cov["distinct_nontrivial"]))

    # DESIGN 5.1: repeat the failing scenarios once from scratch
    if bad:
        uniq = {}
        killers = 0
        for s, r, sig in bad:
            if r.get("fail", "").startswith("panic: the import killed the process"):
                killers += 1
                if killers > 3:
                    continue        # each one costs a process; three repeated deaths are confirmation enough
            uniq.setdefault(s["id"], s)
        again = run_harness(ctx, list(uniq.values()), "confirm")
        unrepro = []
        for s, r, sig in bad:
            if s["id"] not in again:
                continue
            if r.get("fail", "").startswith("panic: the import killed the process"):
                if not any(r2.get("fail", "").startswith("panic: the import killed the process") for r2 in again[s["id"]]):
                    raise vlib.Undecided("scenario %d killed the import process once but not when repeated" % s["id"])
                continue
            same = [r2 for r2 in again[s["id"]] if same_reports(r2["outcomes"], r["outcomes"]) and r2["table"] == r["table"]
                    and r2.get("fail", "") == r.get("fail", "") and set(r["m"]) <= set(r2["m"])]
            if not same:
                unrepro.append((s, r, sig))
        if unrepro:
            # not the same answer when run alone: the failure may depend on what the same process imported before (state kept
            # across imports - and an import is one of many in a process's life).  Second confirmation, for the first three of
            # them: the scenario behind the scenarios that preceded it in its process, in the original order; it is confirmed
            # if it is answered wrongly again there (by the same oracle).  The others are neither reported nor believed.
            confirmed = [x for x in unrepro[:3] if history_confirms(ctx, scns, x[0])]
            if not confirmed:
                raise vlib.Undecided("scenario %d failed differently when repeated (%s)" % (unrepro[0][0]["id"], unrepro[0][2]))
            cov["confirmed_behind_their_predecessors"] = len(confirmed)
            drop = {x[0]["id"] for x in unrepro} - {x[0]["id"] for x in confirmed}
            bad = [x for x in bad if x[0]["id"] not in drop]
    cov["mismatches_by_signature"] = report(ctx, bad)
    vlib.write_evidence(ctx, "exploration", cov, assumptions=ASSUMPTIONS)
