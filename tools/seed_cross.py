#!/usr/bin/env python3
"""usage: seed_cross.py <seeded-name>=<Cxx>[,<Cyy>...] ...   - run further checks against a kept seeded change and record the
outcome in its meta.json (checks / detected_by), next to the check of its own property."""
import json
import os
import shutil
import sys
import time

import seedtest as st

for arg in sys.argv[1:]:
    name, cs = arg.split("=")
    d = os.path.join(st.VERIF, "seeded", name)
    meta = json.load(open(os.path.join(d, "meta.json")))
    wt = "/tmp/seedchk/x-" + name
    st.sh("git -C /repo worktree remove --force %s" % wt)
    shutil.rmtree(wt, ignore_errors=True)
    os.makedirs("/tmp/seedchk", exist_ok=True)
    st.sh("git -C /repo worktree add -q --detach %s HEAD" % wt)
    try:
        rc = 1
        for pf in sorted(f for f in os.listdir(d) if f.startswith("patch-rebased")) + ["patch.diff"]:
            pf = os.path.join(d, pf)
            rc, out = st.sh("git apply %s" % pf, cwd=wt)
            if rc:
                rc, out = st.sh("git apply --3way %s" % pf, cwd=wt)
            if rc == 0:
                break
            st.sh("git checkout -- . && git clean -fdq", cwd=wt)
        if rc:
            print(name, "patch does not apply")
            continue
        res = st.run_checks(wt, cs.split(","))
        meta.setdefault("checks", {}).update(res)
        meta["detected_by"] = [c for c, v in meta["checks"].items() if v["exit"] == 1]
        meta["rechecked_ts"] = time.time()
        json.dump(meta, open(os.path.join(d, "meta.json"), "w"), indent=1)
        print(name, {c: v["exit"] for c, v in res.items()}, "detected_by", meta["detected_by"], flush=True)
    finally:
        st.sh("git -C /repo worktree remove --force %s" % wt)
        shutil.rmtree(wt, ignore_errors=True)
