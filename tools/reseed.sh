#!/bin/sh
# usage: tools/reseed.sh <seeded-name> <check> [tier]   - run one check against a kept seeded change (scratch worktree, removed afterwards)
set -e
name=$1; chk=$2; tier=${3:-quick}
wt=/tmp/seedchk/re-$name-$$
mkdir -p /tmp/seedchk
git -C /repo worktree add -q --detach $wt HEAD
trap 'git -C /repo worktree remove --force '$wt' >/dev/null 2>&1; rm -rf '$wt'' EXIT
git -C $wt apply --3way /verif/seeded/$name/patch.diff 2>/dev/null || git -C $wt apply /verif/seeded/$name/patch.diff
cd /verif
VERIF_REPO=$wt timeout 3000 ./check $chk --tier $tier 2>&1 | grep -E "^OK|^VIOLATION|^UNDECIDED|^KNOWN|^NOTE" | cut -c1-220 | head -6
f=$(ls -t /verif/replays/$chk/*.json 2>/dev/null | head -1)
if [ -n "$f" ]; then python3 -c "
import json,sys; d=json.load(open('$f')); print('   first:', (d.get('detail') or [''])[0][:300])"; fi
rm -rf /verif/replays/$chk
