"""Shared machinery for C05 / C06 / C07: SqlSemGen.tla enumerates the component sets, Python
assembles cases (every element of every component at least once + a seeded sample of the product),
harness/cmd/sem executes them on the real engine, SqlSemJudge.tla (TLC) evaluates ResultOK."""
import json
import os
import random
from concurrent.futures import ThreadPoolExecutor

import vlib


def gen_sets(ctx):
    sets = {}
    res = vlib.run_tlc(ctx, "SqlSemGen", "SqlSemGen.cfg", workers=2, timeout=600, on_scn=lambda k, o: sets.__setitem__(o["set"], o["elems"]))
    vlib.tlc_must_ok(ctx, res, "SqlSemGen")
    return sets


def cover_product(rng, comps, n):
    """Tuples over the component lists: every element of every component appears at least once; then
    random tuples up to n in total (distinct).  Each component is walked in its own freshly shuffled order, again and
    again, so that short components are not tied to each other by a common period (a from-clause must meet every list)."""
    out, seen = [], set()
    longest = max(len(c) for c in comps)

    def walker(k):
        while True:
            o = list(range(k))
            rng.shuffle(o)
            for x in o:
                yield x
    walks = [walker(len(c)) for c in comps]
    for i in range(longest):
        t = tuple(next(w) for w in walks)
        if t not in seen:
            seen.add(t)
            out.append(t)
    tries = 0
    while len(out) < n and tries < 20 * n:
        tries += 1
        t = tuple(rng.randrange(len(c)) for c in comps)
        if t not in seen:
            seen.add(t)
            out.append(t)
    return out


DEAD_MARK = 987654


def with_history(rng, db, template=None):
    """The same tables with a past: rows that were inserted between the others (and, for an empty table, before nothing) and
    deleted again before the first query.  A dead row is a copy of a live one (or of `template`) whose first integer column
    holds a value no live row has; the DELETE names that value.  The specification is given the live rows only."""
    out = {}
    for name, t in db.items():
        ints = [i for i, c in enumerate(t["cols"]) if c["ty"] in ("i", "I")]
        # an empty table gets dead rows made from its column types
        made = [dict(t="i", v=1, s=[]) if c["ty"] in ("i", "I") else dict(t="s", v=0, s=[97]) if c["ty"] == "s" else dict(t="b", v=0, s=[]) for c in t["cols"]]
        src = t["rows"] or [made]
        if not ints or not src or len(t["rows"]) > 400 or any(r[ints[0]]["t"] == "i" and r[ints[0]]["v"] == DEAD_MARK for r in t["rows"]):
            out[name] = t
            continue
        k = ints[0]
        dead, at = [], []
        for _ in range(rng.randrange(1, 4)):
            r = [dict(c) for c in rng.choice(src)]
            r[k] = dict(t="i", v=DEAD_MARK, s=[])
            dead.append(r)
            at.append(rng.randrange(len(t["rows"]) + 1))
        out[name] = dict(t, dead=dead, deadat=at, deadwhere="%s = %d" % (t["cols"][k]["n"], DEAD_MARK))
    return out


def execute(ctx, pool, cases, group_key, history=None):
    """cases: list of dict(db, q). Runs them grouped by database; fills case['res'].  history = a random generator: every third
    database is loaded with deleted rows among the live ones (with_history)."""
    groups = {}
    for i, c in enumerate(cases):
        groups.setdefault(group_key(c), []).append(i)
    reqs = []
    template = None
    for c in cases:
        for t in c["db"].values():
            if t["rows"] and template is None:
                template = t["rows"][0]
    for g, (k, idxs) in enumerate(groups.items()):
        db = cases[idxs[0]]["db"]
        if history is not None and g % 3 == 1:
            db = with_history(history, db, template)
            execute.with_history = getattr(execute, "with_history", 0) + 1
        for j in range(0, len(idxs), 200):
            part = idxs[j:j + 200]
            reqs.append(dict(db=db, qs=[cases[i]["q"] for i in part], _idx=part, caps=cases[part[0]].get("caps") or []))

    def on_result(req, resp):
        if resp.get("fatal"):
            for i in req["_idx"]:
                cases[i]["res"] = dict(err=True, panic="process died: " + (resp.get("viol") or [""])[0], cols=[], rows=[], sql="")
            return
        if resp.get("setup") == "PANIC":
            for i in req["_idx"]:
                cases[i]["res"] = dict(resp["res"][0])
            return
        if resp.get("setup"):
            raise vlib.Undecided("sem harness could not load the database: %s" % resp["setup"])
        rs = resp.get("res") or []
        for n, i in enumerate(req["_idx"]):
            if n < len(rs):
                cases[i]["res"] = rs[n]
            else:
                cases[i]["res"] = dict(err=True, hang=True, cols=[], rows=[], sql="(not run: an earlier query of the batch hung)")
    pool.run_all(reqs, on_result, chunk=1)


def judge(ctx, cases, tag, shards=12):
    """TLC evaluates ResultOK on every case; returns the list of rejected case indices."""
    todo = [i for i, c in enumerate(cases) if not c["res"].get("panic") and not c["res"].get("hang")]
    judge.known = set()
    if not todo:
        return []
    shards = max(1, min(shards, len(todo) // 50 + 1))
    parts = [todo[i::shards] for i in range(shards)]

    def one(n):
        part = parts[n]
        nd = "".join(json.dumps(dict(db=cases[i]["db"], q=cases[i]["q"],
                                     res=dict(err=bool(cases[i]["res"]["err"]), cols=cases[i]["res"]["cols"], rows=cases[i]["res"]["rows"]))) + "\n"
                     for i in part)
        got = []
        r = vlib.run_tlc(ctx, "SqlSemJudge", "SqlSemGen.cfg", workers=1, timeout=3000, tag="%s-%d" % (tag, n), files={"cases.ndjson": nd},
                         on_scn=lambda k, o: got.append(o), xss="256m")
        if r.status != "ok" or not got:
            # a tool failure (seen once under heavy machine load: Java StackOverflowError in a shard that passes when run
            # again): one more try with a larger thread stack before the run is given up as undecided
            got.clear()
            r = vlib.run_tlc(ctx, "SqlSemJudge", "SqlSemGen.cfg", workers=1, timeout=3000, tag="%s-%d-again" % (tag, n), files={"cases.ndjson": nd},
                             on_scn=lambda k, o: got.append(o), xss="1g")
        if r.status != "ok" or not got:
            raise vlib.Undecided("SqlSemJudge failed (shard %d)\n%s" % (n, "\n".join(r.out[-25:])))
        if got[0]["n"] != len(part):
            raise vlib.Undecided("SqlSemJudge read %d of %d cases" % (got[0]["n"], len(part)))
        return [part[j - 1] for j in got[0]["bad"]], [part[j - 1] for j in got[0].get("known", [])]
    bad, known = [], []
    with ThreadPoolExecutor(max_workers=min(shards, vlib.NCPU)) as ex:
        for b, k in ex.map(one, range(shards)):
            bad += b
            known += k
    judge.known = set(known)   # cases TLC recognises as the known finding avg-running-rounding (KnownRunningAvg)
    return sorted(bad)


def nontrivial_rows(c):
    return len(c["res"].get("rows") or [])


def judge_histories(ctx, cases, tag, shards=8):
    """TLC evaluates SqlSem!HistoryOK on every statement history (case = db, ds, res); returns [(case index, first statement
    answered wrongly)]."""
    todo = list(range(len(cases)))
    if not todo:
        return []
    shards = max(1, min(shards, len(todo) // 50 + 1))
    parts = [todo[i::shards] for i in range(shards)]

    def one(n):
        part = parts[n]
        nd = "".join(json.dumps(dict(db=cases[i]["db"], ds=cases[i]["ds"], res=cases[i]["hres"])) + "\n" for i in part)
        got = []
        for attempt, xss in enumerate(("256m", "1g")):
            got.clear()
            r = vlib.run_tlc(ctx, "SqlDmlJudge", "SqlSemGen.cfg", workers=1, timeout=3000, tag="%s-%d-%d" % (tag, n, attempt),
                             files={"cases.ndjson": nd}, on_scn=lambda k, o: got.append(o), xss=xss)
            if r.status == "ok" and got:
                break
        if r.status != "ok" or not got:
            raise vlib.Undecided("SqlDmlJudge failed (shard %d)\n%s" % (n, "\n".join(r.out[-25:])))
        if got[0]["n"] != len(part):
            raise vlib.Undecided("SqlDmlJudge read %d of %d cases" % (got[0]["n"], len(part)))
        return [(part[j - 1], at) for j, at in zip(got[0]["bad"], got[0]["at"])]
    bad = []
    with ThreadPoolExecutor(max_workers=min(shards, vlib.NCPU)) as ex:
        for b in ex.map(one, range(shards)):
            bad += b
    return sorted(bad)
