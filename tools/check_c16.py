"""C16 - query results do not depend on the page-cache size.

Design level: Store.tla does not model clean cached pages at all - a clean page is by definition
equal to its disk image, and Lru.tla (C15) shows that only clean pages are ever evicted - so every
invariant TLC checks for C01/C02 holds for every eviction policy and capacity.  Code level (what
decides the verdict): the same TLC-generated statement histories that C01 replays with the default
cache are replayed with a page cache of K entries, flushing after every statement (the property's
precondition), and must produce the promised outcomes and contents.
"""
import vlib
import storelib

CFGS = {
    "quick": [("c16-a", dict(MaxStmts=4, MaxRows=2, MaxFlush=0), 6000, [10, 12, 16]),
              ("c16-b", dict(MaxStmts=6, MaxRows=3, MaxFlush=0, Tables='{"t1"}', Vals="{1}"), None, [9, 10, 11, 12, 14])],
    "thorough": [("c16-a", dict(MaxStmts=5, MaxRows=2, MaxFlush=0), 30000, [10, 11, 12, 14, 16, 32]),
                 ("c16-b", dict(MaxStmts=8, MaxRows=3, MaxFlush=0, Tables='{"t1"}', Vals="{1}"), 30000, [9, 10, 11, 12, 14, 16, 32])],
}


def run(ctx):
    binary = vlib.build_harness(ctx, "store")
    if ctx.replay:
        return storelib.replay_file(ctx, binary, ctx.replay)
    cov = storelib.new_cov()
    pool = vlib.WorkerPool(ctx, binary)
    full = 0
    judged = 0
    try:
        for name, over, sample, ks in CFGS[ctx.tier]:
            for k in ks:
                st = storelib.StoreRun(ctx, "%s-k%d" % (name, k), over, sample=sample, cache=k).run(pool, storelib.default_violation(ctx), cov)
                full += st["cachefull"]
                judged += st["replayed"] - st["diverged"]
        # production capacities, thousands of rows, page cache of 8-64 pages (database >> cache)
        ks = [8, 12, 16, 32] if ctx.quick() else [6, 8, 10, 12, 16, 24, 32, 64]
        agg = storelib.random_runs(ctx, pool, cov, [dict(seed=ctx.seed * 1000 + i, n=(220 if ctx.quick() else 600), caps=[], cache=k, pcrash=0, pflush=0, wal=False,
                                                         maxrows=30, bias="grow") for i, k in enumerate(ks)])
        judged += agg["runs"]
        full += agg["cache_full_discarded"]
        if agg["runs"] == 0 and not ctx.violations:
            raise vlib.Undecided("vacuous: no long small-cache run at production capacities was judged (all hit ErrLRUCacheFull too often)")
    finally:
        pool.close()
    cov["cache_full_runs_discarded"] = full
    cov["runs_judged"] = judged
    if judged == 0:
        raise vlib.Undecided("vacuous: every small-cache run hit ErrLRUCacheFull")
    if full:
        ctx.note("%d small-cache runs were discarded because a statement's dirty set did not fit the cache (precondition of C16)" % full)
    vlib.write_evidence(ctx, "model_checking", cov, assumptions=[
        "TLC, SANY, CommunityModules", "capacity override 3/3 (deep trees after few rows, so a cache of 3-12 pages is a small multiple of the tree height)",
        "the small cache is installed by replacing fileStore.cache with NewLRU(K) while no page is dirty; a flush follows every statement"])
