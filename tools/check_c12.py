"""C12 - a page written to disk reads back as the same page.

Spec -> code: PageCodec.tla states the page store as a register map; the
bounded instance PageCodecMC enumerates node shapes from abstract parameters
and short Update / DropCache / Fetch sequences, and prints every explored
Fetch transition with its action path and the expected register content.
harness/cmd/codec builds the concrete nodes with the package's own cell
operations (insertLeafCell, appendInternalCell, insertInternalCell, split,
updateCell), runs the path on a real fileStore (fresh fileStore = cold cache)
and reports the logical content stored and fetched; this module compares.
Also, for every stored node: len(encode()) == 4096 and decode(encode(n)) == n.

Code -> spec: seeded random workloads over nodes of any admissible size are
recorded as NDJSON (nodes identified by a digest of their logical content)
and validated by TLC against PageCodecTrace.tla.
"""
import json
import os
import random

import vlib

ALL_SIZE_PATS = ["all0", "all1", "all399", "all400", "cyc", "rcyc", "last0", "first0"]
ALL_DEL_PATS = ["none", "all", "first", "last", "alt"]

# "updated": leaves filled in ascending key order in which one cell (first / middle / last) was replaced through the real
# btreeNode.updateCell by a value of another or the same length (UpdFrom = sizes before, cell sizes = sizes after)
UPDATED_Q = dict(name="updated", Pages=[2], LeafCounts=[1, 2, 4, 9], IntCounts=[], SizeClasses=[0, 1, 399, 400], SmallN=2,
                 SizePats=["all0", "all400", "cyc", "rcyc"], DelPats=["none", "alt"], PermPats=["id"], IntPerms=["append"],
                 SibOpts=["LR"], LsnClasses=["4294967297"], KeyClasses=["small"], StaleOpts=[False, True],
                 UpdFrom=[0, 1, 399, 400], MaxOps=3, MaxUpd=1)
UPDATED_T = dict(UPDATED_Q, Pages=[1, 2], LeafCounts=[1, 2, 3, 4, 5, 8, 9], SizePats=ALL_SIZE_PATS, DelPats=ALL_DEL_PATS,
                 SibOpts=["--", "LR"], KeyClasses=["small", "wide"])

# "shapes": one store, every shape; "sequences": stores over adjacent pages with a small shape set
MC = {
    "quick": [
        dict(name="shapes", Pages=[2], LeafCounts=[0, 1, 2, 4, 8, 9], IntCounts=[0, 1, 2, 145, 289, 290],
             SizeClasses=[0, 1, 399, 400], SmallN=2, SizePats=["all0", "all400", "cyc", "last0", "first0"],
             DelPats=["none", "all", "first", "alt"], PermPats=["id", "rev", "mid"], IntPerms=["append", "mid"],
             SibOpts=["--", "L-", "-R", "LR"], LsnClasses=["0", "1", "4294967297"], KeyClasses=["small", "wide"],
             StaleOpts=[False, True], MaxOps=3, MaxUpd=1),
        UPDATED_Q,
        dict(name="sequences", Pages=[1, 2, 3], LeafCounts=[1, 9], IntCounts=[290], SizeClasses=[400], SmallN=1,
             SizePats=["cyc"], DelPats=["alt"], PermPats=["mid"], IntPerms=["append"], SibOpts=["LR"],
             LsnClasses=["4294967297"], KeyClasses=["wide"], StaleOpts=[False], MaxOps=5, MaxUpd=3),
    ],
    "thorough": [
        dict(name="shapes", Pages=[1, 2], LeafCounts=[0, 1, 2, 3, 4, 5, 8, 9], IntCounts=[0, 1, 2, 3, 144, 145, 289, 290],
             SizeClasses=[0, 1, 399, 400], SmallN=2, SizePats=ALL_SIZE_PATS, DelPats=ALL_DEL_PATS,
             PermPats=["id", "rev", "mid"], IntPerms=["append", "mid"], SibOpts=["--", "L-", "-R", "LR"],
             LsnClasses=["0", "1", "4294967297", "18446744073709551615"], KeyClasses=["small", "wide"],
             StaleOpts=[False, True], MaxOps=3, MaxUpd=1),
        UPDATED_T,
        dict(name="small-full", Pages=[1], LeafCounts=[3], IntCounts=[], SizeClasses=[0, 1, 399, 400], SmallN=3,
             SizePats=["cyc"], DelPats=["alt"], PermPats=["id", "rev", "mid"], IntPerms=["append"], SibOpts=["LR"],
             LsnClasses=["4294967297"], KeyClasses=["wide"], StaleOpts=[False, True], MaxOps=3, MaxUpd=1),
        dict(name="sequences", Pages=[1, 2, 3], LeafCounts=[1, 9], IntCounts=[2, 290], SizeClasses=[400], SmallN=1,
             SizePats=["cyc"], DelPats=["alt"], PermPats=["mid"], IntPerms=["append"], SibOpts=["LR", "--"],
             LsnClasses=["4294967297"], KeyClasses=["wide"], StaleOpts=[False], MaxOps=6, MaxUpd=3),
    ],
}
for _tier in MC.values():
    for _c in _tier:
        _c.setdefault("UpdFrom", [])
RANDOM = {
    # (pages, events per trace, traces)
    "quick": [(3, 1500, 2), (40, 3000, 2)],
    "thorough": [(2, 4000, 4), (6, 6000, 6), (60, 10000, 6)],
}


def tla_set(xs):
    def one(x):
        if isinstance(x, bool):
            return "TRUE" if x else "FALSE"
        if isinstance(x, int):
            return str(x)
        return '"%s"' % x
    return "{" + ", ".join(one(x) for x in xs) + "}"


def mc_cfg(c):
    lines = ["CONSTANTS"]
    for k in ("Pages", "LeafCounts", "IntCounts", "SizeClasses", "SizePats", "DelPats", "PermPats", "IntPerms", "SibOpts",
              "LsnClasses", "KeyClasses", "StaleOpts", "UpdFrom"):
        lines.append("  %s = %s" % (k, tla_set(c[k])))
    for k in ("SmallN", "MaxOps", "MaxUpd"):
        lines.append("  %s = %d" % (k, c[k]))
    lines.append("  EmitOn = TRUE")
    lines += ["INIT MCInit", "NEXT MCNext", "VIEW View", "ACTION_CONSTRAINT Emit",
              "INVARIANTS OnePageEach CacheOK FetchReturnsRegister FetchIsLastStored",
              "PROPERTIES OthersUndisturbed ReadsChangeNothing", "CHECK_DEADLOCK FALSE", ""]
    return "\n".join(lines)


def dkey(d):
    return json.dumps(d, sort_keys=True)


def features_mismatch(content, d, page, built=False):
    """Does the logical content have the abstract features of descriptor d? Returns a list of differences.
    built=True: the node is the one the harness built in memory (machinery sanity): value sizes are taken from the value
    bytes, and an inconsistent valueSize field is not judged here - it is part of what was stored and shows at the fetch."""
    out = []
    if content.get("leaf") != (d["kind"] == "leaf"):
        out.append("kind: content leaf=%r, descriptor %s" % (content.get("leaf"), d["kind"]))
        return out
    if content.get("n") != d["n"]:
        out.append("cell count %r, descriptor %d" % (content.get("n"), d["n"]))
    if content.get("lsn") != d["lsn"]:
        out.append("lastLSN %r, descriptor %s" % (content.get("lsn"), d["lsn"]))
    if content.get("off") != str(page * 4096):
        out.append("fileOffset %r, page %d" % (content.get("off"), page))
    if d["kind"] == "leaf":
        if content.get("hl") != d["sib"].startswith("L") or content.get("hr") != d["sib"].endswith("R"):
            out.append("sibling flags (%r,%r), descriptor %s" % (content.get("hl"), content.get("hr"), d["sib"]))
        cells = content.get("cells") or []
        szi = 3 if built else 2
        if [c[szi] for c in cells] != [c["sz"] for c in d["cells"]]:
            out.append("value sizes %r, descriptor %r" % ([c[szi] for c in cells], [c["sz"] for c in d["cells"]]))
        if not built and [c[3] for c in cells] != [c[2] for c in cells]:
            out.append("valueSize fields %r differ from value lengths %r" % ([c[2] for c in cells], [c[3] for c in cells]))
        if [c[1] for c in cells] != [c["del"] for c in d["cells"]]:
            out.append("tombstones %r, descriptor %r" % ([c[1] for c in cells], [c["del"] for c in d["cells"]]))
        keys = [int(c[0]) for c in cells]
        if keys != sorted(set(keys)):
            out.append("keys not strictly ascending in offsets order: %r" % keys)
    return out


def judge(scn, res):
    """Compare one replayed scenario with TLC's expectation.
    Returns (violations, machinery_errors, drift) - lists of strings / (kind, text) tuples."""
    viol, mach, drift = [], [], []
    if not res.get("ok"):
        mach.append("harness: %s" % res.get("err"))
        return viol, mach, drift
    if res.get("died"):
        # the executor process (address space capped at 1 GiB, see harness/cmd/codec supervise) did not survive the scenario
        if "out of memory" in res["died"] or "cannot allocate" in res["died"]:
            viol.append(("oom", "the real code ran out of memory on this scenario (executor capped at 1 GiB died: %s); a page whose "
                                "length fields do not describe its cells makes decodeLeaf allocate up to 4 GiB per cell" % res["died"][:200]))
        else:
            mach.append("harness executor died: %s" % res["died"][:300])
        return viol, mach, drift
    steps, rs = scn["steps"], res["steps"]
    if len(steps) != len(rs):
        mach.append("harness answered %d steps for %d" % (len(rs), len(steps)))
        return viol, mach, drift
    stored = {}
    for i, (s, r) in enumerate(zip(steps, rs)):
        if s["a"] == "update":
            d = s["node"]
            st = r.get("stored")
            if st is None:
                mach.append("step %d: no stored content" % i)
                return viol, mach, drift
            fm = features_mismatch(st, d, s["p"], built=True)
            if fm:
                mach.append("step %d: the node built by the harness is not the node TLC described: %s" % (i, "; ".join(fm)))
                return viol, mach, drift
            stored[(s["p"], dkey(d))] = st
            if r.get("err"):
                viol.append(("error", "step %d: storing an admissible node failed: %s" % (i, r["err"])))
                continue
            if r.get("enc_len") != 4096:
                viol.append(("enc-len", "step %d: encode() produced %r bytes, not 4096" % (i, r.get("enc_len"))))
            if r.get("rt") != st:
                viol.append(("roundtrip", "step %d: decode(encode(n)) differs from n" % i))
            if r.get("flen") != s["flen"]:
                viol.append(("flen", "step %d: file length %r after the store, specification %d" % (i, r.get("flen"), s["flen"])))
        elif s["a"] == "fetch":
            d = s["node"]
            exp = stored.get((s["p"], dkey(d)))
            if exp is None:
                mach.append("step %d: TLC expects a node at page %d that no step of the scenario stored" % (i, s["p"]))
                return viol, mach, drift
            if r.get("err"):
                viol.append(("error", "step %d: fetch of a stored page failed: %s" % (i, r["err"])))
                continue
            got = r.get("fetched")
            if got != exp:
                viol.append(("fetch-mismatch", "step %d: fetch(page %d, %s cache) returned a node whose logical content differs from the node last stored there"
                             % (i, s["p"], "warm" if r.get("hit") else "cold")))
            fm = features_mismatch(got or {}, d, s["p"])
            if fm:
                viol.append(("fetch-features", "step %d: fetched node does not have the shape of the register content: %s" % (i, "; ".join(fm))))
            if r.get("flen") != s["flen"]:
                viol.append(("flen", "step %d: file length %r, specification %d" % (i, r.get("flen"), s["flen"])))
            if bool(r.get("hit")) != bool(s["hit"]):
                drift.append("step %d: cache %s, specification %s" % (i, "hit" if r.get("hit") else "miss", "hit" if s["hit"] else "miss"))
    return viol, mach, drift


def shape_class(d):
    return "%s/n%d%s%s" % (d["kind"], d["n"], "/stale" if d["stale"] else "", "/updated" if d["upd"]["pos"] else "")


def run(ctx):
    binary = vlib.build_harness(ctx, "codec")
    cov = dict(evaluations=0, distinct_nontrivial=0, samples=[], states=0, transitions=0, configs=[], drift=0,
               rule="one evaluation = one TLC-generated scenario (action path ending in a Fetch) executed on a real fileStore; "
                    "distinct_nontrivial = distinct node shape descriptors with at least one cell that were stored with "
                    "fileStore.update and fetched back through a cold cache (fresh fileStore) at least once",
               random_events=0, random_traces=0, random_shapes={}, vacuity={})
    pool = vlib.WorkerPool(ctx, binary, n=min(12, vlib.NCPU))
    seen = dict(kind=set(), leaf_n=set(), int_n=set(), sz=set(), dele=set(), sib=set(), lsn=set(), perm=set(), stale=set(),
                keys=set(), fetch=set(), seq=set(), upd=set())
    cold_shapes = set()
    mach_errors = []
    try:
        if getattr(ctx, "replay", None):
            payload = json.load(open(ctx.replay))
            scn = payload.get("scenario")
            if not scn:
                raise vlib.Undecided("replay file has no scenario (random-trace findings are re-run with VERIF_SEED=%s)" % payload.get("seed"))
            got = []
            pool.run_all([dict(steps=scn["steps"], full=True)], lambda q, r: got.append(r))
            viol, mach, _ = judge(scn, got[0])
            if mach:
                raise vlib.Undecided("; ".join(mach))
            print(json.dumps(dict(violations=[v[1] for v in viol], observed=got[0]), indent=1)[:6000])
            if viol:
                vlib.report_violation(ctx, dict(kind="codec-replay", scenario=scn, detail=[v[1] for v in viol], observed=got[0]),
                                      signature="replay", finding_ids=payload.get("finding_ids"))
            cov.update(evaluations=1, distinct_nontrivial=0)
            return
        # ---- spec -> code
        only = os.environ.get("VERIF_C12_ONLY", "")   # debugging aid: "random" skips the TLC-generated part
        for idx, c in enumerate([] if only == "random" else MC[ctx.tier]):
            scns = {}

            def on_scn(kind, o):
                scns.setdefault(json.dumps(o, sort_keys=True), o)
            res = vlib.run_tlc(ctx, "PageCodecMC", "PageCodecMC_gen.cfg", cfg_text=mc_cfg(c), tag=c["name"], timeout=1500,
                               on_scn=on_scn, heap="6g")
            vlib.tlc_must_ok(ctx, res, "PageCodecMC %s" % c["name"])
            if not scns:
                raise vlib.Undecided("PageCodecMC %s emitted no scenarios" % c["name"])
            cov["states"] += res.distinct
            cov["transitions"] += res.generated
            cfgcov = dict(name=c["name"], distinct=res.distinct, generated=res.generated, scenarios=len(scns), tlc_wall=round(res.wall, 1),
                          bounds={k: v for k, v in c.items() if k != "name"})
            cov["configs"].append(cfgcov)
            failing = []

            def on_result(req, r):
                cov["evaluations"] += 1
                scn = req
                viol, mach, drift = judge(scn, r)
                if mach and all("stale-shape:" in m for m in mach):
                    cov["stale_shapes_not_constructible"] = cov.get("stale_shapes_not_constructible", 0) + 1
                    return
                if mach:
                    mach_errors.extend(mach)
                    return
                if drift:
                    cov["drift"] += 1
                if viol:
                    failing.append(scn)
                    return
                ups = [s for s in scn["steps"] if s["a"] == "update"]
                for s in ups:
                    d = s["node"]
                    seen["kind"].add(d["kind"])
                    (seen["leaf_n"] if d["kind"] == "leaf" else seen["int_n"]).add(d["n"])
                    seen["sib"].add(d["sib"]) if d["kind"] == "leaf" else None
                    seen["lsn"].add(d["lsn"])
                    seen["keys"].add(d["keys"])
                    seen["stale"].add(d["stale"])
                    for cell in d["cells"]:
                        seen["sz"].add(cell["sz"])
                        seen["dele"].add(cell["del"])
                    if d["kind"] == "leaf" and d["ins"] != sorted(d["ins"]):
                        seen["perm"].add("non-identity")
                    elif d["kind"] == "leaf":
                        seen["perm"].add("identity")
                    if d["insp"] == "mid":
                        seen["perm"].add("internal-mid")
                    u = d["upd"]
                    if u["pos"]:
                        to = d["cells"][u["pos"] - 1]["sz"]
                        seen["upd"].add("longer" if to > u["from"] else "shorter" if to < u["from"] else "same-length")
                        if u["from"] == 0 and to > 0:
                            seen["upd"].add("0->n")
                        if u["from"] > 0 and to == 0:
                            seen["upd"].add("n->0")
                        seen["upd"].add("first" if u["pos"] == 1 else "last" if u["pos"] == d["n"] else "middle")
                        if d["stale"]:
                            seen["upd"].add("after-split")
                        if d["cells"][u["pos"] - 1]["del"]:
                            seen["upd"].add("tombstoned")
                    elif d["kind"] == "leaf":
                        seen["upd"].add("none")
                last = scn["steps"][-1]
                seen["fetch"].add("warm" if last["hit"] else "cold")
                if not last["hit"] and last["node"]["n"] >= 1:
                    cold_shapes.add(dkey(last["node"]))
                if len(ups) >= 2:
                    pages = [s["p"] for s in ups]
                    lastup = max(i for i, s in enumerate(scn["steps"]) if s["a"] == "update")
                    if scn["steps"][lastup]["p"] != last["p"]:
                        seen["seq"].add("fetch-after-store-elsewhere")
                    if pages.count(last["p"]) >= 2:
                        seen["seq"].add("overwrite")
                    if any(abs(a - b) == 1 for a in pages for b in pages):
                        seen["seq"].add("adjacent")
                want = 2 if len(ups) == 1 else 4
                if len([x for x in cov["samples"] if x["config"] == c["name"]]) < 2 and not last["hit"] and last["node"]["n"] >= 2:
                    cov["samples"].append(dict(config=c["name"], steps=scn["steps"], observed_last=r["steps"][-1]))
            def feed():
                # once many scenarios of a configuration have failed the rest adds nothing, and under a defect every
                # further decode of a damaged page may allocate gigabytes (garbage length fields): stop feeding
                for o in scns.values():
                    if len(failing) >= 100:
                        cfgcov["cut_short_after_failures"] = True
                        return
                    yield o
            pool.run_all(feed(), on_result, chunk=16)
            if mach_errors:
                raise vlib.Undecided("harness / expectation problem: %s" % mach_errors[0])
            # confirm each failing scenario once from scratch, with full contents, before reporting
            for scn in failing[:40]:
                got = []
                pool.run_all([dict(steps=scn["steps"], full=True)], lambda q, r: got.append(r))
                viol, mach, _ = judge(scn, got[0])
                if mach or not viol:
                    raise vlib.Undecided("a failing scenario did not fail again when repeated: %s" % json.dumps(scn)[:500])
                kinds = sorted(set(v[0] for v in viol))
                shapes = sorted(set(shape_class(s["node"]) for s in scn["steps"] if s["a"] == "update"))
                fid = "c12-%s-%s" % ("+".join(kinds), "+".join(shapes))
                vlib.report_violation(ctx, dict(kind="codec-replay", scenario=scn, detail=[v[1] for v in viol], observed=got[0],
                                                finding_ids=[fid]),
                                      signature=fid, finding_ids=[fid])
            cfgcov["failing"] = len(failing)

        # ---- vacuity of the replayed part (skipped when violations were found: failing scenarios are not counted)
        if not ctx.violations and only != "random":
            want = dict(kind={"leaf", "internal"}, sz={0, 1, 399, 400}, dele={True, False}, sib={"--", "L-", "-R", "LR"},
                        stale={True, False}, keys={"small", "wide"}, fetch={"warm", "cold"},
                        perm={"identity", "non-identity", "internal-mid"}, seq={"fetch-after-store-elsewhere", "overwrite", "adjacent"},
                        leaf_n={0, 1, 2, 8, 9}, int_n={0, 1, 2, 289, 290}, lsn={"0", "1", "4294967297"},
                        upd={"none", "longer", "shorter", "same-length", "0->n", "n->0", "first", "middle", "last", "after-split"})
            for k, w in want.items():
                missing = w - seen[k]
                if missing:
                    raise vlib.Undecided("vacuous: no passing replayed scenario covered %s = %s" % (k, sorted(missing, key=str)))
        cov["vacuity"] = {k: sorted(v, key=str) for k, v in seen.items()}
        cov["distinct_nontrivial"] = len(cold_shapes)

        # ---- code -> spec: random workloads validated by TLC
        rng = random.Random(ctx.seed)
        tdir = ctx.sub("traces")
        for (pages, n, cnt) in RANDOM[ctx.tier]:
            parts, reqs = [], []
            for i in range(cnt):
                reqs.append(dict(mode="random", pages=pages, n=n, seed=rng.randrange(1 << 40),
                                 out=os.path.join(tdir, "t-%d-%d.ndjson" % (pages, i))))
            got = {}
            pool.run_all(reqs, lambda q, r: got.__setitem__(q["out"], r), chunk=1)
            died = [(q, got[q["out"]]) for q in reqs if got.get(q["out"], {}).get("died")]
            if died:
                q, r = died[0]
                if "out of memory" not in r["died"] and "cannot allocate" not in r["died"]:
                    raise vlib.Undecided("random driver died: %s" % r["died"][:300])
                fid = "c12-trace-oom"
                vlib.report_violation(ctx, dict(kind="codec-trace", driver_request=q, detail=[
                    "the real code ran out of memory during the random workload (executor capped at 1 GiB died: %s)" % r["died"][:200]],
                    finding_ids=[fid]), signature=fid, finding_ids=[fid])
                continue
            for q in reqs:
                r = got.get(q["out"])
                if not r or not r.get("ok"):
                    raise vlib.Undecided("random driver failed: %r" % (r,))
                for k, v in r.get("shapes", {}).items():
                    cov["random_shapes"][k] = cov["random_shapes"].get(k, 0) + v
                parts.append(open(q["out"]).read())
            trace = "".join(parts)
            outs = []
            res = vlib.run_tlc(ctx, "PageCodecTrace", "PageCodecTrace.cfg", workers=1, timeout=1500, tag="p%d" % pages,
                               files={"trace.ndjson": trace}, on_scn=lambda k, o: outs.append(o), xss="64m")
            reached = outs[-1]["reached"] if outs else None
            if res.status == "ok":
                cov["random_traces"] += cnt
                cov["random_events"] += trace.count("\n")
                continue
            if reached is None and not res.violated:
                raise vlib.Undecided("PageCodecTrace pages=%d: TLC failed\n%s" % (pages, "\n".join(res.out[-30:])))
            if reached is None:
                raise vlib.Undecided("PageCodecTrace pages=%d: invariant %s failed on the observed run but the position is unknown" % (pages, res.violated))
            # locate the trace and the event, re-run that driver with a full dump of the event
            # IsEvent records l + 1 as soon as the event kind matches, i.e. also for the event whose other conjuncts fail:
            # the rejected event is number reached - 1 (1-based line of the concatenated trace)
            pos, which = reached - 1, 0
            while which < len(parts) and pos > parts[which].count("\n"):
                pos -= parts[which].count("\n")
                which += 1
            if which >= len(parts):
                raise vlib.Undecided("PageCodecTrace pages=%d stopped after the last event (reached=%r)" % (pages, reached))
            ev = json.loads(parts[which].splitlines()[pos - 1])
            q = dict(reqs[which], dump=pos - 1, out="")
            got2 = []
            pool.run_all([q], lambda qq, r: got2.append(r), chunk=1)
            dump = got2[0].get("dump") if got2 else None
            if not dump:
                raise vlib.Undecided("PageCodecTrace rejected event %d of trace %d but the re-run did not reproduce it: %r" % (pos, which, ev))
            fid = "c12-trace-%s" % ev.get("a")
            vlib.report_violation(ctx, dict(kind="codec-trace", driver_request=q, rejected_event=ev, event_index=pos, invariant=res.violated,
                                            contents=dump, finding_ids=[fid]), signature=fid, finding_ids=[fid])
        for k in ("leaf-full", "leaf-split", "leaf-perm", "leaf-updated", "internal-full", "internal-split"):
            if not ctx.violations and cov["random_shapes"].get(k, 0) == 0:
                raise vlib.Undecided("vacuous: the random workloads never stored a '%s' node" % k)

        # ---- out-of-scope probe, for the record
        got = []
        pool.run_all([dict(mode="probe")], lambda q, r: got.append(r), chunk=1)
        d = (got[0].get("dump") or {}) if got else {}
        if d.get("decode_err") or (d.get("decoded") is not None and d.get("decoded") != d.get("stored")):
            ctx.note("outside C12's scope (the engine's row ids only ascend): a leaf filled in descending key order and then split "
                     "keeps offsets %s that point beyond its %s cells; decode of its page: %s"
                     % (d.get("offsets"), (d.get("stored") or {}).get("n"), d.get("decode_err") or "content differs"))
    finally:
        pool.close()
    # ---- the same register property at store level: long seeded runs of real statements (splits at production and small
    # capacities, NULLs, updates changing row lengths, empty tables); after every flush each page the store holds
    # (cached version over the file) must be what the data file alone decodes to, header included
    import storelib
    sbin = vlib.build_harness(ctx, "store")
    spool = vlib.WorkerPool(ctx, sbin)
    try:
        scov = storelib.new_cov()
        nruns = 4 if ctx.quick() else 12
        agg = storelib.random_runs(ctx, spool, scov, [dict(seed=ctx.seed * 1000 + 700 + i, n=(150 if ctx.quick() else 400), caps=([3, 3] if i % 2 else []),
                                                            cache=(0 if i % 4 < 2 else 12), pcrash=0, pflush=0.5, wal=False, maxrows=(4 if i % 2 else 12),
                                                            pagert=True) for i in range(nruns)] +
                                   # bulk statements: several hundred three-cell pages are dirty when the flush starts
                                   [dict(seed=ctx.seed * 1000 + 760 + i, n=(8 if ctx.quick() else 20), caps=[3, 3], cache=0, pcrash=0, pflush=0.5, wal=False,
                                         maxrows=1200, bias="grow", pagert=True) for i in range(1 if ctx.quick() else 3)])
        cov["store_level_runs"] = dict(runs=agg["runs"], statements=agg["statements"], flushes=agg["flushes"],
                                       order_events=agg.get("order_events_accepted_by_walorder", 0), pages_round_tripped=agg.get("pages_round_tripped", 0))
        if not agg.get("pages_round_tripped") and not ctx.violations:
            raise vlib.Undecided("vacuous: no page was compared after a flush")
        if agg["runs"] == 0 and not ctx.violations:
            raise vlib.Undecided("vacuous: no store-level round-trip run was judged")
    finally:
        spool.close()
    # ---- several stores in one process (every database has its own store, lock and flusher): the codec shares nothing between
    # them.  One session with real timers under the race detector: the selected database's ticker serialises its dirty pages
    # while CREATE DATABASE serialises another store's pages on the session's goroutine; a data race whose two accesses are
    # both inside the page codec means two stores share serialisation state (then no page is sure to read back as written)
    import re
    import subprocess
    try:
        rbin = vlib.build_harness(ctx, "twostores", race=True)
    except vlib.Undecided as e:
        raise vlib.Undecided("race build failed: %s" % e)
    wd = ctx.sub("twostores")
    p = subprocess.run([rbin, str(24 if ctx.quick() else 90)], cwd=wd, capture_output=True, text=True, timeout=900,
                       env=dict(os.environ, GORACE="halt_on_error=0 history_size=3"))
    try:
        summary = json.loads(p.stdout.strip().splitlines()[-1])
    except Exception:
        raise vlib.Undecided("twostores driver gave no answer (rc=%s): %s" % (p.returncode, (p.stdout + p.stderr)[-1500:]))
    codec = re.compile(r"storage\.\(\*btreeNode\)\.(encode|decode)\w*\(|storage\.(encode|decode|write)\w*\(|storage\.\(\*fileStore\)\.update\(")
    n_codec, n_other = 0, 0
    for rep in re.split(r"={18}\n", p.stderr):
        if "DATA RACE" not in rep:
            continue
        # the two accesses: the innermost frame of each stack that belongs to the code under test
        tops = []
        for blk in re.split(r"\n\s*\n", rep):
            if re.match(r"\s*(WARNING: DATA RACE\n)?\s*(Write|Read|Previous write|Previous read) at ", blk):
                fr = [l.strip() for l in blk.splitlines() if "github.com/mk6i/mkdb/" in l and not l.strip().startswith("/")]
                tops.append(fr[0] if fr else "?")
        if len(tops) >= 2 and all(codec.search(t) for t in tops[:2]):
            n_codec += 1
            if n_codec == 1:
                vlib.report_violation(ctx, dict(kind="codec-data-race", report=rep[:3000], detail=[
                    "two stores of one process share state inside the page codec: unsynchronised accesses in %s and %s (race detector, "
                    "session with real flush timers creating databases while the selected one is being flushed)" % (tops[0], tops[1])]),
                    signature="codec-race:" + tops[0])
        else:
            n_other += 1
    if not summary.get("ok"):
        if summary.get("viol"):
            vlib.report_violation(ctx, dict(kind="two-stores", detail=[summary["viol"]], summary=summary), signature="two-stores:" + summary["viol"][:60])
        elif not ctx.violations:
            raise vlib.Undecided("twostores driver failed: %s" % summary.get("err"))
    cov["two_stores_race_run"] = dict(databases=summary.get("databases"), rows=summary.get("rows"), codec_race_reports=n_codec, other_race_reports=n_other)
    if n_other:
        ctx.note("%d data-race reports outside the page codec in the several-stores run (CREATE DATABASE against its own freshly started ticker: "
                 "outside C12)" % n_other)
    if cov["drift"]:
        ctx.note("%d replayed scenarios: cache hit/miss differed from the specification (observable results identical)" % cov["drift"])
    cov["exhaustive"] = True
    if cov["evaluations"] >= 1 and cov["distinct_nontrivial"] >= 2:
        vlib.write_evidence(ctx, "exploration", cov, assumptions=[
            "TLC/SANY and the CommunityModules Json module are correct",
            "the accessor harness/overlay/storage/zz_verif_codec.go only forwards to insertLeafCell/appendInternalCell/"
            "insertInternalCell/split/encode/decode/newFileStore/update/fetch and copies fields out",
            "logical content = header fields (fileOffset, lastLSN, sibling flags and offsets, rightOffset) and the cells in "
            "offsets order (key, tombstone, valueSize, value bytes / key, child offset); freeSize and the physical slot order are not part of it",
            "values over 24 bytes and internal cell lists over 12 cells are compared by SHA-256 digests (full contents on re-run of a failing scenario)",
            "in-scope shapes: any insertion order with every slot referenced, or ascending insertion order followed by a real split "
            "and / or a value replaced through the real updateCell",
            "byte layout is not modelled; it is exercised through the real codec only"])
