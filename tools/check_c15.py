"""C15 - the page cache is a correct LRU that never drops unsaved pages.

Spec -> code: every transition of the bounded Lru.tla state graph (LruMC) is
replayed against storage.LRUCache and the results compared.
Code -> spec: random long runs at larger capacities are recorded and validated
by TLC against LruTrace.tla.
"""
import json
import os
import random

import vlib

MC = {
    # tier: list of (Keys, PVals, Cap, MaxOps)
    "quick": [("{1, 2, 3}", "{10, 11}", 2, 5), ("{1, 2}", "{10, 11}", 1, 5), ("{1, 2, 3, 4}", "{10}", 3, 5)],
    "thorough": [("{1, 2, 3}", "{10, 11}", 2, 7), ("{1, 2}", "{10, 11}", 1, 8), ("{1, 2, 3, 4}", "{10, 11}", 3, 6),
                 ("{1, 2, 3, 4, 5}", "{10}", 4, 6)],
}
TRACE = {
    # tier: list of (cap, keys, n events, number of traces)
    # (n = 0: the directed "tail" workload - the only clean page at depth 1, 2, 2^k-1, 2^k, 2^k+1, ..., cap from the cold end of a
    # cache otherwise full of unsaved pages; capacities beyond any round number an eviction walk might stop at)
    "quick": [(4, 7, 2000, 3), (16, 24, 3000, 2), (64, 90, 3000, 1), (100, 140, 3000, 2), (600, 0, 0, 1)],
    "thorough": [(2, 4, 4000, 6), (4, 7, 5000, 8), (16, 24, 10000, 6), (64, 90, 10000, 4), (3, 12, 5000, 4), (128, 180, 10000, 3),
                 (300, 400, 6000, 2), (600, 0, 0, 1), (1100, 0, 0, 1)],
}


def mc_cfg(keys, pvals, cap, maxops):
    return """CONSTANTS
  Keys = %s
  PVals = %s
  Cap = %d
  MaxOps = %d
  EmitOn = TRUE
INIT MCInit
NEXT MCNext
VIEW View
ACTION_CONSTRAINT Emit
INVARIANTS CapOK DomOK GetReturnsStored ClockMatchesOrder
PROPERTIES EvictIsLruClean RefuseOnlyWhenFullOfDirty RefusalChangesNothing ValOnlyChangedBySet
CHECK_DEADLOCK FALSE
""" % (keys, pvals, cap, maxops)


def run(ctx):
    binary = vlib.build_harness(ctx, "lru")
    cov = dict(states=0, transitions=0, traces_validated_against_impl=0, samples=[], exhaustive=True,
               scenarios_replayed=0, kinds={}, drift=0, trace_events=0, configs=[])
    pool = vlib.WorkerPool(ctx, binary, n=min(8, vlib.NCPU))
    try:
        # ---- spec -> code
        for idx, (keys, pvals, cap, maxops) in enumerate(MC[ctx.tier]):
            scns = []
            res = vlib.run_tlc(ctx, "LruMC", "LruMC_gen.cfg", cfg_text=mc_cfg(keys, pvals, cap, maxops), tag=str(idx),
                               timeout=900, on_scn=lambda k, o: scns.append(o))
            vlib.tlc_must_ok(ctx, res, "LruMC %s" % idx)
            cov["states"] += res.distinct
            cov["transitions"] += res.generated
            cov["configs"].append(dict(keys=keys, pvals=pvals, cap=cap, maxops=maxops, distinct=res.distinct,
                                       generated=res.generated, scenarios=len(scns)))
            if not scns:
                raise vlib.Undecided("LruMC emitted no scenarios")

            def on_result(req, r):
                cov["scenarios_replayed"] += 1
                if r.get("kind"):
                    cov["kinds"][r["kind"]] = cov["kinds"].get(r["kind"], 0) + 1
                if r.get("drift"):
                    cov["drift"] += 1
                if not r["ok"]:
                    steps = [{k: v for k, v in s.items() if k != "exp"} for s in req["steps"]]
                    vlib.report_violation(ctx, dict(kind="lru-replay", cap=req["cap"], steps=steps,
                                                    expected=req["steps"][r["step"]]["exp"], observed=r.get("obs"),
                                                    detail=r.get("viol"), failing_step=r["step"]),
                                          signature="replay")
                elif len(cov["samples"]) < 3 and len(req["steps"]) == maxops:
                    cov["samples"].append(dict(cap=req["cap"], steps=[{k: v for k, v in s.items() if k != "exp"} for s in req["steps"]],
                                               observed_after_last=r.get("obs")))
            pool.run_all(scns, on_result)
        for k in ("refuse", "evict", "hit", "miss", "overwrite", "dirty", "clean"):
            if cov["kinds"].get(k, 0) == 0:
                raise vlib.Undecided("vacuous: no replayed scenario ended in '%s'" % k)

        # ---- code -> spec
        rng = random.Random(ctx.seed)
        for (cap, keys, n, cnt) in TRACE[ctx.tier]:
            tdir = ctx.sub("traces")
            parts = []
            for i in range(cnt):
                out = os.path.join(tdir, "t-%d-%d.ndjson" % (cap, i))
                got = []
                pool.run_all([dict(mode=("trace" if n else "tail"), cap=cap, keys=keys, n=n, seed=rng.randrange(1 << 30), out=out)],
                             lambda req, r: got.append(r))
                if not got or not got[0]["ok"]:
                    raise vlib.Undecided("trace driver failed: %r" % got)
                parts.append(open(out).read())
            trace = "".join(parts)
            nev = trace.count("\n")
            cfg = open(os.path.join(vlib.SPEC, "LruTrace.cfg")).read().replace("Cap = 8", "Cap = %d" % cap)
            outs = []
            res = vlib.run_tlc(ctx, "LruTrace", "LruTrace.cfg", cfg_text=cfg, workers=1, timeout=900, tag=str(cap),
                               files={"trace.ndjson": trace}, on_scn=lambda k, o: outs.append(o), xss=("1g" if cap > 200 else None))
            reached = outs[-1]["reached"] if outs else None
            if res.status == "ok":
                cov["traces_validated_against_impl"] += cnt
                cov["trace_events"] += nev
                continue
            # rejected (or an invariant failed on the observed run): locate the event and report
            if reached is None and not res.violated:
                raise vlib.Undecided("LruTrace cap=%d: TLC failed\n%s" % (cap, "\n".join(res.out[-30:])))
            lines = trace.splitlines()
            pos = reached if reached is not None else None
            ctxl = lines[max(0, (pos or 1) - 6):(pos or 1)]
            vlib.report_violation(ctx, dict(kind="lru-trace", cap=cap, rejected_at_event=pos, invariant=res.violated,
                                            events_before_and_at=[json.loads(x) for x in ctxl]),
                                  signature="trace")
    finally:
        pool.close()
    if cov["drift"]:
        ctx.note("%d replayed scenarios showed a different recency order with identical observable results" % cov["drift"])
    cov["traces_validated_against_impl"] += cov["scenarios_replayed"]
    # ---- "never drops unsaved pages" at store level: seeded runs of real statements in which a page write of a flush
    # fails now and then (I/O error). The flush must report the failure, the page must stay dirty - hence resident -
    # and when every clean page is then thrown out of the cache, every table must still read as the history implies.
    import storelib
    sbin = vlib.build_harness(ctx, "store")
    spool = vlib.WorkerPool(ctx, sbin)
    try:
        scov = storelib.new_cov()
        agg = storelib.random_runs(ctx, spool, scov, [dict(seed=ctx.seed * 1000 + 900 + i, n=(180 if ctx.quick() else 500), caps=([3, 3] if i % 2 else []), cache=0,
                                                            pcrash=0.02, pflush=0.35, pfail=0.5, wal=False, maxrows=(4 if i % 2 else 10))
                                                       for i in range(3 if ctx.quick() else 10)] +
                                   # and under caches so small that statements fill them with dirty pages: the refusal must reach
                                   # the statement (which is then abandoned), never be swallowed with the page handed out uncached
                                   [dict(seed=ctx.seed * 1000 + 950 + i, n=(200 if ctx.quick() else 500), caps=[], cache=k, pcrash=0, pflush=0, wal=False,
                                         maxrows=30, bias="grow") for i, k in enumerate([6, 8] if ctx.quick() else [5, 6, 7, 8, 10])] +
                                   # the same with three-cell pages: a long INSERT then allocates page after page (append) while every
                                   # resident page is dirty, so the refusal - or the overflow - happens at an allocation, not at a fetch
                                   [dict(seed=ctx.seed * 1000 + 970 + i, n=(150 if ctx.quick() else 400), caps=[3, 3], cache=k, pcrash=0, pflush=0, wal=False,
                                         maxrows=30, bias="grow") for i, k in enumerate([10, 14] if ctx.quick() else [10, 11, 12, 14, 18])])   # (CREATE TABLE alone dirties up to 9 three-cell pages)
        cov["store_level_write_faults"] = dict(runs=agg["runs"], statements=agg["statements"], flushes=agg["flushes"],
                                               flushes_failed=agg.get("flushes_failed", 0), clean_pages_evicted_after=agg.get("evicted_after_failed_flush", 0),
                                               cache_full_statements=agg.get("cachefull_statements_restarted", 0),
                                               read_fault_rounds=agg.get("read_fault_rounds", 0),
                                               wide_updates_under_a_small_cache=agg.get("wide_updates_under_a_small_cache", 0),
                                               wide_updates_refused_by_a_full_cache=agg.get("wide_updates_refused_by_a_full_cache", 0))
        if not agg.get("flushes_failed") and not ctx.violations:
            raise vlib.Undecided("vacuous: no flush with a failing page write was run")
        if not agg.get("read_fault_rounds") and not ctx.violations:
            raise vlib.Undecided("vacuous: no round of failing page reads was run")
    finally:
        spool.close()
    vlib.write_evidence(ctx, "model_checking", cov, assumptions=[
        "TLC/SANY and the CommunityModules Json module are correct",
        "the accessor harness/overlay/storage/zz_verif_lru.go only forwards calls to LRUCache and reads its list",
        "page identity is carried in btreeNode.lastLSN, the dirty flag in btreeNode.dirty"])
