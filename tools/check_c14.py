"""C14 - a statement that returns an error changes nothing."""
import vlib
import storelib

CFGS = {
    "quick": [("c14-a", dict(BadMode='"type-size"', MaxStmts=3, MaxRows=3, MaxFlush=0, Tables='{"t1", "t2"}', Vals="{1}"), None),
              ("c14-b", dict(BadMode='"count-range"', MaxStmts=3, MaxRows=2, MaxFlush=1, Tables='{"t1"}', Vals="{1, 2}"), None),
              # statements on three-level trees and on rows at the 400-byte limit: they succeed in the specification
              ("c14-x", dict(MaxStmts=5, MaxRows=3, MaxFlush=0, Tables='{"t1"}', Vals="{1}", Wheres="{0, 1}", Ops='{"create", "insert", "update", "delete"}'), 8000),
              ("c14-y-x", dict(MaxStmts=4, MaxRows=2, MaxFlush=0, Tables='{"t1"}', Vals="{1, 8}", Wheres="{0, 8}", Ops='{"create", "insert", "update", "delete"}'), 8000),
              # rows with a NULL INT column and WHERE clauses that fail on them (`a >= k`): the statement must fail before touching any row
              ("c14-n", dict(BadMode='"type-size"', MaxStmts=5, MaxRows=1, MaxFlush=0, Tables='{"t1"}', Vals="{1, 9}", Wheres="{0, 1, 101}", Ops='{"create", "insert", "update", "delete"}'), None)],
    "thorough": [("c14-a", dict(BadMode='"type-size"', MaxStmts=4, MaxRows=3, MaxFlush=1, Tables='{"t1", "t2"}', Vals="{1}"), 80000),
                 ("c14-b", dict(BadMode='"count-range"', MaxStmts=4, MaxRows=3, MaxFlush=1, Tables='{"t1"}', Vals="{1, 2}"), 60000),
                 ("c14-c", dict(BadMode='"all"', MaxStmts=3, MaxRows=4, MaxFlush=0, Tables='{"t1"}', Vals="{1}"), 60000),
                 ("c14-n", dict(BadMode='"type-size"', MaxStmts=6, MaxRows=2, MaxFlush=1, Tables='{"t1"}', Vals="{1, 2, 9}", Wheres="{0, 1, 101, 102}"), 80000)],
}


def run(ctx):
    binary = vlib.build_harness(ctx, "store")
    if ctx.replay:
        return storelib.replay_file(ctx, binary, ctx.replay)
    cov = storelib.new_cov()
    pool = vlib.WorkerPool(ctx, binary)
    kinds = {}
    try:
        for name, over, sample in CFGS[ctx.tier]:
            def sel(sc, name=name):
                # paths whose last statement is the failing one (its effect is what this property is about); in the
                # "-x" configurations every path ending in a statement: a statement the specification lets succeed may
                # fail in the code (a fault deep in a tree, at the size limit), and then it must have changed nothing
                if name.endswith("-x"):
                    return sc["steps"][-1]["a"] in ("insert", "update", "delete")
                return sc["out"] == "error"
            st = storelib.StoreRun(ctx, name, dict(over, EmitSel=('"all"' if name.endswith("-x") else '"error"')),  sample=sample, select=sel).run(pool, storelib.default_violation(ctx), cov)
            kinds[name] = st["replayed"]
        if not ctx.quick():
            storelib.design_only(ctx, "big", dict(BadMode='"all"', MaxStmts=5, MaxRows=3, MaxFlush=1, Tables='{"t1"}', Vals="{1, 9}", Wheres="{0, 1, 101}"), cov, timeout=600)
    finally:
        pool.close()
    cov["failing_statements_replayed"] = sum(kinds.values())
    if cov["failing_statements_replayed"] == 0:
        raise vlib.Undecided("vacuous: no failing statement replayed")
    vlib.write_evidence(ctx, "model_checking", cov, assumptions=[
        "TLC, SANY, CommunityModules", "capacity override 3/3 (hook verifIsFull)",
        "failing causes rendered as SQL: wrong type ('x' into INT), oversized row (450-byte string), column count mismatch, INT 3000000000, unknown table, duplicate CREATE TABLE",
        "'immediately and after a restart': the end-of-scenario probes re-read after flush+cache drop, after Close+InitStorage and after a crash+InitStorage"])
