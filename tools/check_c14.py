"""C14 - a statement that returns an error changes nothing (immediately and after a restart).

Two parts, both specification -> code (behaviour replay):

1. Store.tla (StoreRun): page-level histories whose last statement fails - wrong type, oversized row, column count,
   INT out of range, unknown table, duplicate CREATE TABLE, the failing row at every position of a multi-row INSERT,
   WHERE clauses that fail on a NULL - on small trees, three-level trees and rows at the 400-byte limit; the tables and
   the catalog are compared before / after the statement, after flush + cache drop, after Close + InitStorage and after a
   crash + InitStorage.  Rows of Store.tla hold one value, so an UPDATE has the same outcome on every row there.

2. ValueStore.tla with MixedUpd = TRUE (the scenario runner of C08, tools/check_c08.run_configs): multi-column rows with
   exact encoded sizes, where `UPDATE t SET ...` is accepted by some rows and refused by others - the SET string suits the
   first row (that is how the bounded instance sizes it) and makes a LATER row exceed 400 bytes because of that row's other,
   longer column (`later-refused`), or it overflows the first row only (`first-refused`).  The specification's UpdateAll is
   atomic: ok iff every new row is accepted, otherwise abs / mem / disk are unchanged (action property
   RefusedChangesNothing, checked by TLC).  ValueStoreMC enumerates tables of 2-3 rows over VARCHAR,VARCHAR and three-column
   VARCHAR/INT schemas (short row first and long row first), SET lists from the classes l1 / l150 / l300 / f400 / f401,
   uniform type / range errors, and the lifecycle steps flush / evict-all / restart before and after the refused UPDATE
   ("after a restart"); every scenario ends in a SELECT * whose rows must be the rows the history implies, cell for
   cell.  Each scenario is run with direct statement values and as SQL text.  A scenario that fails is re-run from
   scratch and reported under C14 with a signature naming the refused statement and its value classes.
"""
import json
import re
import time

import vlib
import storelib
import check_c08 as vs

CFGS = {
    "quick": [("c14-a", dict(BadMode='"type-size"', MaxStmts=3, MaxRows=3, MaxFlush=0, Tables='{"t1", "t2"}', Vals="{1}"), None),
              ("c14-b", dict(BadMode='"count-range"', MaxStmts=3, MaxRows=2, MaxFlush=1, Tables='{"t1"}', Vals="{1, 2}"), None),
              # statements on three-level trees and on rows at the 400-byte limit: they succeed in the specification
              ("c14-x", dict(MaxStmts=5, MaxRows=3, MaxFlush=0, Tables='{"t1"}', Vals="{1}", Wheres="{0, 1}", Ops='{"create", "insert", "update", "delete"}'), 8000),
              # tables created between the statements of another table (the catalog's own tree grows and splits meanwhile)
              ("c14-ddl-x", dict(MaxStmts=5, MaxRows=2, MaxFlush=0, Tables='{"t1", "t2"}', Vals="{1}", Wheres="{0}", Ops='{"create", "insert"}'), 8000),
              ("c14-y-x", dict(MaxStmts=4, MaxRows=2, MaxFlush=0, Tables='{"t1"}', Vals="{1, 8}", Wheres="{0, 8}", Ops='{"create", "insert", "update", "delete"}'), 8000),
              # rows with a NULL INT column and WHERE clauses that fail on them (`a >= k`): the statement must fail before touching any row
              ("c14-n", dict(BadMode='"type-size"', MaxStmts=5, MaxRows=1, MaxFlush=0, Tables='{"t1"}', Vals="{1, 9}", Wheres="{0, 1, 101}", Ops='{"create", "insert", "update", "delete"}'), None)],
    "thorough": [("c14-a", dict(BadMode='"type-size"', MaxStmts=4, MaxRows=3, MaxFlush=1, Tables='{"t1", "t2"}', Vals="{1}"), 80000),
                 ("c14-b", dict(BadMode='"count-range"', MaxStmts=4, MaxRows=3, MaxFlush=1, Tables='{"t1"}', Vals="{1, 2}"), 60000),
                 ("c14-c", dict(BadMode='"all"', MaxStmts=3, MaxRows=4, MaxFlush=0, Tables='{"t1"}', Vals="{1}"), 60000),
                 ("c14-ddl-x", dict(MaxStmts=6, MaxRows=3, MaxFlush=0, Tables='{"t1", "t2", "t3"}', Vals="{1}", Wheres="{0}", Ops='{"create", "insert"}'), 60000),
                 ("c14-n", dict(EmitMod=14, BadMode='"type-size"', MaxStmts=6, MaxRows=2, MaxFlush=1, Tables='{"t1"}', Vals="{1, 2, 9}", Wheres="{0, 1, 101, 102}"), 80000)],
}


# ---------------------------------------------------------------- part 2: ValueStoreMC with mixed-outcome UPDATEs

def V(name, types, ncols, strcls, maxmut, maxlife, lifefrom, emit="mixed-upd", wrong=False, null=False, maxbad=1, intcls=("1", "max32p1")):
    return dict(name=name, MinCols=ncols, MaxCols=ncols, Types=list(types), IntCls=list(intcls), BigCls=["0"], StrCls=list(strcls),
                WithNull=null, WithWrong=wrong, MaxBad=maxbad, WithUpd=True, MaxMut=maxmut, MaxLife=maxlife, LifeFrom=lifefrom,
                EmitSel=emit, MixedUpd=True)


# gauged on 16 cores; scenarios printed and TLC seconds per configuration are in the evidence file (coverage.valuestore.configs)
VS_CFGS = {
    "quick": [
        # two rows (short first, long first), one lifecycle step before or after the UPDATE; f400 / f401: off by one byte
        V("mix-vv", ["VARCHAR"], 2, ["l1", "l150", "l300", "f400", "f401"], 3, 1, 2),
        # every order of up to three lifecycle steps after the refused UPDATE
        V("mix-vv-life", ["VARCHAR"], 2, ["l1", "l300", "f400"], 3, 3, 3),
        # three columns over VARCHAR / INT (VARCHAR,INT,VARCHAR among them), lifecycle after the UPDATE
        V("mix-viv", ["VARCHAR", "INT"], 3, ["l1", "l300", "f400"], 3, 1, 3, maxbad=0, intcls=("1",)),
        # uniform causes (wrong type, INT out of range, oversized for every row) next to the mixed ones
        V("mix-iv-uniform", ["VARCHAR", "INT"], 2, ["l1", "l300", "f400"], 3, 1, 3, emit="refused-upd", wrong=True),
        # three character columns: two assignments that each fit every row and together overflow the row whose third column is long
        V("mix-vvv", ["VARCHAR"], 3, ["l1", "l150"], 3, 1, 3, maxbad=0),
        # a fixed-width assignment (SET c = 1) that only overflows the row in which that column was NULL and the row was full
        V("mix-null-grow", ["INT", "VARCHAR"], 2, ["l1", "f400"], 3, 1, 3, null=True, maxbad=0, intcls=("1",)),
        # a refused row as the SECOND row of a two-row INSERT behind a row the table accepts (ValueStore!PutTwo): wrong type, INT
        # out of range, a row one byte too long next to INT / BIGINT / BOOLEAN columns and NULLs - nothing of the statement is stored
        dict(V("guarded-put", ["VARCHAR", "BIGINT", "INT", "BOOLEAN"], 2, ["l1", "f400", "f401"], 2, 1, 1, emit="all", wrong=True, null=True), WithGuard=True),
    ],
    "thorough": [
        dict(V("guarded-put", ["VARCHAR", "BIGINT", "INT", "BOOLEAN"], 2, ["l1", "f399", "f400", "f401"], 2, 2, 1, emit="all", wrong=True, null=True), WithGuard=True),
        dict(V("guarded-put-3", ["VARCHAR", "BIGINT", "INT"], 3, ["l1", "f400", "f401"], 2, 0, 0, emit="all", wrong=False, null=True), WithGuard=True),
        V("mix-vv", ["VARCHAR"], 2, ["l1", "l150", "l300", "f399", "f400", "f401"], 3, 2, 2),
        V("mix-vv-life", ["VARCHAR"], 2, ["l1", "l150", "l300", "f400"], 3, 4, 3),
        V("mix-viv", ["VARCHAR", "INT"], 3, ["l1", "l300", "f400", "f401"], 3, 2, 3),
        # three rows, the refusing row second or third; statements after the refused UPDATE
        V("mix-3rows", ["VARCHAR"], 2, ["l1", "l300", "f400"], 4, 2, 3, maxbad=0),
        V("mix-all-uniform", ["INT", "BIGINT", "BOOLEAN", "VARCHAR"], 2, ["l1", "l300", "f400"], 3, 1, 3, emit="refused-upd", wrong=True),
        V("mix-vvv", ["VARCHAR"], 3, ["l1", "l150"], 3, 2, 3, maxbad=0),
        V("mix-null-grow", ["INT", "BIGINT", "VARCHAR"], 2, ["l1", "f400"], 3, 2, 3, null=True, maxbad=0, intcls=("1",)),
    ],
}


def stmt_name(schema, s):
    """A refused / accepted statement by its value classes, e.g. upd[c1=VARCHAR:l150;later-refused]."""
    if s["a"] == "upd":
        body = ",".join("c%d=%s" % (it["c"], vs.cls_name(schema, it["c"], it["v"])) for it in s["set"])
        return "upd[%s;%s]" % (body, s.get("mixed", "?"))
    if s["a"] == "put":
        return "put[%s]" % ",".join(vs.cls_name(schema, j + 1, c) for j, c in enumerate(s["row"]))
    return s["a"]


def c14_fid(scn, path, viol):
    """Signature: what was observed, after which statement (the last refused one before the step that went wrong, else
    the last statement), on which schema."""
    if viol[0][0].startswith(("fatal-", "hang-")):
        return "c14-vs-died-" + viol[0][0].split("-")[0]     # one signature: every repetition costs seconds
    m = re.match(r"step (\d+):", viol[0][1])
    at = int(m.group(1)) if m else len(scn["steps"]) - 1
    muts = [s for s in scn["steps"][:at + 1] if s["a"] in ("put", "upd")]
    refused = [s for s in muts if not s["ok"]]
    culprit = (refused or muts or [{"a": "none"}])[-1]
    return "c14-vs-%s-%s-after-%s-%s-on-%s" % (path, viol[0][0], "refused" if refused else "accepted", stmt_name(scn["schema"], culprit),
                                               ",".join(scn["schema"]))


class MixStats(vs.Stats):
    """What the value-store part replayed without a finding: refused UPDATEs by kind, the distinct situations
    (schema, rows by value class, SET list), and the lifecycle steps between a mixed refused UPDATE and the read."""

    def __init__(self):
        super().__init__()
        paths = ("direct", "text")
        self.mixed = {p: {"later-refused": 0, "first-refused": 0} for p in paths}
        self.uniform = {p: 0 for p in paths}
        self.distinct = {"later-refused": set(), "first-refused": set(), "uniform": set()}
        self.after = {p: set() for p in paths}       # lifecycle steps after a mixed refused UPDATE, before the read
        self.before = {p: set() for p in paths}      # lifecycle steps between the last INSERT and a mixed refused UPDATE
        self.rows_at = {p: set() for p in paths}     # numbers of rows in the table at a mixed refused UPDATE
        self.then_stmt = {p: 0 for p in paths}       # a further statement after the mixed refused UPDATE

    def add(self, scn, path):
        super().add(scn, path)
        schema = tuple(scn["schema"])
        table = []       # rows by value class, following the outcomes TLC states (bookkeeping, no rule is re-implemented)
        life = []
        pending = None   # a mixed refused UPDATE seen, waiting for the read
        for s in scn["steps"]:
            a = s["a"]
            if a == "put":
                if pending is not None:
                    self.then_stmt[path] += 1
                if s["ok"]:
                    table.append([(c["t"], c["cls"], c["len"]) for c in s["row"]])
                life = []
            elif a == "upd":
                if pending is not None:
                    self.then_stmt[path] += 1
                key = (schema, tuple(tuple(r) for r in table), tuple((it["c"], it["v"]["t"], it["v"]["cls"], it["v"]["len"]) for it in s["set"]))
                kind = s.get("mixed", "no")
                if s["ok"]:
                    for r in table:
                        for it in s["set"]:
                            r[it["c"] - 1] = (it["v"]["t"], it["v"]["cls"], it["v"]["len"])
                elif kind in self.mixed[path]:
                    self.mixed[path][kind] += 1
                    self.distinct[kind].add(key)
                    self.before[path].update(life)
                    self.rows_at[path].add(len(table))
                    pending = []
                else:
                    self.uniform[path] += 1
                    self.distinct["uniform"].add(key)
                life = []
            elif a in ("flush", "evict", "restart"):
                life.append(a)
                if pending is not None:
                    pending.append(a)
            elif a == "get" and pending is not None:
                self.after[path].update(pending)
                self.after[path].add("immediately" if not pending else "later")


def run_valuestore(ctx, cov):
    """Part 2: mixed-outcome UPDATEs of ValueStore.tla replayed through C08's scenario runner, judged as C14."""
    t0 = time.time()
    binary = vlib.build_harness(ctx, "valstore")
    vcov = vs.new_cov()
    vcov["rule"] = ("one evaluation = one TLC-generated ValueStoreMC scenario (MixedUpd = TRUE; inserts, an UPDATE without WHERE that some or all "
                    "rows refuse, lifecycle steps, SELECT *) executed on the real engine on one input path (direct statement values or SQL text)")
    st = MixStats()
    pool = vlib.WorkerPool(ctx, binary, n=min(12, vlib.NCPU))
    try:
        failing = vs.run_configs(ctx, pool, VS_CFGS[ctx.tier], vcov, st, fid_of=c14_fid)
        vs.confirm_failing(ctx, pool, failing)
        vcov["failing_signatures"] = sorted(failing)
    finally:
        pool.close()
    vcov["wall_s"] = round(time.time() - t0, 1)
    vcov["text_skipped"] = st.skips
    vcov["executed"] = st.executed
    vcov["mixed_refused_updates_replayed"] = {p: dict(st.mixed[p], total=sum(st.mixed[p].values())) for p in st.mixed}
    vcov["mixed_refused_updates_replayed"]["total"] = sum(sum(st.mixed[p].values()) for p in st.mixed)
    vcov["distinct_mixed_refused_updates"] = {k: len(v) for k, v in st.distinct.items() if k != "uniform"}
    vcov["uniform_refused_updates_replayed"] = dict(st.uniform, distinct=len(st.distinct["uniform"]))
    vcov["read_after_mixed_refused_update"] = {p: sorted(st.after[p]) for p in st.after}
    vcov["lifecycle_before_mixed_refused_update"] = {p: sorted(st.before[p]) for p in st.before}
    vcov["rows_in_table_at_mixed_refused_update"] = {p: sorted(st.rows_at[p]) for p in st.rows_at}
    vcov["statements_after_mixed_refused_update"] = st.then_stmt
    vcov["classes_direct"] = sorted(st.cls["direct"])
    vcov["classes_text"] = sorted(st.cls["text"])
    vcov["distinct_nontrivial"] = sum(vcov["distinct_mixed_refused_updates"].values())
    cov["valuestore"] = vcov
    cov["states"] += vcov["states"]
    cov["transitions"] += vcov["transitions"]
    cov["traces_validated_against_impl"] += vcov["evaluations"]
    cov["mixed_refused_updates_replayed"] = vcov["mixed_refused_updates_replayed"]["total"]
    cov["distinct_mixed_refused_updates"] = vcov["distinct_nontrivial"]

    if vcov.get("stopped_early"):
        cov["exhaustive"] = False
        if not ctx.violations and not ctx.known:
            raise vlib.Undecided(vcov["stopped_early"])

    # ---- vacuity (failing scenarios are not counted, so only meaningful when nothing failed)
    if not ctx.violations and not ctx.known:
        for p in ("direct", "text"):
            for kind in ("later-refused", "first-refused"):
                if not st.mixed[p][kind]:
                    raise vlib.Undecided("vacuous: %s path replayed no UPDATE that only some rows refuse (%s)" % (p, kind))
            for x in ("immediately", "flush", "evict", "restart"):
                if x not in st.after[p]:
                    raise vlib.Undecided("vacuous: %s path never read the table %s after an UPDATE that only some rows refuse"
                                         % (p, x if x == "immediately" else "after " + x))
            if not st.uniform[p]:
                raise vlib.Undecided("vacuous: %s path replayed no UPDATE that every row refuses" % p)


def run(ctx):
    if ctx.replay and json.load(open(ctx.replay)).get("kind") == "valstore-replay":
        pool = vlib.WorkerPool(ctx, vlib.build_harness(ctx, "valstore"), n=1)
        try:
            return vs.replay_one(ctx, pool, json.load(open(ctx.replay)))
        finally:
            pool.close()
    binary = vlib.build_harness(ctx, "store")
    if ctx.replay:
        return storelib.replay_file(ctx, binary, ctx.replay)
    cov = storelib.new_cov()
    pool = vlib.WorkerPool(ctx, binary)
    kinds = {}
    try:
        for name, over, sample in CFGS[ctx.tier]:
            def sel(sc, name=name):
                # paths whose last statement is the failing one (its effect is what this property is about); in the
                # "-x" configurations every path ending in a statement: a statement the specification lets succeed may
                # fail in the code (a fault deep in a tree, at the size limit), and then it must have changed nothing
                if name.endswith("-x"):
                    return sc["steps"][-1]["a"] in ("insert", "update", "delete")
                return sc["out"] == "error"
            st = storelib.StoreRun(ctx, name, dict(over, EmitSel=('"all"' if name.endswith("-x") else '"error"')),  sample=sample, select=sel).run(pool, storelib.default_violation(ctx), cov)
            kinds[name] = st["replayed"]
        # code -> spec: seeded runs at production capacities in which refused INSERTs have up to 320 rows with the invalid one
        # anywhere (a statement must be refused as a whole however long it is), with restarts in between
        seeds = [ctx.seed * 1000 + 300 + i for i in range(4 if ctx.quick() else 12)]
        agg = storelib.random_runs(ctx, pool, cov, [dict(seed=sd, n=(300 if ctx.quick() else 700), caps=([] if i % 2 == 0 else [4, 4]), cache=0, pcrash=0.04, pflush=0.1,
                                                         wal=False, maxrows=8, longbad=320) for i, sd in enumerate(seeds)])
        cov["long_run_statements"] = agg["statements"]
        cov["long_run_mixed_refused_updates"] = agg.get("mixed_refused_updates", 0)
        if not ctx.quick():
            storelib.design_only(ctx, "big", dict(BadMode='"all"', MaxStmts=5, MaxRows=3, MaxFlush=1, Tables='{"t1"}', Vals="{1, 9}", Wheres="{0, 1, 101}"), cov, timeout=300)
    finally:
        pool.close()
    cov["failing_statements_replayed"] = sum(kinds.values())
    if cov["failing_statements_replayed"] == 0:
        raise vlib.Undecided("vacuous: no failing statement replayed")
    run_valuestore(ctx, cov)
    vlib.write_evidence(ctx, "model_checking", cov, assumptions=[
        "TLC, SANY, CommunityModules", "capacity override 3/3 (hook verifIsFull)",
        "failing causes rendered as SQL: wrong type ('x' into INT), oversized row (450-byte string), column count mismatch, INT 3000000000, unknown table, duplicate CREATE TABLE",
        "'immediately and after a restart': the end-of-scenario probes re-read after flush+cache drop, after Close+InitStorage and after a crash+InitStorage",
        "an UPDATE that only some of the matching rows refuse (new row over 400 bytes because of that row's other columns) is covered by the "
        "ValueStore.tla part (MixedUpd = TRUE, coverage.valuestore): UPDATE without WHERE on tables of 2 rows (2-3 in the thorough tier) over VARCHAR / INT "
        "schemas with real page capacities, the refusing row first or later, direct statement values and SQL text, read back immediately "
        "and after flush / evict-all / Close+InitStorage (no crash in this part; crashes after a failing statement are in the Store.tla part); "
        "the harness takes the string lengths from TLC's scenario and this check cross-checks them against what the harness reports it supplied",
        "mixed-outcome multi-row INSERT is the Store.tla part's subject (failing row at every position); mixed-outcome UPDATE with a WHERE clause "
        "selecting a subset is not enumerated (the WHERE filter runs before validation and is C05's subject)"])
