"""C08 - stored values read back exactly; invalid values are refused.

Spec -> code: Values.tla holds the accept / refuse rule and the size
arithmetic of the row encoding; ValueStore.tla is the table as a value store
(Put / UpdateAll -> ok | refused, Flush, EvictAll, Restart, Get) with the
promise "every Get returns the rows the statement history implies".  The
bounded instance ValueStoreMC enumerates schemas, rows built from value
classes and interleavings with the lifecycle steps, and prints every explored
Get transition with its action path and expectations.  harness/cmd/valstore
runs each path on the real engine twice - direct statement values, and SQL
text where SQL text can express the scenario - and reports what it supplied
and what it read back; this module compares:
  * accept / refuse of every Put / UpdateAll  == TLC's `ok`,
  * rows returned by Get                      == the cells TLC expects (each
    expected cell names the statement that wrote it; its concrete value is
    what the harness supplied in that statement), bit for bit.

What SQL text cannot express (documented exclusions, text path only):
  * NULL literals - the grammar has none (sql/parser.go matches only INT, STR,
    TRUE, FALSE as literals): NULL reaches a row only through a column left
    out of INSERT's column list; a row of NULLs and SET c = NULL are skipped;
  * negative numbers - the scanner has no unary minus ('-' becomes a string
    token): min32, -1, min32-1, min64 are skipped;
  * strings: a '...' literal is taken verbatim between the quotes (escapes are
    checked for form but not translated), so a value cannot contain a bare ',
    a line feed, a backslash that is not part of a Go-style escape, NUL or
    invalid UTF-8 (the scanner reports those on stderr).  The text path uses
    printable ASCII, tab, double quote, 2/3/4-byte UTF-8 and the two-byte
    sequences \\' \\\\ \\n; the direct path uses all byte values.
"""
import json
import queue
import threading

import vlib

FULL = dict(IntCls=["min32", "m1", "0", "1", "max32", "max32p1", "min32m1", "min64", "max64"], BigCls=["min64", "max64", "0", "2p32"],
            StrCls=["l0", "l1", "f399", "f400", "f401"])
RED = dict(IntCls=["min32", "max32", "max32p1"], BigCls=["min64", "max64"], StrCls=["l0", "f400", "f401"])
RED2 = dict(IntCls=["min32", "min32m1"], BigCls=["max64"], StrCls=["f400", "f401"])


def C(name, mincols, maxcols, cls, maxbad, upd, maxmut, maxlife, types=("INT", "BIGINT", "BOOLEAN", "VARCHAR"), wrong=True):
    d = dict(name=name, MinCols=mincols, MaxCols=maxcols, MaxBad=maxbad, WithUpd=upd, MaxMut=maxmut, MaxLife=maxlife,
             WithNull=True, WithWrong=wrong, Types=list(types))
    d.update(cls)
    return d


# fixed-width columns only, some of them NULL in the stored row, then an UPDATE of a later column (the row's layout depends on
# which earlier columns are NULL)
FIXED = dict(IntCls=["1"], BigCls=["2p32"], StrCls=["l1"])
# texts that differ only in the blanks inside them, inserted and assigned one after the other in one session
TWINS = dict(IntCls=["1"], BigCls=["0"], StrCls=["sp3", "sp4"])


# texts whose whole content spells TRUE / FALSE / a reserved word / a punctuation mark: text for a VARCHAR column, the wrong type for
# a BOOLEAN one, on both input paths
KWTEXT = dict(IntCls=["1"], BigCls=["0"], StrCls=["kwt", "kwf", "kwl", "kwc"])


MC = {
    "quick": [
        C("keyword-texts", 2, 2, KWTEXT, 1, True, 2, 0, types=("BOOLEAN", "VARCHAR")),
        C("one-col-deep", 1, 1, FULL, 1, True, 2, 3),
        C("two-col", 2, 2, FULL, 2, True, 1, 2),
        C("two-col-upd", 2, 2, RED2, 1, True, 2, 1),
        C("three-col", 3, 3, RED2, 1, False, 1, 1),
        C("three-fixed-upd", 3, 3, FIXED, 0, True, 2, 0, types=("INT", "BIGINT", "BOOLEAN"), wrong=False),
        C("blank-twins", 1, 1, TWINS, 0, True, 3, 1, types=("VARCHAR",), wrong=False),
        # two rows, then an UPDATE of some columns: a row that holds NULL in a column the statement does not assign keeps its NULL
        # (three mutations: INSERT, INSERT, UPDATE - the other configurations stop at two)
        C("two-rows-upd", 2, 2, FIXED, 0, True, 3, 0, wrong=False),
        # statements that name a column the table does not have, between valid ones
        dict(C("unknown-column", 1, 2, dict(IntCls=["1"], BigCls=["0"], StrCls=["l1"]), 0, True, 2, 1, wrong=False), WithUnknown=True),
    ],
    "thorough": [
        C("keyword-texts", 2, 2, KWTEXT, 1, True, 2, 1, types=("BOOLEAN", "VARCHAR")),
        C("one-col-deep", 1, 1, FULL, 1, True, 3, 2),
        C("one-col-life", 1, 1, FULL, 1, True, 2, 4),
        C("two-col", 2, 2, FULL, 2, True, 1, 3),
        C("two-col-upd", 2, 2, FULL, 1, True, 2, 1),
        C("three-col", 3, 3, RED, 1, False, 1, 2),
        C("three-col-full", 3, 3, FULL, 1, False, 1, 0),
        C("four-col", 4, 4, RED2, 1, False, 1, 1),
        C("three-fixed-upd", 3, 3, FIXED, 0, True, 2, 2, types=("INT", "BIGINT", "BOOLEAN"), wrong=False),
        C("four-fixed-upd", 4, 4, dict(IntCls=["1"], BigCls=["2p32"], StrCls=["l1"]), 0, True, 2, 0, types=("INT", "BIGINT"), wrong=False),
        C("blank-twins", 1, 2, TWINS, 0, True, 3, 2, types=("VARCHAR",), wrong=False),
        C("two-rows-upd", 2, 3, FIXED, 0, True, 3, 1, wrong=False),
        dict(C("unknown-column", 1, 2, dict(IntCls=["1"], BigCls=["0"], StrCls=["l1"]), 0, True, 2, 2, wrong=False), WithUnknown=True),
    ],
}

INTS = {"min32": -2**31, "m1": -1, "0": 0, "1": 1, "max32": 2**31 - 1, "max32p1": 2**31, "min32m1": -2**31 - 1,
        "min64": -2**63, "max64": 2**63 - 1, "2p32": 2**32}
NULL = {"t": "n", "v": ""}


def tla_set(xs):
    return "{" + ", ".join('"%s"' % x for x in xs) + "}"


def tla_bool(b):
    return "TRUE" if b else "FALSE"


def mc_cfg(c):
    return "\n".join([
        "CONSTANTS",
        "  MinCols = %d" % c["MinCols"], "  MaxCols = %d" % c["MaxCols"],
        "  Types = %s" % tla_set(c["Types"]), "  IntCls = %s" % tla_set(c["IntCls"]), "  BigCls = %s" % tla_set(c["BigCls"]),
        "  StrCls = %s" % tla_set(c["StrCls"]), "  WithNull = %s" % tla_bool(c["WithNull"]), "  WithWrong = %s" % tla_bool(c["WithWrong"]),
        "  MaxBad = %d" % c["MaxBad"], "  WithUpd = %s" % tla_bool(c["WithUpd"]), "  WithUnknown = %s" % tla_bool(c.get("WithUnknown", False)), "  WithGuard = %s" % tla_bool(c.get("WithGuard", False)), "  MaxMut = %d" % c["MaxMut"],
        "  MaxLife = %d" % c["MaxLife"], "  LifeFrom = %d" % c.get("LifeFrom", 0), '  EmitSel = "%s"' % c.get("EmitSel", "all"),
        "  MixedUpd = %s" % tla_bool(c.get("MixedUpd", False)), "  EmitOn = %s" % tla_bool(c.get("EmitOn", True)),
        "INIT MCInit", "NEXT MCNext", "VIEW View", "ACTION_CONSTRAINT Emit",
        "INVARIANTS GetReturnsAbs OnlyAcceptedStored MechanismOK",
        "PROPERTIES RefusedChangesNothing LifecycleChangesNothing", "CHECK_DEADLOCK FALSE", ""])


def slen(v):
    """Byte length of a string value as reported by the harness (hex, or sha256:<digest>/<len>)."""
    if v.startswith("sha256:"):
        return int(v.rsplit("/", 1)[1])
    return len(v) // 2


def class_mismatch(c, tv):
    """Is the concrete value the harness supplied a member of the class TLC named?"""
    if c["t"] != tv["t"]:
        return "tag %s for class %s/%s" % (tv["t"], c["t"], c["cls"])
    if c["t"] == "i" and tv["v"] != str(INTS[c["cls"]]):
        return "integer %s for class %s" % (tv["v"], c["cls"])
    if c["t"] == "b" and tv["v"] != c["cls"]:
        return "boolean %s for class %s" % (tv["v"], c["cls"])
    if c["t"] == "s" and slen(tv["v"]) != c["len"]:
        return "string of %d bytes for length %d" % (slen(tv["v"]), c["len"])
    return None


def cls_name(schema, col, c):
    return "%s:%s" % (schema[col - 1], c["cls"])


def judge(scn, res, path):
    """Compare one executed scenario with TLC's expectations.
    Returns (violations [(finding-id-suffix, text)], machinery problems [text])."""
    viol, mach = [], []
    if res.get("fatal"):
        # synthesized by vlib.WorkerPool: the process died (fatal runtime error, e.g. stack overflow - nothing a recover()
        # can catch) or did not answer in time while executing this scenario, and the crash was not in the harness's own code
        acts = ">".join(s["a"] for s in scn["steps"])
        viol.append((("hang-" if res.get("hang") else "fatal-") + acts, "; ".join(res.get("viol") or ["the process died"])))
        return viol, mach
    if not res.get("ok"):
        mach.append("harness (%s path): %s" % (path, res.get("err")))
        return viol, mach
    steps, rs, schema = scn["steps"], res["steps"], scn["schema"]
    if len(steps) != len(rs):
        mach.append("harness answered %d steps for %d" % (len(rs), len(steps)))
        return viol, mach
    supplied = {}
    for i, (s, r) in enumerate(zip(steps, rs)):
        a = s["a"]
        err = r.get("err", "")
        if a in ("put", "upd"):
            cells = [(j + 1, c) for j, c in enumerate(s["row"])] if a == "put" else [(it["c"], it["v"]) for it in s["set"]]
            sup = r.get("supplied") or []
            if len(sup) != len(cells):
                mach.append("step %d: %d supplied values for %d cells" % (i, len(sup), len(cells)))
                return viol, mach
            supplied[s["k"]] = {}
            for (col, c), tv in zip(cells, sup):
                mm = class_mismatch(c, tv)
                if mm:
                    mach.append("step %d column %d: harness supplied %s" % (i, col, mm))
                    return viol, mach
                supplied[s["k"]][col] = tv
            what = "+".join(sorted(set(cls_name(schema, col, c) for col, c in cells)))
            if err.startswith("panic:"):
                viol.append(("panic-%s-%s" % (a, what), "step %d: %s panicked: %s" % (i, a, err)))
            elif (err == "") != s["ok"]:
                if err == "":
                    viol.append(("accepted-invalid-%s-%s" % (a, what), "step %d: %s was accepted, the specification refuses it (%s)" % (i, a, what)))
                else:
                    viol.append(("refused-valid-%s-%s" % (a, what), "step %d: %s was refused (%s), the specification accepts it (%s)" % (i, a, err, what)))
        elif a in ("flush", "evict", "restart"):
            if err:
                viol.append(("%s-error" % a, "step %d: %s failed: %s" % (i, a, err)))
        elif a == "get":
            if err or not r.get("got"):
                viol.append(("get-error", "step %d: SELECT failed: %s" % (i, err)))
                continue
            got = r.get("rows") or []
            exp = []
            for row in s["rows"]:
                er = []
                for j, c in enumerate(row):
                    if c["t"] == "n":
                        er.append(NULL)
                    else:
                        tv = supplied.get(c["by"], {}).get(j + 1)
                        if tv is None:
                            mach.append("step %d: expected cell written by statement %d which supplied no value for column %d" % (i, c["by"], j + 1))
                            return viol, mach
                        er.append(tv)
                exp.append(er)
            if got != exp:
                if len(got) != len(exp):
                    viol.append(("rowcount", "step %d: SELECT returned %d rows, the specification %d" % (i, len(got), len(exp))))
                else:
                    bad = []
                    for ri, (g, e) in enumerate(zip(got, exp)):
                        for j, (gv, ev) in enumerate(zip(g, e)):
                            if gv != ev:
                                bad.append((ri, j, gv, ev))
                        if len(g) != len(e):
                            bad.append((ri, -1, len(g), len(e)))
                    ri, j, gv, ev = bad[0]
                    c = s["rows"][ri][j] if j >= 0 else {"cls": "width"}
                    viol.append(("readback-%s:%s" % (schema[j] if j >= 0 else "row", c["cls"]),
                                 "step %d: row %d column %d read back as %r, stored %r (%d cells differ)" % (i, ri, j + 1, gv, ev, len(bad))))
    return viol, mach


class Stats:
    def __init__(self):
        self.cls = {"direct": set(), "text": set()}
        self.out = {"direct": set(), "text": set()}
        self.life = {"direct": set(), "text": set()}
        self.sizes = {"direct": set(), "text": set()}
        self.puts = {"ok": set(), "refused": set()}
        self.upds = {"ok": set(), "refused": set()}
        self.skips = {}
        self.executed = {"direct": 0, "text": 0}

    def add(self, scn, path):
        schema = tuple(scn["schema"])
        life_seen = []
        nonempty = False
        for s in scn["steps"]:
            a = s["a"]
            if a == "put":
                for j, c in enumerate(s["row"]):
                    self.cls[path].add("%s<-%s:%s" % (schema[j], c["t"], c["cls"]))
                self.out[path].add("put-" + ("ok" if s["ok"] else "refused"))
                self.puts["ok" if s["ok"] else "refused"].add((schema, tuple((c["t"], c["cls"]) for c in s["row"])))
                nonempty = nonempty or s["ok"]
            elif a == "upd":
                for it in s["set"]:
                    self.cls[path].add("%s<-%s:%s" % (schema[it["c"] - 1], it["v"]["t"], it["v"]["cls"]))
                self.out[path].add("upd-" + ("ok" if s["ok"] else "refused"))
                self.upds["ok" if s["ok"] else "refused"].add((schema, tuple((it["c"], it["v"]["t"], it["v"]["cls"]) for it in s["set"])))
            elif a in ("flush", "evict", "restart"):
                if nonempty:
                    life_seen.append(a)
            elif a == "get":
                for x in life_seen:
                    if s["rows"]:
                        self.life[path].add(x)
                for row in s["rows"]:
                    for c in row:
                        if c["cls"] in ("f399", "f400"):
                            self.sizes[path].add(c["cls"])


def default_fid(scn, path, viol):
    if viol[0][0].startswith(("fatal-", "hang-")):
        return "c08-died-" + viol[0][0].split("-")[0]     # one signature: every repetition costs seconds
    return "c08-%s-%s" % (path, viol[0][0])


FATAL_LIMIT = 3    # after this many scenarios killed the process, stop feeding (each death costs seconds)


class _Stop(Exception):
    """Raised from on_result to make WorkerPool.run_all return early."""


def reset_pool(pool):
    """After run_all was abandoned half-way the workers hold unread answers: replace them."""
    for p in pool.procs:
        try:
            p.kill()
            p.wait(timeout=10)
        except Exception:
            pass
    pool.waiting, pool.hung = {}, set()
    pool.procs = [pool._spawn(i) for i in range(pool.n)]


def run_configs(ctx, pool, configs, cov, st, fid_of=default_fid):
    """The scenario runner: for every ValueStoreMC configuration in `configs`, TLC -> scenarios -> harness valstore
    (direct and SQL-text path) -> judge.  Adds counts to `cov` (evaluations, samples, states, transitions, scenarios,
    configs) and classes / outcomes to `st`; returns {finding id: [(scenario, path)]} of the scenarios that failed
    (to be confirmed and reported with confirm_failing).  Used by C08 and, with mixed-outcome configurations, by C14.

    Never stalls: when the code under test kills the worker process (fatal error) FATAL_LIMIT times, or the feeder thread
    ends with an error, TLC's remaining scenarios are dropped unread (TLC then finishes at its own speed), the remaining
    configurations are skipped, the workers are replaced and cov["stopped_early"] says why; the caller confirms what
    failed so far and must not claim exhaustiveness."""
    mach_errors = []
    failing = {}   # finding id -> [(scn, path)]
    lock = threading.Lock()
    stop = threading.Event()
    fatal = [0]

    def died(scn, r):
        viol, _ = judge(scn, r, "any")
        with lock:
            cov["evaluations"] += 1
            fid = fid_of(scn, "any", viol)
            failing.setdefault(fid, [])
            if len(failing[fid]) < 3:
                failing[fid].append((scn, "any"))
            fatal[0] += 1
            if fatal[0] >= FATAL_LIMIT:
                stop.set()

    def handle(scn, path, r, cfgname):
        viol, mach = judge(scn, r, path)
        with lock:
            cov["evaluations"] += 1
            st.executed[path] += 1
            if mach:
                mach_errors.extend(mach)
                return
            if viol:
                fid = fid_of(scn, path, viol)
                failing.setdefault(fid, [])
                if len(failing[fid]) < 3:
                    failing[fid].append((scn, path))
                return
            st.add(scn, path)
            if len([x for x in cov["samples"] if x["config"] == cfgname and x["path"] == path]) < 1 and len(scn["steps"]) >= 4 \
                    and scn["steps"][-1]["rows"] and any(not s.get("ok", True) for s in scn["steps"]):
                cov["samples"].append(dict(config=cfgname, path=path, schema=scn["schema"], steps=scn["steps"],
                                           observed=[{k: v for k, v in x.items() if k in ("err", "sql", "rows", "supplied")} for x in r["steps"]]))

    for idx, c in enumerate(configs):
        q = queue.Queue(maxsize=4000)
        count = [0]
        therr = []

        def gen():
            while not stop.is_set():
                try:
                    o = q.get(timeout=0.5)
                except queue.Empty:
                    continue
                if o is None:
                    return
                # every second scenario: its restarts are crashes (the process dies instead of shutting down; ValueStore!Restart
                # promises the same either way - the values then come back from the log records)
                gen.n = getattr(gen, "n", 0) + 1
                steps = o["steps"]
                if gen.n % 2 == 0:
                    steps = [dict(s_, crash=True) if s_.get("a") == "restart" else s_ for s_ in steps]
                    st.crash_restarts = getattr(st, "crash_restarts", 0) + sum(1 for s_ in steps if s_.get("crash"))
                yield dict(path="both", schema=o["schema"], steps=steps)

        def on_result(req, r):
            if stop.is_set():
                raise _Stop()
            scn = req
            if r.get("fatal"):
                died(scn, r)
                return
            d, t = r.get("direct"), r.get("text")
            if d is None:
                with lock:
                    mach_errors.append("harness: %s" % r.get("err"))
                return
            handle(scn, "direct", d, c["name"])
            if t is not None and t.get("skip"):
                with lock:
                    st.skips[t["skip"]] = st.skips.get(t["skip"], 0) + 1
            elif t is not None:
                handle(scn, "text", t, c["name"])

        def feeder():
            try:
                pool.run_all(gen(), on_result, chunk=16)
            except Exception as e:  # noqa
                if not (stop.is_set() and "_Stop" in repr(e)):
                    therr.append(e)

        th = threading.Thread(target=feeder, daemon=True)
        th.start()

        def on_scn(kind, o):
            count[0] += 1
            while not stop.is_set() and th.is_alive():     # feeder gone or stopping: drop the scenario at once
                try:
                    q.put(o, timeout=1)
                    return
                except queue.Full:
                    pass
        res = vlib.run_tlc(ctx, "ValueStoreMC", "ValueStoreMC_gen.cfg", cfg_text=mc_cfg(c), tag=c["name"], timeout=1800,
                           on_scn=on_scn, heap="6g")
        while th.is_alive():
            try:
                q.put(None, timeout=1)
                break
            except queue.Full:
                continue
        th.join(timeout=3600)
        why = None
        if stop.is_set():
            why = "the code under test killed the process on %d scenarios of %s; the rest was not run" % (fatal[0], c["name"])
        elif therr:
            why = str(therr[0]) if isinstance(therr[0], vlib.Undecided) else "harness failure: %r\n%s" % (therr[0], pool.stderr_tail())
        elif res.status != "ok":
            why = "ValueStoreMC %s: TLC status=%s rc=%s\n%s" % (c["name"], res.status, res.rc, "\n".join(res.out[-40:]))
        elif not count[0]:
            why = "ValueStoreMC %s emitted no scenarios" % c["name"]
        elif mach_errors:
            why = "harness / expectation problem: %s" % mach_errors[0]
        if why:
            if not failing:
                raise vlib.Undecided(why)
            # something failed on the real code before the machinery gave up: that is confirmed and reported by the caller
            cov["stopped_early"] = why
            cov["exhaustive"] = False
            reset_pool(pool)
            return failing
        cov["states"] += res.distinct
        cov["transitions"] += res.generated
        cov["scenarios"] += count[0]
        cov["configs"].append(dict(name=c["name"], distinct=res.distinct, generated=res.generated, scenarios=count[0],
                                   tlc_wall=round(res.wall, 1), bounds={k: v for k, v in c.items() if k != "name"}))
    return failing


def confirm_failing(ctx, pool, failing):
    """Confirm failing scenarios once from scratch (full values), then report them under ctx.prop.
    A scenario that killed the process on an unknown input path ("any") is repeated on the direct path, then as SQL text."""
    for fid, lst in sorted(failing.items()):
        for scn, path0 in lst[:2]:
            for path in (("direct", "text") if path0 == "any" else (path0,)):
                got = []
                pool.run_all([dict(path=path, schema=scn["schema"], steps=scn["steps"], full=True)], lambda qq, r: got.append(r), chunk=1)
                viol, mach = judge(scn, got[0], path)
                if viol and not mach:
                    break
            if mach or not viol:
                raise vlib.Undecided("a failing scenario did not fail again when repeated: %s" % json.dumps(scn)[:600])
            vlib.report_violation(ctx, dict(kind="valstore-replay", path=path, scenario=scn, detail=[v[1] for v in viol],
                                            observed=got[0], finding_ids=[fid]), signature=fid, finding_ids=[fid])


def replay_one(ctx, pool, payload):
    """./check Cxx --replay <file> for a recorded value-store scenario."""
    scn, path = payload["scenario"], payload["path"]
    got = []
    pool.run_all([dict(path=path, schema=scn["schema"], steps=scn["steps"], full=True)], lambda q, r: got.append(r), chunk=1)
    viol, mach = judge(scn, got[0], path)
    if mach:
        raise vlib.Undecided("; ".join(mach))
    print(json.dumps(dict(violations=[v[1] for v in viol], observed=got[0]), indent=1)[:8000])
    if viol:
        vlib.report_violation(ctx, dict(kind="valstore-replay", path=path, scenario=scn, detail=[v[1] for v in viol], observed=got[0],
                                        finding_ids=payload.get("finding_ids")), signature="replay", finding_ids=payload.get("finding_ids"))


def run_names(ctx, pool, cov):
    """CREATE TABLE column lists (ValueStoreNames.tla / Values!CreateOK): a list that names a column twice is refused; where the
    table is created, one distinct value per column is stored and every one of them is read back."""
    got = []
    res = vlib.run_tlc(ctx, "ValueStoreNames", "ValueStoreNames.cfg", workers=1, timeout=300, tag="names", on_scn=lambda k, o: got.append(o))
    vlib.tlc_must_ok(ctx, res, "ValueStoreNames")
    lists = got[0]["elems"]
    if not any(x["ok"] for x in lists) or all(x["ok"] for x in lists):
        raise vlib.Undecided("ValueStoreNames: no accepted or no refused column list")
    reqs = [dict(path=path, schema=[], steps=[], names=x["names"], _x=x) for x in lists for path in ("direct", "text")]
    bad = []

    def on_result(req, r):
        x = req["_x"]
        cov["evaluations"] += 1
        if r.get("fatal") or r.get("created") is None:
            bad.append((req, r, "the engine died or the harness failed: %s" % (r.get("err") or r.get("viol"))))
        elif not x["ok"] and r["created"]:
            bad.append((req, r, "CREATE TABLE t (%s) was accepted, the specification refuses a column list that names a column twice; "
                                "stored %s, read back %s" % (", ".join(n + " INT" for n in x["names"]), [11 + j for j in range(len(x["names"]))], r.get("read"))))
        elif x["ok"] and (not r["created"] or r.get("err") or r.get("read") != [11 + j for j in range(len(x["names"]))]):
            bad.append((req, r, "CREATE TABLE t (%s): created=%s err=%s, stored %s, read back %s" % (
                ", ".join(n + " INT" for n in x["names"]), r["created"], r.get("err"), [11 + j for j in range(len(x["names"]))], r.get("read"))))
    pool.run_all(reqs, on_result, chunk=4)
    cov["column_lists"] = dict(lists=len(lists), refused_by_spec=sum(1 for x in lists if not x["ok"]), executions=len(reqs), failing=len(bad))
    seen = set()
    for req, r, what in bad:
        key = "column-names:" + ("accepted-duplicate" if not req["_x"]["ok"] else "wrong")
        if key in seen:
            continue
        seen.add(key)
        again = []
        pool.run_all([dict(path=req["path"], schema=[], steps=[], names=req["names"])], lambda q, rr: again.append(rr), chunk=1)
        if not again or again[0].get("created") != r.get("created") or again[0].get("read") != r.get("read"):
            raise vlib.Undecided("a failing column-list scenario did not fail again when repeated: %s" % what)
        vlib.report_violation(ctx, dict(kind="valstore-names", path=req["path"], names=req["names"], detail=[what], observed=r), signature=key, finding_ids=[])


def new_cov():
    return dict(evaluations=0, distinct_nontrivial=0, samples=[], states=0, transitions=0, configs=[],
                rule="one evaluation = one TLC-generated scenario (action path ending in a Get) executed on the real engine on one input "
                     "path (direct statement values or SQL text); distinct_nontrivial = distinct (schema, value class per column) "
                     "INSERT rows executed, accepted and refused ones counted separately and added "
                     "(distinct SET lists of UPDATE are reported as distinct_updates)",
                scenarios=0, text_skipped={}, executed={})


def run(ctx):
    binary = vlib.build_harness(ctx, "valstore")
    cov = new_cov()
    st = Stats()
    pool = vlib.WorkerPool(ctx, binary, n=min(12, vlib.NCPU))
    try:
        if getattr(ctx, "replay", None):
            replay_one(ctx, pool, json.load(open(ctx.replay)))
            return
        failing = run_configs(ctx, pool, MC[ctx.tier], cov, st)
        confirm_failing(ctx, pool, failing)
        run_names(ctx, pool, cov)
        cov["failing_signatures"] = sorted(failing)
    finally:
        pool.close()

    cov["text_skipped"] = st.skips
    cov["restarts_that_were_crashes"] = getattr(st, "crash_restarts", 0)
    cov["executed"] = st.executed
    cov["distinct_puts_accepted"] = len(st.puts["ok"])
    cov["distinct_puts_refused"] = len(st.puts["refused"])
    cov["distinct_updates"] = len(st.upds["ok"]) + len(st.upds["refused"])
    cov["distinct_nontrivial"] = len(st.puts["ok"]) + len(st.puts["refused"])
    cov["classes_direct"] = sorted(st.cls["direct"])
    cov["classes_text"] = sorted(st.cls["text"])
    cov.setdefault("exhaustive", True)
    if cov.get("stopped_early") and not ctx.violations and not ctx.known:
        raise vlib.Undecided(cov["stopped_early"])

    # ---- vacuity (only meaningful when nothing failed: failing scenarios are not counted)
    if not ctx.violations and not ctx.known:
        want_direct = ["INT<-i:%s" % x for x in FULL["IntCls"]] + ["BIGINT<-i:%s" % x for x in FULL["BigCls"]] + \
                      ["VARCHAR<-s:%s" % x for x in FULL["StrCls"]] + ["BOOLEAN<-b:true", "BOOLEAN<-b:false"] + \
                      ["%s<-n:null" % t for t in ("INT", "BIGINT", "BOOLEAN", "VARCHAR")] + \
                      ["INT<-s:l1", "INT<-b:true", "BIGINT<-s:l1", "BIGINT<-b:false", "BOOLEAN<-i:1", "BOOLEAN<-i:0", "BOOLEAN<-s:l1",
                       "VARCHAR<-i:0", "VARCHAR<-b:true"]
        want_text = [x for x in want_direct if not any(x.endswith(":" + n) for n in ("min32", "m1", "min32m1", "min64"))]
        for path, want in (("direct", want_direct), ("text", want_text)):
            missing = [x for x in want if x not in st.cls[path]]
            if missing:
                raise vlib.Undecided("vacuous: %s path never used value classes %s" % (path, missing))
            for o in ("put-ok", "put-refused", "upd-ok", "upd-refused"):
                if o not in st.out[path]:
                    raise vlib.Undecided("vacuous: %s path never saw outcome %s" % (path, o))
            for x in ("flush", "evict", "restart"):
                if x not in st.life[path]:
                    raise vlib.Undecided("vacuous: %s path never read a non-empty table back after %s" % (path, x))
            for x in ("f399", "f400"):
                if x not in st.sizes[path]:
                    raise vlib.Undecided("vacuous: %s path never read back a row of encoded size %s" % (path, x[1:]))
        if not st.skips:
            raise vlib.Undecided("vacuous: no scenario was classified as inexpressible in SQL text (NULL / negative literals)")
    if cov["evaluations"] >= 1 and cov["distinct_nontrivial"] >= 2:
        vlib.write_evidence(ctx, "exploration", cov, assumptions=[
            "TLC/SANY and the CommunityModules Json module are correct",
            "the accessor harness/overlay/storage/zz_verif_valstore.go only switches the background flusher off (hook H1), calls "
            "fileStore.flushPages and replaces the page cache by an empty one after a flush",
            "Restart = Session.Close (which flushes) + storage.InitStorage + new Session + USE in the same process; crashes are C02-C04's subject",
            "concrete numbers and bytes are chosen by the harness from the class TLC names and cross-checked here against the class "
            "(decimal value, byte length); strings over 32 bytes are compared by SHA-256 digest (in full on re-run of a failing scenario)",
            "UPDATE is exercised without WHERE and only where all rows are accepted or all refused (partial failure is C14's subject)",
            "SQL-text path covers only what the grammar can express: no NULL literal, no negative numbers, no bare quote / line feed / "
            "lone backslash / NUL / invalid UTF-8 inside a string literal",
            "byte layout of rows and pages is not modelled; it is exercised through the real encoder only"])
