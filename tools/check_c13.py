"""C13 - the background flusher only ever sees statement boundaries.

Design: Locks.tla (shared/exclusive lock protocol, statement window, flusher) model-checked
exhaustively.  Code: traces of the real goroutines - real 100 ms ticker, statements parked inside
their critical section until the flusher has tried to take the lock - validated by TLC against
LocksTrace.tla; the same driver built with -race supplies unsynchronised-access events.
"""
import json
import os
import re
import subprocess

import vlib

ROUNDS = {"quick": (4, 8), "thorough": (10, 30)}   # (runs, rounds per run)


def run(ctx):
    cov = dict(states=0, transitions=0, traces_validated_against_impl=0, samples=[], trace_events=0, stats={}, race_runs=0)
    res = vlib.run_tlc(ctx, "Locks", "Locks.cfg", workers=4, timeout=300)
    vlib.tlc_must_ok(ctx, res, "Locks")
    cov["states"], cov["transitions"] = res.distinct, res.generated
    binary = vlib.build_harness(ctx, "locks")
    runs, rounds = ROUNDS[ctx.tier]
    for i in range(runs):
        wd = ctx.sub("run%d" % i)
        out = os.path.join(wd, "trace.ndjson")
        # every other run at page capacities 3/3: catalog and table pages split within the first statements
        caps = ["3", "3"] if i % 2 == 1 else ["0", "0"]
        # a run takes seconds; one that does not end is a statement or the flusher waiting for the lock for ever. It is
        # tried a second time before it counts (a machine can be slow; a deadlock comes back)
        p = None
        for attempt in (1, 2):
            try:
                p = subprocess.run([binary, out, str(ctx.seed * 100 + i), str(rounds)] + caps, cwd=wd, capture_output=True, text=True,
                                   timeout=(150 if ctx.quick() else 400))
                break
            except subprocess.TimeoutExpired as e:
                cov["stats"]["driver-timeouts"] = cov["stats"].get("driver-timeouts", 0) + 1
                last_err = (e.stderr or b"")[-1500:] if isinstance(e.stderr, bytes) else (e.stderr or "")[-1500:]
        if p is None:
            vlib.report_violation(ctx, dict(kind="lock-hang", run=i, caps=caps, detail=[
                "the real-goroutine run (statements against the 100 ms flusher) did not finish twice in a row: a statement or the "
                "flusher waits for the store's lock for ever"], stderr=str(last_err)), signature="lock-hang")
            break
        try:
            summ = json.loads(p.stdout.strip().splitlines()[-1])
        except Exception:
            raise vlib.Undecided("locks driver failed: %s %s" % (p.stdout[-300:], p.stderr[-600:]))
        if not summ.get("ok"):
            raise vlib.Undecided("locks driver: %r" % summ)
        for k, v in summ["stats"].items():
            cov["stats"][k] = cov["stats"].get(k, 0) + v
        trace = open(out).read()
        lines = trace.splitlines()
        outs = []
        r = vlib.run_tlc(ctx, "LocksTrace", "LocksTrace.cfg", workers=1, timeout=600, tag=str(i), files={"trace.ndjson": trace},
                         on_scn=lambda k, o: outs.append(o))
        if r.status == "ok":
            cov["traces_validated_against_impl"] += 1
            cov["trace_events"] += len(lines)
            if len(cov["samples"]) < 1:
                cov["samples"].append([json.loads(x) for x in lines[:45]])
            continue
        reached = outs[-1]["reached"] if outs else None
        if reached is None and not r.violated:
            raise vlib.Undecided("LocksTrace: TLC failed\n" + "\n".join(r.out[-30:]))
        pos = reached or 1
        evs = [json.loads(x) for x in lines[max(0, pos - 12):pos]]
        bad = evs[-1] if evs else {}
        vlib.report_violation(ctx, dict(kind="locks-trace", rejected_at_event=pos, invariant=r.violated, events_before_and_at=evs,
                                        detail=["event %s by goroutine %s is not a step the locking protocol allows here" % (bad.get("e"), bad.get("g"))]),
                              signature="trace:%s:%s" % (bad.get("e"), bad.get("g")))
    if any(sig == "lock-hang" for sig, _ in ctx.violations):
        # everything that follows would wait on the same lock
        vlib.write_evidence(ctx, "model_checking", cov, assumptions=["run cut short: the real-goroutine driver hung"])
        return
    if cov["stats"].get("parked-until-flusher-tried", 0) == 0:
        raise vlib.Undecided("vacuous: no statement was ever parked until the flusher tried the lock")
    for k in ("stmt-create", "stmt-insert", "stmt-update", "stmt-delete", "stmt-select"):
        if not cov["stats"].get(k):
            raise vlib.Undecided("vacuous: %s never ran" % k)

    # ---- order traces of sequential runs (WalOrder.tla): no page or header write while a statement holds the shared lock,
    # every flush between statements; small page caches (8-16 pages) put the cache under pressure inside statements
    import storelib
    storelib.walorder_design(ctx, cov, live=not ctx.quick())
    sbin = vlib.build_harness(ctx, "store")
    pool = vlib.WorkerPool(ctx, sbin)
    try:
        ks = [8, 12, 0, 0] if ctx.quick() else [6, 8, 10, 12, 16, 24, 0, 0, 0, 0]
        runs = [dict(seed=ctx.seed * 1000 + 500 + i, n=(200 if ctx.quick() else 500), caps=([] if k else [3, 3]), cache=k,
                     pcrash=(0 if k else 0.04), pflush=(0 if k else 0.2), wal=False, maxrows=(30 if k else 5),
                     bias=("grow" if k else "")) for i, k in enumerate(ks)]
        # statements that log far more records than any batch size an implementation may have (INSERTs of up to 150 rows, UPDATEs
        # and DELETEs over as many): the shared lock is held from the first stamp to the last log record all the same
        runs += [dict(seed=ctx.seed * 1000 + 560 + i, n=(70 if ctx.quick() else 200), caps=[], cache=0, pcrash=0, pflush=0.2, wal=False, maxrows=150, bias="")
                 for i in range(1 if ctx.quick() else 3)]
        # ... and INSERTs of up to 1 300 rows (a statement that gives the lock up "every so many hundred rows" is only seen then)
        runs += [dict(seed=ctx.seed * 1000 + 570 + i, n=(24 if ctx.quick() else 60), caps=[], cache=0, pcrash=0, pflush=0.2, wal=False, maxrows=1300, bias="grow")
                 for i in range(1 if ctx.quick() else 2)]
        agg = storelib.random_runs(ctx, pool, cov, runs)
        cov["order_events_accepted_by_walorder"] = agg.get("order_events_accepted_by_walorder", 0)
    finally:
        pool.close()
    if not cov["order_events_accepted_by_walorder"]:
        raise vlib.Undecided("vacuous: no order trace was validated")

    # ---- the same driver under the race detector (happens-before, independent of the timing observed)
    try:
        rbin = vlib.build_harness(ctx, "locks", race=True)
    except vlib.Undecided as e:
        raise vlib.Undecided("race build failed: %s" % e)
    wd = ctx.sub("race")
    env = dict(os.environ, GORACE="halt_on_error=0 history_size=3")
    p = subprocess.run([rbin, os.path.join(wd, "t.ndjson"), str(ctx.seed), str(max(2, rounds // 2))], cwd=wd, capture_output=True, text=True, timeout=1200, env=env)
    cov["race_runs"] = 1
    # and free-running (no event sink, no parking): the hooks' mutex orders the flusher's steps before the session's next
    # statement, which would hide an access made outside the lock from happens-before analysis
    wd2 = ctx.sub("race-free")
    p2 = subprocess.run([rbin, os.path.join(wd2, "t.ndjson"), str(ctx.seed + 7), str(max(3, rounds // 2))], cwd=wd2, capture_output=True, text=True,
                        timeout=1200, env=dict(env, VERIF_LOCKS_FREE="1"))
    cov["race_runs"] = 2
    reports = re.split(r"={18}\n", p.stderr) + re.split(r"={18}\n", p2.stderr)
    stmt_fn = re.compile(r"engine\.Evaluate(CreateTable|Insert|Update|Delete|Select)\b")
    n_listed, n_other = 0, 0
    for rep in reports:
        if "DATA RACE" not in rep:
            continue
        if stmt_fn.search(rep) and "flushPages" in rep:
            n_listed += 1
            vlib.report_violation(ctx, dict(kind="data-race", report=rep[:3000],
                                            detail=["unsynchronised access between a statement and the background flusher (race detector)"]),
                                  signature="race:" + (stmt_fn.search(rep).group(0)))
        else:
            n_other += 1
    cov["race_reports_in_listed_statements"] = n_listed
    cov["race_reports_elsewhere"] = n_other
    if n_other:
        ctx.note("%d data-race reports outside the statements C13 lists (e.g. USE / CREATE DATABASE against the freshly started ticker)" % n_other)
    vlib.write_evidence(ctx, "model_checking", cov, assumptions=[
        "TLC, SANY, CommunityModules (Json)", "events are numbered under one mutex inside the hook, i.e. while the lock that protects the state is held",
        "Go race detector (happens-before) as an additional observer of unsynchronised accesses"])
