"""C17 - databases are isolated and survive any USE / restart pattern."""
import vlib

CFG = """CONSTANTS
  Names = %s
  BadNames = %s
  Vals = %s
  MaxSteps = %d
  MaxRowsPerDb = %d
  EmitOn = TRUE
INIT MCInit
NEXT MCNext
VIEW %s
ACTION_CONSTRAINT Emit
INVARIANT TypeOK
PROPERTIES Isolation ErrorsChangeNothing PausesChangeNothing
CHECK_DEADLOCK FALSE
"""
CFGS = {
    # (names, vals, max steps, rows per db, view, sample)
    # ("d-1" is a name that has to be written in double quotes: databases are not only those with identifier-like names)
    "quick": [('{"a", "A", "b"}', "{1, 2}", 8, 2, "ViewLast2", None), ('{"a", "b"}', "{1}", 11, 2, "ViewLast", None),
              ('{"d-1", "b"}', "{1}", 9, 2, "ViewLast", None),
              # mu1 / mu2 are written as the micro sign + s and the Greek mu + s: equal under case folding, different in lower case
              ('{"mu1", "mu2"}', "{1}", 9, 2, "ViewLast", None),
              # names that differ only in a character a file system treats specially: still two databases
              ('{"a.1", "a_1"}', "{1}", 9, 2, "ViewLast", None),
              # names that are a path, not a name: refused, and nothing appears in the data directory, next to it or above it
              ('{"x/y", "x", ".."}', "{1}", 7, 2, "ViewN", None)],
    "thorough": [('{"a", "A", "b"}', "{1, 2}", 10, 2, "ViewLast2", 150000), ('{"a", "b", "c"}', "{1}", 8, 2, "ViewN", 150000), ('{"a", "b"}', "{1}", 13, 2, "ViewLast2", 150000),
                 ('{"d-1", "b"}', "{1}", 11, 2, "ViewLast", 100000), ('{"a.1", "a_1"}', "{1}", 11, 2, "ViewLast", 100000),
                 ('{"mu1", "mu2"}', "{1}", 11, 2, "ViewLast", 100000), ('{"x/y", "x", ".."}', "{1}", 9, 2, "ViewN", 100000)],
}


def bad_names(names):
    """the names of a configuration that are not the name of one directory entry"""
    import json
    ns = json.loads("[" + names.strip("{}") + "]")
    return "{" + ", ".join(json.dumps(n) for n in ns if "/" in n or n in (".", "..")) + "}"


def run(ctx):
    import random
    binary = vlib.build_harness(ctx, "session")
    cov = dict(states=0, transitions=0, traces_validated_against_impl=0, samples=[], exhaustive=True, configs=[], kinds={}, leaks=0)
    pool = vlib.WorkerPool(ctx, binary)
    try:
        if ctx.replay:
            import json
            d = json.load(open(ctx.replay))
            out = []
            pool.run_all([dict(steps=d["scenario"]["steps"])], lambda q, r: out.append(r))
            print(out[0])
            if not out[0]["ok"]:
                vlib.report_violation(ctx, dict(kind="session-replay", scenario=d["scenario"], detail=out[0].get("viol")))
            return
        for idx, (names, vals, steps, rows, view, sample) in enumerate(CFGS[ctx.tier]):
            scns = []
            res = vlib.run_tlc(ctx, "SessionMC", "SessionMC_gen.cfg", cfg_text=CFG % (names, bad_names(names), vals, steps, rows, view), tag=str(idx),
                               timeout=1500, on_scn=lambda k, o: scns.append(o))
            vlib.tlc_must_ok(ctx, res, "SessionMC %d" % idx)
            total = len(scns)
            if sample and len(scns) > sample:
                scns = random.Random(ctx.seed).sample(scns, sample)
                cov["exhaustive"] = False
            st = dict(names=names, vals=vals, max_steps=steps, view=view, distinct=res.distinct, generated=res.generated, scenarios=total, replayed=0)

            def on_result(req, r):
                st["replayed"] += 1
                if r.get("kind") == "infra":
                    raise vlib.Undecided("session harness: %s" % r.get("notes"))
                if r.get("leak"):
                    cov["leaks"] += 1
                k = r.get("kind") or "?"
                cov["kinds"][k] = cov["kinds"].get(k, 0) + 1
                plain = [{k2: v for k2, v in s.items() if k2 != "exp"} for s in req["steps"]]
                if not r["ok"]:
                    if r["step"] < len(req["steps"]) - 1:
                        return  # reported by the scenario that ends at the failing step
                    vlib.report_violation(ctx, dict(kind="session-replay", steps=plain, failing_step=r["step"], detail=r.get("viol"),
                                                    promised=req["steps"][r["step"]]["exp"], scenario=dict(steps=req["steps"])),
                                          signature=(r.get("viol") or [""])[0][:160])
                elif len(req["steps"]) >= steps - 1 and len(cov["samples"]) < 3:
                    cov["samples"].append(dict(steps=plain, promised_at_end=req["steps"][-1]["exp"]))
            pool.run_all(scns, on_result, chunk=32)
            # the same paths in databases that hold many other tables (eight more after the first successful USE: the catalog's
            # own tree grows a level): creating a table other than t changes nothing Session.tla talks about - a stuttering
            # step of the specification - so every promise of the path stands as it is
            wide = []
            for n, sc in enumerate(scns):
                if n % 4:
                    continue
                st_ = sc["steps"]
                ks = [k for k, x in enumerate(st_[:-1]) if x["a"] == "use" and x["exp"]["k"] == "ok"]
                if ks:
                    k = ks[0]
                    fill = [dict(a="filler", n="", v=j, exp=dict(st_[k]["exp"], k="ok")) for j in range(1, 9)]
                    wide.append(dict(steps=st_[:k + 1] + fill + st_[k + 1:]))
            st["replayed_with_filler_tables"] = len(wide)
            pool.run_all(wide, on_result, chunk=32)
            # ... and with a tick and the CREATE DATABASE that follows it happening at the same time (every store has its own
            # lock: the new database is created while the first page of the tick's flush is between serialisation and the
            # file); the two steps touch different databases, so the promise after both is the promise of the path
            both = []
            for sc in scns:
                st_ = sc["steps"]
                for k in range(len(st_) - 1):
                    if st_[k]["a"] == "tick" and st_[k + 1]["a"] == "createdb":
                        both.append(dict(steps=st_[:k] + [dict(a="tick_createdb", n=st_[k + 1]["n"], v=0, exp=st_[k + 1]["exp"])] + st_[k + 2:]))
                        break
            st["replayed_with_tick_during_createdb"] = len(both)
            pool.run_all(both, on_result, chunk=32)
            cov["states"] += res.distinct
            cov["transitions"] += res.generated
            cov["traces_validated_against_impl"] += st["replayed"]
            cov["configs"].append(st)
        # ---- real flush timers and a process that is held up (suspended by the scheduler, say) for two and a half timer periods
        # right after a store was set up, inside USE and CREATE DATABASE: Session.tla's Use and Tick are separate steps - a tick
        # that arrives "inside" a USE is a tick before or after it, and changes nothing
        out = []
        pool.request_timeout = 120
        pool.run_all([dict(steps=[], stall=True)], lambda q, r: out.append(r), chunk=1)
        if not out or out[0].get("kind") == "infra":
            raise vlib.Undecided("stalled-open scenario: %s" % (out and out[0].get("notes")))
        cov["stalled_open_scenarios"] = 1
        if not out[0]["ok"]:
            vlib.report_violation(ctx, dict(kind="session-stall", detail=out[0].get("viol"),
                                            how="real timers; the process pauses 260 ms at the end of newFileStore (hook H2) during USE / CREATE DATABASE"),
                                  signature="stalled-open:" + (out[0].get("viol") or [""])[0][:80])
        # ---- restarts after the process died inside CREATE DATABASE (the statement is several writes on disk: directory, data
        # file, header, log file, catalog pages, header): Session!CreateDb is atomic - it happened or it did not - so after the
        # restart every other database is as it was and works, and statements on the unfinished one are answered
        out = []
        pool.run_all([dict(steps=[], half=True)], lambda q, r: out.append(r), chunk=1)
        if not out or out[0].get("kind") == "infra":
            raise vlib.Undecided("half-created database scenario: %s" % (out and out[0].get("notes")))
        cov["crash_inside_create_database_scenarios"] = 1
        if not out[0]["ok"]:
            vlib.report_violation(ctx, dict(kind="session-half-created", detail=out[0].get("viol"),
                                            how="images = the databases as they were + data/x with a prefix of the writes a real CREATE DATABASE x issued"),
                                  signature="half-created:" + (out[0].get("viol") or [""])[0][-80:])
    finally:
        pool.close()
    # the promises of Session.tla without bounds (any number of databases, rows and steps): TLAPS proof, re-checked here
    ok, n, tail = vlib.run_tlapm(ctx, "SessionProof")
    if not ok and not ctx.violations:
        raise vlib.Undecided("SessionProof: the proof system did not prove every obligation (model-level problem)\n" + "\n".join(tail))
    cov["proof"] = dict(module="SessionProof", tool="tlapm", obligations_proved=n,
                        theorem="Spec => []TypeOK /\\ Isolation /\\ ErrorsChangeNothing /\\ PausesChangeNothing")
    for k in ("use:ok", "use:error", "createdb:error", "restart:restart", "crash:crash", "tick:tick", "show:ok"):
        if not cov["kinds"].get(k):
            raise vlib.Undecided("vacuous: no scenario ended in %s" % k)
    if cov["leaks"]:
        ctx.note("%d restarts found a store that was opened and never closed (a leaked store; harmless only if it holds nothing unsaved)" % cov["leaks"])
    vlib.write_evidence(ctx, "model_checking", cov, assumptions=[
        "TLC, SANY, CommunityModules", "background flushers replaced by explicit ticks delivered to every store still open (hooks H1/H2)",
        "production page capacities (this property is about stores, not tree shapes)"])
