"""C09 - the SQL front end never crashes or hangs on any input.

The structure of the input space comes from SqlGrammar.tla:
  (a) every truncation of every statement of a cover set (every reachable state of
      the machine Pick / EmitNext / Skip is a truncation of a valid statement, with
      optional tokens present or left out);
  (b) those with junk tokens inserted or substituted at any position (Junk steps
      over the full token vocabulary of sql/scanner.go plus the lexical classes:
      integers beyond 64 bits, hex/underscore/octal/float literals, lone and
      unterminated quotes of each kind, NUL, invalid UTF-8, comment openers, ...);
  (c) all token sequences up to a bounded length over the vocabulary, written with
      blanks and without any separator;
  (d) seeded random inputs: random bytes, random text over an SQL alphabet, random
      token soups, byte-level mutations of valid statements, long padded texts cut
      inside a character;
  (e) texts around the scanner's buffer size (1024 bytes): for cover statements,
      among them statements with 2-, 3- and 4-byte characters in literals and
      identifiers, every byte-wise truncation (also inside a character), and the text
      padded to every length in 1015..1035 and 2040..2060 bytes and to 10 KB by
      trailing/leading blanks, comments, a long string literal, many VALUES rows, and
      shifted so that each byte in turn starts a refill of the buffer.
Every input is rendered to bytes and pushed through sql.NewTokenScanner +
sql.Parser.Parse exactly as engine.parseSQL does, in a goroutine under recover()
with a 2 s watchdog and an allocation meter.  Postcondition (SqlGrammar!Outcomes):
the result is a statement or an error value.  A panic, a hang, or memory use out of
proportion to the input is a VIOLATION; panics are grouped by signature (panic
class + innermost function of package sql) and reported with their smallest input.
"""
import base64
import json
import random
import threading

import sqlfe_lib as fe
import vlib

TIERS = {
    # junk: list of machine runs (cover statements, vocab of first junk token, of further ones, budget, tail)
    "quick": dict(
        junk=[dict(tag="j1", stmts="MC_Cover", vocab="MC_FullVocab", vocab2="MC_Vocab2", max_junk=1, max_tail=1)],
        seq_len=2, random=30000, long_stmts="MC_CoverLong"),
    "thorough": dict(
        junk=[dict(tag="j1", stmts="MC_Cover", vocab="MC_FullVocab", vocab2="MC_Vocab2", max_junk=1, max_tail=8),
              dict(tag="j2", stmts="MC_CoverSmall", vocab="MC_Vocab2", vocab2="MC_Vocab2", max_junk=2, max_tail=1)],
        seq_len=3, random=400000, long_stmts="MC_CoverLong"),
}

MAX_HANGS = 5    # every hang costs a watchdog period and a worker restart; a handful is proof enough

ALPHABET = "abcxyzSELCTFROMWH019 \t\n'\"`.,;()*=<>!-/_\\%#@\x00"


def mem_limit(nbytes):
    # token list (40 B/token, doubling), scanner buffers and AST are linear in the input; this is ~100x that
    return (8 << 20) + 4096 * nbytes


def run(ctx):
    binary = vlib.build_harness(ctx, "sqlfe")
    pool = vlib.WorkerPool(ctx, binary, n=min(8, vlib.NCPU))
    try:
        if ctx.replay:
            replay(ctx, pool)
            return
        _run(ctx, pool)
    finally:
        pool.close()


def replay(ctx, pool):
    p = json.load(open(ctx.replay))
    res = fe.one_request(pool, dict(mode="c09", raw=p["input_b64"], echo=True))
    o = res["outs"][0]
    print("replay of %s: input %r -> %s %s" % (ctx.replay, base64.b64decode(p["input_b64"])[:200], o["res"], o.get("panic", "")))
    if o["res"] not in ("stmt", "error"):
        fid = fe.panic_id(o.get("sig"), o.get("panic")) if o["res"] == "panic" else "front-end-hang"
        vlib.report_violation(ctx, dict(kind="c09-replay", input_b64=p["input_b64"], observed=o), signature=fid, finding_ids=[fid])


def _run(ctx, pool):
    tier = TIERS[ctx.tier]
    rng = random.Random(ctx.seed)
    lock = threading.Lock()
    info = fe.one_request(pool, dict(mode="info"))
    all_kinds = {int(k): v for k, v in info["kinds"].items()}
    lex_known = set(info["lex"])

    st = dict(evaluations=0, by_phase={}, by_result={}, max_alloc=0, max_ntok=0, max_nbytes=0)
    nonvalid = set()    # distinct inputs (by 64-bit hash) that are not valid statements
    valid = set()
    kinds_seen = set()
    lex_used = set()
    vocab_seen = set()
    viol = {}           # finding id -> dict(count, example)
    samples = []
    valid_texts = []
    configs = []
    phase = ["?"]
    nreq = [0]
    hangs = [0]
    retry = []          # requests whose worker died under them (re-run one at a time at the end)

    def stopped():
        return hangs[0] >= MAX_HANGS

    def make_request(scn):
        toks = scn["toks"]
        if fe.has_escape(toks):
            toks = fe.unescape(toks)
        nreq[0] += 1
        for t in toks:
            if t[0] == "LEX":
                lex_used.add(t[1])
        if toks:
            vocab_seen.add((toks[-1][0], toks[-1][1]))
        if phase[0] == "long":
            return dict(mode="c09", toks=toks, pads=True, cuts=True, echo=False)
        return dict(mode="c09", toks=toks, glue=phase[0] == "sequences", echo=(nreq[0] % 97 == 0))

    def record(out, what):
        r = out["res"]
        h = int(out["h"], 16)
        st["evaluations"] += 1
        st["by_phase"][phase[0]] = st["by_phase"].get(phase[0], 0) + 1
        st["by_result"][r] = st["by_result"].get(r, 0) + 1
        (valid if r == "stmt" else nonvalid).add(h)
        for k in out.get("newkinds", ()):
            kinds_seen.add(k)
        st["max_alloc"] = max(st["max_alloc"], out["alloc"])
        st["max_ntok"] = max(st["max_ntok"], out["ntok"])
        st["max_nbytes"] = max(st["max_nbytes"], out["nbytes"])
        fid = None
        if r == "panic":
            fid = fe.panic_id(out.get("sig"), out.get("panic"))
        elif r == "hang":
            fid = "front-end-hang"
            hangs[0] += 1
        elif out["alloc"] > mem_limit(out["nbytes"]):
            fid = "front-end-memory"
        elif out["ntok"] > out["nbytes"]:
            fid = "front-end-token-count"
        elif r not in ("stmt", "error"):
            raise vlib.Undecided("harness returned an unknown outcome %r" % (r,))
        if fid:
            v = viol.setdefault(fid, dict(count=0, example=None, phases=set()))
            v["count"] += 1
            v["phases"].add(phase[0])
            if v["example"] is None or (out["nbytes"], out["ntok"]) < (v["example"]["nbytes"], v["example"]["ntok"]):
                v["example"] = dict(out, what=what, phase=phase[0])
        if "in" in out and r in ("stmt", "error"):
            if r == "stmt" and len(valid_texts) < 400:
                valid_texts.append(out["in"])
            if len(samples) < 6 and 8 < out["nbytes"] < 120 and (len(samples) % 2 == 0) == (r == "error"):
                samples.append(dict(phase=phase[0], input=out["in"], result=r, error=out.get("err")))

    def on_result(req, res):
        if res.get("fatal"):
            retry.append(req)       # the worker died; who is to blame is settled below, one request at a time
            return
        if not res.get("ok"):
            raise vlib.Undecided("harness error: %r" % (res,))
        with lock:
            for out in res["outs"]:
                record(out, req.get("toks") or req.get("raw") or req.get("gen"))

    def on_retry(req, res):
        if res.get("fatal"):
            v = viol.setdefault("front-end-fatal-crash", dict(count=0, example=None, phases=set()))
            v["count"] += 1
            v["phases"].add("retry")
            if v["example"] is None:
                v["example"] = dict(res="fatal", nbytes=0, ntok=0, what=req.get("toks") or req.get("raw") or req.get("gen"), phase="retry",
                                    panic="; ".join(res.get("viol", []))[:600])
            return
        on_result(req, res)

    # ---- the machine itself (design level; a failure here is a machinery problem, never a verdict):
    # every junk-free reachable state is a truncation of the picked statement's token sequence
    san = vlib.run_tlc(ctx, "SqlGrammarMC", "SqlGrammarMC_machine.cfg", tag="machine", timeout=600,
                       cfg_text=fe.cfg("S", ["given"] if ctx.quick() else sorted(fe.SLICE_NAMES), stmts="MC_Cover", emit="off",
                                       invariants=("TypeOK", "TruncationInv", "ConditionsExpressible", "GrammarUsesOnly")))
    vlib.tlc_must_ok(ctx, san, "SqlGrammarMC machine invariants")
    configs.append(dict(run="machine invariants (TypeOK, TruncationInv, ConditionsExpressible, GrammarUsesOnly), no junk",
                        distinct_states=san.distinct, generated=san.generated, tlc_wall_s=round(san.wall, 1)))

    # ---- (a) + (b): truncations of valid statements, with junk
    for j in tier["junk"]:
        if stopped():
            break
        phase[0] = "truncations+junk<=%d" % j["max_junk"]
        res = fe.stream_tlc(ctx, pool, "c09" + j["tag"],
                            fe.cfg("S", ["given"], stmts=j["stmts"], vocab=j["vocab"], vocab2=j["vocab2"], max_junk=j["max_junk"],
                                   max_tail=j["max_tail"], emit="toks", init="GenPick", next_="GenNext"),
                            make_request, on_result, timeout=1800, chunk=64, stop=stopped)
        configs.append(dict(run=phase[0], stmts=j["stmts"], vocab=j["vocab"], max_tail=j["max_tail"], distinct_states=res.distinct,
                            generated=res.generated, scenarios=res.scenarios, tlc_wall_s=round(res.wall, 1)))
    # ---- (e): texts around the scanner's buffer size, byte-wise truncations
    if not stopped():
        phase[0] = "long"
        res = fe.stream_tlc(ctx, pool, "c09long",
                            fe.cfg("S", ["given"], stmts=tier["long_stmts"], emit="toks", init="GenPick", next_="GenNextComplete"),
                            make_request, on_result, timeout=900, chunk=2, stop=stopped)
        configs.append(dict(run="complete cover statements: byte-wise truncations, paddings around 1024/2048/10240 bytes",
                            stmts=tier["long_stmts"], distinct_states=res.distinct, generated=res.generated, scenarios=res.scenarios,
                            tlc_wall_s=round(res.wall, 1)))
    # ---- (c): all token sequences
    if not stopped():
        phase[0] = "sequences"
        res = fe.stream_tlc(ctx, pool, "c09seq",
                            fe.cfg("S", ["given"], vocab="MC_SeqVocab", vocab2="MC_SeqVocab", max_junk=tier["seq_len"], emit="toks",
                                   init="SeqPick", next_="SeqNext"),
                            make_request, on_result, timeout=1800, chunk=64, stop=stopped)
        configs.append(dict(run="all token sequences of length <= %d, with blanks and glued" % tier["seq_len"], distinct_states=res.distinct,
                            generated=res.generated, scenarios=res.scenarios, tlc_wall_s=round(res.wall, 1)))
        # the empty input and white space only
        pool.run_all([dict(mode="c09", raw="", echo=False), dict(mode="c09", raw=base64.b64encode(b" \n\t ").decode())], on_result)

    # ---- (d): seeded random inputs
    phase[0] = "random"
    vocab = sorted(vocab_seen)
    if not stopped() and (len(vocab) < 50 or not valid_texts):
        raise vlib.Undecided("vacuous: %d vocabulary tokens, %d valid texts collected" % (len(vocab), len(valid_texts)))
    UNI = ["\u00e9", "\u6771", "\U0001F600"]

    def random_requests(n):
        for i in range(n):
            if stopped():
                return
            kind = i % 4
            if i % 64 == 63:
                # a long text: a valid statement, a run of blanks up to a length around the buffer size, then a
                # character of 2-4 bytes cut after any of its bytes
                t = rng.choice(valid_texts).encode()
                total = rng.choice([1024, 2048, 3072]) + rng.randrange(-6, 7)
                ch = rng.choice(UNI).encode()
                b = t + b" " * max(1, total - len(t) - 2) + b"'" + ch[:rng.randrange(1, len(ch) + 1)]
            elif kind == 0:
                b = bytes(rng.randrange(256) for _ in range(rng.randrange(0, 48)))
            elif kind == 1:
                b = "".join(rng.choice(ALPHABET) for _ in range(rng.randrange(0, 64))).encode()
            elif kind == 2:
                toks = [list(rng.choice(vocab)) for _ in range(rng.randrange(1, 14))]
                yield dict(mode="c09", toks=toks, glue=rng.random() < 0.3)
                continue
            else:
                b = bytearray(rng.choice(valid_texts).encode())
                for _ in range(rng.randrange(1, 4)):
                    op = rng.randrange(3)
                    pos = rng.randrange(len(b) + 1)
                    if op == 0 and b:
                        b[min(pos, len(b) - 1)] = rng.choice(ALPHABET.encode() + bytes([0xff, 0xc3, 0x80]))
                    elif op == 1:
                        b.insert(pos, rng.choice(ALPHABET.encode() + bytes([0xff, 0xe2])))
                    elif b:
                        del b[min(pos, len(b) - 1)]
                b = bytes(b)
            yield dict(mode="c09", raw=base64.b64encode(b).decode() if b else "", echo=(i % 997 == 0))

    if not stopped():
        pool.run_all(random_requests(tier["random"]), on_result, chunk=64)

    # ---- (f): conditions of millions of operands (inputs of 50-60 MB, built by the harness): the front end answers - with a
    # statement or an error value - in time linear in the input, whatever the nesting its grammar gives them
    if not stopped():
        phase[0] = "deep"
        deep = [dict(mode="c09", gen=dict(head="SELECT * FROM t WHERE a = 1", rep=" OR a = 1", n=6000000))]
        if not ctx.quick():
            deep += [dict(mode="c09", gen=dict(head="SELECT * FROM t WHERE a = 1", rep=" AND a = 1", n=6000000)),
                     dict(mode="c09", gen=dict(head="DELETE FROM t WHERE a = 1", rep=" AND b = 2 OR a = 1", n=3500000)),
                     dict(mode="c09", gen=dict(head="SELECT * FROM t JOIN u ON a = 1", rep=" OR a = 1", n=6000000))]
        # nesting instead of chaining: millions of opening parentheses (closed again, or left open) and of prefix operators at every
        # place of a statement where a grammar - today's or tomorrow's - may let an expression or a table expression begin
        nest = 3000000 if ctx.quick() else 6000000
        for head, mid in (("SELECT * FROM t WHERE ", "a = 1"), ("SELECT * FROM t WHERE a = ", "1"), ("SELECT ", "a"), ("SELECT * FROM ", "t"),
                          ("INSERT INTO t VALUES ", "1"), ("SELECT * FROM t JOIN u ON ", "a = 1"), ("UPDATE t SET a = ", "1"), ("", "SELECT 1")):
            deep.append(dict(mode="c09", gen=dict(head=head, rep="(", n=nest, mid=mid, tail=")")))
            if not ctx.quick() or head.endswith("WHERE "):
                deep.append(dict(mode="c09", gen=dict(head=head, rep="(", n=nest, mid=mid, tail="")))
                deep.append(dict(mode="c09", gen=dict(head=head, rep="( ", n=nest // 2, mid=mid, tail=" )")))
        for rep in ("NOT ", "- ", "+ "):
            deep.append(dict(mode="c09", gen=dict(head="SELECT * FROM t WHERE a = ", rep=rep, n=nest, mid="1", tail="")))
            deep.append(dict(mode="c09", gen=dict(head="SELECT * FROM t WHERE ", rep=rep, n=nest, mid="a = 1", tail="")))
        old_to = pool.request_timeout
        pool.request_timeout = 600
        try:
            pool.run_all(deep, on_result, chunk=1)
        finally:
            pool.request_timeout = old_to

    # ---- requests whose worker died: one at a time, so that a death is blamed on the right input
    if retry:
        phase[0] = "retry"
        again, retry[:] = list(retry), []
        pool.run_all(again, on_retry, chunk=1)

    if stopped():
        ctx.note("stopped feeding inputs after %d hangs (each costs a watchdog period); coverage of this run is partial" % hangs[0])

    # ---- vacuity (of a complete run in which nothing failed: an input that killed its worker was not counted in its phase)
    if not stopped() and not viol:
        missing = sorted(set(all_kinds) - kinds_seen)
        if missing:
            raise vlib.Undecided("vacuous: token kinds never produced by the scanner: " + ", ".join(all_kinds[k] for k in missing))
        if lex_known - lex_used:
            raise vlib.Undecided("vacuous: lexical classes never generated: " + ", ".join(sorted(lex_known - lex_used)))
        for r in ("stmt", "error"):
            if not st["by_result"].get(r):
                raise vlib.Undecided("vacuous: no input gave outcome '%s'" % r)
        for ph in ("long", "sequences", "random", "deep"):
            if not st["by_phase"].get(ph):
                raise vlib.Undecided("vacuous: phase '%s' ran no input" % ph)
        if st["max_nbytes"] < 10000:
            raise vlib.Undecided("vacuous: longest input %d bytes" % st["max_nbytes"])

    # ---- violations: per signature, smallest input, re-run once before it is believed
    for fid in sorted(viol):
        v = viol[fid]
        ex = v["example"]
        raw = ex.get("in_b64") or base64.b64encode(ex.get("in", "").encode()).decode()
        again = None
        if raw:
            ans = fe.one_request(pool, dict(mode="c09", raw=raw, echo=True))
            if ans.get("fatal"):
                raise vlib.Undecided("the worker died while %s was re-run: %r" % (fid, ans))
            again = ans["outs"][0]
        if raw and fid not in ("front-end-memory", "front-end-token-count", "front-end-fatal-crash"):
            fid2 = fe.panic_id(again.get("sig"), again.get("panic")) if again["res"] == "panic" else ("front-end-hang" if again["res"] == "hang" else None)
            if fid2 != fid:
                raise vlib.Undecided("violation %s did not reproduce on a second run (%r)" % (fid, again))
        vlib.report_violation(ctx, dict(kind="c09", signature=fid, inputs_with_this_signature=v["count"], phases=sorted(v["phases"]),
                                        smallest_input=ex.get("in"), input_b64=raw, abstract_tokens=ex["what"] if isinstance(ex["what"], list) else None,
                                        generated_input=("%r followed by %d times %r" % (ex["what"]["head"], ex["what"]["n"], ex["what"]["rep"])) if isinstance(ex["what"], dict) else None,
                                        expected="a statement or an error value (SqlGrammar!Outcomes)", observed=ex["res"],
                                        panic=ex.get("panic"), innermost_sql_function=ex.get("sig"), frames=ex.get("frames"),
                                        alloc_bytes=ex.get("alloc"), tokens=ex.get("ntok")),
                              signature=fid, finding_ids=[fid])

    cov = dict(evaluations=st["evaluations"], distinct_nontrivial=len(nonvalid),
               rule="inputs = renderings of every state of the SqlGrammar machine on the cover statements (truncations, optional tokens left "
                    "out, junk tokens inserted/substituted from the full vocabulary), all token sequences up to the bound, and seeded random "
                    "inputs; evaluations = inputs run through the real front end; distinct (64-bit FNV of the bytes) and non-trivial = the "
                    "input is not a valid statement (the front end returned an error, panicked or hung)",
               samples=samples, distinct_valid_statements=len(valid), by_phase=st["by_phase"], by_result=st["by_result"],
               token_kinds_seen=len(kinds_seen), token_kinds_total=len(all_kinds), lexical_classes=len(lex_used),
               vocabulary_tokens=len(vocab), max_alloc_bytes=st["max_alloc"], max_tokens=st["max_ntok"], max_input_bytes=st["max_nbytes"],
               stopped_early_after_hangs=hangs[0] if stopped() else 0, configs=configs,
               violation_signatures={k: v["count"] for k, v in viol.items()}, exhaustive=False)
    vlib.write_evidence(ctx, "exploration", cov, assumptions=[
        "TLC/SANY and the CommunityModules Json module are correct",
        "the renderer in harness/cmd/sqlfe spells abstract tokens and the named lexical classes as documented there",
        "a 2 s watchdog distinguishes a hang from slow parsing (inputs are at most a few KB); for the inputs of many megabytes it is 2 s + 1 s per 200 KB",
        "allocation is measured with runtime/metrics (/gc/heap/allocs:bytes) around each call; the ceiling is 8 MiB + 4 KiB per input byte"])
