"""C01 - table contents always equal what the statement history implies."""
import json
import random

import vlib
import storelib
import semlib

CFGS = {
    "quick": [("c01-a", dict(MaxStmts=4, MaxRows=2, MaxFlush=1), None),
              # flush, then every clean page leaves the cache, then more statements (a page changed but not marked dirty shows here)
              ("c01-e", dict(MaxStmts=5, MaxRows=2, MaxFlush=1, MaxEvict=1, Tables='{"t1"}', Vals="{1}"), 15000),
              ("c01-b", dict(MaxStmts=5, MaxRows=3, MaxFlush=0, Tables='{"t1"}', Vals="{1}"), None),
              # rows with a NULL column (value 9), rows at the 400-byte limit (value 8) and rows with an empty string (value 7)
              ("c01-n", dict(MaxStmts=5, MaxRows=1, MaxFlush=1, Tables='{"t1"}', Vals="{7, 8, 9}", Wheres="{0, 7}"), 12000)],
    "thorough": [("c01-a", dict(EmitMod=4, MaxStmts=5, MaxRows=2, MaxFlush=1), 60000),
                 ("c01-e", dict(EmitMod=16, MaxStmts=5, MaxRows=3, MaxFlush=1, MaxEvict=1, Tables='{"t1"}', Vals="{1, 2}"), 60000),
                 ("c01-b", dict(MaxStmts=7, MaxRows=3, MaxFlush=1, Tables='{"t1"}', Vals="{1}"), 40000),
                 ("c01-c", dict(EmitMod=24, MaxStmts=6, MaxRows=3, MaxFlush=0, Tables='{"t1"}', Vals="{1, 2}"), 40000),
                 ("c01-n", dict(EmitMod=20, MaxStmts=6, MaxRows=2, MaxFlush=1, Tables='{"t1"}', Vals="{7, 8, 9}", Wheres="{0, 7, 8}"), 60000)],
}


NHIST = {"quick": 2400, "thorough": 20000}
FROM5 = [dict(tbl="t5", alias="", jt="", on=[])]


def dml_histories(ctx, cov):
    """Statement histories over the full WHERE language, judged by TLC (SqlSem!HistoryOK): a table enumerated by TLC from
    SqlSemGen.tla, then one to three INSERT / UPDATE / DELETE statements assembled from its component sets (Dmls5 x Wheres5),
    each followed by SELECT *; every third statement is followed by a flush and the eviction of every clean page, a third of
    the histories run at page capacities 3/3, a third on tables with a past (deleted rows among the live ones)."""
    binary = vlib.build_harness(ctx, "sem")
    sets = semlib.gen_sets(ctx)
    rng = random.Random(ctx.seed * 7919 + 3)
    fams = [([t for t in sets["tables5"] if t["rows"]], sets["wheres5"], 6),
            (sets["tablesnull5"], sets["wheresnull5"], 2), (sets["tableskw5"], sets["whereskw5"], 1)]
    dmls, bad_wheres, rows5 = sets["dmls5"], sets["wheresbad5"], sets["rows5"]
    template = rows5[0]
    cases = []
    # every assignment list and every WHERE at least once as the first statement of a history, then random histories
    firsts = [(d, w) for d in range(len(dmls)) for w in (None,)] + [(None, w) for w in range(len(sets["wheres5"]))]
    weights = [f[2] for f in fams]
    n = 0
    while len(cases) < NHIST[ctx.tier]:
        tables, wheres, _ = fams[0] if n < len(firsts) else rng.choices(fams, weights)[0]
        table = rng.choice(tables)
        ds = []
        for step in range(rng.randrange(1, 4)):
            if step == 0 and n < len(firsts):
                di, wi = firsts[n]
                d = dmls[di] if di is not None else rng.choice(dmls)
                w = wheres[wi] if wi is not None else rng.choice(wheres)
            else:
                d, w = rng.choice(dmls), rng.choice(wheres)
                if rng.random() < 0.08:
                    w = rng.choice(bad_wheres)
            if step > 0 and rng.random() < 0.2:
                ds.append(dict(k="insert", tbl="t5", where=[], set=[], row=rng.choice(rows5)))
            else:
                ds.append(dict(k=d["k"], tbl="t5", where=w, set=d["set"], row=[]))
        cases.append(dict(db={"t5": table}, ds=ds, caps=([3, 3] if n % 3 == 1 else []), style=n))
        n += 1
    reqs = []
    for i, c in enumerate(cases):
        db = semlib.with_history(rng, c["db"], template) if i % 3 == 2 else c["db"]
        qs = [{"from": FROM5, "where": d["where"], "list": [], "group": [], "order": [], "limit": -1, "offset": -1, "style": c["style"] + j,
               "dml": d["k"], "set": d["set"], "row": d["row"]} for j, d in enumerate(c["ds"])]
        reqs.append(dict(db=db, qs=qs, caps=c["caps"], _i=i))

    def on_result(req, resp):
        c = cases[req["_i"]]
        if resp.get("fatal"):
            c["died"] = "process died: " + (resp.get("viol") or [""])[0]
        elif resp.get("setup") == "PANIC":
            c["died"] = "while the table was loaded: " + (resp["res"][0].get("panic") or "hang")
        elif resp.get("setup"):
            raise vlib.Undecided("sem harness could not load the table: %s" % resp["setup"])
        else:
            c["raw"] = resp.get("res") or []
    pool = vlib.WorkerPool(ctx, binary)
    try:
        pool.run_all(reqs, on_result, chunk=1)
    finally:
        pool.close()
    judged, stmts, changed, refused = [], 0, 0, 0
    for c in cases:
        raw = c.get("raw") or []
        crash = c.get("died") or next((("the engine panicked: " + r["panic"].splitlines()[0]) if r.get("panic") else "the engine hung"
                                       for r in raw if r.get("panic") or r.get("hang")), None)
        if crash or len(raw) != len(c["ds"]):
            vlib.report_violation(ctx, dict(kind="dml-history", db=c["db"], ds=c["ds"], sql=[r.get("sql") for r in raw],
                                            detail=[crash or "the history was not run to its end"]), signature="dml|" + (crash or "short")[:80])
            continue
        c["hres"] = [dict(err=bool(r["err"]), rows=r["rows"]) for r in raw]
        judged.append(c)
        stmts += len(raw)
        prev = c["db"]["t5"]["rows"]
        for r in raw:
            refused += 1 if r["err"] else 0
            changed += 1 if r["rows"] != prev else 0
            prev = r["rows"]
    if len(judged) < len(cases) // 2 or changed < stmts // 10:
        raise vlib.Undecided("statement histories: %d of %d judged, %d of %d statements changed the table - too few to mean anything" % (len(judged), len(cases), changed, stmts))
    bad = semlib.judge_histories(ctx, judged, "c01-dml")
    # the judge must be able to say no: an accepted history whose last answer is altered (one row dropped, or the outcome turned
    # round) has to be rejected - otherwise the acceptance above means nothing
    rejected = {i for i, _ in bad}
    probe = next((c for n, c in enumerate(judged) if n not in rejected and c["hres"][-1]["rows"] and not c["hres"][-1]["err"]), None)
    if probe is not None:
        dropped = dict(probe, hres=probe["hres"][:-1] + [dict(err=False, rows=probe["hres"][-1]["rows"][:-1])])
        turned = dict(probe, hres=probe["hres"][:-1] + [dict(err=True, rows=probe["hres"][-1]["rows"])])
        got = semlib.judge_histories(ctx, [dropped, turned], "c01-dml-probe")
        if len(got) != 2:
            raise vlib.Undecided("SqlDmlJudge accepts a history whose last answer was altered (%d of 2 rejected)" % len(got))
        cov["dml_judge_rejects_altered_histories"] = True
    seen = set()
    for i, at in bad:
        c = judged[i]
        d = c["ds"][at - 1] if 0 < at <= len(c["ds"]) else {}
        r = c["raw"][at - 1] if 0 < at <= len(c["raw"]) else {}
        sig = "dml|%s|w%s|s%s" % (d.get("k"), "x".join(str(len(x)) for x in d.get("where") or []), ",".join(a["c"] for a in d.get("set") or []))
        if sig in seen:
            continue
        seen.add(sig)
        vlib.report_violation(ctx, dict(kind="dml-history", db=c["db"], ds=c["ds"], sql=[x.get("sql") for x in c["raw"]], results=c["hres"], caps=c["caps"],
                                        detail=["statement %d of the history (`%s`) is answered wrongly: rejected by HistoryOK (SqlSem.tla)%s"
                                                % (at, r.get("sql"), (": engine error `%s`" % r.get("msg")) if r.get("err") else "")]), signature=sig)
    cov["dml_histories"] = dict(histories=len(judged), statements=stmts, statements_that_changed_the_table=changed, refused_statements=refused,
                                rejected_by_tlc=len(bad),
                                rule="table from SqlSemGen!Tables5 / TablesNull5 / TablesKw5, 1-3 statements from Dmls5 x Wheres5 (+ WheresBad5, inserted rows); "
                                     "every assignment list and every WHERE at least once; after each statement SELECT * is compared by TLC with SqlSem!DmlRows (StepOK / HistoryOK)",
                                sample=dict(sql=[x.get("sql") for x in judged[0]["raw"]], rows_after=judged[0]["hres"][-1]["rows"]) if judged else None)
    cov["traces_validated_against_impl"] += len(judged)


def run(ctx):
    binary = vlib.build_harness(ctx, "store")
    if ctx.replay:
        return storelib.replay_file(ctx, binary, ctx.replay)
    cov = storelib.new_cov()
    dml_histories(ctx, cov)
    pool = vlib.WorkerPool(ctx, binary)
    try:
        for name, over, sample in CFGS[ctx.tier]:
            storelib.StoreRun(ctx, name, over, sample=sample).run(pool, storelib.default_violation(ctx), cov)
        seeds = [ctx.seed * 1000 + i for i in range(4 if ctx.quick() else 24)]
        storelib.random_runs(ctx, pool, cov, [dict(seed=sd, n=(250 if ctx.quick() else 700), caps=[], cache=0, pcrash=0, pflush=0.1, pfail=0.3, wal=False,
                                                   maxrows=(12 if i % 2 else 30), bias=("grow" if i % 2 == 0 else ""))
                                              for i, sd in enumerate(seeds)])
        if not ctx.quick():
            storelib.design_only(ctx, "big", dict(MaxStmts=7, MaxRows=3, MaxFlush=1, MaxEvict=1, Vals="{1, 2}"), cov, timeout=300)
    finally:
        pool.close()
    drift = sum(c["drift"] for c in cov["configs"])
    if drift:
        ctx.note("%d replayed scenarios differ from the specification at the page level only" % drift)
    vlib.write_evidence(ctx, "model_checking", cov, assumptions=[
        "TLC, SANY, CommunityModules", "capacity override 3/3 (hook verifIsFull) runs the same insertion/split/scan code as 9/290",
        "SQL rendering of the abstract statements (harness/cmd/store renderStmt)"])
