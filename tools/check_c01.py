"""C01 - table contents always equal what the statement history implies."""
import vlib
import storelib

CFGS = {
    "quick": [("c01-a", dict(MaxStmts=4, MaxRows=2, MaxFlush=1), None),
              # flush, then every clean page leaves the cache, then more statements (a page changed but not marked dirty shows here)
              ("c01-e", dict(MaxStmts=5, MaxRows=2, MaxFlush=1, MaxEvict=1, Tables='{"t1"}', Vals="{1}"), 15000),
              ("c01-b", dict(MaxStmts=5, MaxRows=3, MaxFlush=0, Tables='{"t1"}', Vals="{1}"), None),
              # rows with a NULL column (value 9), rows at the 400-byte limit (value 8) and rows with an empty string (value 7)
              ("c01-n", dict(MaxStmts=5, MaxRows=1, MaxFlush=1, Tables='{"t1"}', Vals="{7, 8, 9}", Wheres="{0, 7}"), 12000)],
    "thorough": [("c01-a", dict(EmitMod=4, MaxStmts=5, MaxRows=2, MaxFlush=1), 60000),
                 ("c01-e", dict(EmitMod=16, MaxStmts=5, MaxRows=3, MaxFlush=1, MaxEvict=1, Tables='{"t1"}', Vals="{1, 2}"), 60000),
                 ("c01-b", dict(MaxStmts=7, MaxRows=3, MaxFlush=1, Tables='{"t1"}', Vals="{1}"), 40000),
                 ("c01-c", dict(EmitMod=24, MaxStmts=6, MaxRows=3, MaxFlush=0, Tables='{"t1"}', Vals="{1, 2}"), 40000),
                 ("c01-n", dict(EmitMod=20, MaxStmts=6, MaxRows=2, MaxFlush=1, Tables='{"t1"}', Vals="{7, 8, 9}", Wheres="{0, 7, 8}"), 60000)],
}


def run(ctx):
    binary = vlib.build_harness(ctx, "store")
    if ctx.replay:
        return storelib.replay_file(ctx, binary, ctx.replay)
    cov = storelib.new_cov()
    pool = vlib.WorkerPool(ctx, binary)
    try:
        for name, over, sample in CFGS[ctx.tier]:
            storelib.StoreRun(ctx, name, over, sample=sample).run(pool, storelib.default_violation(ctx), cov)
        seeds = [ctx.seed * 1000 + i for i in range(4 if ctx.quick() else 24)]
        storelib.random_runs(ctx, pool, cov, [dict(seed=sd, n=(250 if ctx.quick() else 700), caps=[], cache=0, pcrash=0, pflush=0.1, pfail=0.3, wal=False,
                                                   maxrows=(12 if i % 2 else 30), bias=("grow" if i % 2 == 0 else ""))
                                              for i, sd in enumerate(seeds)])
        if not ctx.quick():
            storelib.design_only(ctx, "big", dict(MaxStmts=7, MaxRows=3, MaxFlush=1, MaxEvict=1, Vals="{1, 2}"), cov, timeout=300)
    finally:
        pool.close()
    drift = sum(c["drift"] for c in cov["configs"])
    if drift:
        ctx.note("%d replayed scenarios differ from the specification at the page level only" % drift)
    vlib.write_evidence(ctx, "model_checking", cov, assumptions=[
        "TLC, SANY, CommunityModules", "capacity override 3/3 (hook verifIsFull) runs the same insertion/split/scan code as 9/290",
        "SQL rendering of the abstract statements (harness/cmd/store renderStmt)"])
