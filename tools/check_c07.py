"""C07 - COUNT, AVG and GROUP BY compute true aggregates."""
import json
import random
import time

import vlib
import semlib
from check_c05 import report

N = {"quick": 5000, "thorough": 80000}
FROM7 = [dict(tbl="t7", alias="", jt="", on=[])]
LIMOFFS = [(-1, -1), (-1, -1), (-1, -1), (1, -1), (-1, 1), (2, 1), (0, -1), (-1, -1), (5, 0)]


def run(ctx):
    binary = vlib.build_harness(ctx, "sem")
    sets = semlib.gen_sets(ctx)
    rng = random.Random(ctx.seed)
    tables, lgs, wheres = sets["tables7"], sets["listgroups7"], sets["wheres7"]
    cases = []
    for n, (t, lg, w) in enumerate(semlib.cover_product(rng, [tables, lgs, wheres], N[ctx.tier])):
        # LIMIT / OFFSET cut the aggregate rows, never the rows that are aggregated
        lim, off = LIMOFFS[n % len(LIMOFFS)]
        q = dict(**{"from": FROM7}, where=wheres[w], list=lgs[lg]["list"], group=lgs[lg]["group"], order=[], limit=lim, offset=off, style=n % 8)
        tab = tables[t]
        if n % 4 == 1:
            # the nullable column n first in the table: COUNT(n) counts the leading column of the input
            perm = [3, 0, 1, 2, 4, 5, 6]
            tab = dict(cols=[tab["cols"][i] for i in perm], rows=[[r[i] for i in perm] for r in tab["rows"]])
        cases.append(dict(db={"t7": tab}, q=q, _t=t))
        # the same rows in reverse insertion order: aggregates must not depend on row order
        if n % 3 == 0 and len(tables[t]["rows"]) > 1:
            rev = dict(cols=tables[t]["cols"], rows=list(reversed(tables[t]["rows"])))
            cases.append(dict(db={"t7": rev}, q=q, _t=("rev", t)))
    # aggregates on top of a join (the same table under two aliases)
    jl, fs = sets["joinlistgroups7"], sets["fromself7"][0]
    for n, (t, lg) in enumerate(semlib.cover_product(rng, [tables, jl], N[ctx.tier] // 5)):
        lim, off = LIMOFFS[(n + 3) % len(LIMOFFS)]
        q = dict(**{"from": fs}, where=[], list=jl[lg]["list"], group=jl[lg]["group"], order=[], limit=lim, offset=off, style=n % 8)
        cases.append(dict(db={"t7": tables[t]}, q=q, _t=("j", t)))
    # text grouping values that are easily confused when keys are written side by side (NULL / empty string, separator characters)
    tg = sets["tablesgrp7"]
    uv_lgs = [x for x in lgs if x["group"] and all(g["c"] in ("u", "v") for g in x["group"]) and all(it["k"] != "col" or it["alias"] == "" for it in x["list"])]
    if not uv_lgs:
        raise vlib.Undecided("no select list groups by the text columns")
    for n, (t, lg) in enumerate(semlib.cover_product(rng, [tg, uv_lgs], N[ctx.tier] // 3)):
        q = dict(**{"from": FROM7}, where=[], list=uv_lgs[lg]["list"], group=uv_lgs[lg]["group"], order=[], limit=-1, offset=-1, style=n % 8)
        cases.append(dict(db={"t7": tg[t]}, q=q, _t=("grp", t)))
    # many groups (more than any fixed-size scratch structure an implementation may keep between statements), and the same
    # statements again afterwards in the same process: 150-260 distinct values in p, three in q
    def cell(t, v=0, s=()):
        return dict(t=t, v=v, s=list(s))
    avg_lgs = [x for x in lgs if x["group"] and any(it["k"] == "avg" for it in x["list"])]
    for b in range(2 if ctx.quick() else 8):
        ng = rng.randrange(150, 260)
        rows = [[cell("i", i % ng + 1), cell("i", i % 3), cell("i", (i * 7) % 23 - 5), cell("i", i % 5) if i % 4 else cell("n"),
                 cell("s", 0, [97 + i % 2]), cell("s", 0, [97, 32, 98 + i % 2]), cell("b", i % 2) if i % 3 else cell("n")]
                for i in range(ng + rng.randrange(20, 120))]
        tab = dict(cols=tables[0]["cols"], rows=rows)
        picks = [avg_lgs[(b * 5 + j) % len(avg_lgs)] for j in range(4)]
        for rep in range(2):
            for x in picks:
                q = dict(**{"from": FROM7}, where=[], list=x["list"], group=x["group"], order=[], limit=-1, offset=-1, style=(b + rep) % 8)
                cases.append(dict(db={"t7": tab}, q=q, _t=("many", b)))
    pool = vlib.WorkerPool(ctx, binary)
    try:
        semlib.execute(ctx, pool, cases, lambda c: c["_t"], history=random.Random(ctx.seed + 7))
    finally:
        pool.close()
    big = many_groups(ctx, binary, rng)
    report(ctx, cases, "C07", "c07", extra_cov=dict(many_groups=big))


BIG_N = {"quick": 100000, "thorough": 400000}


def many_groups(ctx, binary, rng):
    """Tables in which every row is a group of its own, 10^5 of them (an implementation that identifies a group by a
    32-bit digest of its key merges two of 100 000 groups with probability 0.7 per grouping column - and there are two, integers and words -, of 400 000 with certainty): integer and
    string grouping values.  Judged by SqlSem!DistinctGroupsOK - ResultOK specialised to such tables, see SqlSem.tla -
    and small tables of the same shape are judged by both predicates, which must agree."""
    def cell(t, v=0, s=()):
        return dict(t=t, v=v, s=list(s))

    def table(n):
        # p: n distinct integers; u: n distinct words of 3-10 letters; m: the averaged column
        # (values without regularity: digests behave better than chance on counters and on words in dictionary order)
        ps = rng.sample(range(1, 2 ** 31 - 1), n)
        us = set()
        while len(us) < n:
            us.add(tuple(rng.randrange(97, 123) for _ in range(rng.randrange(3, 11))))
        us = sorted(us)
        rng.shuffle(us)
        rows = [[cell("i", ps[i]), cell("i", (i * 7) % 1000), cell("s", 0, us[i])] for i in range(n)]
        return dict(cols=[dict(n="p", ty="i"), dict(n="m", ty="i"), dict(n="u", ty="s")], rows=rows)

    def item(k, c=""):
        nul = dict(q="", c="", k="lit", val=dict(v=0, t="n", s=[]))
        return dict(k=k, ref=dict(q="", c=c), cmp=dict(l=nul, op="=", r=nul), alias="")

    def queries(style):
        return [dict(**{"from": FROM7}, where=[], list=[item("col", g), item("count"), item("avg", "m")], group=[dict(q="", c=g)],
                     order=[], limit=-1, offset=-1, style=style) for g in ("p", "u")]
    cases = []
    for k, n in enumerate([BIG_N[ctx.tier], 40 + rng.randrange(40), 3 + rng.randrange(5)]):
        tab = table(n)
        for q in queries(k):
            cases.append(dict(db={"t7": tab}, q=q, _t=("distinct", n), small=n < 1000))
    pool = vlib.WorkerPool(ctx, binary, n=2, request_timeout=900)
    t0 = time.time()
    try:
        semlib.execute(ctx, pool, cases, lambda c: c["_t"])
    finally:
        pool.close()
    t_exec = time.time() - t0
    t0 = time.time()
    got = []
    live = [c for c in cases if not c["res"].get("panic") and not c["res"].get("hang")]
    if live:
        nd = "".join(json.dumps(dict(db=c["db"], q=c["q"], small=c["small"],
                                     res=dict(err=bool(c["res"]["err"]), cols=c["res"]["cols"], rows=c["res"]["rows"]))) + "\n" for c in live)
        r = vlib.run_tlc(ctx, "SqlSemBigJudge", "SqlSemGen.cfg", workers=1, timeout=2400, tag="c07-big", files={"cases.ndjson": nd},
                         on_scn=lambda k, o: got.append(o), xss="1g", heap="12g")
        if r.status != "ok" or not got or got[0]["n"] != len(live):
            raise vlib.Undecided("SqlSemBigJudge failed\n%s" % "\n".join(r.out[-25:]))
        if got[0]["noshape"]:
            raise vlib.Undecided("many-groups cases %s are not of the shape DistinctGroupsOK is about" % got[0]["noshape"])
        if got[0]["disagree"]:
            raise vlib.Undecided("SqlSem!DistinctGroupsOK and ResultOK disagree on small cases %s" % got[0]["disagree"])
    bad = [live[j - 1] for j in (got[0]["bad"] if got else [])]
    for c in cases:
        r = c["res"]
        what = None
        if r.get("panic"):
            what = "the engine panicked: " + r["panic"].splitlines()[0]
        elif r.get("hang"):
            what = "the engine hung"
        elif any(c is b for b in bad):
            n = len(c["db"]["t7"]["rows"])
            what = "result rejected by DistinctGroupsOK (SqlSem.tla): %d rows with pairwise distinct grouping values, %d result rows%s" % (
                n, len(r.get("rows") or []), (", engine error `%s`" % r.get("msg")) if r.get("err") else "")
        if what:
            small_db = c["db"] if c["small"] else dict(t7=dict(cols=c["db"]["t7"]["cols"], rows=c["db"]["t7"]["rows"][:20], rows_total=len(c["db"]["t7"]["rows"]),
                                                               rows_rule="p: distinct random integers below 2^31, m = 7i % 1000, u: distinct random words of 3-10 letters (seeded)"))
            vlib.report_violation(ctx, dict(kind="sem-many-groups", sql=r.get("sql"), db=small_db, query=c["q"],
                                            result=dict(err=r.get("err"), msg=r.get("msg"), rows_returned=len(r.get("rows") or []), first_rows=(r.get("rows") or [])[:20]),
                                            detail=[what]), signature="many-groups|" + c["q"]["group"][0]["c"])
    return dict(cases=len(cases), rows_of_the_largest=BIG_N[ctx.tier], rejected=len(bad), seconds_engine=round(t_exec, 1), seconds_tlc=round(time.time() - t0, 1),
                rule="one table row = one group; judged by SqlSem!DistinctGroupsOK, which the small cases show to agree with ResultOK")
