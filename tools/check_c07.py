"""C07 - COUNT, AVG and GROUP BY compute true aggregates."""
import json
import random

import vlib
import semlib
from check_c05 import report

N = {"quick": 5000, "thorough": 80000}
FROM7 = [dict(tbl="t7", alias="", jt="", on=[])]
LIMOFFS = [(-1, -1), (-1, -1), (-1, -1), (1, -1), (-1, 1), (2, 1), (0, -1), (-1, -1), (5, 0)]


def run(ctx):
    binary = vlib.build_harness(ctx, "sem")
    sets = semlib.gen_sets(ctx)
    rng = random.Random(ctx.seed)
    tables, lgs, wheres = sets["tables7"], sets["listgroups7"], sets["wheres7"]
    cases = []
    for n, (t, lg, w) in enumerate(semlib.cover_product(rng, [tables, lgs, wheres], N[ctx.tier])):
        # LIMIT / OFFSET cut the aggregate rows, never the rows that are aggregated
        lim, off = LIMOFFS[n % len(LIMOFFS)]
        q = dict(**{"from": FROM7}, where=wheres[w], list=lgs[lg]["list"], group=lgs[lg]["group"], order=[], limit=lim, offset=off, style=n % 8)
        tab = tables[t]
        if n % 4 == 1:
            # the nullable column n first in the table: COUNT(n) counts the leading column of the input
            perm = [3, 0, 1, 2, 4, 5, 6]
            tab = dict(cols=[tab["cols"][i] for i in perm], rows=[[r[i] for i in perm] for r in tab["rows"]])
        cases.append(dict(db={"t7": tab}, q=q, _t=t))
        # the same rows in reverse insertion order: aggregates must not depend on row order
        if n % 3 == 0 and len(tables[t]["rows"]) > 1:
            rev = dict(cols=tables[t]["cols"], rows=list(reversed(tables[t]["rows"])))
            cases.append(dict(db={"t7": rev}, q=q, _t=("rev", t)))
    # aggregates on top of a join (the same table under two aliases)
    jl, fs = sets["joinlistgroups7"], sets["fromself7"][0]
    for n, (t, lg) in enumerate(semlib.cover_product(rng, [tables, jl], N[ctx.tier] // 5)):
        lim, off = LIMOFFS[(n + 3) % len(LIMOFFS)]
        q = dict(**{"from": fs}, where=[], list=jl[lg]["list"], group=jl[lg]["group"], order=[], limit=lim, offset=off, style=n % 8)
        cases.append(dict(db={"t7": tables[t]}, q=q, _t=("j", t)))
    # many groups (more than any fixed-size scratch structure an implementation may keep between statements), and the same
    # statements again afterwards in the same process: 150-260 distinct values in p, three in q
    def cell(t, v=0, s=()):
        return dict(t=t, v=v, s=list(s))
    avg_lgs = [x for x in lgs if x["group"] and any(it["k"] == "avg" for it in x["list"])]
    for b in range(2 if ctx.quick() else 8):
        ng = rng.randrange(150, 260)
        rows = [[cell("i", i % ng + 1), cell("i", i % 3), cell("i", (i * 7) % 23 - 5), cell("i", i % 5) if i % 4 else cell("n"),
                 cell("s", 0, [97 + i % 2]), cell("s", 0, [97, 32, 98 + i % 2]), cell("b", i % 2) if i % 3 else cell("n")]
                for i in range(ng + rng.randrange(20, 120))]
        tab = dict(cols=tables[0]["cols"], rows=rows)
        picks = [avg_lgs[(b * 5 + j) % len(avg_lgs)] for j in range(4)]
        for rep in range(2):
            for x in picks:
                q = dict(**{"from": FROM7}, where=[], list=x["list"], group=x["group"], order=[], limit=-1, offset=-1, style=(b + rep) % 8)
                cases.append(dict(db={"t7": tab}, q=q, _t=("many", b)))
    pool = vlib.WorkerPool(ctx, binary)
    try:
        semlib.execute(ctx, pool, cases, lambda c: c["_t"])
    finally:
        pool.close()
    report(ctx, cases, "C07", "c07")
