"""C07 - COUNT, AVG and GROUP BY compute true aggregates."""
import json
import random

import vlib
import semlib
from check_c05 import report

N = {"quick": 5000, "thorough": 80000}
FROM7 = [dict(tbl="t7", alias="", jt="", on=[])]


def running_rounded_mean(vals):
    m = 0
    for i, x in enumerate(vals, 1):
        m = int(round_half_away((m * (i - 1) + x) / i))
    return m


def round_half_away(x):
    import math
    return math.floor(x + 0.5) if x >= 0 else -math.floor(-x + 0.5)


def _val(row, names, o):
    return row[names.index(o["c"])] if o["k"] == "col" else o["val"]


def _holds(row, names, c):
    x, y = _val(row, names, c["l"]), _val(row, names, c["r"])
    if x["t"] == "n" or y["t"] == "n":
        return c["op"] == "!=" and x != y
    a, b = x["v"], y["v"]
    return {"=": a == b, "!=": a != b, "<": a < b, "<=": a <= b, ">": a > b, ">=": a >= b}[c["op"]]


def avg_finding(c, r):
    """Signature of the known finding avg-running-rounding, evaluated on the case itself: the result has exactly one
    row per true group with the right grouping values and the right counts, and every AVG cell equals the code's
    running rounded mean (mean re-rounded after every row, in scan order) of that group's values.  Any other wrong
    result does not match and is reported as a violation."""
    q = c["q"]
    if r.get("err") or not any(it["k"] == "avg" for it in q["list"]) or len(q["from"]) != 1:
        return []
    tbl = c["db"][q["from"][0]["tbl"]]
    names = [col["n"] for col in tbl["cols"]]
    rows = [row for row in tbl["rows"] if not q["where"] or any(all(_holds(row, names, cm) for cm in conj) for conj in q["where"])]
    gcols = []
    for g in q["group"]:
        hit = [i for i, it in enumerate(q["list"]) if it["k"] == "col" and (it["alias"] == g["c"] or it["ref"]["c"] == g["c"])]
        if len(hit) != 1:
            return []
        gcols.append((hit[0], names.index(q["list"][hit[0]]["ref"]["c"])))
    groups = {}
    for row in rows:
        groups.setdefault(json.dumps([row[ci] for _, ci in gcols], sort_keys=True), []).append(row)
    out_rows = r.get("rows") or []
    if not q["group"]:
        if len(out_rows) != 1:
            return []
        pairs = [(out_rows[0], rows)]
    else:
        if len(out_rows) != len(groups):
            return []
        pairs = []
        for out in out_rows:
            k = json.dumps([out[li] for li, _ in gcols], sort_keys=True)
            if k not in groups:
                return []
            pairs.append((out, groups.pop(k)))
    differs = False
    for out, members in pairs:
        for i, it in enumerate(q["list"]):
            if it["k"] == "count" and out[i]["v"] != len(members):
                return []
            if it["k"] == "countcol" and out[i]["v"] != sum(1 for m in members if m[names.index(it["ref"]["c"])]["t"] != "n"):
                return []
            if it["k"] == "avg":
                vs = [m[names.index(it["ref"]["c"])]["v"] for m in members]
                if not vs:
                    if out[i]["v"] != 0:
                        return []
                    continue
                if out[i]["v"] != running_rounded_mean(vs):
                    return []
                if 2 * abs(out[i]["v"] * len(vs) - sum(vs)) > len(vs):
                    differs = True
    return ["avg-running-rounding"] if differs else []


def run(ctx):
    binary = vlib.build_harness(ctx, "sem")
    sets = semlib.gen_sets(ctx)
    rng = random.Random(ctx.seed)
    tables, lgs, wheres = sets["tables7"], sets["listgroups7"], sets["wheres7"]
    cases = []
    for n, (t, lg, w) in enumerate(semlib.cover_product(rng, [tables, lgs, wheres], N[ctx.tier])):
        q = dict(**{"from": FROM7}, where=wheres[w], list=lgs[lg]["list"], group=lgs[lg]["group"], order=[], limit=-1, offset=-1, style=n % 8)
        cases.append(dict(db={"t7": tables[t]}, q=q, _t=t))
        # the same rows in reverse insertion order: aggregates must not depend on row order
        if n % 3 == 0 and len(tables[t]["rows"]) > 1:
            rev = dict(cols=tables[t]["cols"], rows=list(reversed(tables[t]["rows"])))
            cases.append(dict(db={"t7": rev}, q=q, _t=("rev", t)))
    pool = vlib.WorkerPool(ctx, binary)
    try:
        semlib.execute(ctx, pool, cases, lambda c: c["_t"])
    finally:
        pool.close()
    report(ctx, cases, "C07", "c07", finding_of=avg_finding)
