"""C10 - parsing is faithful: the text of a statement yields that statement.

SqlGrammar.tla defines the supported grammar: a bounded universe of abstract
statements and the operator Toks (the grammar read left to right).  TLC
enumerates every complete derivation (ast, toks).  The Go harness spells toks
in every rendering (optional keywords INNER/AS/ASC present, absent, mixed;
terminator present/absent; keyword case upper/lower/mixed; single blanks, line
breaks and tabs, no blanks next to punctuation; GROUP BY lists also in the
blank-separated form the parser has always accepted), parses each text exactly
as engine.parseSQL does, and maps the parser's AST field by field to the
specification's shape.  Verdict: every rendering must give exactly `ast`.

  * a different AST, a list cut short, a panic            -> VIOLATION
  * a parse error for a statement of the grammar          -> VIOLATION too: the
    grammar is by construction the supported one.  Constructs the code refuses
    by design are not generated (REFUSED_BY_DESIGN).
  * statements with characters outside ASCII are also written as texts longer than
    the scanner's 1024-byte buffer: the blanks in front of such a literal or
    identifier are stretched until each of its bytes in turn lies on the offsets
    1020..1030 and 2044..2052 (white space between tokens is insignificant).
  * trailing-token scenarios (junk = 1): a complete statement followed by one
    token that can never continue a statement (SqlGrammar!NeverContinues) must
    not be read as that statement (the mechanism by which clauses get cut).
"""
import json
import threading

import sqlfe_lib as fe
import vlib

# What parser.go refuses on purpose although the grammar can spell it.  None of these is generated:
# SqlGrammar!StmtWF filters them out of the universe.
REFUSED_BY_DESIGN = [
    ("select list with a column that is neither grouped nor aggregated, or a GROUP BY column matching two select columns or none",
     "parser.go validateGroupByFields (ErrInvalidGroupByColumn / ErrAmbiguousGroupByColumn / ErrGroupByColumnNotSelected); mirrored by SqlGrammar!GroupOK"),
    ("`*` with an alias or next to other select items; clauses after a select list without FROM",
     "parser.go SelectList returns after `*`; Select requires FROM when tokens remain; mirrored by SqlGrammar!SelectWF"),
]

TRAIL_SLICES_T = ["given", "sel_limit", "sel_order", "sel_star", "ins_cols", "upd_one", "del_all", "create_table",
                  "create_database", "use", "show"]

TIERS = {
    "quick": dict(main=dict(size="Q", slices="MC_AllSlices"),
                  trail=dict(size="S", slices=["given"], stmts="MC_Cover")),
    "thorough": dict(main=dict(size="T", slices="MC_AllSlices"),
                     trail=dict(size="Q", slices=TRAIL_SLICES_T, stmts="MC_Cover")),
}

MAX_HANGS = 5

STMT_KINDS = ["select", "insert", "update", "delete", "create_table", "create_database", "use", "show_databases"]


def first_diff(e, g, path=""):
    """Path of the first difference between expected and observed AST."""
    if type(e) is not type(g):
        return path + ":type"
    if isinstance(e, dict):
        if set(e) != set(g):
            return path + ":fields"
        if e.get("k") != g.get("k"):
            return path + ".k"
        for k in sorted(e):
            d = first_diff(e[k], g[k], path + "." + k if path else k)
            if d:
                return d
        return None
    if isinstance(e, list):
        if len(e) != len(g):
            return "%s:len(%d->%d)" % (path, len(e), len(g))
        for i, (a, b) in enumerate(zip(e, g)):
            d = first_diff(a, b, "%s[%d]" % (path, i))
            if d:
                return d
        return None
    return None if e == g else path


def walk(o, f):
    f(o)
    if isinstance(o, dict):
        for v in o.values():
            walk(v, f)
    elif isinstance(o, list):
        for v in o:
            walk(v, f)


class Tally:
    """What the enumerated statements exercised (vacuity)."""

    def __init__(self):
        self.kinds = {}
        self.ops = set()
        self.nodes = set()
        self.jts = set()
        self.dirs = set()
        self.forms = set()
        self.marks = set()
        self.types = set()
        self.maxlen = {}
        self.strs = set()
        self.toktypes = set()
        self.maxint = 0
        self.maxlimit = 0

    def add(self, scn):
        ast = scn["ast"]
        self.kinds[ast["k"]] = self.kinds.get(ast["k"], 0) + 1
        self.forms.add(scn["form"])
        for x in ast.get("limit", []) + ast.get("offset", []) if ast["k"] == "select" else []:
            self.maxlimit = max(self.maxlimit, x.get("i", 0))
        for t in scn["toks"]:
            self.toktypes.add(t[0])
            if t[2]:
                self.marks.add(t[2] + ":" + t[1])

        def f(o):
            if isinstance(o, dict):
                k = o.get("k")
                if k:
                    self.nodes.add(k)
                if k == "cmp":
                    self.ops.add(o["op"])
                if k == "str":
                    self.strs.add(o["s"])
                if k == "int":
                    self.maxint = max(self.maxint, o["i"])
                if "jt" in o:
                    self.jts.add(o["jt"])
                if "dir" in o:
                    self.dirs.add(o["dir"])
                if "len" in o and "k" in o:
                    self.types.add(o["k"])
                for name in ("items", "joins", "group", "order", "rows", "set", "defs", "cols"):
                    if isinstance(o.get(name), list):
                        self.maxlen[name] = max(self.maxlen.get(name, 0), len(o[name]))
        walk(ast, f)

    def missing(self, token_texts):
        m = []
        # string literals whose content, without the quotes, is a token of the dialect (sql.Tokens, from the harness)
        look = {x for x in self.strs if x.upper() in token_texts}
        if not any(x.isalpha() for x in look):
            m.append("string literal spelling a keyword")
        if not any(not x.isalnum() for x in look):
            m.append("string literal spelling an operator or punctuation")
        if "" not in self.strs:
            m.append("empty string literal")
        if "QID" not in self.toktypes:
            m.append("delimited identifier")
        if self.maxint < 2 ** 63 - 1:
            m.append("integer literal 2^63-1")
        if self.maxlimit < 2 ** 63 - 1:
            m.append("LIMIT/OFFSET 2^63-1")
        for k in STMT_KINDS:
            if not self.kinds.get(k):
                m.append("statement kind " + k)
        for op in ["=", "!=", "<", ">", "<=", ">="]:
            if op not in self.ops:
                m.append("operator " + op)
        for n in ["and", "or", "cmp", "col", "int", "str", "bool", "count", "avg", "star"]:
            if n not in self.nodes:
                m.append("node " + n)
        for j in ["INNER", "LEFT", "RIGHT"]:
            if j not in self.jts:
                m.append("join " + j)
        for d in ["ASC", "DESC"]:
            if d not in self.dirs:
                m.append("direction " + d)
        for f_ in ["LO", "OL"]:
            if f_ not in self.forms:
                m.append("LIMIT/OFFSET order " + f_)
        for mk in ["kw:INNER", "kw:AS", "kw:ASC", "term:;", "legacy:,"]:
            if mk not in self.marks:
                m.append("optional token " + mk)
        for t in ["INT", "BIGINT", "VARCHAR", "BOOLEAN"]:
            if t not in self.types:
                m.append("column type " + t)
        for name, need in (("items", 3), ("joins", 2), ("group", 3), ("order", 3), ("rows", 3), ("set", 3), ("defs", 4)):
            if self.maxlen.get(name, 0) < need:
                m.append("list %s of length %d" % (name, need))
        return m


def classify(scn, g):
    """None if the rendering group g agrees with the specification, else (signature, finding ids, what)."""
    exp = scn["ast"]
    if g["kind"] == "hang":
        return ("front-end-hang", ["front-end-hang"], "the front end did not return (watchdog)")
    if scn["junk"] == 0:
        if g["kind"] == "stmt":
            if g.get("ast") == exp:
                return None
            d = first_diff(exp, g.get("ast")) or "?"
            if d.startswith("group:len(") and len(g["ast"].get("group", [])) < len(exp.get("group", [])):
                return ("groupby-list-cut", ["parser-groupby-comma-cut"], "GROUP BY list cut short: " + d)
            import re
            return ("different-ast:" + re.sub(r"\[\d+\]", "[]", re.sub(r"\d+", "N", d)), [], "parsed to a different statement, first difference at " + d)
        if g["kind"] == "panic":
            msg = g.get("msg", "")
            func = msg.rsplit(" in ", 1)[-1] if " in " in msg else ""
            fid = fe.panic_id(func, msg)
            return ("panic:" + fid, [fid], "the parser panicked: " + msg)
        import re
        norm = re.sub(r"`[^`]*`", "`_`", g.get("msg", ""))
        return ("refused:" + norm, [], "a statement of the supported grammar was refused: " + g.get("msg", ""))
    # trailing token
    if g["kind"] == "stmt" and g.get("ast") == exp:
        return ("trailing-token-ignored", ["parser-trailing-ignored"],
                "the token after the complete statement was silently ignored (same statement returned)")
    if g["kind"] == "panic":
        msg = g.get("msg", "")
        fid = fe.panic_id(msg.rsplit(" in ", 1)[-1] if " in " in msg else "", msg)
        return ("panic:" + fid, [fid], "the parser panicked: " + msg)
    return None


def wants_long(scn):
    """Statements with characters outside ASCII are also written as texts longer than the scanner's buffer."""
    return scn["junk"] == 0 and any(not t[1].isascii() for t in scn["toks"])


def replay(ctx, pool):
    p = json.load(open(ctx.replay))
    scn = p["scenario"]
    res = fe.one_request(pool, dict(mode="c10", toks=scn["toks"], trail=scn["junk"] > 0, long=wants_long(scn), id=0))
    bad = [(g, classify(scn, g)) for g in res.get("groups", [])]
    bad = [(g, c) for g, c in bad if c]
    print("replay of %s: %d renderings parsed, %d disagree" % (ctx.replay, res.get("n", 0), len(bad)))
    for g, c in bad[:5]:
        print("  text: %r\n  %s\n  expected: %s\n  observed: %s" % (g["text"], c[2], fe.dumps(scn["ast"]), fe.dumps(g.get("ast") or g.get("msg"))))
    if bad:
        g, c = bad[0]
        vlib.report_violation(ctx, dict(kind="c10-replay", scenario=scn, text=g["text"], renderings=g["renderings"],
                                        expected=scn["ast"], observed=g.get("ast"), observed_kind=g["kind"], message=g.get("msg"),
                                        what=c[2]), signature=c[0], finding_ids=c[1])


def run(ctx):
    binary = vlib.build_harness(ctx, "sqlfe")
    pool = vlib.WorkerPool(ctx, binary, n=min(8, vlib.NCPU))
    try:
        if ctx.replay:
            replay(ctx, pool)
            return
        _run(ctx, pool)
    finally:
        pool.close()


def _run(ctx, pool):
    tier = TIERS[ctx.tier]
    lock = threading.Lock()
    pending = {}
    nextid = [0]
    tally = Tally()
    stats = dict(scenarios=0, trailing_scenarios=0, renderings=0, error_renderings=0, panic_renderings=0, long_scenarios=0,
                 long_rendering_groups=0)   # long_rendering_groups: texts longer than the scanner's buffer that were parsed
    distinct = set()
    nontrivial = set()
    viol = {}      # signature -> dict(count, example)
    samples = []
    configs = []

    hangs = [0]
    retry = []

    def stopped():
        return hangs[0] >= MAX_HANGS

    def make_request(scn):
        if fe.has_escape(scn["toks"]):
            scn["toks"] = fe.unescape(scn["toks"])
            scn["ast"] = fe.unescape(scn["ast"])
        if any(t[0] == "INT" and len(t[1]) > 9 for t in scn["toks"]):
            scn["ast"] = fe.bigints(scn["ast"])     # decimal text -> the integer it denotes
        long_ = wants_long(scn)
        with lock:
            nextid[0] += 1
            i = nextid[0]
            pending[i] = scn
        return dict(mode="c10", toks=scn["toks"], trail=scn["junk"] > 0, long=long_, id=i)

    def on_result(req, res):
        if res.get("fatal"):
            retry.append(req)
            return
        if not res.get("ok"):
            raise vlib.Undecided("harness error: %r" % (res,))
        with lock:
            scn = pending.pop(req["id"])
            if scn["junk"] == 0:
                stats["scenarios"] += 1
                tally.add(scn)
                key = hash(fe.dumps(scn["ast"]))
                distinct.add(key)
                if scn["nt"]:
                    nontrivial.add(key)
            else:
                stats["trailing_scenarios"] += 1
            stats["renderings"] += res["n"]
            if req.get("long"):
                stats["long_scenarios"] += 1
            stats["long_rendering_groups"] += res.get("nlong", 0)
            for g in res["groups"]:
                if g["kind"] == "hang":
                    hangs[0] += 1
                if g["kind"] == "error":
                    stats["error_renderings"] += 1
                elif g["kind"] == "panic":
                    stats["panic_renderings"] += 1
                c = classify(scn, g)
                if c is None:
                    continue
                sig, fids, what = c
                v = viol.setdefault(sig, dict(count=0, example=None, fids=fids))
                v["count"] += 1
                size = (len(scn["toks"]), len(g["text"]))
                if v["example"] is None or size < v["example"]["size"]:
                    v["example"] = dict(size=size, scn=scn, group=g, what=what)
            if scn["junk"] == 0 and scn["nt"] and len(samples) < 4 and len(scn["toks"]) > 14 and res["groups"]:
                samples.append(dict(ast=scn["ast"], text=res["groups"][0]["text"], renderings_parsed=res["n"],
                                    distinct_results=len(res["groups"])))

    m = tier["main"]
    res = fe.stream_tlc(ctx, pool, "c10", fe.cfg(m["size"], m["slices"], init="GenPick", next_="GenNextComplete",
                                                invariants=("GrammarUsesOnly",)),
                        make_request, on_result, timeout=1500, stop=stopped)
    configs.append(dict(run="complete derivations", size=m["size"], distinct_states=res.distinct, generated=res.generated,
                        scenarios=res.scenarios, tlc_wall_s=round(res.wall, 1)))
    # conditions of four comparisons, every grouping (a AND b AND c OR d ...): the small vocabulary, one more leaf than the main run
    res = None if stopped() else fe.stream_tlc(ctx, pool, "c10four", fe.cfg("S", ["sel_where_tree", "del_tree"], init="GenPick", next_="GenNextComplete",
                                                                            invariants=("GrammarUsesOnly",), bounds=dict(MaxLeaves=4)),
                                               make_request, on_result, timeout=900, stop=stopped)
    if res is not None:
        configs.append(dict(run="conditions of up to four comparisons", size="S", distinct_states=res.distinct, generated=res.generated,
                            scenarios=res.scenarios, tlc_wall_s=round(res.wall, 1)))
    t = tier["trail"]
    res = None if stopped() else fe.stream_tlc(ctx, pool, "c10trail", fe.cfg(t["size"], t["slices"], stmts=t["stmts"], vocab="MC_TrailVocab",
                                                     vocab2="MC_None", max_junk=1, at_end=True, init="GenPick",
                                                     next_="GenNextComplete", invariants=("GrammarUsesOnly",)),
                        make_request, on_result, timeout=900, stop=stopped)
    if res is not None:
        configs.append(dict(run="statement + one token that cannot continue it", size=t["size"], distinct_states=res.distinct,
                            generated=res.generated, scenarios=res.scenarios, tlc_wall_s=round(res.wall, 1)))
    if retry:
        # requests whose worker died under them: one at a time, so that a death is blamed on the right statement
        again, retry[:] = list(retry), []

        def on_retry(req, res):
            if res.get("fatal"):
                scn = pending.pop(req["id"])
                v = viol.setdefault("front-end-fatal-crash", dict(count=0, example=None, fids=["front-end-fatal-crash"]))
                v["count"] += 1
                if v["example"] is None:
                    v["example"] = dict(size=(0, 0), scn=scn, what="the worker process died: " + "; ".join(res.get("viol", []))[:500],
                                        group=dict(text="", renderings=["?"], kind="fatal", msg="; ".join(res.get("viol", []))[:500]))
                return
            on_result(req, res)
        pool.run_all(again, on_retry, chunk=1)
    if stopped():
        ctx.note("stopped feeding statements after %d hangs (each costs a watchdog period); coverage of this run is partial" % hangs[0])
        pending.clear()
    if pending:
        raise vlib.Undecided("%d scenarios were not answered" % len(pending))

    # ---- vacuity
    info = fe.one_request(pool, dict(mode="info"))
    missing = [] if stopped() else tally.missing({v.upper() for v in info["kinds"].values()})
    if not stopped() and (stats["long_scenarios"] == 0 or stats["long_rendering_groups"] == 0):
        missing.append("texts longer than the scanner's buffer")
    if not stopped() and not any(any(ord(ch) > 0xFFFF for ch in x) for x in tally.strs):
        missing.append("string literal with a 4-byte character")
    if missing:
        raise vlib.Undecided("vacuous: the enumerated statements never used: " + "; ".join(missing))
    if stats["trailing_scenarios"] == 0 and not stopped():
        raise vlib.Undecided("vacuous: no trailing-token scenario")

    # ---- violations: one replay file per signature, smallest example, re-run once before it is believed
    for sig in sorted(viol):
        v = viol[sig]
        ex = v["example"]
        scn, g = ex["scn"], ex["group"]
        if sig == "front-end-fatal-crash":
            vlib.report_violation(ctx, dict(kind="c10", signature=sig, what=ex["what"], cases_with_this_signature=v["count"],
                                            scenario=dict(ast=scn["ast"], toks=scn["toks"], junk=scn["junk"], form=scn["form"])),
                                  signature=sig, finding_ids=v["fids"])
            continue
        again = fe.one_request(pool, dict(mode="c10", toks=scn["toks"], trail=scn["junk"] > 0, long=wants_long(scn), id=0))
        same = [h for h in again.get("groups", []) if h["text"] == g["text"] or h["renderings"][0] == g["renderings"][0]]
        if not same or classify(scn, same[0]) is None or classify(scn, same[0])[0] != sig:
            raise vlib.Undecided("violation %s did not reproduce on a second run" % sig)
        vlib.report_violation(ctx, dict(kind="c10", signature=sig, what=ex["what"], cases_with_this_signature=v["count"],
                                        scenario=dict(ast=scn["ast"], toks=scn["toks"], junk=scn["junk"], form=scn["form"], nt=scn.get("nt", False)),
                                        text=g["text"], renderings=g["renderings"], expected=scn["ast"],
                                        observed=g.get("ast"), observed_kind=g["kind"], message=g.get("msg")),
                              signature=sig, finding_ids=v["fids"])

    cov = dict(evaluations=stats["renderings"], distinct_nontrivial=len(nontrivial),
               rule="TLC enumerates every slice of the statement universe (SqlGrammar!Slice over SliceNames and SliceSizes) for the tier's pools (each clause varied exhaustively within its "
                    "bound, others at a base value, plus a combination slice); evaluations = texts parsed by the real front end "
                    "(distinct renderings of all scenarios); distinct = distinct abstract statements; non-trivial = SqlGrammar!NonTrivial: "
                    "the statement has an optional token (INNER/AS/ASC or a GROUP BY separator) or a condition tree with an AND/OR node",
               samples=samples, exhaustive=True, statements=len(distinct), scenarios=stats["scenarios"],
               trailing_scenarios=stats["trailing_scenarios"], statements_also_rendered_longer_than_scanner_buffer=stats["long_scenarios"], texts_longer_than_scanner_buffer=stats["long_rendering_groups"],
               renderings_with_error=stats["error_renderings"],
               renderings_with_panic=stats["panic_renderings"], statement_kinds=tally.kinds, max_list_lengths=tally.maxlen,
               configs=configs, violation_signatures={k: v["count"] for k, v in viol.items()},
               refused_by_design_not_generated=[r[0] for r in REFUSED_BY_DESIGN])
    vlib.write_evidence(ctx, "exploration", cov, assumptions=[
        "TLC/SANY and the CommunityModules Json module are correct",
        "the renderer in harness/cmd/sqlfe (keyword case, white space, quotes, dropping optional tokens) spells the abstract tokens faithfully",
        "the AST converter in harness/cmd/sqlfe maps every field of the parser's result (unknown shapes map to a value that equals nothing)",
        "bounded: identifiers/literals from small vocabularies, list lengths and tree sizes as in SqlGrammarMC / sqlfe_lib.BOUNDS"])
