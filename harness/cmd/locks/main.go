// Command locks records lock-protocol traces from the real goroutines (C13):
// the session goroutine runs statements while the store's own 100 ms ticker
// goroutine flushes; a statement is parked inside its critical section (right
// after its first page change, or inside its log append) until the flusher has
// demonstrably tried to take the lock, so that the overlap the property is
// about happens on every run instead of once in a blue moon.
//
// usage: locks <out.ndjson> <seed> <rounds> [leafcap intcap]     (prints a JSON summary)
package main

import (
	"bufio"
	"encoding/json"
	"fmt"
	"math/rand"
	"os"
	"runtime"
	"strconv"
	"strings"
	"sync"
	"syscall"
	"time"

	"github.com/mk6i/mkdb/engine"
	"github.com/mk6i/mkdb/sql"
	"github.com/mk6i/mkdb/storage"
)

// direct runs a statement the way cmd/csvimport does: parsed, then handed to the engine's Evaluate function with the
// session's store, without going through Session.ExecQuery. The lock discipline must hold on this path too.
func direct(sess *engine.Session, q string) error {
	ts := sql.NewTokenScanner(strings.NewReader(q))
	tl := sql.TokenList{}
	for ts.Next() {
		tl.Add(ts.Cur())
	}
	p := sql.Parser{TokenList: tl}
	stmt, err := p.Parse()
	if err != nil {
		return err
	}
	switch st := stmt.(type) {
	case sql.InsertStatement:
		_, err = engine.EvaluateInsert(st, sess.RelationService)
	case sql.Select:
		_, _, err = engine.EvaluateSelect(st, sess.RelationService)
	default:
		err = sess.ExecQuery(q)
	}
	return err
}

type event struct {
	Seq int    `json:"seq"`
	G   string `json:"g"`
	E   string `json:"e"`
	K   string `json:"k,omitempty"`
}

var (
	mu        sync.Mutex
	events    []event
	sessGoid  int64
	recording bool
	parkAt    string // "", "dirty", "wlen"
	parked    bool
	triedCh   chan struct{}
	stats     = map[string]int{}
	fState    = "idle" // flusher goroutine: idle | tried | holding (tracked even while not recording)
)

func goid() int64 {
	var buf [64]byte
	n := runtime.Stack(buf[:], false)
	f := strings.Fields(string(buf[:n]))
	id, _ := strconv.ParseInt(f[1], 10, 64)
	return id
}

func sink(kind string) {
	g := "F"
	me := goid()
	mu.Lock()
	if me == sessGoid {
		g = "S"
	}
	if g == "F" {
		switch kind {
		case "X?":
			fState = "tried"
		case "X+":
			fState = "holding"
		case "X-":
			fState = "idle"
		}
	}
	if !recording {
		mu.Unlock()
		return
	}
	events = append(events, event{Seq: len(events) + 1, G: g, E: kind})
	doPark := false
	var ch chan struct{}
	if g == "S" && kind == parkAt && !parked {
		parked = true
		doPark = true
		triedCh = make(chan struct{})
		ch = triedCh
	}
	if g == "F" && kind == "X?" && triedCh != nil {
		close(triedCh)
		triedCh = nil
	}
	mu.Unlock()
	if doPark {
		// hold the statement open until the flusher has announced itself (a correct flusher now blocks on
		// the lock; a broken one goes ahead and writes), then a little longer so that a broken one shows
		select {
		case <-ch:
			mu.Lock()
			stats["parked-until-flusher-tried"]++
			mu.Unlock()
			time.Sleep(15 * time.Millisecond)
		case <-time.After(400 * time.Millisecond):
			mu.Lock()
			stats["park-timeout"]++
			triedCh = nil
			mu.Unlock()
		}
	}
}

func mark(e, k string) {
	mu.Lock()
	events = append(events, event{Seq: len(events) + 1, G: "S", E: e, K: k})
	mu.Unlock()
}

func main() {
	out := os.Args[1]
	seed, _ := strconv.ParseInt(os.Args[2], 10, 64)
	rounds, _ := strconv.Atoi(os.Args[3])
	capLeaf, capInt := 0, 0 // optional: page capacities (small ones make catalog pages split early)
	if len(os.Args) > 5 {
		capLeaf, _ = strconv.Atoi(os.Args[4])
		capInt, _ = strconv.Atoi(os.Args[5])
	}
	rng := rand.New(rand.NewSource(seed))
	fd, _ := syscall.Dup(1)
	proto := os.NewFile(uintptr(fd), "proto")
	devnull, _ := os.OpenFile(os.DevNull, os.O_WRONLY, 0)
	syscall.Dup2(int(devnull.Fd()), 1)
	os.Stdout = devnull

	runtime.LockOSThread()
	sessGoid = goid()
	os.RemoveAll("data")
	storage.VerifAutoFlushDefault() // real timers
	storage.VerifSetCaps(capLeaf, capInt)
	// VERIF_LOCKS_FREE=1 (used under the race detector): no event sink, no parking - the hooks' own mutex would order
	// the flusher's steps before the session's next statement and hide unsynchronised accesses from happens-before analysis
	free := os.Getenv("VERIF_LOCKS_FREE") == "1"
	if !free {
		storage.VerifSetEventSink(sink)
	}
	if err := storage.InitStorage(); err != nil {
		fmt.Fprintln(proto, `{"ok":false,"err":"init"}`)
		return
	}
	sess := &engine.Session{}
	must := func(q string) {
		if err := sess.ExecQuery(q); err != nil {
			fmt.Fprintf(proto, `{"ok":false,"err":%q}`+"\n", q+": "+err.Error())
			os.Exit(0)
		}
	}
	must("CREATE DATABASE ldb")
	must("USE ldb")
	f, _ := os.Create(out)
	w := bufio.NewWriter(f)
	enc := json.NewEncoder(w)
	tables := 0
	rowsIn := map[string]int{}
	// start recording at a moment when the flusher is between two flushes
	for !free {
		mu.Lock()
		if fState == "idle" {
			events = append(events, event{Seq: 1, G: "S", E: "reset"})
			recording = true
			mu.Unlock()
			break
		}
		mu.Unlock()
		time.Sleep(time.Millisecond)
	}
	for r := 0; r < rounds; r++ {
		// one statement of each kind per round, in random order, each parked at a random point
		kinds := []string{"create", "insert", "update", "delete", "select", "insert"}
		rng.Shuffle(len(kinds), func(i, j int) { kinds[i], kinds[j] = kinds[j], kinds[i] })
		for _, k := range kinds {
			var q string
			t := fmt.Sprintf("t%d", 1+rng.Intn(max(tables, 1)))
			switch k {
			case "create":
				tables++
				t = fmt.Sprintf("t%d", tables)
				q = fmt.Sprintf("CREATE TABLE %s (a INT, b VARCHAR(16))", t)
			case "insert":
				if tables == 0 {
					continue
				}
				n := 1 + rng.Intn(12)
				var vs []string
				for i := 0; i < n; i++ {
					vs = append(vs, fmt.Sprintf("(%d, 'v%d')", rng.Intn(5), rng.Intn(100)))
				}
				rowsIn[t] += n
				q = fmt.Sprintf("INSERT INTO %s (a, b) VALUES %s", t, strings.Join(vs, ", "))
			case "update":
				if tables == 0 {
					continue
				}
				q = fmt.Sprintf("UPDATE %s SET b = 'u%d' WHERE a = %d", t, rng.Intn(100), rng.Intn(5))
			case "delete":
				if tables == 0 {
					continue
				}
				q = fmt.Sprintf("DELETE FROM %s WHERE a = %d", t, rng.Intn(5))
			case "select":
				if tables == 0 {
					continue
				}
				q = fmt.Sprintf("SELECT * FROM %s WHERE a = %d", t, rng.Intn(5))
			}
			mu.Lock()
			switch rng.Intn(3) {
			case 0:
				parkAt = "dirty"
			case 1:
				parkAt = "wlen"
			default:
				parkAt = "S+" // SELECT changes nothing: park right after taking the lock
			}
			if k == "select" {
				parkAt = "S+"
			}
			parked = false
			mu.Unlock()
			if !free {
				mark("begin", k)
			}
			var err error
			if (k == "insert" || k == "select") && rng.Intn(2) == 0 {
				err = direct(sess, q)
				mu.Lock()
				stats["stmt-direct"]++
				mu.Unlock()
			} else {
				err = sess.ExecQuery(q)
			}
			if !free {
				mark("end", k)
			}
			mu.Lock()
			stats["stmt-"+k]++
			if err != nil {
				stats["stmt-error"]++
			}
			mu.Unlock()
			if free {
				// long enough, now and then, for a tick to fall between two statements
				time.Sleep(time.Duration(rng.Intn(3)*60) * time.Millisecond)
				continue
			}
			time.Sleep(time.Duration(rng.Intn(40)) * time.Millisecond)
		}
	}
	mu.Lock()
	recording = false
	for i := range events {
		events[i].Seq = i + 1
		enc.Encode(events[i])
	}
	stats["events"] += len(events)
	mu.Unlock()
	w.Flush()
	f.Close()
	sess.Close()
	b, _ := json.Marshal(map[string]interface{}{"ok": true, "stats": stats})
	fmt.Fprintln(proto, string(b))
}

func max(a, b int) int {
	if a > b {
		return a
	}
	return b
}
