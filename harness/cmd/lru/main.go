// Command lru replays Lru.tla scenarios against storage.LRUCache (C15) and
// records random long runs as NDJSON traces for LruTrace.tla.
package main

import (
	"bufio"
	"encoding/json"
	"fmt"
	"math/rand"
	"os"
	"sort"

	"github.com/mk6i/mkdb/storage"
)

type ret struct {
	Op  string `json:"op"`
	K   uint64 `json:"k"`
	R   bool   `json:"r"`
	Hit bool   `json:"hit"`
	Ev  uint64 `json:"ev"`
	V   uint64 `json:"v"`
}

type obs struct {
	Ret   ret      `json:"ret"`
	Order []uint64 `json:"order"`
	Dirty []uint64 `json:"dirty"`
}

type step struct {
	A   string `json:"a"`
	K   uint64 `json:"k"`
	V   uint64 `json:"v"`
	D   bool   `json:"d"`
	Exp obs    `json:"exp"`
}

type request struct {
	Mode  string `json:"mode"` // "" = replay, "trace" = random trace
	Cap   int    `json:"cap"`
	Steps []step `json:"steps"`
	// trace mode
	Keys int    `json:"keys"`
	N    int    `json:"n"`
	Seed int64  `json:"seed"`
	Out  string `json:"out"`
}

type result struct {
	OK    bool     `json:"ok"`
	Viol  []string `json:"viol,omitempty"`
	Drift []string `json:"drift,omitempty"`
	Step  int      `json:"step"`
	Obs   *obs     `json:"obs,omitempty"`
	Kind  string   `json:"kind,omitempty"` // what the last step exercised
}

func set(xs []uint64) map[uint64]bool {
	m := map[uint64]bool{}
	for _, x := range xs {
		m[x] = true
	}
	return m
}

func sameSet(a, b []uint64) bool {
	if len(a) != len(b) {
		return false
	}
	m := set(a)
	for _, x := range b {
		if !m[x] {
			return false
		}
	}
	return true
}

func sameSeq(a, b []uint64) bool {
	if len(a) != len(b) {
		return false
	}
	for i := range a {
		if a[i] != b[i] {
			return false
		}
	}
	return true
}

func apply(c *storage.VerifLRU, s step) (r ret, o obs) {
	before, _, _ := c.Order()
	r = ret{Op: s.A, K: s.K, R: true}
	switch s.A {
	case "set":
		r.R = c.Set(s.K, s.V, s.D)
		r.V = s.V
		r.Hit = set(before)[s.K]
	case "get":
		v, ok := c.Get(s.K)
		r.R, r.Hit, r.V = ok, ok, v
	case "dirty":
		r.R = c.MarkDirty(s.K)
		r.Hit = r.R
	case "clean":
		r.R = c.MarkClean(s.K)
		r.Hit = r.R
	}
	order, dirty, _ := c.Order()
	after := set(order)
	for _, k := range before {
		if !after[k] {
			r.Ev = k // at most one is expected; the set comparison catches more
		}
	}
	if dirty == nil {
		dirty = []uint64{}
	}
	if order == nil {
		order = []uint64{}
	}
	sort.Slice(dirty, func(i, j int) bool { return dirty[i] < dirty[j] })
	o = obs{Ret: r, Order: order, Dirty: dirty}
	return
}

func replay(req request) result {
	c := storage.VerifNewLRU(req.Cap)
	res := result{OK: true}
	for i, s := range req.Steps {
		r, o := apply(c, s)
		res.Step = i
		last := i == len(req.Steps)-1
		if last {
			oo := o
			res.Obs = &oo
		}
		var v []string
		e := s.Exp
		if len(o.Order) > req.Cap || c.Len() != len(o.Order) {
			v = append(v, fmt.Sprintf("cache holds %d entries (map %d), capacity %d", len(o.Order), c.Len(), req.Cap))
		}
		if r.R != e.Ret.R {
			v = append(v, fmt.Sprintf("%s(%d) returned %v, specification %v", s.A, s.K, r.R, e.Ret.R))
		}
		if s.A == "get" && (r.Hit != e.Ret.Hit || (r.Hit && r.V != e.Ret.V)) {
			v = append(v, fmt.Sprintf("get(%d) = (%d,%v), specification (%d,%v)", s.K, r.V, r.Hit, e.Ret.V, e.Ret.Hit))
		}
		if !sameSet(o.Order, e.Order) {
			v = append(v, fmt.Sprintf("resident keys %v, specification %v (evicted %d, specification %d)", o.Order, e.Order, r.Ev, e.Ret.Ev))
		}
		if !sameSet(o.Dirty, e.Dirty) {
			v = append(v, fmt.Sprintf("dirty resident keys %v, specification %v", o.Dirty, e.Dirty))
		}
		if len(v) > 0 {
			res.OK = false
			res.Viol = v
			oo := o
			res.Obs = &oo
			return res
		}
		if !sameSeq(o.Order, e.Order) {
			res.Drift = append(res.Drift, fmt.Sprintf("step %d: recency order %v, specification %v", i, o.Order, e.Order))
		}
		if last {
			switch {
			case s.A == "set" && !r.R:
				res.Kind = "refuse"
			case s.A == "set" && r.Ev != 0:
				res.Kind = "evict"
			case s.A == "set" && r.Hit:
				res.Kind = "overwrite"
			case s.A == "get" && r.Hit:
				res.Kind = "hit"
			case s.A == "get":
				res.Kind = "miss"
			default:
				res.Kind = s.A
			}
		}
	}
	return res
}

// trace runs a random workload and writes one NDJSON event per call.
// tail: the cache full of unsaved pages but ONE clean page, which sits at a chosen depth from the cold end (1, 2, every power of
// two and its neighbours, capacity-1, capacity): the next insertion must find it however long the walk over dirty entries is.
// Same event format as trace (validated by LruTrace.tla).
func tail(req request) result {
	c := storage.VerifNewLRU(req.Cap)
	f, err := os.Create(req.Out)
	if err != nil {
		return result{OK: false, Viol: []string{"cannot write trace: " + err.Error()}}
	}
	defer f.Close()
	w := bufio.NewWriter(f)
	defer w.Flush()
	enc := json.NewEncoder(w)
	enc.Encode(map[string]interface{}{"a": "reset", "cap": req.Cap})
	n := 0
	do := func(s step) {
		r, o := apply(c, s)
		enc.Encode(map[string]interface{}{"a": s.A, "k": s.K, "v": s.V, "d": s.D, "r": r.R, "hit": r.Hit, "rv": r.V, "ev": r.Ev,
			"order": o.Order, "dirty": o.Dirty})
		n++
	}
	for k := 1; k <= req.Cap; k++ {
		do(step{A: "set", K: uint64(k), V: uint64(k)})
	}
	for k := 1; k <= req.Cap; k++ {
		do(step{A: "dirty", K: uint64(k)})
	}
	depths := map[int]bool{1: true, 2: true, 3: true, req.Cap - 1: true, req.Cap: true}
	for p := 4; p < req.Cap; p *= 2 {
		depths[p-1], depths[p], depths[p+1] = true, true, true
	}
	var ds []int
	for d := range depths {
		if d >= 1 && d <= req.Cap {
			ds = append(ds, d)
		}
	}
	sort.Ints(ds)
	next := uint64(req.Cap + 1)
	for _, d := range ds {
		order, _, _ := c.Order() // most recently used first
		if len(order) != req.Cap {
			break // the cache lost or refused something: the trace up to here says so
		}
		victim := order[len(order)-d]
		do(step{A: "clean", K: victim})
		do(step{A: "set", K: next, V: next})
		do(step{A: "dirty", K: next})
		next++
	}
	return result{OK: true, Step: n}
}

func trace(req request) result {
	rng := rand.New(rand.NewSource(req.Seed))
	c := storage.VerifNewLRU(req.Cap)
	f, err := os.Create(req.Out)
	if err != nil {
		return result{OK: false, Viol: []string{"cannot write trace: " + err.Error()}}
	}
	defer f.Close()
	w := bufio.NewWriter(f)
	defer w.Flush()
	enc := json.NewEncoder(w)
	enc.Encode(map[string]interface{}{"a": "reset", "cap": req.Cap})
	// the workload moves through phases: mixed, dirty-heavy (the cache fills with unsaved pages from the
	// cold end up: long dirty tails, refusals) and clean-heavy (a flush: the dirty pages drain again)
	type profile struct{ set, get, dirty, setDirtyOf int }
	profiles := []profile{{40, 65, 85, 3}, {45, 55, 98, 1}, {30, 50, 55, 6}}
	prof, left := profiles[0], 0
	for i := 0; i < req.N; i++ {
		if left == 0 {
			prof, left = profiles[rng.Intn(len(profiles))], 200+rng.Intn(3*req.Cap+400)
		}
		left--
		s := step{K: uint64(1 + rng.Intn(req.Keys))}
		switch p := rng.Intn(100); {
		case p < prof.set:
			s.A, s.V, s.D = "set", uint64(1+rng.Intn(1000)), rng.Intn(prof.setDirtyOf) == 0
		case p < prof.get:
			s.A = "get"
		case p < prof.dirty:
			s.A = "dirty"
		default:
			s.A = "clean"
		}
		order0, dirty0, _ := c.Order()
		if s.A == "dirty" && (!set(order0)[s.K] || set(dirty0)[s.K]) {
			s.A = "get"
		}
		if s.A == "clean" && !set(dirty0)[s.K] {
			// prefer cleaning something that is dirty, so that full-of-dirty states get left again
			if len(dirty0) > 0 {
				s.K = dirty0[rng.Intn(len(dirty0))]
			} else {
				s.A = "get"
			}
		}
		r, o := apply(c, s)
		enc.Encode(map[string]interface{}{"a": s.A, "k": s.K, "v": s.V, "d": s.D, "r": r.R, "hit": r.Hit, "rv": r.V, "ev": r.Ev,
			"order": o.Order, "dirty": o.Dirty})
	}
	return result{OK: true, Step: req.N}
}

func main() {
	in := bufio.NewReaderSize(os.Stdin, 1<<20)
	out := bufio.NewWriter(os.Stdout)
	for {
		line, err := in.ReadBytes('\n')
		if len(line) > 1 {
			var req request
			var res result
			if e := json.Unmarshal(line, &req); e != nil {
				res = result{OK: false, Viol: []string{"bad request: " + e.Error()}}
			} else if req.Mode == "trace" {
				res = trace(req)
			} else if req.Mode == "tail" {
				res = tail(req)
			} else {
				res = replay(req)
			}
			b, _ := json.Marshal(res)
			out.Write(b)
			out.WriteByte('\n')
		}
		if in.Buffered() == 0 || err != nil {
			out.Flush()
		}
		if err != nil {
			break
		}
	}
}
