// Command store replays Store.tla scenarios (TLC-generated action paths with
// the promised abstract state) against the real engine: SQL text through
// engine.Session, flushes on demand, crash images composed from recorded I/O,
// real storage.InitStorage as recovery.  One JSON request per line on stdin,
// one JSON result per line on stdout (the engine's own prints are discarded).
package main

import (
	"bufio"
	"encoding/json"
	"errors"
	"fmt"
	"os"
	"math/rand"
	"path/filepath"
	"runtime/debug"
	"sort"
	"strings"
	"syscall"

	"github.com/mk6i/mkdb/engine"
	"github.com/mk6i/mkdb/sql"
	"github.com/mk6i/mkdb/storage"
)

const dbName = "vdb"

type Step struct {
	A       string `json:"a"`
	T       string `json:"t"`
	Rows    []int  `json:"rows"`
	W       int    `json:"w"`
	V       int    `json:"v"`
	At      string `json:"at"`
	During  string `json:"during"`
	Sub     string `json:"sub"`
	I       int    `json:"i"`
	Keep    bool   `json:"keep"`
	Written []int  `json:"written"`
	Orig    []int  `json:"orig"` // pages the specification's flush set out to write
	Part    int    `json:"part"` // crash in a log append: how much of the write call under way reached the file (0 none, 1 first byte, 2 half, 3 all but the last byte)
	K       int    `json:"k"`    // setcache capacity
	Bad     bool   `json:"bad"`  // CREATE TABLE with a column declaration the catalog cannot hold
}

type TabOut struct {
	T    string `json:"t"`
	Rows []int  `json:"rows"`
}

type PageOut struct {
	ID   int      `json:"id"`
	Kind string   `json:"kind"`
	Keys []uint32 `json:"keys"`
	Dead []int    `json:"dead"`
	Kids []int    `json:"kids"`
	L    int      `json:"l"`
	R    int      `json:"r"`
	LSN  uint64   `json:"lsn"`
}

type Post struct {
	Pages []PageOut `json:"pages"`
	Hdr   []uint64  `json:"hdr"`
}

// Mid is what the specification promises after a prefix of the path.
type Mid struct {
	Out     string     `json:"out"`
	Allowed [][]TabOut `json:"allowed"`
	Abs     []TabOut   `json:"abs"`
}

type Scenario struct {
	Mode    string          `json:"mode"` // "" = replay a TLC scenario; "random" = seeded long run recorded as a trace
	Rand    *RandReq        `json:"rand"`
	Steps   []Step          `json:"steps"`
	Out     string          `json:"out"`
	Abs     []TabOut        `json:"abs"`
	Allowed [][]TabOut      `json:"allowed"`
	Schema  [][]interface{} `json:"schema"`
	Post    *Post           `json:"post"`
	Wal     int             `json:"wal"`
	Taint   []string        `json:"taint"`
	Caps    []int           `json:"caps"`
	Mid     map[string]Mid  `json:"mid"`    // step count (as string) -> promise after that many steps
	Probes  bool            `json:"probes"` // run the end-of-scenario probe battery
	Cache   int             `json:"cache"`  // if > 0: run with a page cache of this capacity, flushing after every statement
	Dump    bool            `json:"dump"`   // return the page graph of the end state (C11: TLC evaluates TreeOK on it)
}

// Graph is the raw page graph of every tree, as the open store sees it.
type Graph struct {
	Pages []storage.VerifPage `json:"pages"`
	Roots []int               `json:"roots"`
	Names []string            `json:"names"`
}

type Result struct {
	OK       bool                `json:"ok"`
	Viol     []string            `json:"viol,omitempty"`
	Drift    []string            `json:"drift,omitempty"`
	Diverged string              `json:"diverged,omitempty"`
	Step     int                 `json:"step"`
	Observed map[string][]RowOut `json:"observed,omitempty"`
	Kind     string              `json:"kind,omitempty"`
	Feat     []string            `json:"feat,omitempty"`
	CacheFul bool                `json:"cachefull,omitempty"`
	Extra    map[string][]int    `json:"extra,omitempty"` // crash step index -> pages the real flush wrote that the specification's flush did not
	RealTnt  []string            `json:"real_taint,omitempty"` // known-finding signatures that hold on the recorded I/O of this run
	Graph    *Graph              `json:"graph,omitempty"`
	Stats    map[string]int      `json:"stats,omitempty"`
}

type RowOut struct {
	ID uint32 `json:"id"`
	A  int64  `json:"a"`
	B  string `json:"b"`
}

var proto *os.File

// ---------------------------------------------------------------- world

type World struct {
	sess    *engine.Session
	down    bool
	dead    bool
	seen    map[uint32]bool
	maxSeen uint32
	feat    map[string]bool
	cache   int
}

func dbDir() string { return filepath.Join("data", dbName) }

func (w *World) reset(caps []int) error {
	if w.sess != nil && w.sess.RelationService != nil {
		storage.VerifAbandon(w.sess.RelationService)
	}
	storage.VerifForgetStores()
	os.RemoveAll("data")
	storage.VerifAutoFlushOff()
	storage.VerifTrackStores()
	if len(caps) == 2 {
		storage.VerifSetCaps(caps[0], caps[1])
	} else {
		storage.VerifSetCaps(0, 0)
	}
	if err := storage.InitStorage(); err != nil {
		return err
	}
	w.sess = &engine.Session{}
	w.down, w.dead = false, false
	w.seen = map[uint32]bool{}
	w.maxSeen = 0
	w.feat = map[string]bool{}
	if err := w.sess.ExecQuery("CREATE DATABASE " + dbName); err != nil {
		return err
	}
	if err := w.sess.ExecQuery("USE " + dbName); err != nil {
		return err
	}
	if w.cache > 0 {
		if !storage.VerifSetCache(w.sess.RelationService, w.cache) {
			return errors.New("cannot install small cache")
		}
	}
	return nil
}

func colsOf(t string) string {
	if t == "t2" {
		return "(b VARCHAR(8), a INT)"
	}
	return "(a INT, b VARCHAR(8))"
}

func renderRow(v int) string {
	switch {
	case v == -1:
		return "('x', 'rx')" // wrong type for the INT column
	case v == -2:
		return fmt.Sprintf("(7, '%s')", strings.Repeat("z", 450)) // row over the 400 byte limit
	case v == 9:
		return "('rn')" // the INT column is left out: NULL
	case v == -3:
		return "(7)" // column count mismatch
	case v == -4:
		return "(3000000000, 'r7')" // INT out of 32 bits
	}
	return fmt.Sprintf("(%d, '%s')", v, bOf(v))
}

// bOf is the text column that goes with value v of the INT column; its length depends on v, so that an
// UPDATE changes the encoded length of the row.
func bOf(v int) string {
	if v == 9 {
		return "rn"
	}
	if v < 0 {
		return "rx"
	}
	if v == 7 {
		return "" // the empty string: a value, not NULL
	}
	if v == 8 {
		return "r8" + strings.Repeat("y", 388) // the encoded row is exactly 400 bytes: the largest row the engine accepts
	}
	return fmt.Sprintf("r%d%s", v, strings.Repeat("y", 7*(v%6)))
}

func renderStmt(st Step) string {
	switch st.A {
	case "create":
		if st.Bad {
			return fmt.Sprintf("CREATE TABLE %s (a INT, b VARCHAR(2147483648))", st.T)
		}
		return fmt.Sprintf("CREATE TABLE %s %s", st.T, colsOf(st.T))
	case "insert":
		var rows []string
		for _, v := range st.Rows {
			rows = append(rows, renderRow(v))
		}
		for _, v := range st.Rows {
			if v == -5 {
				// every row leaves the INT column out; row -5 is 1 (NULL flag) + 1 + 4 + 395 = 401 bytes: one over the limit
				rows = rows[:0]
				for _, u := range st.Rows {
					b := bOf(u)
					if u == -5 {
						b = strings.Repeat("n", 395)
					}
					rows = append(rows, "('"+b+"')")
				}
				return fmt.Sprintf("INSERT INTO %s (b) VALUES %s", st.T, strings.Join(rows, ", "))
			}
		}
		if len(st.Rows) == 1 && st.Rows[0] == 9 {
			return fmt.Sprintf("INSERT INTO %s (b) VALUES ('rn')", st.T)
		}
		return fmt.Sprintf("INSERT INTO %s (a, b) VALUES %s", st.T, strings.Join(rows, ", "))
	case "update":
		set := fmt.Sprintf("a = %d, b = '%s'", st.V, bOf(st.V))
		if st.V == -6 {
			set = fmt.Sprintf("b = '%s'", strings.Repeat("n", 392)) // 398 bytes with a NULL INT column, 402 with a value
		} else if st.V == -2 {
			set = fmt.Sprintf("b = '%s'", strings.Repeat("z", 450)) // the row would exceed the 400 byte limit
		} else if st.V < 0 {
			set = "a = 'x'"
		}
		return fmt.Sprintf("UPDATE %s SET %s%s", st.T, set, whereOf(st.W))
	case "delete":
		return fmt.Sprintf("DELETE FROM %s%s", st.T, whereOf(st.W))
	}
	return ""
}

// whereOf renders the specification's WHERE codes: 0 none, w < 100: a = w, w > 100: a >= w - 100
// plainWhere: the long random runs use arbitrary INT values, so every non-zero WHERE code there is an equality
var plainWhere bool

func whereOf(w int) string {
	switch {
	case w == 0:
		return ""
	case w > 100 && !plainWhere:
		return fmt.Sprintf(" WHERE a >= %d", w-100)
	}
	return fmt.Sprintf(" WHERE a = %d", w)
}

func parse(q string) (interface{}, error) {
	ts := sql.NewTokenScanner(strings.NewReader(q))
	tl := sql.TokenList{}
	for ts.Next() {
		tl.Add(ts.Cur())
	}
	p := sql.Parser{TokenList: tl}
	return p.Parse()
}

// exec runs one statement through the session, turning a panic into an error value marked as such.
func (w *World) exec(q string) (err error, panicked bool) {
	defer func() {
		if r := recover(); r != nil {
			err, panicked = fmt.Errorf("panic: %v", r), true
		}
	}()
	return w.sess.ExecQuery(q), false
}

func (w *World) selectAll(t string) (rows []*storage.Row, fields []*storage.Field, err error) {
	defer func() {
		if r := recover(); r != nil {
			err = fmt.Errorf("panic: %v", r)
		}
	}()
	stmt, err := parse("SELECT * FROM " + t)
	if err != nil {
		return nil, nil, err
	}
	return engine.EvaluateSelect(stmt.(sql.Select), w.sess.RelationService)
}

// observe reads every user table; absent tables are left out; problems are returned as strings.
func (w *World) observe() (map[string][]RowOut, []string) {
	out := map[string][]RowOut{}
	var probs []string
	for _, t := range []string{"t1", "t2", "t3", "T1", "t10"} {
		rows, fields, err := w.selectAll(t)
		if err != nil {
			if errors.Is(err, storage.ErrTableNotExist) {
				continue
			}
			probs = append(probs, fmt.Sprintf("SELECT * FROM %s failed: %v", t, err))
			continue
		}
		ia, ib := -1, -1
		for i, f := range fields {
			switch f.Column {
			case "a":
				ia = i
			case "b":
				ib = i
			}
		}
		if ia < 0 || ib < 0 || len(fields) != 2 {
			probs = append(probs, fmt.Sprintf("table %s: unexpected columns %v", t, fields))
			continue
		}
		wantOrder := []string{"a", "b"}
		if t == "t2" {
			wantOrder = []string{"b", "a"}
		}
		if fields[0].Column != wantOrder[0] || fields[1].Column != wantOrder[1] {
			probs = append(probs, fmt.Sprintf("table %s: column order %v %v, declared %v", t, fields[0].Column, fields[1].Column, wantOrder))
		}
		rs := []RowOut{}
		for _, r := range rows {
			a, okA := r.Vals[ia].(int64)
			b, okB := r.Vals[ib].(string)
			if r.Vals[ia] == nil {
				a, okA = 9, true // NULL in the INT column: the specification's value 9
			}
			if !okA || !okB {
				probs = append(probs, fmt.Sprintf("table %s row %d: values %v", t, r.RowID, r.Vals))
				continue
			}
			rs = append(rs, RowOut{ID: r.RowID, A: a, B: b})
		}
		out[t] = rs
	}
	return out, probs
}

func (w *World) observeSchema() (map[string][][2]interface{}, error) {
	rows, _, err := w.selectAll("sys_schema")
	if err != nil {
		return nil, err
	}
	m := map[string][][2]interface{}{}
	for _, r := range rows {
		if len(r.Vals) < 3 {
			return nil, fmt.Errorf("sys_schema row %v", r.Vals)
		}
		t, _ := r.Vals[0].(string)
		c, _ := r.Vals[1].(string)
		ty, _ := r.Vals[2].(int64)
		m[t] = append(m[t], [2]interface{}{c, ty})
	}
	return m, nil
}

func vals(rs []RowOut) []int {
	v := make([]int, len(rs))
	for i, r := range rs {
		v[i] = int(r.A)
	}
	return v
}

func eqInts(a, b []int) bool {
	if len(a) != len(b) {
		return false
	}
	for i := range a {
		if a[i] != b[i] {
			return false
		}
	}
	return true
}

// matches: does the observed state equal the promised abstract state?
func matches(obs map[string][]RowOut, abs []TabOut) bool {
	if len(obs) != len(abs) {
		return false
	}
	for _, t := range abs {
		rs, ok := obs[t.T]
		if !ok || !eqInts(vals(rs), t.Rows) {
			return false
		}
	}
	return true
}

func showObs(obs map[string][]RowOut) string {
	var ks []string
	for k := range obs {
		ks = append(ks, k)
	}
	sort.Strings(ks)
	var sb strings.Builder
	for _, k := range ks {
		fmt.Fprintf(&sb, "%s=%v ", k, vals(obs[k]))
	}
	return strings.TrimSpace(sb.String())
}

func showAbs(a []TabOut) string {
	var sb strings.Builder
	for _, t := range a {
		fmt.Fprintf(&sb, "%s=%v ", t.T, t.Rows)
	}
	return strings.TrimSpace(sb.String())
}

// rowChecks: value integrity and row id rules (unique, strictly increasing in scan order, never reused).
func (w *World) rowChecks(obs map[string][]RowOut) []string {
	var probs []string
	now := map[uint32]string{}
	prevMax := w.maxSeen
	for t, rs := range obs {
		var last uint32
		for i, r := range rs {
			if r.B != bOf(int(r.A)) {
				probs = append(probs, fmt.Sprintf("table %s row id %d: columns (a=%d, b=%q) do not belong together", t, r.ID, r.A, r.B))
			}
			if i > 0 && r.ID <= last {
				probs = append(probs, fmt.Sprintf("table %s: row ids not strictly increasing in scan order (%d after %d)", t, r.ID, last))
			}
			last = r.ID
			if other, dup := now[r.ID]; dup {
				probs = append(probs, fmt.Sprintf("row id %d appears in %s and %s", r.ID, other, t))
			}
			now[r.ID] = t
			if !w.seen[r.ID] && r.ID <= prevMax {
				probs = append(probs, fmt.Sprintf("table %s: new row got id %d although ids up to %d were already handed out", t, r.ID, prevMax))
			}
		}
	}
	for id := range now {
		w.seen[id] = true
		if id > w.maxSeen {
			w.maxSeen = id
		}
	}
	return probs
}

// ---------------------------------------------------------------- crash images

type snap struct{ tbl, wal []byte }

func takeSnap() snap {
	t, _ := os.ReadFile(filepath.Join(dbDir(), "tbl"))
	l, _ := os.ReadFile(filepath.Join(dbDir(), "wal"))
	return snap{t, l}
}

func writeImage(tbl, wal []byte) error {
	if err := os.WriteFile(filepath.Join(dbDir(), "tbl"), tbl, 0644); err != nil {
		return err
	}
	return os.WriteFile(filepath.Join(dbDir(), "wal"), wal, 0644)
}

func (w *World) abandon() {
	if w.sess != nil && w.sess.RelationService != nil {
		storage.VerifAbandon(w.sess.RelationService)
	}
	storage.VerifForgetStores()
	w.sess = nil
	w.down = true
}

// walCut: log content if the process dies before write event e (counting len/body/sync calls), with
// the unsynced tail kept or not.
func walCut(before []byte, ios []storage.VerifIO, e int, keep bool) ([]byte, bool) {
	var ev []storage.VerifIO
	for _, x := range ios {
		if x.File == "wal" {
			ev = append(ev, x)
		}
	}
	if e > len(ev) {
		return nil, false
	}
	out := append([]byte(nil), before...)
	synced := len(out)
	for _, x := range ev[:e] {
		switch x.Kind {
		case "len", "body":
			out = append(out, x.Data...)
		case "sync":
			synced = len(out)
		}
	}
	if !keep {
		out = out[:synced]
	}
	return out, true
}

// walPart appends to a cut log the first bytes of the write call that was under way (call number e), as Step.Part says.
func walPart(out []byte, ios []storage.VerifIO, e int, part int) ([]byte, bool) {
	var ev []storage.VerifIO
	for _, x := range ios {
		if x.File == "wal" {
			ev = append(ev, x)
		}
	}
	if part == 0 {
		return out, true
	}
	if e >= len(ev) || ev[e].Kind == "sync" || len(ev[e].Data) < 2 {
		return nil, false
	}
	d := ev[e].Data
	n := 1
	switch part {
	case 2:
		n = len(d) / 2
	case 3:
		n = len(d) - 1
	}
	return append(out, d[:n]...), true
}

// flushCut: data file if the process dies inside a flush after exactly the pages `written` were written
// (header not yet).
func flushCut(before []byte, ios []storage.VerifIO, written []int) ([]byte, string) {
	pages := map[int][]byte{}
	for _, x := range ios {
		if x.File == "tbl" && x.Kind == "page" {
			id := int(x.Off / 4096)
			if _, dup := pages[id]; !dup {
				pages[id] = x.Data
			}
		}
	}
	out := append([]byte(nil), before...)
	for _, id := range written {
		b, ok := pages[id]
		if !ok {
			return nil, fmt.Sprintf("the real flush did not write page %d (it wrote %v)", id, keysOf(pages))
		}
		end := (id + 1) * 4096
		for len(out) < end {
			out = append(out, make([]byte, end-len(out))...)
		}
		copy(out[id*4096:end], b)
	}
	return out, ""
}

func keysOf(m map[int][]byte) []int {
	var ks []int
	for k := range m {
		ks = append(ks, k)
	}
	sort.Ints(ks)
	return ks
}

// ---------------------------------------------------------------- replay

func subIdx(s string) int {
	switch s {
	case "len":
		return 0
	case "body":
		return 1
	case "sync":
		return 2
	}
	return 0
}

func (w *World) recoverNow() (dead bool, msg string) {
	var err error
	func() {
		defer func() {
			if r := recover(); r != nil {
				err = fmt.Errorf("panic during recovery: %v", r)
			}
		}()
		err = storage.InitStorage()
	}()
	storage.VerifForgetStores() // InitStorage closes what it opens; be safe
	if err != nil {
		w.dead = true
		return true, err.Error()
	}
	w.sess = &engine.Session{}
	if e, p := w.exec("USE " + dbName); e != nil || p {
		w.dead = true
		return true, fmt.Sprintf("USE after recovery: %v", e)
	}
	if w.cache > 0 {
		storage.VerifSetCache(w.sess.RelationService, w.cache)
	}
	w.down = false
	return false, ""
}

func inAllowed(obs map[string][]RowOut, allowed [][]TabOut) bool {
	for _, a := range allowed {
		if matches(obs, a) {
			return true
		}
	}
	return false
}

func showAllowed(allowed [][]TabOut) string {
	var ss []string
	for _, a := range allowed {
		ss = append(ss, "{"+showAbs(a)+"}")
	}
	return strings.Join(ss, " or ")
}

func replay(sc Scenario) (res Result) {
	res.OK = true
	os.Remove("sidecar.json")
	w := &World{cache: sc.Cache}
	defer func() {
		if w.sess != nil && w.sess.RelationService != nil {
			storage.VerifAbandon(w.sess.RelationService)
		}
		storage.VerifForgetStores()
		var fs []string
		for f := range w.feat {
			fs = append(fs, f)
		}
		sort.Strings(fs)
		res.Feat = fs
	}()
	if err := w.reset(sc.Caps); err != nil {
		res.OK = false
		res.Diverged = "setup failed: " + err.Error()
		return
	}
	var pending struct {
		snap snap
		ios  []storage.VerifIO
		have bool
	}
	n := len(sc.Steps)
	for i := 0; i < n; i++ {
		st := sc.Steps[i]
		res.Step = i
		last := i == n-1
		inflight := i+1 < n && sc.Steps[i+1].A == "crash" && sc.Steps[i+1].At != "idle"
		var stmtErr error
		var panicked bool
		switch st.A {
		case "create", "insert", "update", "delete", "flush":
			if w.down || w.dead {
				res.Diverged = "the specification continues but the real database is down"
				return
			}
			if inflight {
				pending.snap = takeSnap()
				storage.VerifRecordIO(true)
			}
			if st.A == "flush" {
				stmtErr = storage.VerifFlush(w.sess.RelationService)
				w.feat["flush"] = true
			} else {
				stmtErr, panicked = w.exec(renderStmt(st))
				if w.cache > 0 && !panicked {
					// small-cache mode (C16): dirty pages are flushed before they can fill the cache
					if errors.Is(stmtErr, storage.ErrLRUCacheFull) {
						res.CacheFul = true
						res.Diverged = "precondition of C16 not met: cache full of dirty pages"
						return
					}
					if e := storage.VerifFlush(w.sess.RelationService); e != nil {
						res.Diverged = "flush failed: " + e.Error()
						return
					}
				}
			}
			if inflight {
				pending.ios = storage.VerifTakeIO()
				storage.VerifRecordIO(false)
				pending.have = true
			}
			if panicked {
				res.OK = false
				res.Viol = append(res.Viol, fmt.Sprintf("statement %q panicked: %v", renderStmt(st), stmtErr))
				return
			}
		case "evict":
			if w.down || w.dead {
				res.Diverged = "the specification continues but the real database is down"
				return
			}
			if !storage.VerifSetCache(w.sess.RelationService, 10000) {
				res.Diverged = "evict with dirty pages"
				return
			}
			w.feat["evict"] = true
		case "setcache":
			if !storage.VerifSetCache(w.sess.RelationService, st.K) {
				res.Diverged = "setcache with dirty pages"
				return
			}
			w.feat["evict"] = true
		case "crash":
			cur := takeSnap()
			w.abandon()
			switch st.At {
			case "idle":
				w.feat["crash-idle"] = true
			case "wal":
				if !pending.have {
					res.Diverged = "crash in log append without a statement in flight"
					return
				}
				walNow, ok := walCut(pending.snap.wal, pending.ios, 3*st.I+subIdx(st.Sub), st.Keep)
				if !ok {
					res.Diverged = fmt.Sprintf("the real statement issued fewer log writes than the specification (crash point %d/%s)", st.I, st.Sub)
					return
				}
				if walNow, ok = walPart(walNow, pending.ios, 3*st.I+subIdx(st.Sub), st.Part); !ok {
					res.Diverged = fmt.Sprintf("no write call under way at crash point %d/%s", st.I, st.Sub)
					return
				}
				if st.Part > 0 {
					w.feat[fmt.Sprintf("crash-wal-inside-%s-write", st.Sub)] = true
				}
				if err := writeImage(cur.tbl, walNow); err != nil {
					res.Diverged = err.Error()
					return
				}
				w.feat["crash-wal-"+st.Sub] = true
				if st.Keep && st.Sub == "body" {
					w.feat["torn-tail"] = true
				}
			case "flush":
				if !pending.have {
					res.Diverged = "crash in flush without a flush in flight"
					return
				}
				tblNow, why := flushCut(pending.snap.tbl, pending.ios, st.Written)
				if why != "" {
					res.Diverged = why
					return
				}
				// the signature of torn-structural-flush evaluated on what the real flush did: it wrote a page beyond the
				// end of the file as it was before the flush (a never-written page), and the crash comes after a page write
				if len(st.Written) > 0 {
					for _, x := range pending.ios {
						if x.File == "tbl" && x.Kind == "page" && int(x.Off) >= len(pending.snap.tbl) {
							res.RealTnt = append(res.RealTnt, "torn-structural-flush")
							// the recovery that follows may kill this process (endless recursion on a garbage page): leave the
							// signature where the pool can find it
							os.WriteFile("sidecar.json", []byte(`{"real_taint":["torn-structural-flush"]}`), 0644)
							break
						}
					}
				}
				if st.Orig != nil {
					inOrig := map[int]bool{}
					for _, p := range st.Orig {
						inOrig[p] = true
					}
					var extra []int
					seenP := map[int]bool{}
					for _, x := range pending.ios {
						if x.File == "tbl" && x.Kind == "page" {
							id := int(x.Off / 4096)
							if !inOrig[id] && !seenP[id] {
								seenP[id] = true
								extra = append(extra, id)
							}
						}
					}
					if len(extra) > 0 {
						if res.Extra == nil {
							res.Extra = map[string][]int{}
						}
						sort.Ints(extra)
						res.Extra[fmt.Sprint(i)] = extra
					}
				}
				walNow := cur.wal
				if err := writeImage(tblNow, walNow); err != nil {
					res.Diverged = err.Error()
					return
				}
				w.feat["crash-flush-"+st.During] = true
			}
			pending.have = false
		case "recover":
			if inflight {
				pending.snap = takeSnap()
				storage.VerifRecordIO(true)
			}
			dead, msg := w.recoverNow()
			if inflight {
				pending.ios = storage.VerifTakeIO()
				storage.VerifRecordIO(false)
				pending.have = true
			}
			w.feat["recover"] = true
			if dead {
				exp := sc.Out
				if m, ok := sc.Mid[fmt.Sprint(i+1)]; ok && !last {
					exp = m.Out
				}
				if last && exp == "dead" {
					res.Kind = "dead"
					return // as the specification says (only on tainted paths)
				}
				if last || exp != "dead" {
					res.OK = false
					res.Viol = append(res.Viol, "the database does not start after the crash: "+msg)
				}
				return
			}
		}
		if inflight || st.A == "crash" {
			continue // nothing observable until the recovery
		}
		// ---- an operation completed: observe
		obs, probs := w.observe()
		probs = append(probs, w.rowChecks(obs)...)
		if !last {
			m, ok := sc.Mid[fmt.Sprint(i+1)]
			if !ok {
				continue
			}
			// a mismatch here is reported by the scenario that ends here; this one cannot be judged further
			if len(probs) > 0 {
				res.Diverged = "prefix already failed: " + probs[0]
				return
			}
			if stmtOutcome(st, stmtErr) != m.Out && (m.Out == "ok" || m.Out == "error") {
				res.Diverged = fmt.Sprintf("step %d (%s): outcome %s, specification %s", i, st.A, stmtOutcome(st, stmtErr), m.Out)
				return
			}
			if !matches(obs, m.Abs) {
				if inAllowed(obs, m.Allowed) {
					res.Diverged = fmt.Sprintf("step %d: real state {%s} is allowed but differs from the specification's {%s}", i, showObs(obs), showAbs(m.Abs))
				} else {
					res.Diverged = fmt.Sprintf("prefix already failed at step %d: {%s} vs {%s}", i, showObs(obs), showAbs(m.Abs))
				}
				return
			}
			continue
		}
		// ---- last step: judge
		res.Observed = obs
		res.Kind = sc.Out
		for _, p := range probs {
			res.Viol = append(res.Viol, p)
		}
		oc := stmtOutcome(st, stmtErr)
		if (sc.Out == "ok" || sc.Out == "error") && oc != sc.Out {
			if oc == "error" {
				// the engine refused a statement the specification accepts: nothing may have changed (C14), and
				// the rest is not a violation of any listed property
				res.Diverged = fmt.Sprintf("statement %q returned an error (%v) where the specification succeeds", renderStmt(st), stmtErr)
				prev, okp := sc.Mid[fmt.Sprint(i)]
				if i == 0 {
					prev, okp = Mid{Abs: []TabOut{}}, true
				}
				if okp && !matches(obs, prev.Abs) {
					res.Viol = append(res.Viol, fmt.Sprintf("statement %q returned an error (%v) but changed the tables: {%s}, before {%s}", renderStmt(st), stmtErr, showObs(obs), showAbs(prev.Abs)))
				}
				if len(res.Viol) > 0 {
					res.OK = false
				}
				return
			}
		}
		if !inAllowed(obs, sc.Allowed) {
			res.Viol = append(res.Viol, fmt.Sprintf("after %s: tables hold {%s}, promised {%s}", describe(st), showObs(obs), showAllowed(sc.Allowed)))
		}
		// catalog: declared columns unchanged
		if sch, err := w.observeSchema(); err != nil {
			res.Viol = append(res.Viol, "sys_schema unreadable: "+err.Error())
		} else {
			for t := range obs {
				want := [][2]interface{}{{"a", int64(0)}, {"b", int64(1)}}
				if t == "t2" {
					want = [][2]interface{}{{"b", int64(1)}, {"a", int64(0)}}
				}
				if fmt.Sprint(sch[t]) != fmt.Sprint(want) {
					res.Viol = append(res.Viol, fmt.Sprintf("catalog lists columns %v for %s, declared %v", sch[t], t, want))
				}
			}
		}
		if len(res.Viol) > 0 {
			res.OK = false
			return
		}
		if sc.Dump {
			g, probs := w.graph()
			res.Graph = g
			if len(probs) > 0 {
				res.OK = false
				res.Viol = append(res.Viol, probs...)
				return
			}
		}
		// ---- drift: page level
		if sc.Post != nil && sc.Cache == 0 {
			res.Drift = driftOf(w, sc.Post)
		}
		// ---- probes from the real end state (each judged by the same promise)
		if sc.Probes {
			if v := w.probes(obs, sc.Out); len(v) > 0 {
				res.OK = false
				res.Viol = append(res.Viol, v...)
			}
		}
	}
	return
}

func stmtOutcome(st Step, err error) string {
	switch st.A {
	case "create", "insert", "update", "delete":
		if err != nil {
			return "error"
		}
		return "ok"
	case "flush":
		return "flushed"
	case "recover":
		return "recovered"
	}
	return st.A
}

func describe(st Step) string {
	if q := renderStmt(st); q != "" {
		if len(q) > 120 {
			q = q[:120] + "..."
		}
		return "`" + q + "`"
	}
	return st.A
}

func same(a, b map[string][]RowOut) bool {
	if len(a) != len(b) {
		return false
	}
	for t, ra := range a {
		rb, ok := b[t]
		if !ok || len(ra) != len(rb) {
			return false
		}
		for i := range ra {
			if ra[i] != rb[i] {
				return false
			}
		}
	}
	return true
}

// probes: the observable state must survive (1) dropping every clean page from the cache after a
// flush, (2) a clean shutdown and restart, (3) a second recovery.
func (w *World) probes(obs map[string][]RowOut, out string) []string {
	var v []string
	if err := storage.VerifFlush(w.sess.RelationService); err != nil {
		return []string{"probe flush failed: " + err.Error()}
	}
	storage.VerifSetCache(w.sess.RelationService, 10000)
	o2, p2 := w.observe()
	if len(p2) > 0 || !same(obs, o2) {
		v = append(v, fmt.Sprintf("after flushing and dropping the page cache the tables read {%s} %v, before {%s}", showObs(o2), p2, showObs(obs)))
		return v
	}
	for round := 1; round <= 2; round++ {
		if round == 1 {
			if err := w.sess.Close(); err != nil {
				return append(v, "Close failed: "+err.Error())
			}
			storage.VerifForgetStores()
			w.sess = nil
		} else {
			w.abandon()
		}
		if dead, msg := w.recoverNow(); dead {
			return append(v, fmt.Sprintf("restart %d: the database does not start: %s", round, msg))
		}
		o3, p3 := w.observe()
		if len(p3) > 0 || !same(obs, o3) {
			v = append(v, fmt.Sprintf("restart %d changed the tables: {%s} %v, before {%s}", round, showObs(o3), p3, showObs(obs)))
			return v
		}
	}
	return v
}

// graph projects the page graph of every tree and runs the engine's own lookups over it.
func (w *World) graph() (*Graph, []string) {
	rs := w.sess.RelationService
	h, pages := storage.VerifDumpView(rs)
	g := &Graph{Pages: pages, Roots: []int{h.PtRoot}, Names: []string{"sys_pages"}}
	var probs []string
	roots := storage.VerifRoots(rs, []string{"sys_schema", "t1", "t2", "t3", "T1", "t10"})
	for _, n := range []string{"sys_schema", "t1", "t2", "t3", "T1", "t10"} {
		r, ok := roots[n]
		if !ok {
			continue
		}
		g.Roots = append(g.Roots, r)
		g.Names = append(g.Names, n)
		missing, fwd, bwd, err := storage.VerifLookupAll(rs, n)
		if err != nil {
			probs = append(probs, fmt.Sprintf("table %s: scan/lookup failed: %v", n, err))
			continue
		}
		if len(missing) > 0 {
			probs = append(probs, fmt.Sprintf("table %s: stored keys %v are not found by point lookup from the root", n, missing))
		}
		if len(fwd) != len(bwd) {
			probs = append(probs, fmt.Sprintf("table %s: forward scan %v, backward scan %v", n, fwd, bwd))
		} else {
			for i := range fwd {
				if fwd[i] != bwd[len(bwd)-1-i] {
					probs = append(probs, fmt.Sprintf("table %s: backward scan %v is not the reverse of forward scan %v", n, bwd, fwd))
					break
				}
			}
		}
	}
	return g, probs
}

func driftOf(w *World, post *Post) []string {
	if w.sess == nil || w.sess.RelationService == nil {
		return nil
	}
	h, pages := storage.VerifDumpView(w.sess.RelationService)
	var d []string
	if len(post.Hdr) == 4 {
		if uint64(h.LastKey) != post.Hdr[0] || uint64(h.PtRoot) != post.Hdr[1] || uint64(h.Nx) != post.Hdr[2] || h.LSN != post.Hdr[3] {
			d = append(d, fmt.Sprintf("header (lastKey,ptRoot,next,lsn) = (%d,%d,%d,%d), specification %v", h.LastKey, h.PtRoot, h.Nx, h.LSN, post.Hdr))
		}
	}
	byID := map[int]storage.VerifPage{}
	for _, p := range pages {
		byID[p.ID] = p
	}
	for _, e := range post.Pages {
		p, ok := byID[e.ID]
		if !ok {
			d = append(d, fmt.Sprintf("page %d missing", e.ID))
			continue
		}
		got := fmt.Sprint(p.Kind, p.Keys, p.Dead, p.Kids, p.L, p.R, p.LSN)
		kids := e.Kids
		if kids == nil {
			kids = []int{}
		}
		dead := e.Dead
		if dead == nil {
			dead = []int{}
		}
		keys := e.Keys
		if keys == nil {
			keys = []uint32{}
		}
		want := fmt.Sprint(e.Kind, keys, dead, kids, e.L, e.R, e.LSN)
		if got != want {
			d = append(d, fmt.Sprintf("page %d is %s, specification %s", e.ID, got, want))
		}
	}
	if len(pages) != len(post.Pages) {
		d = append(d, fmt.Sprintf("%d pages, specification %d", len(pages), len(post.Pages)))
	}
	if len(d) > 4 {
		d = d[:4]
	}
	return d
}

func main() {
	debug.SetMaxStack(16 << 20) // runaway recursion in the code under test should die quickly
	// the engine prints on every statement: keep the protocol on a private descriptor
	fd, err := syscall.Dup(1)
	if err != nil {
		panic(err)
	}
	proto = os.NewFile(uintptr(fd), "proto")
	devnull, _ := os.OpenFile(os.DevNull, os.O_WRONLY, 0)
	syscall.Dup2(int(devnull.Fd()), 1)
	os.Stdout = devnull

	in := bufio.NewReaderSize(os.Stdin, 1<<20)
	out := bufio.NewWriter(proto)
	for {
		line, err := in.ReadBytes('\n')
		if len(line) > 1 {
			var sc Scenario
			var res Result
			if e := json.Unmarshal(line, &sc); e != nil {
				res = Result{OK: false, Diverged: "bad request: " + e.Error()}
			} else if sc.Mode == "random" && sc.Rand != nil {
				res = randomRun(*sc.Rand)
			} else {
				res = replay(sc)
			}
			b, _ := json.Marshal(res)
			out.Write(b)
			out.WriteByte('\n')
			out.Flush() // every answer at once: if the code under test kills the process, the culprit is the first unanswered request
		}
		if err != nil {
			break
		}
	}
}

// ---------------------------------------------------------------- random long runs (code -> specification)

type RandReq struct {
	Seed       int64   `json:"seed"`
	N          int     `json:"n"`
	Caps       []int   `json:"caps"`
	Cache      int     `json:"cache"`
	PCrash     float64 `json:"pcrash"`
	PFlush     float64 `json:"pflush"`
	Wal        bool    `json:"wal"` // crashes inside log appends too
	MaxRows    int     `json:"maxrows"`
	Out        string  `json:"out"`
	GraphEvery int     `json:"graphevery"`
	GraphOut   string  `json:"graphout"`
	Bias       string  `json:"bias"` // "grow": mostly inserts into one table (deep trees)
	LongBad    int     `json:"longbad"`  // > 0: some refused INSERTs have up to this many rows, the invalid one anywhere
	PFail      float64 `json:"pfail"`    // share of the explicit flushes in which one page write fails (I/O error)
	PageRT     bool    `json:"pagert"`   // C12 at store level: after every flush each page in the file decodes to what the cache held
	OrderOut   string  `json:"orderout"` // order trace (locks, stamps, data-file and log writes) for WalOrder.tla
}

// walMax is the highest LSN among the complete records of the log file.
func walMax() uint64 {
	recs, _, _ := storage.VerifDumpWal(filepath.Join(dbDir(), "wal"))
	var m uint64
	for _, r := range recs {
		if r.LSN > m {
			m = r.LSN
		}
	}
	return m
}

// recOps decodes the op byte of every recorded log record body.
func recOps(ios []storage.VerifIO) []byte {
	var ops []byte
	for _, x := range ios {
		if x.File == "wal" && x.Kind == "body" && len(x.Data) > 0 {
			ops = append(ops, x.Data[0])
		}
	}
	return ops
}

// durableRecords: how many complete records the log holds if the process dies before wal event e.
func durableRecords(ios []storage.VerifIO, e int, keep bool) int {
	n, synced, i := 0, 0, 0
	for _, x := range ios {
		if x.File != "wal" {
			continue
		}
		if i >= e {
			break
		}
		i++
		switch x.Kind {
		case "body":
			n++
		case "sync":
			synced = n
		}
	}
	if keep {
		return n
	}
	return synced
}

// flushChecked flushes the store; with roundTrip set it first takes the store's own view of every page (cached version
// over the file), then compares it with what the data file alone decodes to afterwards: a page written to disk must
// read back as the same page, and a page the store believes in must have been written.
func flushChecked(w *World, roundTrip bool, stats map[string]int) (error, []string) {
	if !roundTrip {
		return storage.VerifFlush(w.sess.RelationService), nil
	}
	hv, view := storage.VerifDumpView(w.sess.RelationService)
	if err := storage.VerifFlush(w.sess.RelationService); err != nil {
		return err, nil
	}
	hf, file, err := storage.VerifDumpFile(filepath.Join(dbDir(), "tbl"))
	if err != nil {
		return nil, []string{"data file unreadable after a flush: " + err.Error()}
	}
	var probs []string
	if hv != hf {
		probs = append(probs, fmt.Sprintf("header in the file after a flush %+v, header the store works with %+v", hf, hv))
	}
	byID := map[int]storage.VerifPage{}
	for _, p := range file {
		byID[p.ID] = p
	}
	for _, p := range view {
		f, ok := byID[p.ID]
		if !ok {
			f = storage.VerifPage{ID: p.ID, Kind: "Z"}
		}
		stats["pages-round-tripped"]++
		if d := pageDiff(p, f); d != "" {
			probs = append(probs, fmt.Sprintf("page %d: the store holds %s, the data file after the flush reads back as %s (%s)", p.ID, showPage(p), showPage(f), d))
			if len(probs) > 4 {
				break
			}
		}
	}
	return nil, probs
}

func showPage(p storage.VerifPage) string {
	return fmt.Sprintf("{%s keys=%v dead=%v kids=%v l=%d r=%d lsn=%d}", p.Kind, p.Keys, p.Dead, p.Kids, p.L, p.R, p.LSN)
}

func pageDiff(a, b storage.VerifPage) string {
	switch {
	case a.Kind != b.Kind:
		return "kind"
	case fmt.Sprint(a.Keys) != fmt.Sprint(b.Keys):
		return "keys"
	case fmt.Sprint(a.Dead) != fmt.Sprint(b.Dead):
		return "tombstones"
	case fmt.Sprint(a.Kids) != fmt.Sprint(b.Kids):
		return "children"
	case a.L != b.L || a.R != b.R:
		return "sibling links"
	case a.LSN != b.LSN:
		return "LSN"
	case len(a.Vals) != len(b.Vals):
		return "values"
	}
	for i := range a.Vals {
		if string(a.Vals[i]) != string(b.Vals[i]) {
			return fmt.Sprintf("value of cell %d", i)
		}
	}
	return ""
}

func randomRun(rq RandReq) (res Result) {
	res.OK = true
	res.Stats = map[string]int{}
	plainWhere = true
	defer func() { plainWhere = false }()
	rng := newRand(rq.Seed)
	w := &World{cache: rq.Cache}
	defer func() {
		if w.sess != nil && w.sess.RelationService != nil {
			storage.VerifAbandon(w.sess.RelationService)
		}
		storage.VerifForgetStores()
	}()
	if err := w.reset(rq.Caps); err != nil {
		res.Diverged = "setup failed: " + err.Error()
		return
	}
	f, err := os.Create(rq.Out)
	if err != nil {
		res.Diverged = err.Error()
		return
	}
	defer f.Close()
	bw := bufio.NewWriterSize(f, 1<<20)
	defer bw.Flush()
	enc := json.NewEncoder(bw)
	var gw *bufio.Writer
	var genc *json.Encoder
	if rq.GraphOut != "" {
		gf, err := os.Create(rq.GraphOut)
		if err != nil {
			res.Diverged = err.Error()
			return
		}
		defer gf.Close()
		gw = bufio.NewWriterSize(gf, 1<<20)
		defer gw.Flush()
		genc = json.NewEncoder(gw)
	}
	ev := func(m map[string]interface{}) { enc.Encode(m); res.Stats["events"]++ }
	ev(map[string]interface{}{"e": "reset"})
	// order trace: what the store did (drained from the hooks) between the harness's own marks
	omark := func(m map[string]interface{}) {}
	if rq.OrderOut != "" {
		of, err := os.Create(rq.OrderOut)
		if err != nil {
			res.Diverged = err.Error()
			return
		}
		defer of.Close()
		ow := bufio.NewWriterSize(of, 1<<20)
		defer ow.Flush()
		oenc := json.NewEncoder(ow)
		storage.VerifRecordIO(false)
		storage.VerifRecordOrder(true)
		defer storage.VerifRecordOrder(false)
		omark = func(m map[string]interface{}) {
			for _, e := range storage.VerifTakeOrder() {
				oenc.Encode(e)
				res.Stats["order-events"]++
			}
			if m != nil {
				oenc.Encode(m)
			}
		}
		defer func() { omark(nil) }()
		omark(map[string]interface{}{"e": "reset"})
	}
	fail := func(msg string) Result {
		res.OK = false
		res.Viol = append(res.Viol, msg)
		return res
	}
	tables := []string{"t1", "t2"}
	observe := func(which []string) bool {
		obs, probs := w.observe()
		probs = append(probs, w.rowChecks(obs)...)
		if len(probs) > 0 {
			res.OK = false
			res.Viol = append(res.Viol, probs...)
			return false
		}
		for _, t := range which {
			rs, ok := obs[t]
			rows := []int{}
			if ok {
				rows = vals(rs)
			}
			ev(map[string]interface{}{"e": "select", "t": t, "rows": rows, "exists": ok})
		}
		return true
	}
	dumpGraph := func() bool {
		if genc == nil {
			return true
		}
		g, probs := w.graph()
		if len(probs) > 0 {
			res.OK = false
			res.Viol = append(res.Viol, probs...)
			return false
		}
		genc.Encode(g)
		res.Stats["graphs"]++
		lv := 0
		byID := map[int]storage.VerifPage{}
		for _, p := range g.Pages {
			byID[p.ID] = p
		}
		for _, r := range g.Roots {
			d, cur, ok := 1, byID[r], true
			for ok && cur.Kind == "I" && len(cur.Kids) > 0 && d < 10 {
				cur, ok = byID[cur.Kids[0]]
				d++
			}
			if d > lv {
				lv = d
			}
		}
		if lv > res.Stats["levels"] {
			res.Stats["levels"] = lv
		}
		return true
	}
	recoverAndObserve := func() bool {
		if dead, msg := w.recoverNow(); dead {
			res.OK = false
			res.Viol = append(res.Viol, "the database does not start after the crash: "+msg)
			return false
		}
		ev(map[string]interface{}{"e": "pause", "what": "recovered"})
		omark(map[string]interface{}{"e": "recovered"})
		res.Stats["recoveries"]++
		return observe(tables)
	}
	for _, t := range tables {
		omark(map[string]interface{}{"e": "begin", "k": "create"})
		e, p := w.exec(renderStmt(Step{A: "create", T: t}))
		omark(map[string]interface{}{"e": "result", "ok": e == nil})
		if p {
			return fail("CREATE TABLE panicked: " + e.Error())
		}
		ev(map[string]interface{}{"e": "create", "t": t, "ok": e == nil})
	}
	maxRows := rq.MaxRows
	if maxRows <= 0 {
		maxRows = 8
	}
	// values of the INT column: 1..5 by default (every WHERE matches a fifth of a table); under a small page cache a
	// statement's dirty set has to fit the cache (precondition of C16), so values are drawn from a domain that grows with
	// the number of rows inserted - a WHERE then matches a handful of rows - and 8 / 9 (reserved codes) are avoided
	inserted := 0
	val := func() int {
		if rq.Cache == 0 {
			return 1 + rng.Intn(5)
		}
		return 10 + rng.Intn(20+inserted/3)
	}
	// the catalog as statements see it: every row of sys_pages and sys_schema, as text
	catalog := func() (string, error) {
		var b strings.Builder
		for _, t := range []string{"sys_pages", "sys_schema"} {
			rows, _, err := w.selectAll(t)
			if err != nil {
				return "", err
			}
			for _, r := range rows {
				if t == "sys_pages" && len(r.Vals) > 0 {
					fmt.Fprintf(&b, "%s: %v\n", t, r.Vals[0]) // the name only: root pages move when tables grow
				} else {
					fmt.Fprintf(&b, "%s: %v\n", t, r.Vals)
				}
			}
		}
		return b.String(), nil
	}
	var queue []Step
	for i := 0; i < rq.N; i++ {
		if rq.LongBad > 0 && (i == rq.N/3 || i == 2*rq.N/3) {
			// CREATE TABLE naming a column twice - its last one: accepted or refused, but if refused then as a whole
			// (the catalog reads as before; the name can still be created)
			name := fmt.Sprintf("dup%d", i)
			before, e0 := catalog()
			omark(map[string]interface{}{"e": "begin", "k": "create"})
			e, p := w.exec(fmt.Sprintf("CREATE TABLE %s (a INT, b VARCHAR(8), a INT)", name))
			omark(map[string]interface{}{"e": "result", "ok": e == nil})
			if p {
				return fail("CREATE TABLE with a repeated column panicked: " + e.Error())
			}
			if e != nil && e0 == nil {
				after, e1 := catalog()
				if e1 != nil || after != before {
					return fail(fmt.Sprintf("CREATE TABLE %s (a INT, b VARCHAR(8), a INT) returned an error (%v) but changed the catalog:\n%s\nbefore:\n%s (%v)", name, e, after, before, e1))
				}
				omark(map[string]interface{}{"e": "begin", "k": "create"})
				e2, _ := w.exec(fmt.Sprintf("CREATE TABLE %s (a INT)", name))
				omark(map[string]interface{}{"e": "result", "ok": e2 == nil})
				if e2 != nil {
					return fail(fmt.Sprintf("after the refused CREATE TABLE %s the name cannot be created: %v", name, e2))
				}
			}
			res.Stats["dup-column-creates"]++
			// a table of its own for statements whose acceptance is the engine's business (column names spelled in another
			// case): whatever it decides, a statement that returns an error leaves the table as it was
			dump := func() string {
				rows, _, err := w.selectAll("cs1")
				if err != nil {
					return "error: " + err.Error()
				}
				var b strings.Builder
				for _, r := range rows {
					fmt.Fprintf(&b, "%v\n", r.Vals)
				}
				return b.String()
			}
			stmts := []string{"INSERT INTO cs1 (A, B) VALUES (1, 'x'), (2, 'y'), (3000000000, 'z')", "INSERT INTO cs1 (a, B) VALUES (4, 'x'), (5, 7)",
				"INSERT INTO cs1 (B, A) VALUES ('p', 6), ('q', 'r')", "UPDATE cs1 SET A = 3000000000", "UPDATE cs1 SET B = 1", "INSERT INTO cs1 (A) VALUES (8), (9), ('t')"}
			if i == rq.N/3 {
				stmts = append([]string{"CREATE TABLE cs1 (a INT, b VARCHAR(8))", "INSERT INTO cs1 (a, b) VALUES (10, 'k'), (11, 'l')"}, stmts...)
			}
			for _, q := range stmts {
				was := dump()
				kind := strings.ToLower(strings.Fields(q)[0])
				omark(map[string]interface{}{"e": "begin", "k": kind})
				e, p := w.exec(q)
				omark(map[string]interface{}{"e": "result", "ok": e == nil})
				if p {
					return fail(fmt.Sprintf("statement %q panicked: %v", q, e))
				}
				if now := dump(); e != nil && now != was {
					return fail(fmt.Sprintf("statement %q returned an error (%v) but changed the table:\n%sbefore:\n%s", q, e, now, was))
				}
				res.Stats["other-case-column-statements"]++
			}
		}
		t := tables[rng.Intn(len(tables))]
		if rq.Bias == "grow" && rng.Intn(10) < 8 {
			t = "t1"
		}
		st := Step{T: t}
		evm := map[string]interface{}{"t": t}
		p := rng.Intn(100)
		tIns, tUpd, tDel := 60, 74, 86
		if rq.Bias == "grow" {
			tIns, tUpd, tDel = 76, 83, 88 // mostly inserts, but every kind of statement still occurs
		}
		if i == rq.N/3 && len(queue) == 0 && rq.Cache == 0 { // (under a small cache a CREATE TABLE may not fit: C16's precondition)
			// a table whose name begins with the name of another one (t1 / t10): names are compared whole
			queue = append(queue, Step{A: "create", T: "t10"}, Step{A: "insert", T: "t10", Rows: []int{val(), val()}}, Step{A: "insert", T: "t1", Rows: []int{val()}})
			tables = append(tables, "t10")
			res.Stats["prefix-named-tables"]++
		}
		if rq.LongBad > 0 && i == rq.N/2 && len(tables) <= 3 && tables[len(tables)-1] != "t3" {
			// a table created late: every row of it is younger than every row of the other tables at that moment. Its first
			// row has a NULL INT column, the others do not; a statement on an old table, then the UPDATE that only the later
			// rows of the young table refuse
			queue = append(queue, Step{A: "create", T: "t3"}, Step{A: "insert", T: "t3", Rows: []int{9}}, Step{A: "insert", T: "t3", Rows: []int{1 + rng.Intn(5), 1 + rng.Intn(5)}},
				Step{A: "update", T: tables[rng.Intn(2)], W: 0, V: 1 + rng.Intn(5)}, Step{A: "update", T: "t3", W: 0, V: -6})
			tables = append(tables, "t3")
			res.Stats["mixed-updates"]++
		}
		if len(queue) > 0 {
			st, queue = queue[0], queue[1:]
			t = st.T
			evm = map[string]interface{}{"t": t}
			switch st.A {
			case "insert":
				evm["rows"] = st.Rows
			case "update":
				evm["w"], evm["v"] = st.W, st.V
			}
			p = -1
		}
		switch {
		case p < 0:
		case p < tIns:
			st.A = "insert"
			n := 1 + rng.Intn(maxRows)
			for j := 0; j < n; j++ {
				st.Rows = append(st.Rows, val())
			}
			if rq.LongBad > 0 && rng.Intn(5) == 0 {
				st.Rows = []int{9} // a row whose INT column is NULL
			}
			evm["rows"] = st.Rows
		case p < tUpd:
			st.A, st.W, st.V = "update", val(), val()
			if rq.Cache == 0 && rng.Intn(6) == 0 {
				st.W = 0 // no WHERE
			}
			if rq.Cache > 0 && rng.Intn(3) == 0 {
				// under a small cache too, now and then: an UPDATE of every row dirties more pages than the cache holds once the
				// table has grown - the statement must be refused as a whole (cache full: abandoned and restarted below), never
				// reported as done with part of its rows changed on pages nobody keeps
				st.W = 0
				res.Stats["wide-updates-under-a-small-cache"]++
			}
			if rq.LongBad > 0 && rng.Intn(3) == 0 {
				// an UPDATE whose new text fits the rows with a NULL INT column and is two bytes too long for the others:
				// when rows of the first kind come first, the refusal arrives late - still nothing may change
				if obs, probs := w.observe(); len(probs) == 0 {
					rows := vals(obs[t])
					for k, v := range rows {
						if v != 9 {
							if k > 0 {
								st.W, st.V = 0, -6
								res.Stats["mixed-updates"]++
							}
							break
						}
					}
				}
			}
			evm["w"], evm["v"] = st.W, st.V
		case p < tDel:
			st.A, st.W = "delete", val()
			evm["w"] = st.W
		case p < 90:
			st.A = "insert"
			st.Rows = []int{-1 - rng.Intn(4), val()} // the first row is invalid: nothing may change
			st.Rows = st.Rows[:1+rng.Intn(2)]
			if rq.LongBad > 0 && rng.Intn(3) == 0 {
				// a long statement whose k-th row is the invalid one, k anywhere: still nothing may change
				n := 2 + rng.Intn(rq.LongBad)
				k := rng.Intn(n)
				if rng.Intn(2) == 0 {
					// every other one close to the longest, the invalid row among its last ones
					n = rq.LongBad - rng.Intn(1+rq.LongBad/8)
					k = n - 1 - rng.Intn(1+n/16)
				}
				st.Rows = make([]int, n)
				for j := range st.Rows {
					st.Rows[j] = val()
				}
				st.Rows[k] = -1 - rng.Intn(2)*3 // wrong type, or INT out of range
			}
			if rq.LongBad > 0 && rng.Intn(4) == 0 {
				// rows with the INT column left out (NULL): all fit but one, which is one byte over the limit
				n := 2 + rng.Intn(4)
				st.Rows = make([]int, n)
				for j := range st.Rows {
					st.Rows[j] = 1 + rng.Intn(6)
				}
				st.Rows[1+rng.Intn(n-1)] = -5
			}
			evm["rows"] = st.Rows
		case p < 93:
			st.A = "create"
		default:
			if !observe([]string{t}) {
				return
			}
			continue
		}
		evm["e"] = st.A
		crash := st.A != "create" && st.Rows != nil || st.A == "update" || st.A == "delete"
		crash = crash && rng.Float64() < rq.PCrash && !(len(st.Rows) > 0 && st.Rows[0] < 0)
		inWal := crash && rq.Wal && rng.Intn(10) < 6
		var before snap
		if inWal {
			before = takeSnap()
			storage.VerifRecordIO(true)
		}
		omark(map[string]interface{}{"e": "begin", "k": st.A})
		e, panicked := w.exec(renderStmt(st))
		if !(rq.Cache > 0 && errors.Is(e, storage.ErrLRUCacheFull)) {
			omark(map[string]interface{}{"e": "result", "ok": e == nil})
		}
		var ios []storage.VerifIO
		if inWal {
			ios = storage.VerifTakeIO()
			storage.VerifRecordIO(false)
		}
		if panicked {
			return fail(fmt.Sprintf("statement %q panicked: %v", renderStmt(st), e))
		}
		if st.A == "update" && st.V == -6 && e == nil {
			return fail(fmt.Sprintf("statement %q succeeded although the new row is over the size limit for rows with a value in the INT column", renderStmt(st)))
		}
		if rq.Cache > 0 {
			if errors.Is(e, storage.ErrLRUCacheFull) {
				// the statement's dirty set did not fit the cache: the precondition of C16 (and of "an error changes
				// nothing") is not met for this statement. Nothing of it was logged or flushed, so the process is
				// abandoned here and restarted: the tables are then as before the statement, and the run goes on.
				if d := storage.VerifDirtyCount(w.sess.RelationService); d < rq.Cache {
					return fail(fmt.Sprintf("statement %q was refused with %q, but only %d of the %d pages of the cache are dirty", renderStmt(st), e.Error(), d, rq.Cache))
				}
				res.Stats["cachefull-stmts"]++
				if st.A == "update" && st.W == 0 {
					res.Stats["wide-updates-refused-by-a-full-cache"]++
				}
				if res.Stats["cachefull-stmts"] > rq.N/4 {
					res.CacheFul = true
					res.Diverged = "precondition of C16 not met: cache full of dirty pages in more than a quarter of the statements"
					return
				}
				omark(map[string]interface{}{"e": "aborted"})
				w.abandon()
				omark(map[string]interface{}{"e": "crash", "maxlsn": walMax()})
				evm["ok"] = false
				ev(evm)
				if !recoverAndObserve() {
					return
				}
				continue
			}
			fe, probs := flushChecked(w, rq.PageRT, res.Stats)
			if fe != nil {
				return fail("flush failed: " + fe.Error())
			}
			if len(probs) > 0 {
				res.OK = false
				res.Viol = append(res.Viol, probs...)
				return
			}
		}
		if rq.Cache > 0 {
			if n := storage.VerifCacheLen(w.sess.RelationService); n > rq.Cache {
				return fail(fmt.Sprintf("the page cache holds %d pages, its capacity is %d", n, rq.Cache))
			}
		}
		res.Stats["stmts"]++
		if st.A == "insert" && e == nil {
			inserted += len(st.Rows)
		}
		nWal := 0
		for _, x := range ios {
			if x.File == "wal" {
				nWal++
			}
		}
		if inWal && e == nil && nWal > 0 {
			// the process dies before log write call number cut (0-based), tail kept or not
			cut := rng.Intn(nWal)
			keep := rng.Intn(2) == 0
			if cut < nWal {
				walNow, _ := walCut(before.wal, ios, cut, keep)
				if keep {
					// ... or inside that write call: some of its bytes reached the file
					if wn, ok := walPart(walNow, ios, cut, rng.Intn(4)); ok && len(wn) > len(walNow) {
						walNow = wn
						res.Stats["crash-inside-log-write"]++
					}
				}
				cur := takeSnap()
				w.abandon()
				if err := writeImage(cur.tbl, walNow); err != nil {
					res.Diverged = err.Error()
					return
				}
				evm["e"] = "cut-" + st.A
				ev(evm)
				omark(map[string]interface{}{"e": "crash", "maxlsn": walMax()})
				res.Stats["crash-in-log"]++
				if !recoverAndObserve() {
					return
				}
				continue
			}
		}
		evm["ok"] = e == nil
		ev(evm)
		if crash && !inWal || (inWal && e == nil) {
			if dirty := storage.VerifDirtyCount(w.sess.RelationService); dirty > 0 && rq.Cache == 0 && rng.Intn(3) == 0 {
				// the process dies at the beginning of the flush of a shutdown: the session is closed, and the first page write
				// of the store's final flush never happens (whatever a shutdown does before that flush, nothing acknowledged
				// may depend on the flush completing). Later page writes are not cut here: a flush torn after its first write
				// is the subject of the enumerated C04 scenarios, where the known finding can be told apart.
				storage.VerifFailPageWrite(1)
				func() {
					defer func() { recover() }()
					w.sess.Close()
				}()
				storage.VerifRepairFile()
				res.Stats["crash-in-shutdown-flush"]++
			}
			w.abandon()
			omark(map[string]interface{}{"e": "crash", "maxlsn": walMax()})
			res.Stats["crash-idle"]++
			if !recoverAndObserve() {
				return
			}
			continue
		}
		if rq.Cache == 0 && rng.Float64() < rq.PFlush {
			if dirty := storage.VerifDirtyCount(w.sess.RelationService); dirty > 0 && rng.Float64() < rq.PFail {
				// one of the page writes of this flush fails: the flush must report it, the page must stay dirty (and so
				// resident), and nothing acknowledged may be lost when every clean page leaves the cache afterwards
				storage.VerifFailPageWrite(1 + rng.Intn(dirty))
				fe := storage.VerifFlush(w.sess.RelationService)
				struck, rerr := storage.VerifRepairFile()
				if rerr != nil {
					res.Diverged = "cannot reopen the data file after the injected fault: " + rerr.Error()
					return
				}
				if struck {
					if fe == nil {
						return fail("a page write failed during a flush and the flush reported success")
					}
					res.Stats["flushes-failed"]++
					res.Stats["evicted-after-failed-flush"] += storage.VerifEvictClean(w.sess.RelationService)
					ev(map[string]interface{}{"e": "pause", "what": "flush-failed"})
					if !observe(tables) {
						return
					}
				} else if fe != nil {
					return fail("flush failed: " + fe.Error())
				}
			}
			fe, probs := flushChecked(w, rq.PageRT, res.Stats)
			if fe != nil {
				return fail("flush failed: " + fe.Error())
			}
			if len(probs) > 0 {
				res.OK = false
				res.Viol = append(res.Viol, probs...)
				return
			}
			ev(map[string]interface{}{"e": "pause", "what": "flush"})
			res.Stats["flushes"]++
			if rng.Float64() < rq.PFail/2 {
				// read faults: with every page out of the cache and the data file unreadable, statements fail (with an error
				// value); once the file is readable again every table reads as before - a failed read leaves nothing behind
				storage.VerifEvictClean(w.sess.RelationService)
				storage.VerifBreakFile(w.sess.RelationService)
				for _, t := range tables {
					var perr interface{}
					func() {
						defer func() { perr = recover() }()
						w.selectAll(t)
						w.selectAll(t)
					}()
					if perr != nil {
						storage.VerifRepairFile()
						return fail(fmt.Sprintf("SELECT * FROM %s panicked while the data file could not be read: %v", t, perr))
					}
				}
				if _, rerr := storage.VerifRepairFile(); rerr != nil {
					res.Diverged = "cannot reopen the data file after the read faults: " + rerr.Error()
					return
				}
				res.Stats["read-fault-rounds"]++
				if !observe(tables) {
					return
				}
			}
		}
		if rq.GraphEvery > 0 && i%rq.GraphEvery == 0 {
			if !dumpGraph() {
				return
			}
		}
		if i%12 == 0 {
			if !observe([]string{t}) {
				return
			}
		}
	}
	if !observe(tables) {
		return
	}
	dumpGraph()
	obs, _ := w.observe()
	for _, t := range tables {
		if len(obs[t]) > res.Stats["maxrows"] {
			res.Stats["maxrows"] = len(obs[t])
		}
	}
	if rq.Cache > 0 {
		res.Stats["cachelen"] = storage.VerifCacheLen(w.sess.RelationService)
	}
	return
}

func newRand(seed int64) *rand.Rand { return rand.New(rand.NewSource(seed)) }
