// Command codec replays PageCodec.tla scenarios against the real page codec
// and fileStore (C12): it builds concrete nodes from the abstract shape
// descriptors TLC enumerated, stores them with fileStore.update on a real
// file, opens fresh fileStores (cold cache), fetches, and reports the
// logical content of what was stored and of what came back. It also records
// random large workloads as NDJSON traces for PageCodecTrace.tla.
//
// The harness takes no decisions: comparisons are made by the check
// (tools/check_c12.py) against the expectations computed by TLC.
package main

import (
	"bufio"
	"bytes"
	"crypto/sha256"
	"encoding/hex"
	"encoding/json"
	"fmt"
	"io"
	"math/rand"
	"os"
	"os/exec"
	"path/filepath"
	"runtime/debug"
	"sort"
	"strconv"
	"strings"
	"sync"
	"syscall"

	"github.com/mk6i/mkdb/storage"
)

type cellDesc struct {
	Sz  int  `json:"sz"`
	Del bool `json:"del"`
}

type nodeDesc struct {
	Kind  string     `json:"kind"`
	N     int        `json:"n"`
	Cells []cellDesc `json:"cells"`
	Ins   []int      `json:"ins"`
	Insp  string     `json:"insp"`
	Stale bool       `json:"stale"`
	Upd   struct {
		Pos  int `json:"pos"`  // rank of the cell replaced through updateCell (0 = none)
		From int `json:"from"` // size of the value it had before
	} `json:"upd"`
	Sib  string `json:"sib"`
	Lsn  string `json:"lsn"`
	Keys string `json:"keys"`
}

type step struct {
	A    string    `json:"a"`
	P    uint64    `json:"p"`
	Node *nodeDesc `json:"node"`
}

type request struct {
	Mode  string `json:"mode"` // "" replay | "random" | "probe"
	Steps []step `json:"steps"`
	Full  bool   `json:"full"`
	// random mode
	Seed  int64  `json:"seed"`
	N     int    `json:"n"`
	Pages int    `json:"pages"`
	Out   string `json:"out"`
	Dump  int    `json:"dump"` // 1-based event index to dump in full (0 = none)
}

type stepRes struct {
	Stored  map[string]interface{} `json:"stored,omitempty"`
	RT      map[string]interface{} `json:"rt,omitempty"`
	EncLen  int                    `json:"enc_len,omitempty"`
	Fetched map[string]interface{} `json:"fetched,omitempty"`
	Hit     bool                   `json:"hit"`
	Flen    int64                  `json:"flen"`
	Err     string                 `json:"err,omitempty"`
}

type result struct {
	OK     bool                   `json:"ok"` // false: the harness itself failed (not a verdict)
	Err    string                 `json:"err,omitempty"`
	Steps  []stepRes              `json:"steps,omitempty"`
	Events int                    `json:"events,omitempty"`
	Shapes map[string]int         `json:"shapes,omitempty"`
	Dump   map[string]interface{} `json:"dump,omitempty"`
	Died   string                 `json:"died,omitempty"` // the executor process died on this request (see supervise)
}

func u64(x uint64) string { return strconv.FormatUint(x, 10) }

func valRepr(b []byte, full bool) string {
	if full || len(b) <= 24 {
		return hex.EncodeToString(b)
	}
	h := sha256.Sum256(b)
	return fmt.Sprintf("sha256:%s/%d", hex.EncodeToString(h[:12]), len(b))
}

// content renders the logical content of a node as JSON-able data. Large
// internal nodes are summarised by a digest over the canonical cell list
// unless full is set.
func content(c storage.VerifCodecContent, full bool) map[string]interface{} {
	m := map[string]interface{}{
		"leaf": c.Leaf, "off": u64(c.FileOffset), "lsn": u64(c.LastLSN), "n": len(c.Cells),
	}
	if c.Leaf {
		m["hl"], m["hr"], m["ls"], m["rs"] = c.HasLSib, c.HasRSib, u64(c.LSib), u64(c.RSib)
		cells := make([]interface{}, 0, len(c.Cells))
		for _, x := range c.Cells {
			repr := valRepr(x.Value, full)
			if x.Value == nil && x.ValueLen > 0 {
				repr = fmt.Sprintf("oversize/%d", x.ValueLen) // longer than a page: not copied, not hashed
			}
			cells = append(cells, []interface{}{u64(uint64(x.Key)), x.Deleted, int(x.ValueSize), x.ValueLen, repr})
		}
		m["cells"] = cells
	} else {
		m["right"] = u64(c.Right)
		cells := make([]interface{}, 0, len(c.Cells))
		var sb strings.Builder
		for _, x := range c.Cells {
			cells = append(cells, []interface{}{u64(uint64(x.Key)), u64(x.Child)})
			fmt.Fprintf(&sb, "%d:%d;", x.Key, x.Child)
		}
		if full || len(cells) <= 12 {
			m["cells"] = cells
		} else {
			h := sha256.Sum256([]byte(sb.String()))
			m["cells_sha"] = hex.EncodeToString(h[:16])
			m["head"] = cells[:2]
			m["tail"] = cells[len(cells)-2:]
		}
	}
	return m
}

func digest(c storage.VerifCodecContent) string {
	b, _ := json.Marshal(content(c, true))
	h := sha256.Sum256(b)
	return hex.EncodeToString(h[:10])
}

// value bytes of the cell with rank r and the given size: all 256 byte values
// occur in every value of 256 bytes or more (167 is odd)
func valueBytes(r, size int) []byte {
	b := make([]byte, size)
	for i := range b {
		b[i] = byte(i*167 + r*29 + 11)
	}
	return b
}

const wideStep = 0x00A5A5A5

func keyOf(class string, r, total int) uint32 {
	if class == "wide" {
		return uint32(0xFFFFFFFF - uint64(total-r)*wideStep)
	}
	return uint32(r)
}

func childOf(class string, r int) uint64 {
	if class == "wide" {
		return (uint64(1) << 40) + uint64(r)*4096*3
	}
	return uint64(r+1) * 4096
}

// build makes the concrete node an abstract descriptor stands for, using the
// package's own cell operations.
func build(d *nodeDesc, page uint64) (*storage.VerifCodecNode, error) {
	if !d.Stale {
		return buildWith(d, page, d.N)
	}
	// a page that carries stale bytes: a fuller node is built and split, and the half that stays must have d.N cells.
	// Where the package puts the split point is its own business, so the number of cells before the split is found by trying.
	capa := storage.VerifCodecIntCap
	if d.Kind == "leaf" {
		capa = storage.VerifCodecLeafCap
	}
	if d.N == 0 {
		return nil, fmt.Errorf("stale shape with n=0")
	}
	var last error
	for _, total := range []int{2*d.N + 1, 2 * d.N, 2*d.N - 1, 2*d.N + 2} {
		if total > capa || total <= d.N {
			continue
		}
		v, err := buildWith(d, page, total)
		if err == nil {
			return v, nil
		}
		last = err
	}
	if last == nil {
		last = fmt.Errorf("stale-shape: n=%d does not fit capacity %d", d.N, capa)
	}
	return nil, last
}

func buildWith(d *nodeDesc, page uint64, total int) (*storage.VerifCodecNode, error) {
	leaf := d.Kind == "leaf"
	v := storage.VerifCodecNewNode(leaf)
	if leaf {
		if len(d.Cells) != d.N || len(d.Ins) != d.N {
			return nil, fmt.Errorf("descriptor: n=%d cells=%d ins=%d", d.N, len(d.Cells), len(d.Ins))
		}
		if d.Upd.Pos < 0 || d.Upd.Pos > d.N {
			return nil, fmt.Errorf("descriptor: upd.pos=%d with n=%d", d.Upd.Pos, d.N)
		}
		for _, r := range d.Ins {
			sz := d.Cells[r-1].Sz
			if r == d.Upd.Pos {
				sz = d.Upd.From // the value the cell has before updateCell replaces it
			}
			if err := v.InsertLeaf(keyOf(d.Keys, r, total), valueBytes(r, sz)); err != nil {
				return nil, fmt.Errorf("insertLeafCell: %w", err)
			}
		}
		for r := d.N + 1; r <= total; r++ {
			if err := v.InsertLeaf(keyOf(d.Keys, r, total), valueBytes(r, 7)); err != nil {
				return nil, err
			}
		}
		for r := 1; r <= d.N; r++ {
			if d.Cells[r-1].Del {
				if err := v.SetDeleted(r-1, true); err != nil {
					return nil, err
				}
			}
		}
	} else {
		m := (d.N + 1) / 2
		for r := 1; r <= total; r++ {
			if d.Insp == "mid" && r == m {
				continue
			}
			if err := v.AppendInternal(keyOf(d.Keys, r, total), childOf(d.Keys, r)); err != nil {
				return nil, err
			}
		}
		if d.Insp == "mid" {
			if err := v.InsertInternal(keyOf(d.Keys, m, total), childOf(d.Keys, m)); err != nil {
				return nil, fmt.Errorf("insertInternalCell: %w", err)
			}
		}
		v.SetRight(childOf(d.Keys, total+1))
	}
	if d.Stale {
		if _, _, err := v.Split(); err != nil {
			return nil, fmt.Errorf("split: %w", err)
		}
	}
	if v.Count() != d.N {
		if d.Stale {
			// the page was to carry stale bytes from a split that leaves d.N cells; the package's split point is not what
			// the descriptor assumes (it may legitimately change): this shape cannot be built, which says nothing about C12
			return nil, fmt.Errorf("stale-shape: split left %d cells, descriptor assumes %d", v.Count(), d.N)
		}
		return nil, fmt.Errorf("built node has %d cells, descriptor says %d", v.Count(), d.N)
	}
	if leaf && d.Upd.Pos > 0 {
		// replace the value through btreeNode.updateCell (other bytes, possibly another length)
		r := d.Upd.Pos
		if err := v.UpdateLeaf(keyOf(d.Keys, r, total), valueBytes(r+100, d.Cells[r-1].Sz)); err != nil {
			return nil, fmt.Errorf("updateCell: %w", err)
		}
	}
	lsn, err := strconv.ParseUint(d.Lsn, 10, 64)
	if err != nil {
		return nil, err
	}
	hasL, hasR := strings.HasPrefix(d.Sib, "L"), strings.HasSuffix(d.Sib, "R")
	var l, r uint64
	if hasL {
		l = childOf(d.Keys, 5)
	}
	if hasR {
		r = childOf(d.Keys, 9)
	}
	v.SetHeader(page*storage.VerifCodecPageSize, lsn, hasL, hasR, l, r)
	return v, nil
}

func fileLen(path string) int64 {
	st, err := os.Stat(path)
	if err != nil {
		return -1
	}
	return st.Size()
}

var scnCounter int

func replay(req request) result {
	scnCounter++
	path := filepath.Join(".", fmt.Sprintf("pages-%d.tbl", scnCounter%4))
	os.Remove(path)
	defer os.Remove(path)
	st, err := storage.VerifCodecOpen(path)
	if err != nil {
		return result{Err: "open: " + err.Error()}
	}
	defer func() { st.Close() }()
	res := result{OK: true}
	for _, s := range req.Steps {
		var sr stepRes
		switch s.A {
		case "update":
			v, err := build(s.Node, s.P)
			if err != nil {
				return result{Err: "build: " + err.Error()}
			}
			c, err := v.Content()
			if err != nil {
				return result{Err: "content of built node: " + err.Error()}
			}
			sr.Stored = content(c, req.Full)
			// encode() directly, and decode(encode(n))
			if b, err := v.Encode(); err != nil {
				sr.Err = "encode: " + err.Error()
			} else {
				sr.EncLen = len(b)
				if dv, err := storage.VerifCodecDecode(b); err != nil {
					sr.Err = "decode(encode(n)): " + err.Error()
				} else if dc, err := dv.Content(); err != nil {
					sr.Err = "content of decode(encode(n)): " + err.Error()
				} else {
					sr.RT = content(dc, req.Full)
				}
			}
			sr.Hit = st.Cached(s.P * storage.VerifCodecPageSize)
			if err := st.Update(v); err != nil {
				sr.Err = strings.TrimSpace(sr.Err + " update: " + err.Error())
			}
		case "drop":
			st.Close()
			st, err = storage.VerifCodecOpen(path)
			if err != nil {
				return result{Err: "reopen: " + err.Error()}
			}
		case "fetch":
			off := s.P * storage.VerifCodecPageSize
			sr.Hit = st.Cached(off)
			v, err := st.Fetch(off)
			if err != nil {
				sr.Err = "fetch: " + err.Error()
			} else if c, err := v.Content(); err != nil {
				sr.Err = "content of fetched node: " + err.Error()
			} else {
				sr.Fetched = content(c, req.Full)
			}
		default:
			return result{Err: "unknown step " + s.A}
		}
		sr.Flen = fileLen(path)
		res.Steps = append(res.Steps, sr)
	}
	return res
}

// ---------------------------------------------------------------- random workloads

func pick(rng *rand.Rand, capa int) int {
	switch rng.Intn(6) {
	case 0:
		return capa
	case 1:
		return capa - 1
	case 2:
		return rng.Intn(3)
	default:
		return rng.Intn(capa + 1)
	}
}

func pickSize(rng *rand.Rand) int {
	switch rng.Intn(8) {
	case 0:
		return 0
	case 1:
		return storage.VerifCodecMaxValue
	case 2:
		return storage.VerifCodecMaxValue - 1
	case 3:
		return 1
	default:
		return rng.Intn(storage.VerifCodecMaxValue + 1)
	}
}

func rand64(rng *rand.Rand) uint64 {
	switch rng.Intn(5) {
	case 0:
		return 0
	case 1:
		return ^uint64(0)
	case 2:
		return uint64(rng.Intn(1000))
	default:
		return rng.Uint64()
	}
}

// randomNode builds a random node of any admissible size. Leaves are filled
// in random key order (random offsets permutation, all slots referenced) or
// in ascending order followed by a real split (cells left behind).
func randomNode(rng *rand.Rand, page uint64) (*storage.VerifCodecNode, []string, error) {
	leaf := rng.Intn(3) != 0
	v := storage.VerifCodecNewNode(leaf)
	shape := []string{"internal"}
	if leaf {
		shape = []string{"leaf"}
		n := pick(rng, storage.VerifCodecLeafCap)
		split := n >= 2 && rng.Intn(4) == 0
		asc := split || rng.Intn(3) == 0 // ascending key order, as the engine's row ids
		keys := map[uint32]bool{}
		var ks []uint32
		for len(ks) < n {
			k := rng.Uint32()
			if rng.Intn(4) == 0 {
				k = uint32(rng.Intn(64))
			}
			if !keys[k] {
				keys[k] = true
				ks = append(ks, k)
			}
		}
		if asc {
			sort.Slice(ks, func(i, j int) bool { return ks[i] < ks[j] })
		}
		if split {
			shape = append(shape, "leaf-split")
		} else if n >= 2 && !asc {
			shape = append(shape, "leaf-perm")
		}
		for _, k := range ks {
			b := make([]byte, pickSize(rng))
			rng.Read(b)
			if err := v.InsertLeaf(k, b); err != nil {
				return nil, nil, err
			}
		}
		for i := 0; i < n; i++ {
			if rng.Intn(3) == 0 {
				v.SetDeleted(i, true)
			}
		}
		if split {
			if _, _, err := v.Split(); err != nil {
				return nil, nil, err
			}
		}
		if n == storage.VerifCodecLeafCap && !split {
			shape = append(shape, "leaf-full")
		}
		// values replaced through updateCell (ascending nodes only: updateCell
		// addresses the slot by position), after the split if there was one
		if asc && v.Count() >= 1 && rng.Intn(2) == 0 {
			for u := 1 + rng.Intn(3); u > 0; u-- {
				c, err := v.Content()
				if err != nil {
					return nil, nil, err
				}
				b := make([]byte, pickSize(rng))
				rng.Read(b)
				if err := v.UpdateLeaf(c.Cells[rng.Intn(len(c.Cells))].Key, b); err != nil {
					return nil, nil, err
				}
			}
			shape = append(shape, "leaf-updated")
		}
	} else {
		n := pick(rng, storage.VerifCodecIntCap)
		split := n >= 2 && rng.Intn(4) == 0
		keys := map[uint32]bool{}
		var ks []uint32
		for len(ks) < n {
			k := rng.Uint32()
			if !keys[k] {
				keys[k] = true
				ks = append(ks, k)
			}
		}
		sort.Slice(ks, func(i, j int) bool { return ks[i] < ks[j] })
		for _, k := range ks {
			if err := v.AppendInternal(k, rand64(rng)); err != nil {
				return nil, nil, err
			}
		}
		v.SetRight(rand64(rng))
		if split {
			shape = append(shape, "internal-split")
			if _, _, err := v.Split(); err != nil {
				return nil, nil, err
			}
		} else if n == storage.VerifCodecIntCap {
			shape = append(shape, "internal-full")
		}
	}
	hasL, hasR := rng.Intn(2) == 0, rng.Intn(2) == 0
	var l, r uint64
	if hasL {
		l = rand64(rng)
	}
	if hasR {
		r = rand64(rng)
	}
	v.SetHeader(page*storage.VerifCodecPageSize, rand64(rng), hasL, hasR, l, r)
	return v, shape, nil
}

func random(req request) result {
	rng := rand.New(rand.NewSource(req.Seed))
	path := filepath.Join(".", "random.tbl")
	os.Remove(path)
	defer os.Remove(path)
	st, err := storage.VerifCodecOpen(path)
	if err != nil {
		return result{Err: "open: " + err.Error()}
	}
	defer func() { st.Close() }()
	var w *bufio.Writer
	if req.Out != "" {
		f, err := os.Create(req.Out)
		if err != nil {
			return result{Err: "cannot write trace: " + err.Error()}
		}
		defer f.Close()
		w = bufio.NewWriter(f)
		defer w.Flush()
	}
	emit := func(m map[string]interface{}) {
		if w != nil {
			b, _ := json.Marshal(m)
			w.Write(b)
			w.WriteByte('\n')
		}
	}
	emit(map[string]interface{}{"a": "reset"})
	res := result{OK: true, Shapes: map[string]int{}}
	written := map[uint64]storage.VerifCodecContent{}
	var pages []uint64
	stop := false
	for i := 1; i <= req.N; i++ {
		op := rng.Intn(10)
		switch {
		case op < 4 || len(pages) == 0:
			p := uint64(1 + rng.Intn(req.Pages))
			v, shape, err := randomNode(rng, p)
			if err != nil {
				return result{Err: "random node: " + err.Error()}
			}
			for _, t := range shape {
				res.Shapes[t]++
			}
			c, err := v.Content()
			if err != nil {
				return result{Err: "content: " + err.Error()}
			}
			ev := map[string]interface{}{"a": "update", "p": p, "node": digest(c), "enc": 0, "rt": "", "err": ""}
			if b, err := v.Encode(); err != nil {
				ev["err"] = "encode: " + err.Error()
			} else {
				ev["enc"] = len(b)
				if dv, err := storage.VerifCodecDecode(b); err != nil {
					ev["err"] = "decode: " + err.Error()
				} else if dc, err := dv.Content(); err != nil {
					ev["err"] = "content: " + err.Error()
				} else {
					ev["rt"] = digest(dc)
					if req.Dump == i {
						res.Dump = map[string]interface{}{"event": i, "stored": content(c, true), "decode_of_encode": content(dc, true)}
					}
				}
			}
			if err := st.Update(v); err != nil {
				ev["err"] = fmt.Sprint(ev["err"], " update: ", err.Error())
			}
			ev["flen"] = fileLen(path)
			if req.Dump == i && res.Dump == nil {
				// the node could not be encoded / decoded / stored at all: that is what the re-run has to show
				res.Dump = map[string]interface{}{"event": i, "stored": content(c, true), "error": ev["err"]}
			}
			if _, ok := written[p]; !ok {
				pages = append(pages, p)
			}
			written[p] = c
			emit(ev)
			if ev["err"] != "" || ev["rt"] != ev["node"] {
				stop = true // the trace is complete as evidence: this event cannot be a step of the specification
			}
		case op < 5:
			st.Close()
			st, err = storage.VerifCodecOpen(path)
			if err != nil {
				return result{Err: "reopen: " + err.Error()}
			}
			emit(map[string]interface{}{"a": "drop"})
		default:
			p := pages[rng.Intn(len(pages))]
			off := p * storage.VerifCodecPageSize
			ev := map[string]interface{}{"a": "fetch", "p": p, "hit": st.Cached(off), "node": "", "err": ""}
			v, err := st.Fetch(off)
			if err != nil {
				ev["err"] = "fetch: " + err.Error()
			} else if c, err := v.Content(); err != nil {
				ev["err"] = "content: " + err.Error()
			} else {
				ev["node"] = digest(c)
				if req.Dump == i {
					res.Dump = map[string]interface{}{"event": i, "page": p, "last_stored": content(written[p], true), "fetched": content(c, true)}
				}
			}
			ev["flen"] = fileLen(path)
			if req.Dump == i && res.Dump == nil {
				res.Dump = map[string]interface{}{"event": i, "page": p, "last_stored": content(written[p], true), "error": ev["err"]}
			}
			emit(ev)
			if ev["err"] != "" || ev["node"] != digest(written[p]) {
				stop = true
			}
		}
		res.Events = i
		if stop {
			// Nothing is decided here: TLC rejects the trace at this event. Going on would only decode more
			// pages with garbage length fields (allocations of gigabytes per cell).
			break
		}
	}
	return res
}

// probe: a shape outside the property's scope (see DESIGN / check_c12 notes):
// a leaf filled in descending key order and then split keeps offsets that
// point beyond the number of remaining cells.
func probe() result {
	v := storage.VerifCodecNewNode(true)
	for _, k := range []uint32{50, 40, 30, 20, 10} {
		v.InsertLeaf(k, []byte{byte(k)})
	}
	if _, _, err := v.Split(); err != nil {
		return result{Err: err.Error()}
	}
	v.SetHeader(4096, 1, false, false, 0, 0)
	res := result{OK: true, Dump: map[string]interface{}{}}
	c, _ := v.Content()
	res.Dump["stored"] = content(c, true)
	res.Dump["offsets"] = c.Offsets
	b, err := v.Encode()
	if err != nil {
		res.Dump["encode_err"] = err.Error()
		return res
	}
	dv, err := storage.VerifCodecDecode(b)
	if err != nil {
		res.Dump["decode_err"] = err.Error()
		return res
	}
	dc, err := dv.Content()
	if err != nil {
		res.Dump["decode_err"] = err.Error()
		return res
	}
	res.Dump["decoded"] = content(dc, true)
	return res
}

// memCap bounds the address space of the executor process. A page damaged by
// a defect can carry a garbage length field, and the real decodeLeaf then
// allocates up to 4 GiB per cell; twelve workers doing that starve the
// machine. Under the cap such an allocation kills the executor instead; the
// supervisor reports that for the request and starts a new executor.
const memCap = 1 << 30

type lockedBuf struct {
	mu sync.Mutex
	b  []byte
}

func (l *lockedBuf) Write(p []byte) (int, error) {
	l.mu.Lock()
	defer l.mu.Unlock()
	l.b = append(l.b, p...)
	if len(l.b) > 1<<16 {
		l.b = l.b[len(l.b)-1<<15:]
	}
	return len(p), nil
}

func (l *lockedBuf) head() string {
	l.mu.Lock()
	defer l.mu.Unlock()
	t := string(l.b)
	if j := strings.Index(t, "\n\n"); j >= 0 { // a Go fatal error: the message comes first, then the stacks
		t = t[:j]
	}
	if len(t) > 400 {
		t = t[:400]
	}
	return strings.TrimSpace(t)
}

// supervise forwards each request line to an executor child (this binary
// with VERIF_CODEC_EXEC=1, address space capped) and passes its answer on.
func supervise() {
	in := bufio.NewReaderSize(os.Stdin, 1<<20)
	out := bufio.NewWriter(os.Stdout)
	var cmd *exec.Cmd
	var cin io.WriteCloser
	var cout *bufio.Reader
	var cerr *lockedBuf
	start := func() error {
		// the cap must be in place when the Go runtime of the executor starts (it sizes its reservations by it)
		cmd = exec.Command("/bin/sh", "-c", fmt.Sprintf("ulimit -v %d; exec \"$0\"", memCap>>10), os.Args[0])
		cmd.Env = append(os.Environ(), "VERIF_CODEC_EXEC=1")
		cerr = &lockedBuf{}
		cmd.Stderr = io.MultiWriter(os.Stderr, cerr)
		var err error
		if cin, err = cmd.StdinPipe(); err != nil {
			return err
		}
		so, err := cmd.StdoutPipe()
		if err != nil {
			return err
		}
		cout = bufio.NewReaderSize(so, 1<<20)
		return cmd.Start()
	}
	for {
		line, err := in.ReadBytes('\n')
		if len(line) > 1 {
			var ans []byte
			if cmd == nil {
				if e := start(); e != nil {
					ans, _ = json.Marshal(result{Err: "cannot start executor: " + e.Error()})
				}
			}
			if ans == nil {
				if line[len(line)-1] != '\n' {
					line = append(line, '\n')
				}
				_, werr := cin.Write(line)
				var rerr error
				if werr == nil {
					ans, rerr = cout.ReadBytes('\n')
				}
				if werr != nil || rerr != nil || len(ans) < 2 {
					cin.Close()
					werr2 := cmd.Wait()
					ans, _ = json.Marshal(result{OK: true, Died: fmt.Sprintf("%v: %s", werr2, cerr.head())})
					cmd = nil
				}
			}
			out.Write(bytes.TrimRight(ans, "\n"))
			out.WriteByte('\n')
		}
		if in.Buffered() == 0 || err != nil {
			out.Flush()
		}
		if err != nil {
			break
		}
	}
	if cmd != nil {
		cin.Close()
		cmd.Wait()
	}
}

func main() {
	if os.Getenv("VERIF_CODEC_EXEC") != "1" {
		supervise()
		return
	}
	var lim syscall.Rlimit
	if err := syscall.Getrlimit(syscall.RLIMIT_AS, &lim); err != nil || lim.Cur > memCap {
		fmt.Fprintln(os.Stderr, "executor started without the address-space cap:", err, lim.Cur)
		os.Exit(3)
	}
	debug.SetMemoryLimit(memCap / 4)
	in := bufio.NewReaderSize(os.Stdin, 1<<20)
	out := bufio.NewWriter(os.Stdout)
	for {
		line, err := in.ReadBytes('\n')
		if len(line) > 1 {
			var req request
			var res result
			if e := json.Unmarshal(line, &req); e != nil {
				res = result{Err: "bad request: " + e.Error()}
			} else {
				switch req.Mode {
				case "random":
					res = random(req)
				case "probe":
					res = probe()
				default:
					res = replay(req)
				}
			}
			b, _ := json.Marshal(res)
			out.Write(b)
			out.WriteByte('\n')
		}
		if in.Buffered() == 0 || err != nil {
			out.Flush()
		}
		if err != nil {
			break
		}
	}
}
