// Command sqlfe drives mkdb's SQL front end (sql.NewTokenScanner + sql.Parser.Parse,
// composed exactly as engine.parseSQL composes them) for the checks C09 and C10.
//
// It reads one JSON request per line on stdin and answers one JSON line per request.
//
//	{"mode":"info"}                       -> the token kinds of sql/scanner.go
//	{"mode":"c10","toks":[[t,v,o],...]}   -> every rendering of the abstract tokens is parsed and the
//	                                         parser's AST is mapped field by field to SqlGrammar.tla's shape
//	{"mode":"c09","toks":[[t,v],...]}     -> the rendered input is tokenised and parsed under recover(), a
//	{"mode":"c09","raw":"<base64>"}          watchdog and an allocation meter
package main

import (
	"reflect"
	"bufio"
	"bytes"
	"encoding/base64"
	"encoding/json"
	"fmt"
	"hash/fnv"
	"io"
	"os"
	"runtime"
	"runtime/metrics"
	"sort"
	"strings"
	"syscall"
	"time"
	"unicode/utf8"

	"github.com/mk6i/mkdb/engine"
	"github.com/mk6i/mkdb/sql"
)

// ---------------------------------------------------------------- the front end, as engine.parseSQL runs it

type feResult struct {
	stmt   interface{}
	err    error
	ntok   int
	kinds  []int
	panicV string
	sig    string
	frames []string
}

func parseSQL(q string, r *feResult) {
	ts := sql.NewTokenScanner(strings.NewReader(q))
	tl := sql.TokenList{}
	for ts.Next() {
		t := ts.Cur()
		tl.Add(t)
		r.ntok++
		r.kinds = append(r.kinds, int(t.Type))
	}
	p := sql.Parser{TokenList: tl}
	r.stmt, r.err = p.Parse()
	// ... and what the session itself makes of the text (engine.parseSQL): that is what gets executed. Where the two
	// disagree the session's answer is the one that is judged.
	if st, err := engine.VerifParseSQL(q); (err == nil) != (r.err == nil) || (err == nil && !reflect.DeepEqual(st, r.stmt)) {
		r.stmt, r.err = st, err
	}
}

const sqlPkg = "github.com/mk6i/mkdb/sql."

// guarded runs the front end in its own goroutine under recover().
func guarded(q string, done chan<- *feResult) {
	r := &feResult{}
	defer func() {
		if v := recover(); v != nil {
			r.panicV = fmt.Sprint(v)
			pcs := make([]uintptr, 64)
			n := runtime.Callers(2, pcs)
			fr := runtime.CallersFrames(pcs[:n])
			for {
				f, more := fr.Next()
				if !strings.HasPrefix(f.Function, "runtime.") && f.Function != "" {
					name := f.Function
					if strings.HasPrefix(name, sqlPkg) {
						short := "sql." + strings.TrimPrefix(name, sqlPkg)
						if r.sig == "" {
							r.sig = short
						}
						if len(r.frames) < 6 {
							r.frames = append(r.frames, fmt.Sprintf("%s:%d", short, f.Line))
						}
					}
				}
				if !more {
					break
				}
			}
		}
		done <- r
	}()
	parseSQL(q, r)
}

var allocSample = []metrics.Sample{{Name: "/gc/heap/allocs:bytes"}}

func allocBytes() uint64 {
	metrics.Read(allocSample)
	if allocSample[0].Value.Kind() == metrics.KindUint64 {
		return allocSample[0].Value.Uint64()
	}
	return 0
}

type c09Out struct {
	Res    string   `json:"res"` // stmt | error | panic | hang
	Sig    string   `json:"sig,omitempty"`
	Panic  string   `json:"panic,omitempty"`
	Frames []string `json:"frames,omitempty"`
	Err    string   `json:"err,omitempty"`
	Ntok   int      `json:"ntok"`
	Nbytes int      `json:"nbytes"`
	Alloc  uint64   `json:"alloc"`
	Hash   string   `json:"h"`
	In     string   `json:"in,omitempty"`
	InB64  string   `json:"in_b64,omitempty"`
	Kinds  []int    `json:"newkinds,omitempty"`
	Sep    string   `json:"sep"`
}

var seenKinds = map[int]bool{}
var watchdog = 2 * time.Second

// hungNow: the watchdog fired. The goroutine that runs the front end cannot be stopped from inside, so after
// the answer has been written the process replaces itself with a fresh image (see main).
var hungNow bool

func runC09(input string, echo bool) c09Out {
	done := make(chan *feResult, 1)
	a0 := allocBytes()
	go guarded(input, done)
	var r *feResult
	t := time.NewTimer(watchdog)
	select {
	case r = <-done:
		t.Stop()
	case <-t.C:
	}
	out := c09Out{Nbytes: len(input)}
	h := fnv.New64a()
	h.Write([]byte(input))
	out.Hash = fmt.Sprintf("%016x", h.Sum64())
	switch {
	case r == nil:
		out.Res = "hang"
		hungNow = true
	case r.panicV != "":
		out.Res, out.Panic, out.Sig, out.Frames, out.Ntok = "panic", r.panicV, r.sig, r.frames, r.ntok
	case r.err != nil:
		out.Res, out.Ntok = "error", r.ntok
		if echo {
			out.Err = r.err.Error()
		}
	default:
		out.Res, out.Ntok = "stmt", r.ntok
	}
	out.Alloc = allocBytes() - a0
	if r != nil {
		for _, k := range r.kinds {
			if !seenKinds[k] {
				seenKinds[k] = true
				out.Kinds = append(out.Kinds, k)
			}
		}
	}
	if echo || out.Res == "panic" || out.Res == "hang" {
		if utf8.ValidString(input) {
			out.In = input
		} else {
			out.InB64 = base64.StdEncoding.EncodeToString([]byte(input))
		}
	}
	return out
}

// ---------------------------------------------------------------- rendering abstract tokens to bytes

type tok struct{ T, V, O string }

func (t *tok) UnmarshalJSON(b []byte) error {
	var a []string
	if err := json.Unmarshal(b, &a); err != nil {
		return err
	}
	if len(a) < 2 {
		return fmt.Errorf("token needs [t, v(, o)]")
	}
	t.T, t.V = a[0], a[1]
	if len(a) > 2 {
		t.O = a[2]
	}
	return nil
}

// the lexical classes SqlGrammar.tla names but cannot write in a TLA+ string
var lexClasses = map[string]string{
	"dquote":          `"`,
	"dq_unterminated": `"abc`,
	"dq_ident":        `"abc"`,
	"dq_empty":        `""`,
	"dq_keyword":      `"select"`,
	"sq_escape":       `'a\'b'`,
	"sq_newline":      "'ab\ncd'",
	"backslash":       `\`,
	"nul":             "\x00",
	"nul_in_ident":    "a\x00b",
	"bad_utf8":        "\xff\xfe",
	"trunc_utf8":      "\xe2\x82",
	"bom":             "\ufeff",
	"bom_inside":      "a\ufeffb",
	"nonascii_ident":  "naïve表",
	"nonascii_punct":  "§≠",
	"long_ident":      strings.Repeat("a", 5000),
	"long_string":     "'" + strings.Repeat("b", 3000) + "'",
	"long_int":        strings.Repeat("9", 2500),
	"cr":              "\r",
	"vtab":            "\v\f",
	"tab_nl":          "\t\n",
}

func kwCase(w string, mode int) string {
	switch mode {
	case 1:
		return strings.ToLower(w)
	case 2:
		b := []byte(strings.ToLower(w))
		for i := 0; i < len(b); i += 2 {
			if b[i] >= 'a' && b[i] <= 'z' {
				b[i] -= 'a' - 'A'
			}
		}
		return string(b)
	}
	return w
}

func tokText(t tok, cas int) (string, bool) {
	switch t.T {
	case "KW":
		return kwCase(t.V, cas), true
	case "INT":
		// one spelling in three writes decimal integers with leading zeros (the same number in SQL; no other radix exists)
		if cas == 2 && len(t.V) > 0 && t.V[0] >= '0' && t.V[0] <= '9' {
			return "00" + t.V, true
		}
		return t.V, true
	case "P", "IDENT", "RAW":
		return t.V, true
	case "STR":
		return "'" + t.V + "'", true
	case "QID":
		return `"` + t.V + `"`, true
	case "LEX":
		s, ok := lexClasses[t.V]
		return s, ok
	}
	return "", false
}

// selfDelimiting: no white space is needed between such a token and its neighbours
func selfDelimiting(t tok) bool { return t.T == "P" || t.T == "STR" || t.T == "QID" }

func quoted(t tok) bool { return t.T == "STR" || t.T == "QID" }

var wsCycle = []string{"\n", "\t", "  ", "\r\n", " \n\t "}

// render spells the tokens; ws: 0 single spaces, 1 line breaks / tabs / runs of blanks (also around the
// statement), 2 no white space next to punctuation, operators and string literals, 3 no separator at all
func render(ts []tok, cas, ws int) (string, error) {
	var b strings.Builder
	if ws == 1 {
		b.WriteString("\n  ")
	}
	for i, t := range ts {
		s, ok := tokText(t, cas)
		if !ok {
			return "", fmt.Errorf("unknown token %v", t)
		}
		if i > 0 {
			switch ws {
			case 0:
				b.WriteByte(' ')
			case 1:
				b.WriteString(wsCycle[i%len(wsCycle)])
			case 2:
				// two quoted tokens stay apart: a doubled quote is an escape in other SQL dialects
				if (!selfDelimiting(t) && !selfDelimiting(ts[i-1])) || (quoted(t) && quoted(ts[i-1])) {
					b.WriteByte(' ')
				}
			}
		}
		b.WriteString(s)
	}
	if ws == 1 {
		b.WriteString(" \n")
	}
	return b.String(), nil
}

// choose drops optional tokens: kw: 0 all present, 1 all absent, 2/3 alternating;
// term: terminator present; legacy: GROUP BY separators written as commas
func choose(ts []tok, kw int, term, legacy bool) []tok {
	var out []tok
	n := 0
	for _, t := range ts {
		switch t.O {
		case "kw":
			n++
			if kw == 1 || (kw == 2 && n%2 == 0) || (kw == 3 && n%2 == 1) {
				continue
			}
		case "term":
			if !term {
				continue
			}
		case "legacy":
			if !legacy {
				continue
			}
		}
		out = append(out, t)
	}
	return out
}

// ---------------------------------------------------------------- Go AST -> the specification's shape

type obj = map[string]interface{}

func unknown(v interface{}) obj { return obj{"k": "?", "go": fmt.Sprintf("%T %+v", v, v)} }

func convCol(c sql.ColumnReference) obj { return obj{"k": "col", "q": c.Qualifier, "n": c.ColumnName} }

// operand or condition
func convExpr(v interface{}) interface{} {
	switch x := v.(type) {
	case nil:
		return obj{"k": "nil"}
	case sql.ColumnReference:
		return convCol(x)
	case int64:
		return obj{"k": "int", "i": x}
	case string:
		return obj{"k": "str", "s": x}
	case bool:
		return obj{"k": "bool", "b": x}
	case sql.Predicate:
		return convCmp(x.ComparisonPredicate)
	case sql.ComparisonPredicate:
		return convCmp(x)
	case sql.BooleanTerm:
		return obj{"k": "and", "l": convExpr(x.LHS), "r": convExpr(x.RHS)}
	case sql.SearchCondition:
		return obj{"k": "or", "l": convExpr(x.LHS), "r": convExpr(x.RHS)}
	case sql.Count:
		if x.ValueExpression == nil {
			return obj{"k": "count", "arg": obj{"k": "star"}}
		}
		return obj{"k": "count", "arg": convExpr(x.ValueExpression)}
	case sql.Average:
		return obj{"k": "avg", "arg": convExpr(x.ValueExpression)}
	case sql.Asterisk:
		return obj{"k": "star"}
	}
	return unknown(v)
}

func convCmp(c sql.ComparisonPredicate) obj {
	op, ok := sql.Tokens[c.CompOp]
	if !ok {
		op = fmt.Sprintf("?%d", c.CompOp)
	}
	return obj{"k": "cmp", "op": op, "l": convExpr(c.LHS), "r": convExpr(c.RHS)}
}

func convWhere(w interface{}) []interface{} {
	switch x := w.(type) {
	case nil:
		return []interface{}{}
	case sql.WhereClause:
		return []interface{}{convExpr(x.SearchCondition)}
	}
	return []interface{}{unknown(w)}
}

func convTable(t interface{}) interface{} {
	tn, ok := t.(sql.TableName)
	if !ok {
		return unknown(t)
	}
	alias := ""
	switch a := tn.CorrelationName.(type) {
	case nil:
	case string:
		alias = a
	default:
		return unknown(t)
	}
	return obj{"name": tn.Name, "alias": alias}
}

func joinType(j sql.JoinType) string {
	switch j {
	case sql.LEFT_JOIN:
		return "LEFT"
	case sql.RIGHT_JOIN:
		return "RIGHT"
	case sql.INNER_JOIN:
		return "INNER"
	case sql.FULL_JOIN:
		return "FULL"
	}
	return fmt.Sprintf("?%d", j)
}

// flatten the left-nested chain of QualifiedJoin into base table + joins in textual order
func convFrom(fc sql.FromClause) (from []interface{}, joins []interface{}) {
	from, joins = []interface{}{}, []interface{}{}
	if len(fc) == 0 {
		return
	}
	if len(fc) > 1 {
		from = append(from, unknown(fc))
		return
	}
	var chain []sql.QualifiedJoin
	cur := fc[0]
	for {
		qj, ok := cur.(sql.QualifiedJoin)
		if !ok {
			break
		}
		chain = append(chain, qj)
		cur = qj.LHS
	}
	from = append(from, convTable(cur))
	for i := len(chain) - 1; i >= 0; i-- {
		qj := chain[i]
		joins = append(joins, obj{"jt": joinType(qj.JoinType), "tbl": convTable(qj.RHS), "on": convExpr(qj.JoinCondition)})
	}
	return
}

func dirName(t sql.Token) string {
	switch t.Type {
	case sql.ASC:
		return "ASC"
	case sql.DESC:
		return "DESC"
	}
	return fmt.Sprintf("?%d", t.Type)
}

func convType(dt interface{}) interface{} {
	switch x := dt.(type) {
	case sql.NumericType:
		return obj{"k": "INT", "len": 0}
	case sql.BigIntType:
		return obj{"k": "BIGINT", "len": 0}
	case sql.BooleanType:
		return obj{"k": "BOOLEAN", "len": 0}
	case sql.CharacterStringType:
		name, ok := sql.Tokens[x.Type]
		if !ok {
			name = fmt.Sprintf("?%d", x.Type)
		}
		return obj{"k": name, "len": x.Len}
	}
	return unknown(dt)
}

func convStmt(s interface{}) interface{} {
	switch x := s.(type) {
	case sql.Select:
		items := []interface{}{}
		for _, dc := range x.SelectList {
			items = append(items, obj{"e": convExpr(dc.ValueExpressionPrimary), "alias": dc.AsClause})
		}
		from, joins := convFrom(x.FromClause)
		group := []interface{}{}
		for _, g := range x.GroupByClause {
			group = append(group, convCol(g))
		}
		order := []interface{}{}
		for _, o := range x.SortSpecificationList {
			order = append(order, obj{"key": convCol(o.SortKey), "dir": dirName(o.OrderingSpecification)})
		}
		limit, offset := []interface{}{}, []interface{}{}
		if x.LimitActive {
			limit = append(limit, obj{"k": "int", "i": x.Limit})
		}
		if x.OffsetActive {
			offset = append(offset, obj{"k": "int", "i": x.Offset})
		}
		return obj{"k": "select", "items": items, "from": from, "joins": joins, "where": convWhere(x.WhereClause),
			"group": group, "order": order, "limit": limit, "offset": offset}
	case sql.InsertStatement:
		cols := []interface{}{}
		for _, c := range x.ColumnNames {
			cols = append(cols, c)
		}
		rows := []interface{}{}
		switch q := x.QueryExpression.(type) {
		case sql.TableValueConstructor:
			for _, r := range q.TableValueConstructorList {
				row := []interface{}{}
				for _, v := range r.RowValueConstructorList {
					row = append(row, convExpr(v))
				}
				rows = append(rows, row)
			}
		default:
			rows = append(rows, unknown(q))
		}
		return obj{"k": "insert", "table": x.TableName, "cols": cols, "rows": rows}
	case sql.UpdateStatementSearched:
		set := []interface{}{}
		for _, sc := range x.Set {
			set = append(set, obj{"col": sc.ObjectColumn, "val": convExpr(sc.UpdateSource)})
		}
		return obj{"k": "update", "table": x.TableName, "set": set, "where": convWhere(x.Where)}
	case sql.DeleteStatementSearched:
		return obj{"k": "delete", "table": x.TableName, "where": convWhere(x.WhereClause)}
	case sql.CreateTable:
		defs := []interface{}{}
		for _, e := range x.Elements {
			defs = append(defs, obj{"name": e.Name, "type": convType(e.DataType)})
		}
		return obj{"k": "create_table", "table": x.Name, "defs": defs}
	case sql.CreateDatabase:
		return obj{"k": "create_database", "name": x.Name}
	case sql.UseStatement:
		return obj{"k": "use", "name": x.DBName}
	case sql.ShowDatabase:
		return obj{"k": "show_databases"}
	}
	return unknown(s)
}

// ---------------------------------------------------------------- C10

type c10Group struct {
	Renderings []string    `json:"renderings"`
	Text       string      `json:"text"`
	Kind       string      `json:"kind"` // stmt | error | panic
	Ast        interface{} `json:"ast,omitempty"`
	Msg        string      `json:"msg,omitempty"`
	key        string
}

// evalC10 parses one text and reports what the parser made of it.
func evalC10(text string) *c10Group {
	done := make(chan *feResult, 1)
	go guarded(text, done)
	var r *feResult
	t := time.NewTimer(watchdog)
	select {
	case r = <-done:
		t.Stop()
	case <-t.C:
	}
	g := &c10Group{Text: text}
	switch {
	case r == nil:
		hungNow = true
		g.Kind, g.Msg = "hang", "the front end did not return within the watchdog time"
	case r.panicV != "":
		g.Kind, g.Msg = "panic", r.panicV+" in "+r.sig
	case r.err != nil:
		g.Kind, g.Msg = "error", r.err.Error()
	default:
		g.Kind, g.Ast = "stmt", convStmt(r.stmt)
	}
	kb, _ := json.Marshal(g.Ast)
	g.key = g.Kind + "|" + string(kb)
	if g.Kind == "panic" {
		g.key += g.Msg
	}
	return g
}

// grouper collects renderings by result, so that the answer carries each distinct result once
type grouper struct {
	byKey  map[string]*c10Group
	groups []*c10Group
	seen   map[string]bool
	n      int
	nlong  int // texts longer than the scanner's buffer
}

func newGrouper() *grouper { return &grouper{byKey: map[string]*c10Group{}, seen: map[string]bool{}} }

func (gr *grouper) run(name, text string) {
	if gr.seen[text] || hungNow {
		return
	}
	gr.seen[text] = true
	gr.n++
	if len(text) > scanBuf {
		gr.nlong++
	}
	g := evalC10(text)
	if old, ok := gr.byKey[g.key]; ok {
		if len(old.Renderings) < 4 {
			old.Renderings = append(old.Renderings, name)
		}
		return
	}
	g.Renderings = []string{name}
	gr.byKey[g.key] = g
	gr.groups = append(gr.groups, g)
}

func runC10(ts []tok, trail, long bool) (groups []*c10Group, n, nlong int, err error) {
	hasKw, hasLegacy := false, false
	for _, t := range ts {
		hasKw = hasKw || t.O == "kw"
		hasLegacy = hasLegacy || t.O == "legacy"
	}
	type variant struct {
		name string
		toks []tok
	}
	var vs []variant
	if trail {
		// the trailing token is judged against the statement in its full spelling, without terminator
		vs = append(vs, variant{"kw=all,term=no", choose(ts, 0, false, true)})
	} else {
		kws := []int{0}
		if hasKw {
			kws = []int{0, 1, 2, 3}
		}
		for _, kw := range kws {
			for _, term := range []bool{false, true} {
				vs = append(vs, variant{fmt.Sprintf("kw=%d,term=%v", kw, term), choose(ts, kw, term, true)})
			}
		}
		if hasLegacy {
			vs = append(vs, variant{"kw=0,term=false,groupby-blank-separated", choose(ts, 0, false, false)})
			vs = append(vs, variant{"kw=1,term=true,groupby-blank-separated", choose(ts, 1, true, false)})
		}
	}
	gr := newGrouper()
	for _, v := range vs {
		for cas := 0; cas < 3; cas++ {
			for ws := 0; ws < 3; ws++ {
				text, e := render(v.toks, cas, ws)
				if e != nil {
					return nil, gr.n, gr.nlong, e
				}
				gr.run(fmt.Sprintf("%s,case=%d,ws=%d", v.name, cas, ws), text)
			}
		}
	}
	if long && !trail {
		if e := longVariants(choose(ts, 0, true, true), gr); e != nil {
			return nil, gr.n, gr.nlong, e
		}
	}
	return gr.groups, gr.n, gr.nlong, nil
}

// ---------------------------------------------------------------- texts longer than the scanner's buffer

const scanBuf = 1024 // sql/go_scanner.go bufLen: the source is read in pieces of this size

func blanks(n int) string {
	if n <= 0 {
		return ""
	}
	b := make([]byte, n)
	for i := range b {
		b[i] = ' '
		if i%61 == 60 {
			b[i] = '\n'
		}
	}
	return string(b)
}

func nonASCII(s string) bool {
	for i := 0; i < len(s); i++ {
		if s[i] >= 0x80 {
			return true
		}
	}
	return false
}

// longVariants: white space between tokens is insignificant, so the run of blanks in front of a literal or
// identifier with non-ASCII characters is stretched until each of the token's bytes in turn lies on the
// offsets around the first and the second refill of the scanner's source buffer.
func longVariants(ts []tok, gr *grouper) error {
	for k, t := range ts {
		if !(t.T == "STR" || t.T == "QID" || t.T == "IDENT") || !nonASCII(t.V) {
			continue
		}
		prefix, err := render(ts[:k], 0, 0)
		if err != nil {
			return err
		}
		rest, err := render(ts[k:], 0, 0)
		if err != nil {
			return err
		}
		lit, _ := tokText(t, 0)
		m := len(lit)
		for _, win := range [][2]int{{scanBuf - 4, scanBuf + 6}, {2*scanBuf - 4, 2*scanBuf + 4}} {
			for at := win[0] - m + 1; at <= win[1]; at++ { // at = offset of the token's first byte
				pad := at - len(prefix)
				if pad < 1 {
					continue
				}
				gr.run(fmt.Sprintf("long:token=%d,first-byte-at=%d", k, at), prefix+blanks(pad)+rest)
			}
		}
	}
	return nil
}

type namedInput struct{ name, text string }

// paddedInputs (C09): the statement padded to every total length around one and two buffer sizes, and to
// about 10 KB, by trailing blanks, a trailing comment, leading blanks, a long string literal, many VALUES
// rows; and shifted by leading blanks so that each of its bytes in turn is the first byte of a refill.
func paddedInputs(ts []tok) []namedInput {
	full := choose(ts, 0, true, true)
	base, err := render(full, 0, 0)
	if err != nil {
		return nil
	}
	var lens []int
	for l := scanBuf - 9; l <= scanBuf+11; l++ {
		lens = append(lens, l)
	}
	for l := 2*scanBuf - 8; l <= 2*scanBuf+12; l++ {
		lens = append(lens, l)
	}
	lens = append(lens, 10*scanBuf+3)
	strAt, valuesAt, lastOpen, lastClose := -1, -1, -1, -1
	for i, t := range full {
		if t.T == "STR" && strAt < 0 {
			strAt = i
		}
		if t.T == "KW" && t.V == "VALUES" {
			valuesAt = i
		}
		if t.T == "P" && t.V == "(" {
			lastOpen = i
		}
		if t.T == "P" && t.V == ")" {
			lastClose = i
		}
	}
	var out []namedInput
	for _, l := range lens {
		d := l - len(base)
		if d < 0 {
			continue
		}
		out = append(out, namedInput{fmt.Sprintf("pad-trailing-blanks:%d", l), base + blanks(d)})
		out = append(out, namedInput{fmt.Sprintf("pad-leading-blanks:%d", l), blanks(d) + base})
		if d >= 5 {
			out = append(out, namedInput{fmt.Sprintf("pad-block-comment:%d", l), base + " /*" + strings.Repeat("c", d-5) + "*/"})
		}
		if d >= 3 {
			out = append(out, namedInput{fmt.Sprintf("pad-line-comment:%d", l), base + " //" + strings.Repeat("c", d-3)})
		}
		if strAt >= 0 {
			cp := append([]tok{}, full...)
			cp[strAt].V += strings.Repeat("x", d)
			if text, e := render(cp, 0, 0); e == nil {
				out = append(out, namedInput{fmt.Sprintf("pad-long-string:%d", l), text})
			}
		}
		if valuesAt >= 0 && lastOpen > valuesAt && lastClose > lastOpen {
			row, _ := render(full[lastOpen:lastClose+1], 0, 0)
			head, _ := render(full[:lastClose+1], 0, 0)
			tail, _ := render(full[lastClose+1:], 0, 0)
			text := head
			for len(text)+len(row)+3+len(tail)+1 <= l {
				text += " , " + row
			}
			text += blanks(l-len(text)-len(tail)) + tail
			out = append(out, namedInput{fmt.Sprintf("pad-many-rows:%d", l), text})
		}
	}
	for _, edge := range []int{scanBuf, 2 * scanBuf} {
		for j := 0; j <= len(base) && j < edge; j++ {
			out = append(out, namedInput{fmt.Sprintf("shift:byte-%d-at-%d", j, edge), blanks(edge-j) + base})
		}
	}
	return out
}

// ---------------------------------------------------------------- protocol

type request struct {
	Mode  string `json:"mode"`
	Toks  []tok  `json:"toks"`
	Raw   string `json:"raw"`
	Trail bool   `json:"trail"`
	Glue  bool   `json:"glue"` // c09: also the tokens written without any separator
	Echo  bool   `json:"echo"`
	Cuts  bool   `json:"cuts"` // c09: every byte-wise truncation of the rendered text
	Pads  bool   `json:"pads"` // c09: the rendered text padded to lengths around the scanner's buffer size
	Long  bool   `json:"long"` // c10: also renderings longer than the scanner's buffer (see longVariants)
	Gen   *genReq `json:"gen"` // c09: the input is head followed by n times rep (inputs of many megabytes, built here)
	ID    int    `json:"id"`
}

type genReq struct {
	Head string `json:"head"`
	Rep  string `json:"rep"`
	N    int    `json:"n"`
	Mid  string `json:"mid"`  // after the repetitions
	Tail string `json:"tail"` // ... followed by n times tail (closers of what rep opened)
}

var refusedTexts = []string{
	"SELECT a FROM t WHERE a =", "SELECT a FROM t WHERE", "SELECT FROM t", "SELECT a, FROM t", "SELECT a FROM", "SELECT a FROM t ORDER BY",
	"SELECT a FROM t LIMIT", "SELECT a FROM t LIMIT x", "SELECT a FROM t GROUP BY", "SELECT a FROM t JOIN u ON", "SELECT count( FROM t",
	"INSERT INTO t VALUES (", "INSERT INTO t VALUES (1,", "INSERT INTO t (a VALUES (1)", "UPDATE t SET a =", "UPDATE t SET", "UPDATE t SET a = 1 WHERE b <",
	"DELETE FROM t WHERE a !=", "DELETE FROM", "CREATE TABLE t (a", "CREATE TABLE t (a INT,", "CREATE TABLE t (a VARCHAR(", "CREATE", "USE", "SHOW", ")", "'", "",
}

func handle(req request) interface{} {
	switch req.Mode {
	case "info":
		kinds := map[string]string{}
		for k, v := range sql.Tokens {
			kinds[fmt.Sprint(int(k))] = v
		}
		var names []string
		for k := range lexClasses {
			names = append(names, k)
		}
		sort.Strings(names)
		return obj{"ok": true, "kinds": kinds, "lex": names}
	case "c10":
		if req.ID%40 == 1 {
			// a front end serves many statements in one process: refused texts come in between the valid ones, cut at
			// every kind of position, and must leave nothing behind that changes how the next statement parses
			for _, t := range refusedTexts {
				runC09(t, false)
			}
		}
		groups, n, nlong, err := runC10(req.Toks, req.Trail, req.Long)
		if err != nil {
			return obj{"ok": false, "err": err.Error()}
		}
		return obj{"ok": true, "n": n, "nlong": nlong, "groups": groups, "id": req.ID}
	case "c09":
		var outs []c09Out
		if req.Gen != nil {
			// "never loops forever" for an input of many megabytes: the watchdog grows with the input (1 s per 200 KB)
			input := req.Gen.Head + strings.Repeat(req.Gen.Rep, req.Gen.N) + req.Gen.Mid + strings.Repeat(req.Gen.Tail, req.Gen.N)
			old := watchdog
			watchdog = 2*time.Second + time.Duration(len(input)/200000)*time.Second
			o := runC09(input, false)
			watchdog = old
			o.In, o.InB64, o.Sep = "", "", "gen"
			outs = append(outs, o)
		} else if req.Raw != "" || len(req.Toks) == 0 {
			b, err := base64.StdEncoding.DecodeString(req.Raw)
			if err != nil {
				return obj{"ok": false, "err": err.Error()}
			}
			o := runC09(string(b), req.Echo)
			o.Sep = "raw"
			outs = append(outs, o)
		} else {
			seps := []int{0}
			if req.Glue {
				seps = []int{0, 3}
			}
			for _, ws := range seps {
				text, err := render(req.Toks, 0, ws)
				if err != nil {
					return obj{"ok": false, "err": err.Error()}
				}
				o := runC09(text, req.Echo)
				o.Sep = map[int]string{0: "space", 3: "none"}[ws]
				outs = append(outs, o)
			}
			if req.Cuts && !hungNow {
				text, _ := render(choose(req.Toks, 0, false, true), 0, 0)
				for i := 0; i < len(text) && !hungNow; i++ {
					o := runC09(text[:i], false)
					o.Sep = "bytecut"
					outs = append(outs, o)
				}
			}
			if req.Pads && !hungNow {
				for _, pi := range paddedInputs(req.Toks) {
					if hungNow {
						break
					}
					o := runC09(pi.text, false)
					o.Sep = pi.name
					outs = append(outs, o)
				}
			}
		}
		return obj{"ok": true, "outs": outs, "id": req.ID}
	}
	return obj{"ok": false, "err": "unknown mode " + req.Mode}
}

// After a hang the process replaces itself with a fresh image (the spinning goroutine dies with the old
// one). Requests already read from stdin but not yet executed travel in a file named by this variable.
const leftoverEnv = "SQLFE_LEFTOVER"

func restart(unread []byte) {
	path := fmt.Sprintf("leftover-%d-%d", os.Getpid(), time.Now().UnixNano())
	if err := os.WriteFile(path, unread, 0o600); err != nil {
		os.Exit(3)
	}
	exe, err := os.Executable()
	if err != nil {
		os.Exit(3)
	}
	env := []string{}
	for _, e := range os.Environ() {
		if !strings.HasPrefix(e, leftoverEnv+"=") {
			env = append(env, e)
		}
	}
	env = append(env, leftoverEnv+"="+path)
	syscall.Exec(exe, os.Args, env)
	os.Exit(3)
}

func main() {
	// the scanner reports lexical errors on os.Stderr; they are not part of any verdict
	if f, err := os.OpenFile(os.DevNull, os.O_WRONLY, 0); err == nil {
		os.Stderr = f
	}
	var src io.Reader = os.Stdin
	if path := os.Getenv(leftoverEnv); path != "" {
		if b, err := os.ReadFile(path); err == nil {
			src = io.MultiReader(bytes.NewReader(b), os.Stdin)
		}
		os.Remove(path)
	}
	in := bufio.NewReaderSize(src, 1<<20)
	// Answers are written by their own goroutine: the caller writes a whole batch of requests before it
	// reads any answer, so this loop must keep draining stdin even while stdout is not being read.
	answers := make(chan []byte, 1<<16)
	written := make(chan struct{})
	go func() {
		out := bufio.NewWriterSize(os.Stdout, 1<<16)
		for b := range answers {
			out.Write(b)
			out.WriteByte('\n')
			if len(answers) == 0 {
				out.Flush()
			}
		}
		out.Flush()
		close(written)
	}()
	for {
		line, err := in.ReadBytes('\n')
		if len(line) > 1 {
			var req request
			var res interface{}
			if e := json.Unmarshal(line, &req); e != nil {
				res = obj{"ok": false, "err": "bad request: " + e.Error()}
			} else {
				res = handle(req)
			}
			b, e := json.Marshal(res)
			if e != nil {
				b, _ = json.Marshal(obj{"ok": false, "err": "cannot encode result: " + e.Error()})
			}
			answers <- b
			if hungNow {
				close(answers)
				<-written
				unread, _ := in.Peek(in.Buffered())
				restart(unread)
			}
		}
		if err != nil {
			break
		}
	}
	close(answers)
	<-written
}
