// Command session replays Session.tla scenarios (C17): CREATE DATABASE / USE /
// SHOW DATABASES / DDL / DML / ticks / restarts within one engine.Session, with
// the background flushers replaced by explicit ticks delivered to every store
// that is still open (so a store the code leaked gets its ticks too).
package main

import (
	"os/exec"
	"time"
	"bufio"
	"encoding/json"
	"fmt"
	"os"
	"runtime/debug"
	"sort"
	"strings"
	"syscall"

	"github.com/mk6i/mkdb/engine"
	"github.com/mk6i/mkdb/sql"
	"github.com/mk6i/mkdb/storage"
)

type DbExp struct {
	D    string `json:"d"`
	Has  bool   `json:"has"`
	Rows []int  `json:"rows"`
}

type Exp struct {
	K    string   `json:"k"`
	Show []string `json:"show"`
	Cur  string   `json:"cur"`
	Dbs  []DbExp  `json:"dbs"`
}

type Step struct {
	A   string `json:"a"`
	N   string `json:"n"`
	V   int    `json:"v"`
	Exp Exp    `json:"exp"`
}

type Scenario struct {
	Steps []Step `json:"steps"`
	Real  bool   `json:"real"` // real timers (smoke mode): ticks sleep instead of flushing
	Stall bool   `json:"stall"` // real timers, and the process is suspended for a quarter of a second while it opens a store
	Half  bool   `json:"half"`  // restarts after the process died inside CREATE DATABASE (at each of its writes to the new data file)
	Fault bool   `json:"fault"` // real timers; the data file of the selected database stops taking writes, then statements: each must return
}

type Result struct {
	OK    bool     `json:"ok"`
	Viol  []string `json:"viol,omitempty"`
	Step  int      `json:"step"`
	Kind  string   `json:"kind,omitempty"`
	Leak  int      `json:"leak,omitempty"`
	Notes []string `json:"notes,omitempty"`
}

type world struct {
	sess  *engine.Session
	maxID map[string]uint32
	seen  map[string]map[uint32]bool
}

func parse(q string) (interface{}, error) {
	ts := sql.NewTokenScanner(strings.NewReader(q))
	tl := sql.TokenList{}
	for ts.Next() {
		tl.Add(ts.Cur())
	}
	p := sql.Parser{TokenList: tl}
	return p.Parse()
}

func (w *world) exec(q string) (err error, panicked bool) {
	defer func() {
		if r := recover(); r != nil {
			err, panicked = fmt.Errorf("panic: %v", r), true
		}
	}()
	return w.sess.ExecQuery(q), false
}

type row struct {
	id uint32
	a  int64
	b  string
}

// reversed: database "b" declares its table t with the columns in the other order, so that two databases hold
// equally named tables with different schemas (what one database knows about t must never serve the other)
// ident writes a database name as SQL: a name that is not a plain identifier goes in double quotes
func ident(n string) string {
	// two names that are equal under Unicode case folding and different in lower case: different databases
	switch n {
	case "mu1":
		return "\u00b5s" // micro sign
	case "mu2":
		return "\u03bcs" // Greek small mu
	}
	for i, c := range n {
		if !(c == '_' || c >= 'a' && c <= 'z' || c >= 'A' && c <= 'Z' || i > 0 && c >= '0' && c <= '9') {
			return `"` + n + `"`
		}
	}
	return n
}

func reversed(db string) bool { return strings.ToLower(db) == "b" }

func (w *world) read(db string) (rows []row, err error) {
	defer func() {
		if r := recover(); r != nil {
			err = fmt.Errorf("panic: %v", r)
		}
	}()
	stmt, err := parse("SELECT * FROM t")
	if err != nil {
		return nil, err
	}
	rs, _, err := engine.EvaluateSelect(stmt.(sql.Select), w.sess.RelationService)
	if err != nil {
		return nil, err
	}
	for _, r := range rs {
		if len(r.Vals) != 2 {
			return nil, fmt.Errorf("row %v", r.Vals)
		}
		ia, ib := 0, 1
		if reversed(db) {
			ia, ib = 1, 0
		}
		a, oka := r.Vals[ia].(int64)
		b, okb := r.Vals[ib].(string)
		if !oka || !okb {
			return nil, fmt.Errorf("row %v does not have the columns database %s declared for t", r.Vals, db)
		}
		rows = append(rows, row{r.RowID, a, b})
	}
	return rows, nil
}

func (w *world) show() (names []string, err error) {
	defer func() {
		if r := recover(); r != nil {
			err = fmt.Errorf("panic: %v", r)
		}
	}()
	rows, _, err := engine.EvaluateShowDatabase(sql.ShowDatabase{})
	if err != nil {
		return nil, err
	}
	for _, r := range rows {
		n := fmt.Sprint(r.Vals[0])
		switch n {
		case "\u00b5s":
			n = "mu1"
		case "\u03bcs":
			n = "mu2"
		}
		names = append(names, n)
	}
	sort.Strings(names)
	return names, nil
}

// checkRows compares the selected database's table with the promise and applies the row id rules.
func (w *world) checkRows(db string, want []int) []string {
	rows, err := w.read(db)
	if err != nil {
		return []string{fmt.Sprintf("database %s: SELECT * FROM t failed: %v", db, err)}
	}
	var got []int
	var v []string
	var last uint32
	if w.seen[db] == nil {
		w.seen[db] = map[uint32]bool{}
	}
	prevMax := w.maxID[db]
	for i, r := range rows {
		got = append(got, int(r.a))
		if r.b != fmt.Sprintf("%s%d", db, r.a) {
			v = append(v, fmt.Sprintf("database %s: row id %d holds (a=%d, b=%q): not a row written while %s was selected", db, r.id, r.a, r.b, db))
		}
		if i > 0 && r.id <= last {
			v = append(v, fmt.Sprintf("database %s: row ids not increasing (%d after %d)", db, r.id, last))
		}
		last = r.id
		if !w.seen[db][r.id] && r.id <= prevMax {
			v = append(v, fmt.Sprintf("database %s: new row reuses id %d (ids up to %d were handed out)", db, r.id, prevMax))
		}
	}
	for _, r := range rows {
		w.seen[db][r.id] = true
		if r.id > w.maxID[db] {
			w.maxID[db] = r.id
		}
	}
	if fmt.Sprint(got) != fmt.Sprint(want) && !(len(got) == 0 && len(want) == 0) {
		v = append(v, fmt.Sprintf("database %s: table t holds %v, promised %v", db, got, want))
	}
	return v
}

// stalled: USE and CREATE DATABASE with the real flush timers while the process is held up for 260 ms (two and a half
// timer periods) right after a store was set up. Whatever USE pattern and pause: every database keeps its rows.
func stalled() (res Result) {
	res.OK, res.Kind = true, "stall"
	os.RemoveAll("data")
	storage.VerifForgetStores()
	storage.VerifAutoFlushDefault()
	storage.VerifSetCaps(0, 0)
	defer storage.VerifAutoFlushOff()
	defer storage.VerifStallStoreOpen(0)
	if err := storage.InitStorage(); err != nil {
		return Result{OK: false, Notes: []string{"setup: " + err.Error()}, Kind: "infra"}
	}
	w := &world{sess: &engine.Session{}, maxID: map[string]uint32{}, seen: map[string]map[uint32]bool{}}
	fail := func(msg string) Result {
		res.OK = false
		res.Viol = append(res.Viol, msg)
		return res
	}
	run := func(qs ...string) string {
		for _, q := range qs {
			if err, p := w.exec(q); err != nil || p {
				return fmt.Sprintf("`%s` failed: %v", q, err)
			}
		}
		return ""
	}
	count := func(db string, want int) string {
		stmt, _ := parse("SELECT * FROM t")
		var rows []*storage.Row
		var err error
		func() {
			defer func() {
				if r := recover(); r != nil {
					err = fmt.Errorf("panic: %v", r)
				}
			}()
			rows, _, err = engine.EvaluateSelect(stmt.(sql.Select), w.sess.RelationService)
		}()
		if err != nil {
			return fmt.Sprintf("database %s: SELECT * FROM t failed: %v", db, err)
		}
		if len(rows) != want {
			return fmt.Sprintf("database %s: t holds %d rows, %d were written", db, len(rows), want)
		}
		return ""
	}
	if m := run("CREATE DATABASE a", "USE a", "CREATE TABLE t (a INT, b VARCHAR(8))", "INSERT INTO t (a, b) VALUES (1, 'a1'), (2, 'a2'), (3, 'a3')",
		"CREATE DATABASE b", "USE b", "CREATE TABLE t (a INT, b VARCHAR(8))", "INSERT INTO t (a, b) VALUES (1, 'b1')"); m != "" {
		return Result{OK: false, Notes: []string{"setup: " + m}, Kind: "infra"}
	}
	storage.VerifStallStoreOpen(260 * time.Millisecond)
	if m := run("USE a"); m != "" {
		return fail("with the process held up while the store is opened: " + m)
	}
	if m := count("a", 3); m != "" {
		return fail("after a USE during which the process was held up for 260 ms: " + m)
	}
	if m := run("INSERT INTO t (a, b) VALUES (4, 'a4')", "CREATE DATABASE c", "USE c", "CREATE TABLE t (a INT, b VARCHAR(8))", "INSERT INTO t (a, b) VALUES (1, 'c1'), (2, 'c2')", "USE b"); m != "" {
		return fail("with the process held up while stores are opened: " + m)
	}
	if m := count("b", 1); m != "" {
		return fail("after a USE during which the process was held up for 260 ms: " + m)
	}
	storage.VerifStallStoreOpen(0)
	for _, x := range []struct {
		db string
		n  int
	}{{"a", 4}, {"c", 2}, {"b", 1}} {
		if m := run("USE " + x.db); m != "" {
			return fail(m)
		}
		if m := count(x.db, x.n); m != "" {
			return fail(m)
		}
	}
	if err := w.sess.Close(); err != nil {
		return fail("Close failed: " + err.Error())
	}
	if err := storage.InitStorage(); err != nil {
		return fail("restart: storage does not start: " + err.Error())
	}
	w.sess = &engine.Session{}
	for _, x := range []struct {
		db string
		n  int
	}{{"a", 4}, {"b", 1}, {"c", 2}} {
		if m := run("USE " + x.db); m != "" {
			return fail("after the restart: " + m)
		}
		if m := count(x.db, x.n); m != "" {
			return fail("after the restart: " + m)
		}
	}
	w.sess.Close()
	return res
}

// halfCreated: the process dies inside CREATE DATABASE x - after the directory was made, after the data file was created,
// after each write CREATE DATABASE issues on it (recorded from the real statement: the image holds a prefix of them) - and is
// started again. The statement never returned, so nothing is promised about x except that statements on it are answered;
// every other database is as it was and keeps working.
func halfCreated() (res Result) {
	res.OK, res.Kind = true, "half"
	os.RemoveAll("data")
	os.RemoveAll("base")
	storage.VerifForgetStores()
	storage.VerifAutoFlushOff()
	storage.VerifSetCaps(0, 0)
	if err := storage.InitStorage(); err != nil {
		return Result{OK: false, Notes: []string{"setup: " + err.Error()}, Kind: "infra"}
	}
	w := &world{sess: &engine.Session{}, maxID: map[string]uint32{}, seen: map[string]map[uint32]bool{}}
	run := func(qs ...string) string {
		for _, q := range qs {
			if err, p := w.exec(q); err != nil || p {
				return fmt.Sprintf("`%s` failed: %v", q, err)
			}
		}
		return ""
	}
	if m := run("CREATE DATABASE good", "USE good", "CREATE TABLE t (a INT, b VARCHAR(8))", "INSERT INTO t (a, b) VALUES (1, 'good1'), (2, 'good2')"); m != "" {
		return Result{OK: false, Notes: []string{"setup: " + m}, Kind: "infra"}
	}
	if err := w.sess.Close(); err != nil {
		return Result{OK: false, Notes: []string{"setup: close: " + err.Error()}, Kind: "infra"}
	}
	if err := exec.Command("cp", "-r", "data", "base").Run(); err != nil {
		return Result{OK: false, Notes: []string{"setup: copy: " + err.Error()}, Kind: "infra"}
	}
	// the writes of a real CREATE DATABASE on its data file, in order
	w.sess = &engine.Session{}
	storage.VerifRecordIO(true)
	m := run("CREATE DATABASE x")
	ios := storage.VerifTakeIO()
	storage.VerifRecordIO(false)
	w.sess.Close()
	if m != "" {
		return Result{OK: false, Notes: []string{"setup: " + m}, Kind: "infra"}
	}
	var writes []storage.VerifIO
	for _, io := range ios {
		if io.File == "tbl" {
			writes = append(writes, io)
		}
	}
	if len(writes) < 2 {
		return Result{OK: false, Notes: []string{fmt.Sprintf("setup: CREATE DATABASE issued %d writes on its data file", len(writes))}, Kind: "infra"}
	}
	fail := func(stage, msg string) Result {
		res.OK = false
		res.Viol = append(res.Viol, fmt.Sprintf("restart after the process died inside CREATE DATABASE x (%s): %s", stage, msg))
		return res
	}
	// stage -1: directory only; stage 0: empty data file; stage k: the first k writes reached the file
	for stage := -1; stage <= len(writes); stage++ {
		name := "directory made"
		if stage == 0 {
			name = "data file created, nothing written"
		} else if stage > 0 {
			name = fmt.Sprintf("%d of %d writes on the data file done, the last one a %s write", stage, len(writes), writes[stage-1].Kind)
		}
		os.RemoveAll("data")
		if err := exec.Command("cp", "-r", "base", "data").Run(); err != nil {
			return Result{OK: false, Notes: []string{"copy: " + err.Error()}, Kind: "infra"}
		}
		os.MkdirAll("data/x", 0755)
		if stage >= 0 {
			f, err := os.Create("data/x/tbl")
			if err != nil {
				return Result{OK: false, Notes: []string{"image: " + err.Error()}, Kind: "infra"}
			}
			for _, io := range writes[:stage] {
				f.WriteAt(io.Data, io.Off)
			}
			f.Close()
		}
		if stage >= 1 {
			os.WriteFile("data/x/wal", nil, 0644) // the log is created right after the first header write
		}
		storage.VerifForgetStores()
		var ierr error
		func() {
			defer func() {
				if r := recover(); r != nil {
					ierr = fmt.Errorf("panic: %v", r)
				}
			}()
			ierr = storage.InitStorage()
		}()
		if ierr != nil {
			return fail(name, "storage does not start: "+ierr.Error())
		}
		w = &world{sess: &engine.Session{}, maxID: map[string]uint32{}, seen: map[string]map[uint32]bool{}} // every image is a world of its own
		if m := run("USE good"); m != "" {
			return fail(name, "database good: "+m)
		}
		if v := w.checkRows("good", []int{1, 2}); len(v) > 0 {
			return fail(name, strings.Join(v, "; "))
		}
		if m := run("INSERT INTO t (a, b) VALUES (3, 'good3')"); m != "" {
			return fail(name, "database good: "+m)
		}
		// statements on the database that was never completely created: any answer, but an answer
		for _, q := range []string{"SHOW DATABASES", "USE x", "SELECT * FROM t", "CREATE TABLE t (a INT)", "INSERT INTO t VALUES (1)", "SELECT * FROM t", "USE good", "SELECT * FROM t"} {
			if err, p := w.exec(q); p {
				return fail(name, fmt.Sprintf("`%s` panicked: %v", q, err))
			}
		}
		if v := w.checkRows("good", []int{1, 2, 3}); len(v) > 0 {
			return fail(name, "after statements on x: "+strings.Join(v, "; "))
		}
		func() {
			defer func() { recover() }()
			w.sess.Close()
		}()
	}
	os.RemoveAll("base")
	return res
}

// faulted: the real flush timers, and a data file that stops taking reads and writes (the descriptor is closed under the store:
// every periodic flush fails from then on).  Whatever a statement answers afterwards - a result or an error - it must answer:
// USE of another database, USE of the same one, a SELECT, an INSERT and the shutdown each return within the watchdog's time.
func faulted() (res Result) {
	res.OK, res.Kind = true, "fault"
	os.RemoveAll("data")
	storage.VerifForgetStores()
	storage.VerifAutoFlushDefault()
	storage.VerifSetCaps(0, 0)
	defer storage.VerifAutoFlushOff()
	if err := storage.InitStorage(); err != nil {
		return Result{OK: false, Notes: []string{"setup: " + err.Error()}, Kind: "infra"}
	}
	w := &world{sess: &engine.Session{}, maxID: map[string]uint32{}, seen: map[string]map[uint32]bool{}}
	for _, q := range []string{"CREATE DATABASE a", "CREATE DATABASE b", "USE a", "CREATE TABLE t (a INT, b VARCHAR(8))", "INSERT INTO t (a, b) VALUES (1, 'a1'), (2, 'a2')"} {
		if err, p := w.exec(q); err != nil || p {
			return Result{OK: false, Notes: []string{fmt.Sprintf("setup: `%s` failed: %v", q, err)}, Kind: "infra"}
		}
	}
	storage.VerifBreakFile(w.sess.RelationService)
	time.Sleep(350 * time.Millisecond) // three timer periods: the periodic flush has failed by now
	timed := func(what string, f func()) bool {
		done := make(chan struct{})
		go func() {
			defer close(done)
			defer func() { recover() }()
			f()
		}()
		select {
		case <-done:
			return true
		case <-time.After(8 * time.Second):
			res.OK = false
			res.Viol = append(res.Viol, fmt.Sprintf("after a periodic flush failed (the data file takes no writes): %s does not return", what))
			return false
		}
	}
	for _, q := range []string{"SELECT * FROM t", "INSERT INTO t (a, b) VALUES (3, 'a3')", "USE b", "USE a", "SELECT * FROM t", "USE no_such_db"} {
		q := q
		if !timed("`"+q+"`", func() { w.exec(q) }) {
			return res
		}
	}
	timed("the shutdown (Session.Close)", func() { w.sess.Close() })
	storage.VerifRepairFile()
	return res
}

func replay(sc Scenario) (res Result) {
	if sc.Stall {
		return stalled()
	}
	if sc.Half {
		return halfCreated()
	}
	if sc.Fault {
		return faulted()
	}
	res.OK = true
	os.RemoveAll("data")
	storage.VerifForgetStores()
	storage.VerifAutoFlushOff()
	storage.VerifTrackStores()
	storage.VerifSetCaps(0, 0)
	if err := storage.InitStorage(); err != nil {
		return Result{OK: false, Notes: []string{"setup: " + err.Error()}, Kind: "infra"}
	}
	w := &world{sess: &engine.Session{}, maxID: map[string]uint32{}, seen: map[string]map[uint32]bool{}}
	defer func() {
		if w.sess != nil && w.sess.RelationService != nil {
			storage.VerifAbandon(w.sess.RelationService)
		}
		storage.VerifForgetStores()
	}()
	fail := func(i int, msgs ...string) Result {
		res.OK = false
		res.Step = i
		res.Viol = append(res.Viol, msgs...)
		return res
	}
	for i, st := range sc.Steps {
		res.Step = i
		var err error
		var panicked bool
		q := ""
		switch st.A {
		case "createdb":
			q = "CREATE DATABASE " + ident(st.N)
		case "use":
			q = "USE " + ident(st.N)
		case "createtable":
			q = "CREATE TABLE t (a INT, b VARCHAR(8))"
			if reversed(st.Exp.Cur) {
				q = "CREATE TABLE t (b VARCHAR(8), a INT)"
			}
		case "insert":
			// the text column names the database the row was written to
			q = fmt.Sprintf("INSERT INTO t (a, b) VALUES (%d, '%s%d')", st.V, st.Exp.Cur, st.V)
			if st.Exp.K == "error" {
				q = fmt.Sprintf("INSERT INTO t (a, b) VALUES (%d, 'x%d')", st.V, st.V)
			}
		case "delete":
			q = fmt.Sprintf("DELETE FROM t WHERE a = %d", st.V)
		case "other":
			q = fmt.Sprintf("CREATE TABLE o%d (a INT)", st.V)
		case "filler":
			// a table other than t in the selected database (nothing Session.tla talks about changes)
			q = fmt.Sprintf("CREATE TABLE f%d (a INT)", st.V)
		}
		switch st.A {
		case "show":
			names, e := w.show()
			if e != nil {
				return fail(i, "SHOW DATABASES failed: "+e.Error())
			}
			want := append([]string(nil), st.Exp.Show...)
			sort.Strings(want)
			if fmt.Sprint(names) != fmt.Sprint(want) && !(len(names) == 0 && len(want) == 0) {
				return fail(i, fmt.Sprintf("SHOW DATABASES lists %v, created %v", names, want))
			}
			if e, p := w.exec("SHOW DATABASES"); e != nil || p {
				return fail(i, fmt.Sprintf("SHOW DATABASES through the session: %v", e))
			}
		case "tick":
			if e := storage.VerifTickAll(); e != nil {
				return fail(i, "background flush failed: "+e.Error())
			}
		case "tick_createdb":
			// a timer tick of the open store and a CREATE DATABASE at the same time: the new database is created (by its own
			// bootstrap store, under its own lock) while the first page of the tick's flush is on its way to the file
			q = "CREATE DATABASE " + ident(st.N)
			var nerr error
			var npanic bool
			fired := storage.VerifDuringNextPageWrite(func() { nerr, npanic = w.exec(q) })
			if e := storage.VerifTickAll(); e != nil {
				return fail(i, "background flush failed: "+e.Error())
			}
			if !fired() {
				nerr, npanic = w.exec(q) // nothing was unsaved: the tick wrote no page
			}
			if npanic {
				return fail(i, fmt.Sprintf("`%s` (during a tick) panicked: %v", q, nerr))
			}
			got := "ok"
			if nerr != nil {
				got = "error"
			}
			if got != st.Exp.K {
				return fail(i, fmt.Sprintf("`%s` (during a tick) returned %s (%v), promised %s", q, got, nerr, st.Exp.K))
			}
		case "restart", "crash":
			if st.A == "restart" {
				if e := w.sess.Close(); e != nil {
					return fail(i, "Close failed: "+e.Error())
				}
				if n := storage.VerifOpenStores(); n > 0 {
					res.Leak = n
				}
			} else if w.sess.RelationService != nil {
				storage.VerifAbandon(w.sess.RelationService) // the process dies: nothing is flushed or closed
			}
			storage.VerifForgetStores() // whatever is still open dies with the process
			var ierr error
			func() {
				defer func() {
					if r := recover(); r != nil {
						ierr = fmt.Errorf("panic: %v", r)
					}
				}()
				ierr = storage.InitStorage()
			}()
			if ierr != nil {
				return fail(i, "restart: storage does not start: "+ierr.Error())
			}
			w.sess = &engine.Session{}
		default:
			err, panicked = w.exec(q)
			if panicked {
				return fail(i, fmt.Sprintf("`%s` panicked: %v", q, err))
			}
			got := "ok"
			if err != nil {
				got = "error"
			}
			if got != st.Exp.K {
				return fail(i, fmt.Sprintf("`%s` returned %s (%v), promised %s", q, got, err, st.Exp.K))
			}
		}
		// the selected database, if it has the table, must hold what was promised
		if st.Exp.Cur != "" && st.A != "restart" && st.A != "crash" {
			for _, d := range st.Exp.Dbs {
				if d.D == st.Exp.Cur && d.Has {
					if v := w.checkRows(d.D, d.Rows); len(v) > 0 {
						return fail(i, v...)
					}
				}
			}
		}
	}
	// end of path: every database, selected in turn, holds its own rows and accepts a new one
	n := len(sc.Steps)
	if n == 0 {
		return
	}
	last := sc.Steps[n-1].Exp
	res.Kind = sc.Steps[n-1].A + ":" + last.K
	names, e := w.show()
	if e != nil {
		return fail(n-1, "SHOW DATABASES failed: "+e.Error())
	}
	var want []string
	for _, d := range last.Dbs {
		want = append(want, d.D)
	}
	sort.Strings(want)
	if fmt.Sprint(names) != fmt.Sprint(want) && !(len(names) == 0 && len(want) == 0) {
		return fail(n-1, fmt.Sprintf("at the end SHOW DATABASES lists %v, created %v", names, want))
	}
	for _, d := range last.Dbs {
		if e, p := w.exec("USE " + ident(d.D)); e != nil || p {
			return fail(n-1, fmt.Sprintf("at the end `USE %s` failed: %v", d.D, e))
		}
		if !d.Has {
			if _, err := w.read(d.D); err == nil {
				return fail(n-1, fmt.Sprintf("database %s has a table t that was never created in it", d.D))
			}
			continue
		}
		if v := w.checkRows(d.D, d.Rows); len(v) > 0 {
			return fail(n-1, v...)
		}
		if e, p := w.exec(fmt.Sprintf("INSERT INTO t (a, b) VALUES (9, '%s9')", d.D)); e != nil || p {
			return fail(n-1, fmt.Sprintf("database %s no longer accepts rows: %v", d.D, e))
		}
		if v := w.checkRows(d.D, append(append([]int(nil), d.Rows...), 9)); len(v) > 0 {
			return fail(n-1, v...)
		}
	}
	return
}

func main() {
	debug.SetMaxStack(16 << 20)
	fd, err := syscall.Dup(1)
	if err != nil {
		panic(err)
	}
	proto := os.NewFile(uintptr(fd), "proto")
	devnull, _ := os.OpenFile(os.DevNull, os.O_WRONLY, 0)
	syscall.Dup2(int(devnull.Fd()), 1)
	os.Stdout = devnull
	in := bufio.NewReaderSize(os.Stdin, 1<<20)
	out := bufio.NewWriter(proto)
	for {
		line, err := in.ReadBytes('\n')
		if len(line) > 1 {
			var sc Scenario
			var res Result
			if e := json.Unmarshal(line, &sc); e != nil {
				res = Result{OK: false, Kind: "infra", Notes: []string{"bad request: " + e.Error()}}
			} else {
				res = replay(sc)
			}
			b, _ := json.Marshal(res)
			out.Write(b)
			out.WriteByte('\n')
			out.Flush()
		}
		if err != nil {
			break
		}
	}
}
