// Command valstore replays ValueStore.tla scenarios against the real engine
// (C08): a fresh database and table per scenario, rows supplied either as
// direct statement values (sql.InsertStatement / sql.UpdateStatementSearched
// handed to engine.EvaluateInsert / EvaluateUpdate) or as SQL text through
// engine.Session.ExecQuery, interleaved with flush / evict-all / restart, and
// read back with engine.EvaluateSelect.
//
// TLC's scenario names value *classes*; this harness chooses the concrete
// 64-bit numbers and byte strings for a class deterministically and reports
// both what it supplied and what it read back, as decimal / hex strings.
// It takes no decisions: tools/check_c08.py compares with TLC's expectations.
package main

import (
	"bufio"
	"crypto/sha256"
	"encoding/hex"
	"encoding/json"
	"fmt"
	"os"
	"strconv"
	"strings"

	"github.com/mk6i/mkdb/engine"
	"github.com/mk6i/mkdb/sql"
	"github.com/mk6i/mkdb/storage"
)

type cell struct {
	T   string `json:"t"`   // "i" integer, "s" string, "b" boolean, "n" NULL
	Cls string `json:"cls"` // value class
	Len int    `json:"len"` // byte length of a string
	By  int    `json:"by"`  // (expected rows only) mutation that wrote the cell
}

type setItem struct {
	C int  `json:"c"` // 1-based column
	V cell `json:"v"`
}

type step struct {
	A   string    `json:"a"` // put | upd | flush | evict | restart | get
	Row []cell    `json:"row"`
	Set []setItem `json:"set"`
	K   int       `json:"k"` // mutation number
	X   bool      `json:"x"` // the statement also names the column zz, which the table does not have
	Y   bool      `json:"y"` // the statement names its first column twice
	// the row is the second row of a two-row INSERT whose first row the table accepts (ValueStore!PutTwo)
	Guard bool `json:"guard"`
	// restart: the process dies instead of shutting down (nothing is flushed or closed in order; the values come back
	// from the log records)
	Crash bool `json:"crash"`
}

type request struct {
	Path   string   `json:"path"` // "direct" | "text"
	Schema []string `json:"schema"`
	Steps  []step   `json:"steps"`
	Full   bool     `json:"full"` // report long strings in full instead of by digest
	Names  []string `json:"names"` // if set: a CREATE TABLE with these column names (all INT), one row stored and read back
}

type tagged struct {
	T string `json:"t"`
	V string `json:"v"`
}

type stepRes struct {
	Err      string     `json:"err,omitempty"`      // error returned by the engine for this step ("" = accepted)
	Supplied []tagged   `json:"supplied,omitempty"` // concrete values handed in (per column for put, per set item for upd)
	SQL      string     `json:"sql,omitempty"`
	Rows     [][]tagged `json:"rows,omitempty"`
	Got      bool       `json:"got,omitempty"`
	Cached   int        `json:"cached"`
	Dirty    int        `json:"dirty"`
}

type result struct {
	Created *bool   `json:"created,omitempty"` // names request: did CREATE TABLE succeed
	Read    []int64 `json:"read,omitempty"`    // names request: the row read back (one value per column)
	OK    bool      `json:"ok"` // false: the harness itself failed (not a verdict)
	Err   string    `json:"err,omitempty"`
	Skip  string    `json:"skip,omitempty"` // text path: why the scenario cannot be written as SQL text
	Steps []stepRes `json:"steps,omitempty"`
}

// both is the answer to a request with path "both": the scenario run with
// direct statement values and, when SQL text can express it, as SQL text.
type both struct {
	OK     bool    `json:"ok"`
	Direct *result `json:"direct"`
	Text   *result `json:"text"`
}

// inexpressible says why a scenario cannot be written as SQL text ("" = it can):
// the grammar has no NULL literal (NULL only arrives through a column left out
// of INSERT's column list) and no unary minus.
func inexpressible(req request) string {
	for _, s := range req.Steps {
		var cells []cell
		nonNull := 0
		for _, c := range s.Row {
			cells = append(cells, c)
			if c.T != "n" {
				nonNull++
			}
		}
		if s.A == "put" && nonNull == 0 {
			return "all-null-row"
		}
		for _, it := range s.Set {
			if it.V.T == "n" {
				return "set-null"
			}
			cells = append(cells, it.V)
		}
		for _, c := range cells {
			if c.T == "i" && intClass[c.Cls] < 0 {
				return "negative-number"
			}
		}
	}
	return ""
}

var intClass = map[string]int64{
	"min32": -2147483648, "m1": -1, "0": 0, "1": 1, "max32": 2147483647,
	"max32p1": 2147483648, "min32m1": -2147483649,
	"min64": -9223372036854775808, "max64": 9223372036854775807, "2p32": 4294967296,
}

// direct path: any bytes, including NUL, quotes, backslashes and invalid UTF-8
func directString(n, k, j int) string {
	b := make([]byte, n)
	for i := range b {
		b[i] = byte(i*91 + k*17 + j*5 + 3)
	}
	if n >= 1 {
		b[0] = []byte{0x00, 0x27, 0xFF, 0x5C, 0x22, 0x80}[(k+j)%6]
	}
	if n >= 8 {
		copy(b[n-4:], []byte{0xC3, 0x28, 0x00, 0x27}) // invalid UTF-8 sequence, NUL, quote at the end
	}
	return string(b)
}

// text path: what a '...' literal can carry verbatim (see tools/check_c08.py for the exclusions)
var textUnits = []string{"a", `"`, "é", ";", " ", "€", "-", "-", "\t", "😀", `\\`, "%", `\'`, "Z", `\n`, "0", "(", ",", ")", "_"}

func textString(n, k, j int) string {
	var sb strings.Builder
	u := k*3 + j
	for sb.Len() < n {
		s := textUnits[u%len(textUnits)]
		u++
		if sb.Len()+len(s) > n {
			s = "x"
		}
		sb.WriteString(s)
	}
	return sb.String()
}

// guardValue: the value of a column in the first row of a guarded INSERT (ValueStoreMC!GuardRow)
func guardValue(ty string) interface{} {
	switch ty {
	case "INT", "BIGINT":
		return int64(1)
	case "BOOLEAN":
		return true
	}
	return "g"
}

func concrete(c cell, path string, k, j int) (interface{}, error) {
	switch c.T {
	case "n":
		return nil, nil
	case "i":
		v, ok := intClass[c.Cls]
		if !ok {
			return nil, fmt.Errorf("unknown integer class %q", c.Cls)
		}
		return v, nil
	case "b":
		return c.Cls == "true", nil
	case "s":
		switch c.Cls {
		case "sp3":
			return "a b", nil
		case "sp4":
			return "a  b", nil
		case "kwt":
			return "true", nil
		case "kwf":
			return "FALSE", nil
		case "kwl":
			return "left", nil
		case "kwc":
			return ",", nil
		}
		if path == "text" {
			return textString(c.Len, k, j), nil
		}
		return directString(c.Len, k, j), nil
	}
	return nil, fmt.Errorf("unknown value tag %q", c.T)
}

var full bool

func tag(v interface{}) tagged {
	switch x := v.(type) {
	case nil:
		return tagged{"n", ""}
	case int64:
		return tagged{"i", strconv.FormatInt(x, 10)}
	case string:
		if !full && len(x) > 32 {
			h := sha256.Sum256([]byte(x))
			return tagged{"s", fmt.Sprintf("sha256:%s/%d", hex.EncodeToString(h[:12]), len(x))}
		}
		return tagged{"s", hex.EncodeToString([]byte(x))}
	case bool:
		return tagged{"b", strconv.FormatBool(x)}
	}
	return tagged{"?", fmt.Sprintf("%T %v", v, v)}
}

func literal(v interface{}) (string, error) {
	switch x := v.(type) {
	case int64:
		if x < 0 {
			return "", fmt.Errorf("negative number in SQL text")
		}
		if x > 1 && x%3 == 1 && x < 1<<40 {
			// a decimal literal may carry leading zeros: it still denotes the same (decimal) number
			return "00" + strconv.FormatInt(x, 10), nil
		}
		return strconv.FormatInt(x, 10), nil
	case string:
		return "'" + x + "'", nil
	case bool:
		if x {
			return "TRUE", nil
		}
		return "FALSE", nil
	}
	return "", fmt.Errorf("no SQL literal for %T", v)
}

func colName(j int) string { return fmt.Sprintf("c%d", j) }

func protect(f func() error) (err error) {
	defer func() {
		if r := recover(); r != nil {
			err = fmt.Errorf("panic: %v", r)
		}
	}()
	return f()
}

func parse(q string) (interface{}, error) {
	ts := sql.NewTokenScanner(strings.NewReader(q))
	tl := sql.TokenList{}
	for ts.Next() {
		tl.Add(ts.Cur())
	}
	p := sql.Parser{TokenList: tl}
	return p.Parse()
}

// runNames: CREATE TABLE t (<names> INT ...); if it is accepted, INSERT INTO t VALUES (11, 12, ...) and SELECT * FROM t.
func runNames(req request, sess *engine.Session) result {
	var created bool
	res := result{OK: true, Created: &created}
	if req.Path == "text" {
		var cols []string
		for _, n := range req.Names {
			cols = append(cols, n+" INT")
		}
		if err := protect(func() error { return sess.ExecQuery("CREATE TABLE t (" + strings.Join(cols, ", ") + ")") }); err != nil {
			res.Err = err.Error()
			return res
		}
	} else {
		ct := sql.CreateTable{Name: "t"}
		for _, n := range req.Names {
			ct.Elements = append(ct.Elements, sql.TableElement{ColumnDefinition: sql.ColumnDefinition{Name: n, DataType: sql.NumericType{}}})
		}
		if err := protect(func() error { return engine.EvaluateCreateTable(ct, sess.RelationService) }); err != nil {
			res.Err = err.Error()
			return res
		}
	}
	created = true
	var lits []string
	for j := range req.Names {
		lits = append(lits, fmt.Sprint(11+j))
	}
	if err := protect(func() error { return sess.ExecQuery("INSERT INTO t VALUES (" + strings.Join(lits, ", ") + ")") }); err != nil {
		res.Err = "insert: " + err.Error()
		return res
	}
	selAny, err := parse("SELECT * FROM t")
	if err != nil {
		return result{Err: "parse select: " + err.Error()}
	}
	var rows []*storage.Row
	if err := protect(func() error {
		var e error
		rows, _, e = engine.EvaluateSelect(selAny.(sql.Select), sess.RelationService)
		return e
	}); err != nil {
		res.Err = "select: " + err.Error()
		return res
	}
	if len(rows) != 1 {
		res.Err = fmt.Sprintf("select returned %d rows", len(rows))
		return res
	}
	for _, v := range rows[0].Vals {
		n, _ := v.(int64)
		res.Read = append(res.Read, n)
	}
	return res
}

func run(req request) result {
	full = req.Full
	if err := os.RemoveAll("data"); err != nil {
		return result{Err: err.Error()}
	}
	if err := storage.InitStorage(); err != nil {
		return result{Err: "InitStorage: " + err.Error()}
	}
	sess := &engine.Session{}
	defer func() { protect(sess.Close) }()
	if err := protect(func() error { return sess.ExecQuery("CREATE DATABASE d") }); err != nil {
		return result{Err: "create database: " + err.Error()}
	}
	if err := protect(func() error { return sess.ExecQuery("USE d") }); err != nil {
		return result{Err: "use: " + err.Error()}
	}
	if storage.VerifValFlusherOn(sess.RelationService) {
		return result{Err: "background flusher is on"}
	}
	if len(req.Names) > 0 {
		return runNames(req, sess)
	}
	// table
	if req.Path == "text" {
		var cols []string
		for j, t := range req.Schema {
			if t == "VARCHAR" {
				t = "VARCHAR(2)" // the declared width is not a limit in mkdb: values of any length up to the row limit must come back whole
			}
			cols = append(cols, colName(j+1)+" "+t)
		}
		q := "CREATE TABLE t (" + strings.Join(cols, ", ") + ")"
		if err := protect(func() error { return sess.ExecQuery(q) }); err != nil {
			return result{Err: "create table: " + err.Error()}
		}
	} else {
		ct := sql.CreateTable{Name: "t"}
		for j, t := range req.Schema {
			cd := sql.ColumnDefinition{Name: colName(j + 1)}
			switch t {
			case "INT":
				cd.DataType = sql.NumericType{}
			case "BIGINT":
				cd.DataType = sql.BigIntType{}
			case "BOOLEAN":
				cd.DataType = sql.BooleanType{}
			case "VARCHAR":
				cd.DataType = sql.CharacterStringType{Type: sql.T_VARCHAR, Len: 2}
			default:
				return result{Err: "unknown column type " + t}
			}
			ct.Elements = append(ct.Elements, sql.TableElement{ColumnDefinition: cd})
		}
		if err := protect(func() error { return engine.EvaluateCreateTable(ct, sess.RelationService) }); err != nil {
			return result{Err: "create table: " + err.Error()}
		}
	}
	selAny, err := parse("SELECT * FROM t")
	if err != nil {
		return result{Err: "parse select: " + err.Error()}
	}
	sel, ok := selAny.(sql.Select)
	if !ok {
		return result{Err: "select did not parse as a Select"}
	}

	res := result{OK: true}
	for _, s := range req.Steps {
		var sr stepRes
		switch s.A {
		case "put":
			vals := make([]interface{}, len(s.Row))
			for j, c := range s.Row {
				v, err := concrete(c, req.Path, s.K, j+1)
				if err != nil {
					return result{Err: err.Error()}
				}
				vals[j] = v
				sr.Supplied = append(sr.Supplied, tag(v))
			}
			if req.Path == "text" {
				// NULL has no literal: a NULL column is left out of the column list
				var cols, lits []string
				for j, v := range vals {
					if v == nil {
						continue
					}
					l, err := literal(v)
					if err != nil {
						return result{Err: err.Error()}
					}
					cols = append(cols, colName(j+1))
					lits = append(lits, l)
				}
				if s.X {
					cols, lits = append(cols, "zz"), append(lits, "1")
				}
				if s.Y && len(cols) > 0 {
					cols, lits = append([]string{cols[0]}, cols...), append([]string{lits[0]}, lits...)
				}
				if len(cols) == 0 {
					return result{Err: "a row of NULLs cannot be written as SQL text"}
				}
				// every third statement lists its columns in reverse order (values with them): a column list names columns, its
				// order is the statement's own business
				permuted := s.K%3 == 0 && len(cols) >= 2 && !s.X && !s.Y && !s.Guard
				if permuted {
					for a, b := 0, len(cols)-1; a < b; a, b = a+1, b-1 {
						cols[a], cols[b] = cols[b], cols[a]
						lits[a], lits[b] = lits[b], lits[a]
					}
				}
				rowsText := "(" + strings.Join(lits, ", ") + ")"
				if s.Guard {
					var glits []string
					for j, v := range vals {
						if v == nil {
							continue
						}
						l, err := literal(guardValue(req.Schema[j]))
						if err != nil {
							return result{Err: err.Error()}
						}
						glits = append(glits, l)
					}
					rowsText = "(" + strings.Join(glits, ", ") + "), " + rowsText
				}
				q := "INSERT INTO t (" + strings.Join(cols, ", ") + ") VALUES " + rowsText
				if len(cols) == len(vals) && s.K%2 == 0 && !s.X && !s.Y && !permuted {
					q = "INSERT INTO t VALUES " + rowsText
				}
				sr.SQL = q
				if err := protect(func() error { return sess.ExecQuery(q) }); err != nil {
					sr.Err = err.Error()
				}
			} else {
				st := sql.InsertStatement{TableName: "t"}
				permuted := s.K%3 == 0 && len(vals) >= 2 && !s.X && !s.Y && !s.Guard
				if s.K%2 == 1 || s.X || s.Y || permuted {
					for j := range vals {
						st.InsertColumnsAndSource.InsertColumnList.ColumnNames = append(st.InsertColumnsAndSource.InsertColumnList.ColumnNames, colName(j+1))
					}
				}
				if permuted {
					names := st.InsertColumnsAndSource.InsertColumnList.ColumnNames
					vals = append([]interface{}(nil), vals...)
					for a, b := 0, len(vals)-1; a < b; a, b = a+1, b-1 {
						names[a], names[b] = names[b], names[a]
						vals[a], vals[b] = vals[b], vals[a]
					}
				}
				if s.X {
					st.InsertColumnsAndSource.InsertColumnList.ColumnNames = append(st.InsertColumnsAndSource.InsertColumnList.ColumnNames, "zz")
					vals = append(vals, int64(1))
				}
				if s.Y {
					st.InsertColumnsAndSource.InsertColumnList.ColumnNames = append([]string{colName(1)}, st.InsertColumnsAndSource.InsertColumnList.ColumnNames...)
					vals = append([]interface{}{vals[0]}, vals...)
				}
				rowsDirect := []sql.RowValueConstructor{{RowValueConstructorList: vals}}
				if s.Guard {
					gvals := make([]interface{}, len(vals))
					for j := range vals {
						gvals[j] = guardValue(req.Schema[j%len(req.Schema)])
					}
					rowsDirect = append([]sql.RowValueConstructor{{RowValueConstructorList: gvals}}, rowsDirect...)
				}
				st.InsertColumnsAndSource.QueryExpression = sql.TableValueConstructor{TableValueConstructorList: rowsDirect}
				if err := protect(func() error { _, e := engine.EvaluateInsert(st, sess.RelationService); return e }); err != nil {
					sr.Err = err.Error()
				}
			}
		case "upd":
			var sets []sql.SetClause
			var parts []string
			for _, it := range s.Set {
				v, err := concrete(it.V, req.Path, s.K, it.C)
				if err != nil {
					return result{Err: err.Error()}
				}
				sr.Supplied = append(sr.Supplied, tag(v))
				sets = append(sets, sql.SetClause{ObjectColumn: colName(it.C), UpdateSource: v})
				if req.Path == "text" {
					l, err := literal(v)
					if err != nil {
						return result{Err: err.Error()}
					}
					parts = append(parts, colName(it.C)+" = "+l)
				}
			}
			if s.X {
				sets = append(sets, sql.SetClause{ObjectColumn: "zz", UpdateSource: int64(1)})
				parts = append(parts, "zz = 1")
			}
			if s.Y && len(sets) > 0 {
				sets = append(sets, sets[0])
				if len(parts) > 0 {
					parts = append(parts, parts[0])
				}
			}
			if req.Path == "text" {
				q := "UPDATE t SET " + strings.Join(parts, ", ")
				sr.SQL = q
				if err := protect(func() error { return sess.ExecQuery(q) }); err != nil {
					sr.Err = err.Error()
				}
			} else {
				st := sql.UpdateStatementSearched{TableName: "t", Set: sets}
				if err := protect(func() error { return engine.EvaluateUpdate(st, sess.RelationService) }); err != nil {
					sr.Err = err.Error()
				}
			}
		case "flush":
			if err := protect(func() error { return storage.VerifValFlush(sess.RelationService) }); err != nil {
				return result{Err: "flush: " + err.Error()}
			}
		case "evict":
			if err := protect(func() error { return storage.VerifValEvictAll(sess.RelationService) }); err != nil {
				return result{Err: "evict: " + err.Error()}
			}
		case "restart":
			if s.Crash {
				storage.VerifAbandon(sess.RelationService)
			} else if err := protect(sess.Close); err != nil {
				sr.Err = "close: " + err.Error()
			}
			if err := protect(storage.InitStorage); err != nil {
				sr.Err = strings.TrimSpace(sr.Err + " InitStorage: " + err.Error())
			}
			sess = &engine.Session{}
			if err := protect(func() error { return sess.ExecQuery("USE d") }); err != nil {
				sr.Err = strings.TrimSpace(sr.Err + " use: " + err.Error())
			}
		case "get":
			var rows []*storage.Row
			err := protect(func() error {
				var e error
				rows, _, e = engine.EvaluateSelect(sel, sess.RelationService)
				return e
			})
			if err != nil {
				sr.Err = err.Error()
			} else {
				sr.Got = true
				sr.Rows = [][]tagged{}
				for _, r := range rows {
					tr := []tagged{}
					for _, v := range r.Vals {
						tr = append(tr, tag(v))
					}
					sr.Rows = append(sr.Rows, tr)
				}
			}
		default:
			return result{Err: "unknown step " + s.A}
		}
		if sess.RelationService != nil {
			sr.Cached, sr.Dirty = storage.VerifValCached(sess.RelationService)
		}
		res.Steps = append(res.Steps, sr)
	}
	return res
}

func main() {
	// the engine prints on stdout on every statement: keep the protocol
	// stream for ourselves and send the engine's prints to /dev/null
	proto := os.Stdout
	if null, err := os.OpenFile(os.DevNull, os.O_WRONLY, 0); err == nil {
		os.Stdout = null
	}
	storage.VerifValAutoFlushOff()
	in := bufio.NewReaderSize(os.Stdin, 1<<20)
	out := bufio.NewWriter(proto)
	for {
		line, err := in.ReadBytes('\n')
		if len(line) > 1 {
			var req request
			var res interface{}
			if e := json.Unmarshal(line, &req); e != nil {
				res = result{Err: "bad request: " + e.Error()}
			} else if req.Path == "both" {
				req.Path = "direct"
				d := run(req)
				bo := both{OK: d.OK, Direct: &d}
				if why := inexpressible(req); why != "" {
					bo.Text = &result{OK: true, Skip: why}
				} else {
					req.Path = "text"
					t := run(req)
					bo.Text = &t
					bo.OK = bo.OK && t.OK
				}
				res = bo
			} else {
				res = run(req)
			}
			b, _ := json.Marshal(res)
			out.Write(b)
			out.WriteByte('\n')
			// every answer leaves at once: when the code under test kills the process (a fatal
			// error no recover() catches), the first unanswered request is the one that did it
			out.Flush()
		}
		if err != nil {
			break
		}
	}
}
