// Command sem executes SELECT statements, rendered as SQL text from the
// specification's abstract queries, on a real database loaded from the
// specification's abstract tables, and reports what engine.EvaluateSelect
// returned (C05, C06, C07, C18).  The judgement is made by TLC (SqlSemJudge).
package main

import (
	"bufio"
	"encoding/json"
	"fmt"
	"os"
	"runtime"
	"runtime/debug"
	"sort"
	"strings"
	"syscall"
	"time"

	"github.com/mk6i/mkdb/engine"
	"github.com/mk6i/mkdb/sql"
	"github.com/mk6i/mkdb/storage"
)

type Val struct {
	T string `json:"t"`
	V int64  `json:"v"`
	S []int  `json:"s"`
}

type ColDef struct {
	N  string `json:"n"`
	Ty string `json:"ty"`
}

type Table struct {
	Cols []ColDef `json:"cols"`
	Rows [][]Val  `json:"rows"`
	// rows of the table's past: Dead[i] is inserted before Rows[DeadAt[i]] (after the last row when DeadAt[i] = len(Rows)) and all
	// of them are deleted again before the first query - by DeadWhere, a condition that holds for them only. The specification
	// is given Rows alone: what a table holds is what its history implies, tombstones are not rows
	Dead      [][]Val `json:"dead"`
	DeadAt    []int   `json:"deadat"`
	DeadWhere string  `json:"deadwhere"`
}

type Operand struct {
	K   string `json:"k"`
	Q   string `json:"q"`
	C   string `json:"c"`
	Val Val    `json:"val"`
}

type Cmp struct {
	L  Operand `json:"l"`
	Op string  `json:"op"`
	R  Operand `json:"r"`
}

type Ref struct {
	Q string `json:"q"`
	C string `json:"c"`
}

type Item struct {
	K     string `json:"k"`
	Ref   Ref    `json:"ref"`
	Cmp   Cmp    `json:"cmp"`
	Alias string `json:"alias"`
}

type Asg struct {
	C   string `json:"c"`
	Val Val    `json:"val"`
}

type FromEl struct {
	Tbl   string  `json:"tbl"`
	Alias string  `json:"alias"`
	Jt    string  `json:"jt"`
	On    [][]Cmp `json:"on"`
}

type Ord struct {
	Q   string `json:"q"`
	C   string `json:"c"`
	Dir string `json:"dir"`
}

type Query struct {
	From   []FromEl `json:"from"`
	Where  [][]Cmp  `json:"where"`
	List   []Item   `json:"list"`
	Group  []Ref    `json:"group"`
	Order  []Ord    `json:"order"`
	Limit  int      `json:"limit"`
	Offset int      `json:"offset"`
	Style  int      `json:"style"` // rendering variant
	Raw    string   `json:"raw"`   // if set: this SQL text instead of a rendered query (C18)
	// a data-changing statement on From[0].Tbl (C01, statement histories): "insert" (Row), "update" (Set, Where), "delete" (Where);
	// the answer is the statement's outcome plus what SELECT * returns after it
	Dml string `json:"dml"`
	Set []Asg  `json:"set"`
	Row []Val  `json:"row"`
}

type Request struct {
	Db   map[string]Table `json:"db"`
	Qs   []Query          `json:"qs"`
	Stmt bool             `json:"stmt"` // run Raw through Session.ExecQuery (any statement kind) instead of EvaluateSelect
	NoDb bool             `json:"nodb"` // C18 session states: no USE at all
	BadU bool             `json:"badu"` // C18: a failed USE precedes the statements
	Caps []int            `json:"caps"` // page capacities (leaf, internal) to run at; empty = production
}

type Res struct {
	Err   bool     `json:"err"`
	Msg   string   `json:"msg,omitempty"`
	Panic string   `json:"panic,omitempty"`
	Hang  bool     `json:"hang,omitempty"`
	Cols  []string `json:"cols"`
	Rows  [][]Val  `json:"rows"`
	SQL   string   `json:"sql"`
}

type Response struct {
	Res   []Res  `json:"res"`
	Setup string `json:"setup,omitempty"`
}

func str(bs []int) string {
	b := make([]byte, len(bs))
	for i, x := range bs {
		b[i] = byte(x)
	}
	return string(b)
}

// zeroPad: integer literals of the statement being rendered are written with leading zeros (decimal all the same)
var zeroPad bool

// the specification's largest LIMIT / OFFSET (TLC's largest integer) stands for the largest one the parser takes
func limNum(n int) string {
	if n == 2147483647 {
		return "9223372036854775807"
	}
	return num(int64(n))
}

func num(n int64) string {
	if zeroPad && n >= 0 {
		return "0" + fmt.Sprint(n)
	}
	return fmt.Sprint(n)
}

func lit(v Val) string {
	switch v.T {
	case "i", "I":
		return num(int64(v.V))
	case "s":
		return "'" + str(v.S) + "'"
	case "b":
		if v.V != 0 {
			return "TRUE"
		}
		return "FALSE"
	}
	return "NULL"
}

func kw(s string, style int) string {
	switch style % 3 {
	case 1:
		return strings.ToLower(s)
	case 2:
		return strings.Title(strings.ToLower(s))
	}
	return s
}

func operand(o Operand) string {
	if o.K == "col" {
		if o.Q != "" {
			return o.Q + "." + o.C
		}
		return o.C
	}
	return lit(o.Val)
}

func cond(dnf [][]Cmp, style int) string {
	var ors []string
	for _, conj := range dnf {
		var ands []string
		for _, c := range conj {
			sp := " "
			if style%2 == 1 {
				sp = ""
			}
			ands = append(ands, operand(c.L)+sp+c.Op+sp+operand(c.R))
		}
		ors = append(ors, strings.Join(ands, " "+kw("AND", style)+" "))
	}
	return strings.Join(ors, " "+kw("OR", style)+" ")
}

func ref(r Ref) string {
	if r.Q != "" {
		return r.Q + "." + r.C
	}
	return r.C
}

func render(q Query) string {
	st := q.Style
	zeroPad = st%8 == 5
	defer func() { zeroPad = false }()
	var items []string
	for _, it := range q.List {
		var s string
		switch it.K {
		case "star":
			s = "*"
		case "col":
			s = ref(it.Ref)
		case "cmp":
			s = operand(it.Cmp.L) + " " + it.Cmp.Op + " " + operand(it.Cmp.R)
		case "count":
			s = kw("COUNT", st) + "(*)"
		case "countcol":
			s = kw("COUNT", st) + "(" + ref(it.Ref) + ")"
		case "avg":
			s = kw("AVG", st) + "(" + ref(it.Ref) + ")"
		}
		if it.Alias != "" {
			if st%2 == 0 {
				s += " " + kw("AS", st) + " " + it.Alias
			} else {
				s += " " + it.Alias
			}
		}
		items = append(items, s)
	}
	sb := kw("SELECT", st) + " " + strings.Join(items, ", ")
	for i, f := range q.From {
		if i == 0 {
			sb += " " + kw("FROM", st) + " " + f.Tbl
		} else {
			switch f.Jt {
			case "inner":
				if st%2 == 0 {
					sb += " " + kw("INNER", st)
				}
			case "left":
				sb += " " + kw("LEFT", st)
			case "right":
				sb += " " + kw("RIGHT", st)
			}
			sb += " " + kw("JOIN", st) + " " + f.Tbl
		}
		if f.Alias != "" {
			sb += " " + f.Alias
		}
		if i > 0 {
			sb += " " + kw("ON", st) + " " + cond(f.On, st)
		}
	}
	if len(q.Where) > 0 {
		sb += " " + kw("WHERE", st) + " " + cond(q.Where, st)
	}
	if len(q.Group) > 0 {
		var gs []string
		for _, g := range q.Group {
			gs = append(gs, ref(g))
		}
		sb += " " + kw("GROUP BY", st) + " " + strings.Join(gs, ", ")
	}
	if len(q.Order) > 0 {
		var os_ []string
		for _, o := range q.Order {
			s := ref(Ref{o.Q, o.C})
			if o.Dir == "desc" {
				s += " " + kw("DESC", st)
			} else if st%2 == 0 {
				s += " " + kw("ASC", st)
			}
			os_ = append(os_, s)
		}
		sb += " " + kw("ORDER BY", st) + " " + strings.Join(os_, ", ")
	}
	lim, off := "", ""
	if q.Limit >= 0 {
		lim = fmt.Sprintf(" %s %s", kw("LIMIT", st), limNum(q.Limit))
	}
	if q.Offset >= 0 {
		off = fmt.Sprintf(" %s %s", kw("OFFSET", st), limNum(q.Offset))
	}
	if st%4 >= 2 {
		sb += off + lim
	} else {
		sb += lim + off
	}
	return sb
}

func renderDml(q Query, cols []ColDef) string {
	st := q.Style
	tbl := q.From[0].Tbl
	where := ""
	if len(q.Where) > 0 {
		where = " " + kw("WHERE", st) + " " + cond(q.Where, st)
	}
	switch q.Dml {
	case "insert":
		var cs, vs []string
		for i, v := range q.Row {
			cs = append(cs, cols[i].N)
			vs = append(vs, lit(v))
		}
		if st%2 == 1 && len(cs) == len(cols) {
			return fmt.Sprintf("%s %s %s (%s)", kw("INSERT INTO", st), tbl, kw("VALUES", st), strings.Join(vs, ", "))
		}
		return fmt.Sprintf("%s %s (%s) %s (%s)", kw("INSERT INTO", st), tbl, strings.Join(cs, ", "), kw("VALUES", st), strings.Join(vs, ", "))
	case "delete":
		return fmt.Sprintf("%s %s%s", kw("DELETE FROM", st), tbl, where)
	}
	var as []string
	for _, a := range q.Set {
		eq := " = "
		if st%4 >= 2 {
			eq = "="
		}
		as = append(as, a.C+eq+lit(a.Val))
	}
	return fmt.Sprintf("%s %s %s %s%s", kw("UPDATE", st), tbl, kw("SET", st), strings.Join(as, ", "), where)
}

func typeName(ty string) string {
	switch ty {
	case "i":
		return "INT"
	case "I":
		return "BIGINT"
	case "s":
		return "VARCHAR(64)"
	case "b":
		return "BOOLEAN"
	}
	return "INT"
}

func parse(q string) (interface{}, error) {
	ts := sql.NewTokenScanner(strings.NewReader(q))
	tl := sql.TokenList{}
	for ts.Next() {
		tl.Add(ts.Cur())
	}
	p := sql.Parser{TokenList: tl}
	return p.Parse()
}

func toVal(x interface{}) Val {
	switch v := x.(type) {
	case nil:
		return Val{T: "n", S: []int{}}
	case int64:
		return Val{T: "i", V: v, S: []int{}}
	case int:
		return Val{T: "i", V: int64(v), S: []int{}}
	case bool:
		if v {
			return Val{T: "b", V: 1, S: []int{}}
		}
		return Val{T: "b", V: 0, S: []int{}}
	case string:
		s := make([]int, len(v))
		for i := 0; i < len(v); i++ {
			s[i] = int(v[i])
		}
		return Val{T: "s", S: s}
	}
	return Val{T: "?", S: []int{}}
}

// guarded runs f with a watchdog; a panic or a hang is reported, never propagated.
func guarded(f func() Res) (res Res) {
	done := make(chan Res, 1)
	go func() {
		defer func() {
			if r := recover(); r != nil {
				st := string(debug.Stack())
				if len(st) > 1500 {
					st = st[:1500]
				}
				done <- Res{Err: true, Panic: fmt.Sprintf("%v\n%s", r, st)}
			}
		}()
		done <- f()
	}()
	select {
	case r := <-done:
		return r
	case <-time.After(5 * time.Second):
		return Res{Err: true, Hang: true}
	}
}

func runSelect(sess *engine.Session, text string) Res {
	return guarded(func() Res {
		stmt, err := parse(text)
		if err != nil {
			return Res{Err: true, Msg: "parse: " + err.Error()}
		}
		sel, ok := stmt.(sql.Select)
		if !ok {
			return Res{Err: true, Msg: "not a select"}
		}
		rows, fields, err := engine.EvaluateSelect(sel, sess.RelationService)
		if err != nil {
			return Res{Err: true, Msg: err.Error()}
		}
		r := Res{Cols: []string{}, Rows: [][]Val{}}
		for _, f := range fields {
			r.Cols = append(r.Cols, fmt.Sprint(f.Column))
		}
		for _, row := range rows {
			vs := make([]Val, len(row.Vals))
			for i, x := range row.Vals {
				vs[i] = toVal(x)
			}
			r.Rows = append(r.Rows, vs)
		}
		return r
	})
}

func runStmt(sess *engine.Session, text string) Res {
	return guarded(func() Res {
		if err := sess.ExecQuery(text); err != nil {
			return Res{Err: true, Msg: err.Error()}
		}
		return Res{Cols: []string{}, Rows: [][]Val{}}
	})
}

func handle(req Request) Response {
	var resp Response
	os.RemoveAll("data")
	storage.VerifForgetStores()
	storage.VerifAutoFlushOff()
	storage.VerifTrackStores()
	if len(req.Caps) == 2 {
		storage.VerifSetCaps(req.Caps[0], req.Caps[1])
	} else {
		storage.VerifSetCaps(0, 0)
	}
	if err := storage.InitStorage(); err != nil {
		resp.Setup = err.Error()
		return resp
	}
	sess := &engine.Session{}
	defer func() {
		if sess.RelationService != nil {
			storage.VerifAbandon(sess.RelationService)
		}
		storage.VerifForgetStores()
	}()
	setup := func(q string) bool {
		r := runStmt(sess, q)
		if r.Panic != "" || r.Hang {
			// the engine crashed on a plain valid statement while the database was being loaded: that is an answer
			r.SQL = q
			r.Cols, r.Rows = []string{}, [][]Val{}
			resp.Res = []Res{r}
			resp.Setup = "PANIC"
			return false
		}
		if r.Err {
			resp.Setup = q + ": " + r.Msg
			return false
		}
		return true
	}
	if !setup("CREATE DATABASE sdb") {
		return resp
	}
	if !req.NoDb {
		if !setup("USE sdb") {
			return resp
		}
		var names []string
		for n := range req.Db {
			names = append(names, n)
		}
		sort.Strings(names)
		for _, n := range names {
			t := req.Db[n]
			var cols []string
			for _, c := range t.Cols {
				cols = append(cols, c.N+" "+typeName(c.Ty))
			}
			if !setup(fmt.Sprintf("CREATE TABLE %s (%s)", n, strings.Join(cols, ", "))) {
				return resp
			}
			rowsToLoad := t.Rows
			if len(rowsToLoad) > 1500 {
				// a big table (C07, many groups): rows without NULLs and negative numbers are stored 400 to a statement, with the
				// flusher's tick every ten statements (the timer is off here, and a cache of dirty pages only would refuse them)
				plain := func(row []Val) bool {
					for _, v := range row {
						if v.T == "n" || ((v.T == "i" || v.T == "I") && v.V < 0) {
							return false
						}
					}
					return true
				}
				var names []string
				for _, c := range t.Cols {
					names = append(names, c.N)
				}
				k, stmts := 0, 0
				for k < len(rowsToLoad) && plain(rowsToLoad[k]) {
					var tuples []string
					for ; k < len(rowsToLoad) && len(tuples) < 400 && plain(rowsToLoad[k]); k++ {
						var vs []string
						for _, v := range rowsToLoad[k] {
							vs = append(vs, lit(v))
						}
						tuples = append(tuples, "("+strings.Join(vs, ", ")+")")
					}
					if !setup(fmt.Sprintf("INSERT INTO %s (%s) VALUES %s", n, strings.Join(names, ", "), strings.Join(tuples, ", "))) {
						return resp
					}
					if stmts++; stmts%10 == 0 {
						if err := storage.VerifTickAll(); err != nil {
							resp.Setup = "flush while loading: " + err.Error()
							return resp
						}
					}
				}
				rowsToLoad = rowsToLoad[k:]
			}
			if len(t.Dead) > 0 {
				var mixed [][]Val
				for i := 0; i <= len(rowsToLoad); i++ {
					for k, at := range t.DeadAt {
						if at == i && k < len(t.Dead) {
							mixed = append(mixed, t.Dead[k])
						}
					}
					if i < len(rowsToLoad) {
						mixed = append(mixed, rowsToLoad[i])
					}
				}
				rowsToLoad = mixed
			}
			for _, row := range rowsToLoad {
				var cs, vs []string
				for i, v := range row {
					if v.T == "n" {
						continue // NULL: the column is left out of the INSERT
					}
					cs = append(cs, t.Cols[i].N)
					vs = append(vs, lit(v))
				}
				if len(cs) == 0 {
					resp.Setup = "row of NULLs only cannot be inserted"
					return resp
				}
				negative := false
				textErr := ""
				for _, v := range row {
					if (v.T == "i" || v.T == "I") && v.V < 0 {
						negative = true
					}
				}
				if !negative {
					// the row as SQL text; a text the front end refuses (it is a valid statement: that is C10's and C08's business)
					// does not keep the SELECTs from being judged: the row then goes in as typed values
					r := runStmt(sess, fmt.Sprintf("INSERT INTO %s (%s) VALUES (%s)", n, strings.Join(cs, ", "), strings.Join(vs, ", ")))
					if r.Panic == "" && !r.Hang && !r.Err {
						continue
					}
					if r.Panic != "" || r.Hang {
						setup(fmt.Sprintf("INSERT INTO %s (%s) VALUES (%s)", n, strings.Join(cs, ", "), strings.Join(vs, ", ")))
						return resp
					}
					negative = true
					textErr = r.Msg
				}
				if negative {
					// SQL text has no negative literals; such rows enter a table the way cmd/csvimport stores them:
					// through engine.EvaluateInsert with typed values
					var vals []interface{}
					for _, v := range row {
						switch v.T {
						case "i", "I":
							vals = append(vals, v.V)
						case "s":
							vals = append(vals, str(v.S))
						case "b":
							vals = append(vals, v.V != 0)
						}
					}
					q := sql.InsertStatement{TableName: n, InsertColumnsAndSource: sql.InsertColumnsAndSource{
						InsertColumnList: sql.InsertColumnList{ColumnNames: cs},
						QueryExpression:  sql.TableValueConstructor{TableValueConstructorList: []sql.RowValueConstructor{{RowValueConstructorList: vals}}}}}
					r := guarded(func() Res {
						if _, err := engine.EvaluateInsert(q, sess.RelationService); err != nil {
							return Res{Err: true, Msg: err.Error()}
						}
						return Res{}
					})
					if r.Err {
						resp.Setup = "typed insert failed: " + r.Msg + r.Panic
						if textErr != "" {
							resp.Setup = fmt.Sprintf("INSERT INTO %s (%s) VALUES (%s): %s (and as typed values: %s)", n, strings.Join(cs, ", "), strings.Join(vs, ", "), textErr, r.Msg+r.Panic)
						}
						return resp
					}
					continue
				}
				if !setup(fmt.Sprintf("INSERT INTO %s (%s) VALUES (%s)", n, strings.Join(cs, ", "), strings.Join(vs, ", "))) {
					return resp
				}
			}
		}
		for _, n := range names {
			if t := req.Db[n]; len(t.Dead) > 0 {
				if !setup(fmt.Sprintf("DELETE FROM %s WHERE %s", n, t.DeadWhere)) {
					return resp
				}
			}
		}
		if req.BadU {
			runStmt(sess, "USE no_such_database")
		}
	}
	if req.Stmt {
		// the 100 ms flusher, at its worst: while the statements run, another goroutine asks for the flush (and with it for
		// the store's exclusive lock) over and over, so that a request is pending at every point of every statement
		stop := make(chan struct{})
		done := make(chan struct{})
		go func() {
			defer close(done)
			defer func() { recover() }()
			for {
				select {
				case <-stop:
					return
				default:
					storage.VerifTickAll() // errors (a store closed under it by USE) are the flusher's own business
					runtime.Gosched()
				}
			}
		}()
		defer func() {
			close(stop)
			select {
			case <-done:
			case <-time.After(2 * time.Second): // stuck behind a lock that a hanging statement holds
			}
		}()
	}
	for _, q := range req.Qs {
		text := q.Raw
		if text == "" {
			text = render(q)
		}
		var r Res
		if q.Dml != "" {
			text = renderDml(q, req.Db[q.From[0].Tbl].Cols)
			r = runStmt(sess, text)
			if !r.Hang && r.Panic == "" {
				if q.Style%3 == 0 {
					// the flusher's tick, then every clean page out of the cache: the next statement reads the data file
					if err := storage.VerifTickAll(); err != nil {
						r.Msg += " [flush after the statement: " + err.Error() + "]"
					}
					storage.VerifEvictClean(sess.RelationService)
				}
				sel := runSelect(sess, "SELECT * FROM "+q.From[0].Tbl)
				r.Cols, r.Rows = sel.Cols, sel.Rows
				if sel.Err {
					// never equal to a table's content
					r.Rows = [][]Val{{{T: "x"}}}
					r.Msg += " [SELECT * after the statement: " + sel.Msg + sel.Panic + "]"
					r.Hang = r.Hang || sel.Hang
				}
			}
		} else if req.Stmt {
			r = runStmt(sess, text)
			if !r.Hang && r.Panic == "" {
				// the 100 ms flusher is switched off in this harness; its tick is delivered here, between statements:
				// a statement that leaves the store locked makes the tick - and with it every later statement - hang
				tick := guarded(func() Res {
					if err := storage.VerifTickAll(); err != nil {
						return Res{Err: true, Msg: err.Error()}
					}
					return Res{}
				})
				if tick.Hang {
					r.Hang = true
					r.Msg = "the background flush that follows this statement never gets the store's lock: " + r.Msg
				} else if tick.Panic != "" {
					r.Panic = "background flush after the statement: " + tick.Panic
				}
			}
		} else {
			r = runSelect(sess, text)
		}
		r.SQL = text
		if r.Cols == nil {
			r.Cols = []string{}
		}
		if r.Rows == nil {
			r.Rows = [][]Val{}
		}
		resp.Res = append(resp.Res, r)
		if r.Hang {
			break // the goroutine is lost; stop using this process for further queries of the batch
		}
	}
	return resp
}

func main() {
	debug.SetMaxStack(32 << 20)
	fd, err := syscall.Dup(1)
	if err != nil {
		panic(err)
	}
	proto := os.NewFile(uintptr(fd), "proto")
	devnull, _ := os.OpenFile(os.DevNull, os.O_WRONLY, 0)
	syscall.Dup2(int(devnull.Fd()), 1)
	os.Stdout = devnull
	in := bufio.NewReaderSize(os.Stdin, 1<<22)
	out := bufio.NewWriter(proto)
	for {
		line, err := in.ReadBytes('\n')
		if len(line) > 1 {
			var req Request
			var resp Response
			if e := json.Unmarshal(line, &req); e != nil {
				resp.Setup = "bad request: " + e.Error()
			} else {
				resp = handle(req)
			}
			b, _ := json.Marshal(resp)
			out.Write(b)
			out.WriteByte('\n')
			out.Flush()
		}
		if err != nil {
			break
		}
	}
}
