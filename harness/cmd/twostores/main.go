// Command twostores runs one session over several databases with the real
// background flushers (C12, run under the race detector): rows go into the
// selected database - its store's 100 ms ticker goroutine serialises the dirty
// pages - while CREATE DATABASE statements make other stores serialise their
// own pages on the session's goroutine.  Every store has its own lock, so
// whatever the page codec shares between stores is unprotected; the race
// detector reports it.  After the run every row is read back.
//
// usage: twostores <rounds>     (prints one JSON line)
package main

import (
	"encoding/json"
	"fmt"
	"os"
	"strconv"
	"strings"
	"syscall"
	"time"

	"github.com/mk6i/mkdb/engine"
	"github.com/mk6i/mkdb/sql"
	"github.com/mk6i/mkdb/storage"
)

func parse(q string) (interface{}, error) {
	ts := sql.NewTokenScanner(strings.NewReader(q))
	tl := sql.TokenList{}
	for ts.Next() {
		tl.Add(ts.Cur())
	}
	p := sql.Parser{TokenList: tl}
	return p.Parse()
}

func main() {
	rounds, _ := strconv.Atoi(os.Args[1])
	fd, _ := syscall.Dup(1)
	proto := os.NewFile(uintptr(fd), "proto")
	devnull, _ := os.OpenFile(os.DevNull, os.O_WRONLY, 0)
	syscall.Dup2(int(devnull.Fd()), 1)
	os.Stdout = devnull
	out := map[string]interface{}{"ok": true}
	finish := func() {
		b, _ := json.Marshal(out)
		fmt.Fprintln(proto, string(b))
	}
	os.RemoveAll("data")
	storage.VerifAutoFlushDefault() // real timers
	if err := storage.InitStorage(); err != nil {
		out["ok"], out["err"] = false, "init: "+err.Error()
		finish()
		return
	}
	sess := &engine.Session{}
	exec := func(q string) bool {
		if err := sess.ExecQuery(q); err != nil {
			out["ok"], out["err"] = false, q+": "+err.Error()
			return false
		}
		return true
	}
	if !exec("CREATE DATABASE a") || !exec("USE a") || !exec("CREATE TABLE t (a INT, b VARCHAR(64))") {
		finish()
		return
	}
	want := 0
	for r := 0; r < rounds; r++ {
		// rows of different lengths into the selected database: its pages are dirty when the ticker fires
		for j := 0; j < 4; j++ {
			if !exec(fmt.Sprintf("INSERT INTO t (a, b) VALUES (%d, '%s')", want, strings.Repeat("r", 1+want%50))) {
				finish()
				return
			}
			want++
		}
		// at every phase of the 100 ms period: another store serialises its own pages on this goroutine
		time.Sleep(time.Duration(10+(r*37)%110) * time.Millisecond)
		if !exec(fmt.Sprintf("CREATE DATABASE d%d", r)) {
			finish()
			return
		}
		if r%5 == 4 {
			// ... and the other way round: the new database selected and written to, then back
			if !exec(fmt.Sprintf("USE d%d", r)) || !exec("CREATE TABLE t (a INT, b VARCHAR(64))") || !exec("INSERT INTO t (a, b) VALUES (1, 'x')") || !exec("USE a") {
				finish()
				return
			}
		}
	}
	time.Sleep(150 * time.Millisecond)
	if err := sess.Close(); err != nil {
		out["ok"], out["err"] = false, "close: "+err.Error()
		finish()
		return
	}
	if err := storage.InitStorage(); err != nil {
		out["ok"], out["viol"] = false, "the databases do not start again: "+err.Error()
		finish()
		return
	}
	sess = &engine.Session{}
	if !exec("USE a") {
		finish()
		return
	}
	stmt, _ := parse("SELECT * FROM t")
	rows, _, err := engine.EvaluateSelect(stmt.(sql.Select), sess.RelationService)
	if err != nil {
		out["ok"], out["viol"] = false, "SELECT * FROM t after the restart: "+err.Error()
		finish()
		return
	}
	bad := ""
	if len(rows) != want {
		bad = fmt.Sprintf("%d rows after the restart, %d were inserted", len(rows), want)
	}
	for i, row := range rows {
		if bad != "" {
			break
		}
		a, _ := row.Vals[0].(int64)
		b, _ := row.Vals[1].(string)
		if int(a) != i || b != strings.Repeat("r", 1+i%50) {
			bad = fmt.Sprintf("row %d reads back as (%v, %q)", i, row.Vals[0], row.Vals[1])
		}
	}
	if bad != "" {
		out["ok"], out["viol"] = false, bad
	}
	out["rows"], out["databases"] = want, rounds+1
	sess.Close()
	finish()
}
