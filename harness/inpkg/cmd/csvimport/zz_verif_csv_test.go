package main

// Replay harness for C19 (kept in /verif, compiled into package main of
// cmd/csvimport through `go test -overlay`).  For every TLC-generated
// scenario (CsvImport.tla / CsvImportMC.tla) it creates a fresh database and
// table through the real SQL front end, renders the records as CSV text, runs
// the real colDataTypes + doBatchInsert against the real RelationService,
// records the order of ok/err events and reads the table back with the real
// EvaluateSelect.  It only executes and reports: what is right is decided by
// the specification.
//
// VERIF_C19_SCN  scenario file, one JSON object per line
// VERIF_C19_OUT  result file, one JSON object per scenario
// VERIF_C19_DIR  fresh working directory (the engine uses the relative directory data/)
// VERIF_C19_RENDERS comma separated text renderings (default: lf,crlf,nofinal)

import (
	"bufio"
	"encoding/json"
	"fmt"
	"os"
	"strconv"
	"strings"
	"testing"
	"time"

	"github.com/mk6i/mkdb/engine"
	"github.com/mk6i/mkdb/sql"
	"github.com/mk6i/mkdb/storage"
)

type vcsvRec struct {
	Cls       string   `json:"cls"`
	Flds      []string `json:"flds"`
	Malformed bool     `json:"malformed"`
}

type vcsvScenario struct {
	ID     int       `json:"id"`
	Schema []string  `json:"schema"` // column k (1-based) is named c<k> and has this type
	Src    []int     `json:"src"`    // 0-based CSV field indexes
	Dst    []int     `json:"dst"`    // 1-based column positions
	Sep    string    `json:"sep"`
	Recs   []vcsvRec `json:"recs"`
}

type vcsvVal struct {
	T string `json:"t"`
	V string `json:"v"`
}

type vcsvResult struct {
	ID   int       `json:"id"`
	Runs []vcsvRun `json:"r"`
}

// vcsvRun is the outcome of one scenario under one or more text renderings
// (renderings with identical outcomes are grouped).
type vcsvRun struct {
	Renders  []string    `json:"m"`
	Outcomes []string    `json:"outcomes"` // one entry per event received, in order: "ok" / "err"
	Errors   []string    `json:"errors"`   // texts of the err events
	Table    [][]vcsvVal `json:"table"`    // SELECT * FROM t
	ColTypes []int       `json:"coltypes"` // what colDataTypes returned for the destination columns
	CSV      string      `json:"csv"`      // the text that was imported
	Fail     string      `json:"fail,omitempty"`
}

// vcsvField writes one field. Well-formed records are encoded by the usual
// CSV rule (quote when the field contains the separator, a quote, CR or LF,
// starts with a space, or is the record's only field and empty; double the
// quotes). Records the specification marks malformed are written verbatim.
func vcsvField(f string, sep string, only bool) string {
	need := strings.Contains(f, sep) || strings.ContainsAny(f, "\"\r\n") || strings.HasPrefix(f, " ") || (only && f == "")
	if !need {
		return f
	}
	return `"` + strings.ReplaceAll(f, `"`, `""`) + `"`
}

// vcsvRender renders the records as CSV text.
//
//	lf       records end with \n
//	crlf     records end with \r\n
//	nofinal  records are separated by \n, the last one has no line end
// vcsvSep: a separator outside ASCII is spelled by its code point in the scenario ("U+00A6")
func vcsvSep(sep string) string {
	if strings.HasPrefix(sep, "U+") {
		if n, e := strconv.ParseInt(sep[2:], 16, 32); e == nil {
			return string(rune(n))
		}
	}
	return sep
}

func vcsvRender(s vcsvScenario, render string) string {
	eol := "\n"
	if render == "crlf" {
		eol = "\r\n"
	}
	var b strings.Builder
	for n, r := range s.Recs {
		for i, f := range r.Flds {
			if i > 0 {
				b.WriteString(s.Sep)
			}
			if strings.HasPrefix(f, "@x") { // CsvImport!BigText: that many times x
				n, _ := strconv.Atoi(f[2:])
				f = strings.Repeat("x", n)
			}
			if r.Malformed {
				b.WriteString(f)
			} else {
				b.WriteString(vcsvField(f, s.Sep, len(r.Flds) == 1))
			}
		}
		if render == "nofinal" && n == len(s.Recs)-1 {
			break
		}
		b.WriteString(eol)
	}
	return b.String()
}

func vcsvParse(q string) (interface{}, error) {
	ts := sql.NewTokenScanner(strings.NewReader(q))
	tl := sql.TokenList{}
	for ts.Next() {
		tl.Add(ts.Cur())
	}
	p := sql.Parser{TokenList: tl}
	return p.Parse()
}

func vcsvTag(ty string, v interface{}) vcsvVal {
	if v == nil {
		return vcsvVal{"n", ""}
	}
	switch x := v.(type) {
	case int64:
		if ty == "int" {
			return vcsvVal{"i", fmt.Sprintf("%d", x)}
		}
		if ty == "bigint" {
			return vcsvVal{"I", fmt.Sprintf("%d", x)}
		}
	case string:
		if ty == "varchar" {
			return vcsvVal{"s", x}
		}
	case bool:
		if ty == "boolean" {
			return vcsvVal{"b", fmt.Sprintf("%t", x)}
		}
	}
	return vcsvVal{"?", fmt.Sprintf("%T:%v in %s column", v, v, ty)}
}

func vcsvExec(s vcsvScenario, render string, seq int) (res vcsvRun) {
	s.Sep = vcsvSep(s.Sep)
	res.Outcomes, res.Errors, res.Table, res.ColTypes = []string{}, []string{}, [][]vcsvVal{}, []int{}
	defer func() {
		if r := recover(); r != nil {
			res.Fail = fmt.Sprintf("panic: %v", r)
		}
	}()
	db := fmt.Sprintf("v%dx%d", s.ID, seq)
	defer os.RemoveAll("data/" + db)

	sess := &engine.Session{}
	defer sess.Close()
	var cols []string
	for k, ty := range s.Schema {
		switch ty {
		case "varchar":
			cols = append(cols, fmt.Sprintf("c%d varchar(64)", k+1))
		default:
			cols = append(cols, fmt.Sprintf("c%d %s", k+1, ty))
		}
	}
	for _, q := range []string{"CREATE DATABASE " + db, "USE " + db, "CREATE TABLE t (" + strings.Join(cols, ", ") + ")"} {
		if err := sess.ExecQuery(q); err != nil {
			res.Fail = fmt.Sprintf("setup %q: %v", q, err)
			return
		}
	}
	rm := sess.RelationService

	// the configuration as main() builds it: from the command-line flags, through makeConfig
	var dst, src []string
	for _, d := range s.Dst {
		dst = append(dst, fmt.Sprintf("c%d", d))
	}
	for _, c := range s.Src {
		src = append(src, strconv.Itoa(c))
	}
	*cfgDb, *cfgTable, *cfgSep, *cfgDestCols, *cfgSrcCols = db, "t", s.Sep, strings.Join(dst, ","), strings.Join(src, ",")
	cfg, err := makeConfig(rm)
	if err != nil || len(cfg.colTypes) != len(cfg.dstCols) {
		res.Fail = fmt.Sprintf("colDataTypes: %v (%d types)", err, len(cfg.colTypes))
		return
	}
	for _, t := range cfg.colTypes {
		res.ColTypes = append(res.ColTypes, int(t))
	}

	res.CSV = vcsvRender(s, render)
	chOk, chErr := doBatchInsert(rm, cfg, strings.NewReader(res.CSV))
	watchdog := time.After(60 * time.Second)
	for chOk != nil || chErr != nil {
		select {
		case _, ok := <-chOk:
			if ok {
				res.Outcomes = append(res.Outcomes, "ok")
			} else {
				chOk = nil
			}
		case e, ok := <-chErr:
			if ok {
				res.Outcomes = append(res.Outcomes, "err")
				res.Errors = append(res.Errors, e.Error())
			} else {
				chErr = nil
			}
		case <-watchdog:
			res.Fail = "doBatchInsert did not finish within 60s"
			return
		}
	}

	q, err := vcsvParse("SELECT * FROM t")
	if err != nil {
		res.Fail = "parse select: " + err.Error()
		return
	}
	rows, fields, err := engine.EvaluateSelect(q.(sql.Select), rm)
	if err != nil {
		res.Fail = "select: " + err.Error()
		return
	}
	if len(fields) != len(s.Schema) {
		res.Fail = fmt.Sprintf("select returned %d columns for a %d column table", len(fields), len(s.Schema))
		return
	}
	for k, f := range fields {
		if f.Column != fmt.Sprintf("c%d", k+1) {
			res.Fail = fmt.Sprintf("select column %d is %q", k+1, f.Column)
			return
		}
	}
	for _, r := range rows {
		row := make([]vcsvVal, len(s.Schema))
		for k := range s.Schema {
			if k < len(r.Vals) {
				row[k] = vcsvTag(s.Schema[k], r.Vals[k])
			} else {
				row[k] = vcsvVal{"?", "missing"}
			}
		}
		res.Table = append(res.Table, row)
	}
	return
}

func vcsvSame(a, b vcsvRun) bool {
	if a.Fail != b.Fail || len(a.Outcomes) != len(b.Outcomes) || len(a.Table) != len(b.Table) {
		return false
	}
	for i := range a.Outcomes {
		if a.Outcomes[i] != b.Outcomes[i] {
			return false
		}
	}
	for i := range a.Table {
		if len(a.Table[i]) != len(b.Table[i]) {
			return false
		}
		for k := range a.Table[i] {
			if a.Table[i][k] != b.Table[i][k] {
				return false
			}
		}
	}
	return true
}

func TestVerifCsv(t *testing.T) {
	scn, out, dir := os.Getenv("VERIF_C19_SCN"), os.Getenv("VERIF_C19_OUT"), os.Getenv("VERIF_C19_DIR")
	if scn == "" || out == "" || dir == "" {
		t.Skip("VERIF_C19_SCN / VERIF_C19_OUT / VERIF_C19_DIR not set")
	}
	renders := []string{"lf", "crlf", "nofinal"}
	if r := os.Getenv("VERIF_C19_RENDERS"); r != "" {
		renders = strings.Split(r, ",")
	}
	if err := os.MkdirAll(dir, 0755); err != nil {
		t.Fatal(err)
	}
	if err := os.Chdir(dir); err != nil {
		t.Fatal(err)
	}
	// the engine prints on every statement
	realStdout := os.Stdout
	if null, err := os.OpenFile(os.DevNull, os.O_WRONLY, 0); err == nil {
		os.Stdout = null
		defer func() { os.Stdout = realStdout }()
	}
	if err := storage.InitStorage(); err != nil {
		t.Fatal(err)
	}
	in, err := os.Open(scn)
	if err != nil {
		t.Fatal(err)
	}
	defer in.Close()
	of, err := os.Create(out)
	if err != nil {
		t.Fatal(err)
	}
	w := bufio.NewWriterSize(of, 1<<20)
	sc := bufio.NewScanner(in)
	sc.Buffer(make([]byte, 1<<20), 1<<26)
	for sc.Scan() {
		if len(sc.Bytes()) == 0 {
			continue
		}
		var s vcsvScenario
		if err := json.Unmarshal(sc.Bytes(), &s); err != nil {
			t.Fatalf("bad scenario line: %v", err)
		}
		res := vcsvResult{ID: s.ID}
		// a panic in the import's own goroutine kills the process: leave the scenario's id where the driver finds it
		os.WriteFile(out+".cur", []byte(fmt.Sprint(s.ID)), 0644)
		for k, render := range renders {
			r := vcsvExec(s, render, k)
			merged := false
			for i := range res.Runs {
				if vcsvSame(res.Runs[i], r) {
					res.Runs[i].Renders = append(res.Runs[i].Renders, render)
					merged = true
					break
				}
			}
			if !merged {
				r.Renders = []string{render}
				res.Runs = append(res.Runs, r)
			}
		}
		b, err := json.Marshal(res)
		if err != nil {
			t.Fatal(err)
		}
		w.Write(b)
		w.WriteByte('\n')
		w.Flush()
	}
	os.Remove(out + ".cur")
	if err := sc.Err(); err != nil {
		t.Fatal(err)
	}
	if err := w.Flush(); err != nil {
		t.Fatal(err)
	}
	if err := of.Close(); err != nil {
		t.Fatal(err)
	}
}
