package main

// Replay harness for ConsoleEdit.tla (the console's line editor: cursor keys,
// erasing keys, history).  Kept in /verif, compiled into package main of
// cmd/console through `go test -overlay`.  Every scenario is a key path TLC
// explored plus the editor state the specification expects after it; the keys
// are pressed on the real Terminal one per read, once with the control-byte
// spelling of the editing keys and once with their escape sequences, and the
// final line, cursor, history position and the statements handed over are
// compared (equality only - nothing is judged here).
//
// VERIF_CE_SCN  scenario file, one JSON object per line:
//               {"id":n,"keys":[codes],"buf":[..],"pos":p,"out":[[..]..],"hidx":h}
// VERIF_CE_OUT  result file: one line per scenario that differs under some spelling, then a summary line

import (
	"bufio"
	"encoding/json"
	"fmt"
	"io"
	"os"
	"testing"
)

type ceScenario struct {
	ID   int     `json:"id"`
	Keys []int   `json:"keys"`
	Buf  []int   `json:"buf"`
	Pos  int     `json:"pos"`
	Out  [][]int `json:"out"`
	Hidx int     `json:"hidx"`
}

type ceSnap struct {
	Line []int `json:"line"`
	Pos  int   `json:"pos"`
	Hidx int   `json:"hidx"`
}

type ceDiff struct {
	ID    int      `json:"id"`
	Mode  string   `json:"mode"`
	Keys  []int    `json:"keys"`
	Err   string   `json:"err,omitempty"`
	Obs   [][]int  `json:"obs"`   // statements handed over, in order
	At    []int    `json:"at"`    // number of keys pressed when each statement was handed over
	Snaps []ceSnap `json:"snaps"` // editor state after 0, 1, 2 ... keys
	Want  ceSnap   `json:"want"`
	WantO [][]int  `json:"want_out"`
}

// ceConn serves one key per Read and photographs the editor before each one
// (ReadLine releases the terminal's lock around Read, and nothing else runs).
type ceConn struct {
	chunks [][]byte
	term   *Terminal
	snaps  []ceSnap
	served int
}

func ceRunes(r []rune) []int {
	out := make([]int, len(r))
	for i, c := range r {
		out[i] = int(c)
	}
	return out
}

func (c *ceConn) snap() {
	c.snaps = append(c.snaps, ceSnap{Line: ceRunes(c.term.line), Pos: c.term.pos, Hidx: c.term.historyIndex})
}

func (c *ceConn) Read(p []byte) (int, error) {
	c.snap()
	if len(c.chunks) == 0 {
		return 0, io.EOF
	}
	n := copy(p, c.chunks[0])
	if n < len(c.chunks[0]) {
		panic("read buffer smaller than one key")
	}
	c.chunks = c.chunks[1:]
	c.served++
	return n, nil
}

func (c *ceConn) Write(p []byte) (int, error) { return len(p), nil }

// ceKeyBytes spells one key code of ConsoleEdit.tla as the bytes a terminal sends.
func ceKeyBytes(mode string, k int) []byte {
	esc := mode == "esc"
	switch k {
	case 1001:
		return []byte{27, '[', '1', ';', '3', 'D'}
	case 1002:
		return []byte{27, '[', '1', ';', '3', 'C'}
	case 127:
		if esc {
			return []byte{8}
		}
		return []byte{127}
	case 1: // Home
		if esc {
			return []byte{27, '[', 'H'}
		}
	case 5: // End
		if esc {
			return []byte{27, '[', 'F'}
		}
	case 2: // Left
		if esc {
			return []byte{27, '[', 'D'}
		}
	case 6: // Right
		if esc {
			return []byte{27, '[', 'C'}
		}
	case 16: // Up
		if esc {
			return []byte{27, '[', 'A'}
		}
	case 14: // Down
		if esc {
			return []byte{27, '[', 'B'}
		}
	}
	return []byte{byte(k)}
}

func ceEqInts(a, b []int) bool {
	if len(a) != len(b) {
		return false
	}
	for i := range a {
		if a[i] != b[i] {
			return false
		}
	}
	return true
}

func ceExec(mode string, s *ceScenario) (d *ceDiff) {
	conn := &ceConn{}
	res := &ceDiff{ID: s.ID, Mode: mode, Keys: s.Keys, Obs: [][]int{}, At: []int{},
		Want: ceSnap{Line: s.Buf, Pos: s.Pos, Hidx: s.Hidx}, WantO: s.Out}
	defer func() {
		if r := recover(); r != nil {
			res.Err = fmt.Sprintf("panic: %v", r)
			res.Snaps = conn.snaps
			d = res
		}
	}()
	for _, k := range s.Keys {
		conn.chunks = append(conn.chunks, ceKeyBytes(mode, k))
	}
	term := NewTerminal(conn, "> ")
	conn.term = term
	limit := 2*len(s.Keys) + 8
	for calls := 0; ; calls++ {
		if calls >= limit {
			res.Err = "ReadLine still returning after the input was exhausted"
			break
		}
		lines, err := term.ReadLine()
		for _, l := range lines {
			res.Obs = append(res.Obs, ceRunes([]rune(l)))
			res.At = append(res.At, conn.served)
		}
		if err == io.EOF {
			break
		}
		if err != nil && err != ErrPasteIndicator {
			res.Err = err.Error()
			break
		}
	}
	res.Snaps = conn.snaps
	same := res.Err == "" && len(res.Obs) == len(s.Out) && len(conn.snaps) > 0
	if same {
		for i := range s.Out {
			if !ceEqInts(res.Obs[i], s.Out[i]) {
				same = false
			}
		}
		last := conn.snaps[len(conn.snaps)-1]
		if !ceEqInts(last.Line, s.Buf) || last.Pos != s.Pos || last.Hidx != s.Hidx {
			same = false
		}
	}
	if same {
		return nil
	}
	return res
}

func TestVerifConsoleEdit(t *testing.T) {
	scn, out := os.Getenv("VERIF_CE_SCN"), os.Getenv("VERIF_CE_OUT")
	if scn == "" || out == "" {
		t.Skip("VERIF_CE_SCN / VERIF_CE_OUT not set")
	}
	in, err := os.Open(scn)
	if err != nil {
		t.Fatal(err)
	}
	defer in.Close()
	of, err := os.Create(out)
	if err != nil {
		t.Fatal(err)
	}
	w := bufio.NewWriterSize(of, 1<<20)
	sc := bufio.NewScanner(in)
	sc.Buffer(make([]byte, 1<<20), 1<<24)
	n, execs, diffs := 0, 0, 0
	for sc.Scan() {
		if len(sc.Bytes()) == 0 {
			continue
		}
		var s ceScenario
		if err := json.Unmarshal(sc.Bytes(), &s); err != nil {
			t.Fatalf("bad scenario line %d: %v", n+1, err)
		}
		if s.Out == nil {
			s.Out = [][]int{}
		}
		if s.Buf == nil {
			s.Buf = []int{}
		}
		for _, m := range []string{"ctrl", "esc"} {
			execs++
			if d := ceExec(m, &s); d != nil {
				diffs++
				if diffs <= 2000 {
					b, err := json.Marshal(d)
					if err != nil {
						t.Fatal(err)
					}
					w.Write(b)
					w.WriteByte('\n')
				}
			}
		}
		n++
	}
	if err := sc.Err(); err != nil {
		t.Fatal(err)
	}
	fmt.Fprintf(w, "{\"summary\":true,\"scenarios\":%d,\"executions\":%d,\"differing\":%d}\n", n, execs, diffs)
	if err := w.Flush(); err != nil {
		t.Fatal(err)
	}
	if err := of.Close(); err != nil {
		t.Fatal(err)
	}
	fmt.Printf("VERIF_CE scenarios=%d executions=%d differing=%d\n", n, execs, diffs)
}
